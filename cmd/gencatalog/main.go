// gencatalog writes harness/catalog/zz_generated.go: one closure per exported New* constructor of the
// packages characteristic, service and accessory of the brutella/hc tree given as first argument.
//
//	go run ./cmd/gencatalog <repo dir> <output file>
//
// It imports nothing from hc and only reads the source with go/parser:
//   - every top-level `func New*(...)` of the three directories (files ending in _test.go and files
//     excluded by build constraints under the tag `verif` are skipped);
//   - the embedded-field chain from the returned struct type down to the base type of the package
//     (Characteristic / Service / Accessory), e.g. *Brightness -> *Int -> *Characteristic;
//   - the value of `const Type<X>` for `New<X>`, resolved to a string literal from the AST (the
//     generated file states what the source declares, it does not reference the identifier);
//   - arguments for extra parameters, synthesised from the parameter types.
//
// Constructors that take the type identifier from the caller (NewCharacteristic(typ), NewInt(typ),
// service.New(typ), accessory.New(info, typ) ...) or that do not return a characteristic / service /
// accessory (NewContainer) are helpers: they go to catalog.Generic.  Constructors whose parameters or
// result cannot be handled go to catalog.Uncovered with the reason.
//
// The output is deterministic (sorted by name).  A directory that is missing, empty or does not
// parse makes the generator fail with exit status 1.
package main

import (
	"bytes"
	"fmt"
	"go/ast"
	"go/build"
	"go/format"
	"go/parser"
	"go/token"
	"os"
	"path/filepath"
	"sort"
	"strconv"
	"strings"
)

type pkgSpec struct {
	dir    string // directory below the repo root and last element of the import path
	base   string // base type every catalog object embeds
	prefix string // prefix of generated function names
}

var pkgs = []pkgSpec{
	{"characteristic", "Characteristic", "char"},
	{"service", "Service", "svc"},
	{"accessory", "Accessory", "acc"},
}

type link struct {
	field string
	ptr   bool
}

type ctor struct {
	name     string
	file     string
	args     []string // argument expressions
	retPtr   bool
	chain    []link
	typeVal  string
	hasType  bool
	needInfo bool
}

type pkgInfo struct {
	spec    pkgSpec
	name    string // package clause
	types   map[string]*ast.TypeSpec
	consts  map[string]ast.Expr
	funcs   []*ast.FuncDecl
	fileOf  map[*ast.FuncDecl]string
	ctors   []ctor
	generic []string
	uncov   []string
}

func fail(format string, a ...interface{}) {
	fmt.Fprintf(os.Stderr, "gencatalog: "+format+"\n", a...)
	os.Exit(1)
}

func main() {
	if len(os.Args) != 3 {
		fail("usage: gencatalog <repo dir> <output file>")
	}
	repo, out := os.Args[1], os.Args[2]
	var infos []*pkgInfo
	for _, sp := range pkgs {
		pi, err := load(repo, sp)
		if err != nil {
			fail("%v", err)
		}
		pi.classify()
		infos = append(infos, pi)
	}
	src := render(repo, infos)
	formatted, err := format.Source(src)
	if err != nil {
		os.WriteFile(out+".broken", src, 0o644)
		fail("generated source does not format (%v); left in %s.broken", err, out)
	}
	if err := os.MkdirAll(filepath.Dir(out), 0o755); err != nil {
		fail("%v", err)
	}
	tmp := out + ".tmp"
	if err := os.WriteFile(tmp, formatted, 0o644); err != nil {
		fail("%v", err)
	}
	if err := os.Rename(tmp, out); err != nil {
		fail("%v", err)
	}
	for _, pi := range infos {
		fmt.Printf("gencatalog: %-14s constructors=%d catalog=%d generic=%d uncovered=%d\n",
			pi.spec.dir, len(pi.funcs), len(pi.ctors), len(pi.generic), len(pi.uncov))
		for _, u := range pi.uncov {
			fmt.Printf("gencatalog:   uncovered %s\n", u)
		}
	}
}

func load(repo string, sp pkgSpec) (*pkgInfo, error) {
	dir := filepath.Join(repo, sp.dir)
	ents, err := os.ReadDir(dir)
	if err != nil {
		return nil, fmt.Errorf("cannot read directory %s: %v", dir, err)
	}
	ctx := build.Default
	ctx.BuildTags = append(append([]string{}, ctx.BuildTags...), "verif")
	pi := &pkgInfo{spec: sp, types: map[string]*ast.TypeSpec{}, consts: map[string]ast.Expr{}, fileOf: map[*ast.FuncDecl]string{}}
	fset := token.NewFileSet()
	var names []string
	for _, e := range ents {
		n := e.Name()
		if e.IsDir() || !strings.HasSuffix(n, ".go") || strings.HasSuffix(n, "_test.go") {
			continue
		}
		names = append(names, n)
	}
	sort.Strings(names)
	parsed := 0
	for _, n := range names {
		path := filepath.Join(dir, n)
		f, err := parser.ParseFile(fset, path, nil, parser.SkipObjectResolution)
		if err != nil {
			return nil, fmt.Errorf("directory %s does not parse: %v", dir, err)
		}
		if ok, err := ctx.MatchFile(dir, n); err != nil {
			return nil, fmt.Errorf("directory %s: build constraints of %s: %v", dir, n, err)
		} else if !ok {
			continue
		}
		if pi.name == "" {
			pi.name = f.Name.Name
		} else if pi.name != f.Name.Name {
			return nil, fmt.Errorf("directory %s holds two packages: %s and %s (%s)", dir, pi.name, f.Name.Name, n)
		}
		parsed++
		for _, d := range f.Decls {
			switch d := d.(type) {
			case *ast.GenDecl:
				for _, s := range d.Specs {
					switch s := s.(type) {
					case *ast.TypeSpec:
						pi.types[s.Name.Name] = s
					case *ast.ValueSpec:
						if d.Tok != token.CONST {
							continue
						}
						for i, id := range s.Names {
							if i < len(s.Values) {
								pi.consts[id.Name] = s.Values[i]
							}
						}
					}
				}
			case *ast.FuncDecl:
				if d.Recv == nil && strings.HasPrefix(d.Name.Name, "New") && ast.IsExported(d.Name.Name) {
					pi.funcs = append(pi.funcs, d)
					pi.fileOf[d] = sp.dir + "/" + n
				}
			}
		}
	}
	if parsed == 0 {
		return nil, fmt.Errorf("directory %s holds no Go source file", dir)
	}
	if pi.name != sp.dir {
		return nil, fmt.Errorf("directory %s declares package %s, expected %s", dir, pi.name, sp.dir)
	}
	if _, ok := pi.types[sp.base]; !ok {
		return nil, fmt.Errorf("directory %s does not declare type %s", dir, sp.base)
	}
	sort.Slice(pi.funcs, func(i, j int) bool { return pi.funcs[i].Name.Name < pi.funcs[j].Name.Name })
	return pi, nil
}

// evalString resolves a constant expression to a string using only the AST.
func (pi *pkgInfo) evalString(e ast.Expr, depth int) (string, bool) {
	if depth > 20 {
		return "", false
	}
	switch e := e.(type) {
	case *ast.BasicLit:
		if e.Kind == token.STRING {
			s, err := strconv.Unquote(e.Value)
			return s, err == nil
		}
	case *ast.ParenExpr:
		return pi.evalString(e.X, depth+1)
	case *ast.Ident:
		if v, ok := pi.consts[e.Name]; ok {
			return pi.evalString(v, depth+1)
		}
	case *ast.CallExpr: // conversion such as ServiceType("3E")
		if len(e.Args) == 1 {
			if _, ok := e.Fun.(*ast.Ident); ok {
				return pi.evalString(e.Args[0], depth+1)
			}
		}
	case *ast.BinaryExpr:
		if e.Op == token.ADD {
			a, ok1 := pi.evalString(e.X, depth+1)
			b, ok2 := pi.evalString(e.Y, depth+1)
			return a + b, ok1 && ok2
		}
	}
	return "", false
}

// chainTo finds the embedded-field path from the named type to the base type.
func (pi *pkgInfo) chainTo(from string, seen map[string]bool) ([]link, bool) {
	if from == pi.spec.base {
		return nil, true
	}
	if seen[from] {
		return nil, false
	}
	seen[from] = true
	ts, ok := pi.types[from]
	if !ok {
		return nil, false
	}
	switch t := ts.Type.(type) {
	case *ast.Ident: // type X Y or type X = Y: same fields as Y
		return pi.chainTo(t.Name, seen)
	case *ast.StructType:
		for _, f := range t.Fields.List {
			if len(f.Names) != 0 {
				continue
			}
			name, ptr := "", false
			switch ft := f.Type.(type) {
			case *ast.Ident:
				name = ft.Name
			case *ast.StarExpr:
				if id, ok := ft.X.(*ast.Ident); ok {
					name, ptr = id.Name, true
				}
			}
			if name == "" {
				continue
			}
			if rest, ok := pi.chainTo(name, seen); ok {
				return append([]link{{name, ptr}}, rest...), true
			}
		}
	}
	return nil, false
}

func typeString(e ast.Expr) string {
	switch t := e.(type) {
	case *ast.Ident:
		return t.Name
	case *ast.StarExpr:
		return "*" + typeString(t.X)
	case *ast.SelectorExpr:
		return typeString(t.X) + "." + t.Sel.Name
	case *ast.ArrayType:
		if t.Len == nil {
			return "[]" + typeString(t.Elt)
		}
		return "[...]" + typeString(t.Elt)
	case *ast.Ellipsis:
		return "..." + typeString(t.Elt)
	case *ast.InterfaceType:
		return "interface{}"
	case *ast.FuncType:
		return "func"
	case *ast.MapType:
		return "map[" + typeString(t.Key) + "]" + typeString(t.Value)
	case *ast.ChanType:
		return "chan " + typeString(t.Value)
	case *ast.StructType:
		return "struct{...}"
	}
	return fmt.Sprintf("%T", e)
}

type param struct {
	name string
	typ  string
}

func params(fd *ast.FuncDecl) []param {
	var ps []param
	if fd.Type.Params == nil {
		return nil
	}
	for _, f := range fd.Type.Params.List {
		t := typeString(f.Type)
		if len(f.Names) == 0 {
			ps = append(ps, param{"", t})
			continue
		}
		for _, n := range f.Names {
			ps = append(ps, param{n.Name, t})
		}
	}
	return ps
}

// typeParams returns the indexes of the parameters the body hands on as the type identifier:
// `Type: p` in a composite literal, `x.Type = p`, or p at a type-identifier position of an already
// known generic constructor of the same package.
func typeParams(fd *ast.FuncDecl, ps []param, generic map[string][]int) []int {
	if fd.Body == nil {
		return nil
	}
	paramIdx := func(e ast.Expr) int {
		id, ok := e.(*ast.Ident)
		if !ok {
			return -1
		}
		for i, p := range ps {
			if p.name == id.Name && p.name != "" && p.name != "_" {
				return i
			}
		}
		return -1
	}
	found := map[int]bool{}
	ast.Inspect(fd.Body, func(n ast.Node) bool {
		switch n := n.(type) {
		case *ast.KeyValueExpr:
			if k, ok := n.Key.(*ast.Ident); ok && k.Name == "Type" {
				if i := paramIdx(n.Value); i >= 0 {
					found[i] = true
				}
			}
		case *ast.AssignStmt:
			for i, l := range n.Lhs {
				if sel, ok := l.(*ast.SelectorExpr); ok && sel.Sel.Name == "Type" && i < len(n.Rhs) {
					if j := paramIdx(n.Rhs[i]); j >= 0 {
						found[j] = true
					}
				}
			}
		case *ast.CallExpr:
			if id, ok := n.Fun.(*ast.Ident); ok {
				for _, pos := range generic[id.Name] {
					if pos < len(n.Args) {
						if j := paramIdx(n.Args[pos]); j >= 0 {
							found[j] = true
						}
					}
				}
			}
		}
		return true
	})
	var out []int
	for i := range found {
		out = append(out, i)
	}
	sort.Ints(out)
	return out
}

var floatByName = map[string]string{"temp": "20", "temperature": "20", "value": "20", "min": "10", "max": "30", "steps": "1", "step": "1"}
var floatByPos = []string{"20", "10", "30", "1"}

func (pi *pkgInfo) classify() {
	// 1. helpers that take the type identifier (fixpoint, because helpers call helpers)
	generic := map[string][]int{}
	reason := map[string]string{}
	pars := map[*ast.FuncDecl][]param{}
	for _, fd := range pi.funcs {
		ps := params(fd)
		pars[fd] = ps
		for i, p := range ps {
			if p.name == "typ" || p.typ == "AccessoryType" || p.typ == "ServiceType" || p.typ == "CharacteristicType" {
				generic[fd.Name.Name] = append(generic[fd.Name.Name], i)
				reason[fd.Name.Name] = "takes the type identifier from the caller (parameter " + strings.TrimSpace(p.name+" "+p.typ) + ")"
			}
		}
	}
	for changed := true; changed; {
		changed = false
		for _, fd := range pi.funcs {
			if _, is := generic[fd.Name.Name]; is || len(pars[fd]) == 0 {
				continue
			}
			if idx := typeParams(fd, pars[fd], generic); len(idx) > 0 {
				generic[fd.Name.Name] = idx
				reason[fd.Name.Name] = "passes parameter " + pars[fd][idx[0]].name + " on as the type identifier"
				changed = true
			}
		}
	}

	for _, fd := range pi.funcs {
		name := fd.Name.Name
		full := pi.spec.dir + "." + name
		if _, is := generic[name]; is {
			pi.generic = append(pi.generic, full+": "+reason[name])
			continue
		}
		// result
		if fd.Type.Results == nil || len(fd.Type.Results.List) != 1 || len(fd.Type.Results.List[0].Names) > 1 {
			pi.uncov = append(pi.uncov, full+": does not have exactly one result")
			continue
		}
		c := ctor{name: name, file: pi.fileOf[fd]}
		var retName string
		switch rt := fd.Type.Results.List[0].Type.(type) {
		case *ast.Ident:
			retName = rt.Name
		case *ast.StarExpr:
			if id, ok := rt.X.(*ast.Ident); ok {
				retName, c.retPtr = id.Name, true
			}
		}
		if retName == "" {
			pi.generic = append(pi.generic, full+": result type "+typeString(fd.Type.Results.List[0].Type)+" is not a type of this package")
			continue
		}
		chain, ok := pi.chainTo(retName, map[string]bool{})
		if !ok {
			pi.generic = append(pi.generic, full+": result type "+retName+" does not embed "+pi.spec.base)
			continue
		}
		c.chain = chain
		// parameters
		nf, bad := 0, ""
		for _, p := range pars[fd] {
			switch p.typ {
			case "Info":
				if pi.spec.dir != "accessory" {
					bad = "parameter of type Info outside package accessory"
					break
				}
				c.args = append(c.args, "info")
				c.needInfo = true
			case "float64", "float32":
				v, ok := floatByName[strings.ToLower(p.name)]
				if !ok {
					v = floatByPos[nf%len(floatByPos)]
				}
				nf++
				c.args = append(c.args, v)
			case "int", "int8", "int16", "int32", "int64", "uint", "uint8", "uint16", "uint32", "uint64", "byte":
				c.args = append(c.args, "1")
			case "string":
				c.args = append(c.args, strconv.Quote("verif"))
			case "bool":
				c.args = append(c.args, "true")
			case "[]byte":
				c.args = append(c.args, "[]byte{}")
			default:
				if strings.HasPrefix(p.typ, "...") {
					continue // variadic: pass nothing
				}
				bad = "cannot synthesise a value for parameter " + strings.TrimSpace(p.name+" "+p.typ)
			}
			if bad != "" {
				break
			}
		}
		if bad != "" {
			pi.uncov = append(pi.uncov, full+": "+bad)
			continue
		}
		if pi.spec.dir != "accessory" {
			tn := "Type" + strings.TrimPrefix(name, "New")
			if e, ok := pi.consts[tn]; ok {
				v, ok := pi.evalString(e, 0)
				if !ok {
					pi.uncov = append(pi.uncov, full+": const "+tn+" is declared but its value is not a resolvable string constant")
					continue
				}
				c.typeVal, c.hasType = v, true
			}
		}
		pi.ctors = append(pi.ctors, c)
	}
	sort.Slice(pi.ctors, func(i, j int) bool { return pi.ctors[i].name < pi.ctors[j].name })
	sort.Strings(pi.generic)
	sort.Strings(pi.uncov)
}

func chainText(c ctor) string {
	s := c.name + "()"
	for _, l := range c.chain {
		s += "." + l.field
	}
	return s
}

func render(repo string, infos []*pkgInfo) []byte {
	var b bytes.Buffer
	w := func(format string, a ...interface{}) { fmt.Fprintf(&b, format, a...) }
	w("// Code generated by verif/cmd/gencatalog from the AST of %s; DO NOT EDIT.\n\n", repo)
	w("package catalog\n\nimport (\n")
	for _, pi := range infos {
		w("\t%q\n", "github.com/brutella/hc/"+pi.spec.dir)
	}
	w(")\n\n")
	for _, pi := range infos {
		w("var _ *%s.%s\n", pi.name, pi.spec.base)
	}
	w("\n")
	for _, pi := range infos {
		baseT := "*" + pi.name + "." + pi.spec.base
		for _, c := range pi.ctors {
			sig := "()"
			if pi.spec.dir == "accessory" {
				sig = "(info accessory.Info)"
			}
			w("func %s_%s%s (%s, string) {\n", pi.spec.prefix, c.name, sig, baseT)
			if pi.spec.dir == "accessory" && !c.needInfo {
				w("\t_ = info\n")
			}
			w("\tv := %s.%s(%s)\n", pi.name, c.name, strings.Join(c.args, ", "))
			expr, text := "v", c.name+"()"
			isPtr := c.retPtr
			if isPtr {
				w("\tif %s == nil {\n\t\treturn nil, %q\n\t}\n", expr, text)
			}
			for _, l := range c.chain {
				expr += "." + l.field
				text += "." + l.field
				isPtr = l.ptr
				if isPtr {
					w("\tif %s == nil {\n\t\treturn nil, %q\n\t}\n", expr, text)
				}
			}
			if isPtr {
				w("\treturn %s, \"\"\n}\n\n", expr)
			} else {
				w("\treturn &%s, \"\"\n}\n\n", expr)
			}
		}
	}
	w("func init() {\n")
	w("\tSource = %q\n", repo)
	for _, pi := range infos {
		baseT := "*" + pi.name + "." + pi.spec.base
		switch pi.spec.dir {
		case "characteristic":
			w("\tChars = []CharCtor{\n")
		case "service":
			w("\tServices = []SvcCtor{\n")
		case "accessory":
			w("\tAccessories = []AccCtor{\n")
		}
		for _, c := range pi.ctors {
			fn := pi.spec.prefix + "_" + c.name
			if pi.spec.dir == "accessory" {
				w("\t\t{Name: %q, New: func(info accessory.Info) %s { b, _ := %s(info); return b }, Probe: %s, Chain: %q, File: %q, Args: %q, Raw: func(info accessory.Info) interface{} { return %s.%s(%s) }},\n",
					c.name, baseT, fn, fn, chainText(c), c.file, strings.Join(c.args, ", "), pi.name, c.name, strings.Join(c.args, ", "))
			} else {
				w("\t\t{Name: %q, New: func() %s { b, _ := %s(); return b }, TypeConst: %q, HasTypeConst: %v, Probe: %s, Chain: %q, File: %q, Raw: func() interface{} { return %s.%s(%s) }},\n",
					c.name, baseT, fn, c.typeVal, c.hasType, fn, chainText(c), c.file, pi.name, c.name, strings.Join(c.args, ", "))
			}
		}
		w("\t}\n")
	}
	w("\tGeneric = []string{\n")
	for _, pi := range infos {
		for _, g := range pi.generic {
			w("\t\t%q,\n", g)
		}
	}
	w("\t}\n\tUncovered = []string{\n")
	for _, pi := range infos {
		for _, u := range pi.uncov {
			w("\t\t%q,\n", u)
		}
	}
	w("\t}\n}\n")
	return b.Bytes()
}

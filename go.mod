module verif

go 1.21

require (
	github.com/anishathalye/porcupine v1.3.0
	github.com/brutella/hc v0.0.0
	golang.org/x/crypto v0.0.0-20201221181555-eec23a3978ad
)

require (
	github.com/brutella/dnssd v1.2.1 // indirect
	github.com/miekg/dns v1.1.4 // indirect
	github.com/tadglines/go-pkgs v0.0.0-20140924210655-1f86682992f1 // indirect
	github.com/xiam/to v0.0.0-20191116183551-8328998fc0ed // indirect
	golang.org/x/net v0.0.0-20210119194325-5f4716e94777 // indirect
	golang.org/x/sys v0.0.0-20210124154548-22da62e12c0c // indirect
	golang.org/x/text v0.3.3 // indirect
)

replace github.com/brutella/hc => /repo

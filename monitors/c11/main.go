// C11 — read, write and event permissions are enforced for remote peers.
//
// Subjects: every constructor of the generated catalog (harness/catalog, written from the AST of the tree
// under test at every check) plus synthetic characteristics for all 8 subsets of {pr, pw, ev} in every HAP
// format (characteristic.NewInt / NewFloat / NewString / NewBool / NewBytes with Format and Perms set by the
// "application"), with and without bounds, with and without an OnValueGet function.
//
// (A) in-process (inproc.go): recorders on OnValueUpdate and OnValueUpdateFromConn; every value of a hostile
//
//	value set is handed to UpdateValueFromConnection on a fresh object (and, in sequences, on a used one).
//
// (B) HTTP (http.go): one real transport whose database holds all subjects; a verified refctl controller W
//
//	writes and reads, a verified refctl controller S subscribes; EVENT absence is decided with a fence.
//
// The oracle is the permission list the application declared (read from the object before the call, as the
// literal strings "pr", "pw", "ev") and the monitor's own recorders / the bytes parsed by refctl — never hc's
// IsReadable / IsWritable / IsObservable.
//
// Not demanded (other properties own it): a status for a refused write (hc answers 204), a status instead of
// a value in a GET of an unreadable characteristic (C09), delivery of events for ev characteristics (C10, used
// here only as positive control), type and range of stored values and panics caused by hostile values (C12/C13).
package main

import (
	"encoding/base64"
	"encoding/json"
	"fmt"
	"math"
	"math/rand"
	"net"
	"os"
	"path/filepath"
	"sort"
	"strings"
	"sync"
	"sync/atomic"
	"time"

	"github.com/brutella/hc/characteristic"

	"verif/harness/catalog"
	"verif/vf"
)

var run *vf.Run

// ---------------------------------------------------------------- permissions as the application declared them

type perms struct{ pr, pw, ev bool }

// declared reads the permission list of the object literally (independent of hc's helpers).
func declared(c *characteristic.Characteristic) perms {
	var p perms
	for _, s := range c.Perms {
		switch s {
		case "pr":
			p.pr = true
		case "pw":
			p.pw = true
		case "ev":
			p.ev = true
		}
	}
	return p
}

func (p perms) String() string {
	var s []string
	if p.pr {
		s = append(s, "pr")
	}
	if p.pw {
		s = append(s, "pw")
	}
	if p.ev {
		s = append(s, "ev")
	}
	if len(s) == 0 {
		return "none"
	}
	return strings.Join(s, "+")
}

// ---------------------------------------------------------------- subjects

type subject struct {
	Name   string // "NewBrightness" or "synthetic/uint8/pr+ev/bounded"
	Kind   string // "catalog" | "synthetic"
	Format string // for synthetic ones (catalog: read from the object)
	GetFn  bool   // an OnValueGet function is installed (returns a canary)
	make   func() *characteristic.Characteristic
}

var allFormats = []string{"bool", "uint8", "uint16", "uint32", "uint64", "int32", "float", "string", "tlv8", "data"}

// the 8 subsets, written in different orders on purpose
var permSubsets = [][]string{
	{},
	{"pr"},
	{"pw"},
	{"ev"},
	{"pw", "pr"},
	{"ev", "pr"},
	{"ev", "pw"},
	{"ev", "pw", "pr"},
	// the other permission strings of the protocol (write response, additional authorisation, timed write, hidden) grant
	// neither read, nor write, nor events: only "pr", "pw" and "ev" do
	{"wr"},
	{"pr", "wr"},
	{"ev", "wr", "pr"},
	{"aa", "tw", "hd", "wr"},
	{"hd", "pr"},
	{"aa", "pr", "ev"},
	{"tw", "pw"},
}

const canaryString = "C11-CANARY-c3a9f1"
const canaryInt = 77
const canaryFloat = 77.25

func synthType(fi, pi, variant int) string {
	return fmt.Sprintf("F11%01X%01X%03X-0000-1000-8000-0026BB765291", fi, pi, variant)
}

// synth builds a characteristic the way an application builds a custom one.
func synth(format string, ps []string, bounded, getfn bool, typ string) *characteristic.Characteristic {
	return synthHow(format, ps, bounded, getfn, typ, false)
}

// synthHow with inPlace: the characteristic is created with all three permissions, is asked for them once, and the
// application then establishes its own set by overwriting the entries of that very slice (same length; entries that are
// not needed become "hd", which grants nothing) before it sets a value.  What counts is what Perms says now.
func synthHow(format string, ps []string, bounded, getfn bool, typ string, inPlace bool) *characteristic.Characteristic {
	p := append([]string{}, ps...)
	narrow := func(c *characteristic.Characteristic) {}
	if inPlace {
		p = []string{"pr", "pw", "ev"}
		narrow = func(c *characteristic.Characteristic) {
			_, _, _ = c.IsReadable(), c.IsWritable(), c.IsObservable()
			for i := range c.Perms {
				if i < len(ps) {
					c.Perms[i] = ps[i]
				} else {
					c.Perms[i] = "hd"
				}
			}
		}
	}
	switch format {
	case "bool":
		c := characteristic.NewBool(typ)
		c.Format = format
		c.Perms = p
		narrow(c.Characteristic)
		c.SetValue(false)
		if getfn {
			c.OnValueRemoteGet(func() bool { return true })
		}
		return c.Characteristic
	case "uint8", "uint16", "uint32", "uint64", "int32":
		c := characteristic.NewInt(typ)
		c.Format = format
		c.Perms = p
		narrow(c.Characteristic)
		if bounded {
			c.SetMinValue(0)
			c.SetMaxValue(200)
			c.SetStepValue(1)
		}
		c.SetValue(3)
		if getfn {
			c.OnValueRemoteGet(func() int { return canaryInt })
		}
		return c.Characteristic
	case "float":
		c := characteristic.NewFloat(typ)
		c.Format = format
		c.Perms = p
		narrow(c.Characteristic)
		if bounded {
			c.SetMinValue(-50)
			c.SetMaxValue(150)
			c.SetStepValue(0.25)
		}
		c.SetValue(1.5)
		if getfn {
			c.OnValueRemoteGet(func() float64 { return canaryFloat })
		}
		return c.Characteristic
	case "string", "data":
		c := characteristic.NewString(typ)
		c.Format = format
		c.Perms = p
		narrow(c.Characteristic)
		c.SetValue("initial")
		if getfn {
			c.OnValueRemoteGet(func() string { return canaryString })
		}
		return c.Characteristic
	case "tlv8":
		c := characteristic.NewBytes(typ)
		c.Format = format
		c.Perms = p
		narrow(c.Characteristic)
		c.SetValue([]byte{1, 2, 3})
		if getfn {
			c.OnValueGet(func() interface{} { return base64.StdEncoding.EncodeToString([]byte(canaryString)) })
		}
		return c.Characteristic
	}
	panic("format " + format)
}

func permName(ps []string) string {
	q := append([]string{}, ps...)
	sort.Strings(q)
	if len(q) == 0 {
		return "none"
	}
	// canonical order pr, pw, ev
	var p perms
	for _, s := range q {
		switch s {
		case "pr":
			p.pr = true
		case "pw":
			p.pw = true
		case "ev":
			p.ev = true
		}
	}
	return p.String()
}

func buildSubjects() []subject {
	var out []subject
	for _, c := range catalog.Chars {
		c := c
		out = append(out, subject{Name: c.Name, Kind: "catalog", make: func() *characteristic.Characteristic {
			ch, _, pt := catalog.ProbeChar(c)
			if pt != "" {
				return nil
			}
			return ch
		}})
	}
	for fi, f := range allFormats {
		for pi, ps := range permSubsets {
			f, ps, fi, pi := f, ps, fi, pi
			numeric := f != "bool" && f != "string" && f != "tlv8" && f != "data"
			out = append(out, subject{Name: "synthetic/" + f + "/" + permName(ps), Kind: "synthetic", Format: f,
				make: func() *characteristic.Characteristic { return synth(f, ps, false, false, synthType(fi, pi, 0)) }})
			if numeric {
				out = append(out, subject{Name: "synthetic/" + f + "/" + permName(ps) + "/bounded", Kind: "synthetic", Format: f,
					make: func() *characteristic.Characteristic { return synth(f, ps, true, false, synthType(fi, pi, 1)) }})
			}
			if len(ps) <= 3 {
				out = append(out, subject{Name: "synthetic/" + f + "/" + permName(ps) + "/narrowed-in-place", Kind: "synthetic", Format: f,
					make: func() *characteristic.Characteristic {
						return synthHow(f, ps, numeric, false, synthType(fi, pi, 3), true)
					}})
			}
			out = append(out, subject{Name: "synthetic/" + f + "/" + permName(ps) + "/getfn", Kind: "synthetic", Format: f, GetFn: true,
				make: func() *characteristic.Characteristic { return synth(f, ps, numeric, true, synthType(fi, pi, 2)) }})
		}
	}
	return out
}

// ---------------------------------------------------------------- hostile values

type hostile struct {
	Label string
	V     interface{}
	JSON  bool // can be written through PUT exactly like this (what encoding/json yields for the JSON text)
}

func hostileValues(rnd *rand.Rand, extra int) []hostile {
	long := strings.Repeat("0123456789", 1024)
	hs := []hostile{
		{"0", float64(0), true}, {"1", float64(1), true}, {"-1", float64(-1), true}, {"0.5", 0.5, true}, {"-0.5", -0.5, true},
		{"2", float64(2), true}, {"100", float64(100), true}, {"255", float64(255), true}, {"256", float64(256), true},
		{"65535", float64(65535), true}, {"65536", float64(65536), true}, {"2^31-1", float64(math.MaxInt32), true},
		{"2^31", float64(1 << 31), true}, {"-2^31", float64(-(1 << 31)), true}, {"2^32", float64(1 << 32), true},
		{"2^53", float64(1 << 53), true}, {"1e19", 1e19, true}, {"1e300", 1e300, true}, {"-1e300", -1e300, true}, {"5e-324", 5e-324, true},
		{"go int 7", int(7), false}, {"go int -7", int(-7), false}, {"go int64 2^40", int64(1) << 40, false}, {"go uint8 9", uint8(9), false},
		{"go float32 1.5", float32(1.5), false},
		{`""`, "", true}, {`"abc"`, "abc", true}, {`"12"`, "12", true}, {`"-3"`, "-3", true}, {`"1e5"`, "1e5", true}, {`"0"`, "0", true},
		{`"1"`, "1", true}, {`"true"`, "true", true}, {`"false"`, "false", true}, {`"NaN"`, "NaN", true}, {`"Inf"`, "Inf", true},
		{`"AQID" (base64)`, "AQID", true}, {"10 KB string", long, true},
		{"true", true, true}, {"false", false, true}, {"null", nil, true},
		{"array", []interface{}{float64(1), "a", true}, true}, {"object", map[string]interface{}{"a": float64(1), "b": "x"}, true},
	}
	// every small integer: the enumerations of HAP (lock state, heating mode, ...) live here and most
	// constructors of this tree declare no range
	for v := 3; v <= 16; v++ {
		hs = append(hs, hostile{fmt.Sprint(v), float64(v), true})
	}
	for i := 0; i < extra; i++ {
		switch rnd.Intn(4) {
		case 0:
			v := float64(rnd.Int63n(1<<40)) - float64(1<<39)
			hs = append(hs, hostile{fmt.Sprintf("random integer #%d", i), v, true})
		case 1:
			v := (rnd.Float64() - 0.5) * math.Pow(10, float64(rnd.Intn(12)))
			hs = append(hs, hostile{fmt.Sprintf("random float #%d", i), v, true})
		case 2:
			b := make([]byte, 1+rnd.Intn(24))
			for j := range b {
				b[j] = byte(32 + rnd.Intn(95))
			}
			hs = append(hs, hostile{fmt.Sprintf("random string #%d", i), string(b), true})
		default:
			b := make([]byte, rnd.Intn(40))
			rnd.Read(b)
			hs = append(hs, hostile{fmt.Sprintf("random base64 #%d", i), base64.StdEncoding.EncodeToString(b), true})
		}
	}
	return hs
}

// show renders a value for witnesses (Go syntax, bounded).
func show(v interface{}) string {
	s := fmt.Sprintf("%#v", v)
	if len(s) > 120 {
		s = s[:120] + fmt.Sprintf("...(%d chars)", len(s))
	}
	return s
}

// ---------------------------------------------------------------- type-appropriate values (for changes that must be changes)

// goodValue returns a value of the Go type hc keeps for the format, inside the declared bounds, whose
// rendering differs from every string in avoid. ok=false when the range leaves no such value.
func goodValue(c *characteristic.Characteristic, rnd *rand.Rand, avoid ...string) (interface{}, bool) {
	differs := func(v interface{}) bool {
		s := fmt.Sprintf("%#v", v)
		for _, a := range avoid {
			if a == s {
				return false
			}
		}
		return true
	}
	switch c.Format {
	case "bool":
		for _, v := range []bool{true, false} {
			if differs(v) {
				return v, true
			}
		}
		return nil, false
	case "uint8", "uint16", "uint32", "uint64", "int32", "int":
		lo, hi := 0, 100
		if m, ok := c.MinValue.(int); ok {
			lo = m
			hi = lo + 100
		}
		if m, ok := c.MaxValue.(int); ok {
			hi = m
			if _, ok := c.MinValue.(int); !ok && hi < lo {
				lo = hi - 100
			}
		}
		if lo < 0 {
			lo = 0 // hc converts through uint64: negative numbers are C12's business
		}
		if hi < lo {
			return nil, false
		}
		for i := 0; i < 200; i++ {
			v := lo + rnd.Intn(hi-lo+1)
			if differs(v) {
				return v, true
			}
		}
		for v := lo; v <= hi && v < lo+16; v++ {
			if differs(v) {
				return v, true
			}
		}
		return nil, false
	case "float":
		lo, hi := 0.0, 100.0
		if m, ok := c.MinValue.(float64); ok {
			lo = m
			hi = lo + 100
		}
		if m, ok := c.MaxValue.(float64); ok {
			hi = m
			if _, ok := c.MinValue.(float64); !ok && hi < lo {
				lo = hi - 100
			}
		}
		if hi < lo {
			return nil, false
		}
		for i := 0; i < 200; i++ {
			v := lo + (hi-lo)*float64(rnd.Intn(257))/256
			if differs(v) {
				return v, true
			}
		}
		return nil, false
	case "tlv8", "data":
		b := make([]byte, 1+rnd.Intn(20))
		rnd.Read(b)
		return base64.StdEncoding.EncodeToString(b), true
	default:
		return fmt.Sprintf("verif-%08x", rnd.Uint32()), true
	}
}

// ---------------------------------------------------------------- recorders

type recorder struct {
	mu     sync.Mutex
	local  int
	remote int
	last   string
}

func (r *recorder) counts() (int, int) {
	r.mu.Lock()
	defer r.mu.Unlock()
	return r.local, r.remote
}

func (r *recorder) lastCall() string {
	r.mu.Lock()
	defer r.mu.Unlock()
	return r.last
}

// panicInCallbacks, while set, makes the recorder's callbacks panic (an application callback that fails): the update that
// invoked them must leave a characteristic without pr as empty as it found it
var panicInCallbacks int32

// duringCallback: a characteristic without read permission holds and reveals no value at ANY moment another goroutine
// (a GET /accessories on another connection) could look, also while the callbacks of a write run
func duringCallback(cc *characteristic.Characteristic, which string) {
	run.Count("callbacks_in_which_the_stored_value_was_inspected", 1)
	if !declared(cc).pr && cc.Value != nil {
		violate("callback:read:no-pr:value-stored-during-callback", fmt.Sprintf("while %s of a characteristic with perms %v runs, the characteristic holds Value %s: a read from another goroutine at that moment (GET /accessories on another connection) reveals it", which, cc.Perms, show(cc.Value)),
			"characteristic type "+cc.Type, map[string]interface{}{"perms": cc.Perms, "format": cc.Format})
	}
	if atomic.LoadInt32(&panicInCallbacks) == 1 {
		panic("verif: the application's callback fails")
	}
}

func instrument(c *characteristic.Characteristic) *recorder {
	r := &recorder{}
	c.OnValueUpdate(func(cc *characteristic.Characteristic, nv, ov interface{}) {
		duringCallback(cc, "OnValueUpdate")
		r.mu.Lock()
		r.local++
		r.last = "OnValueUpdate(new=" + show(nv) + ", old=" + show(ov) + ")"
		r.mu.Unlock()
	})
	c.OnValueUpdateFromConn(func(_ net.Conn, cc *characteristic.Characteristic, nv, ov interface{}) {
		duringCallback(cc, "OnValueUpdateFromConn")
		r.mu.Lock()
		r.remote++
		r.last = "OnValueUpdateFromConn(new=" + show(nv) + ", old=" + show(ov) + ")"
		r.mu.Unlock()
	})
	return r
}

// ---------------------------------------------------------------- dummy connection for the in-process API

type dummyConn struct{}

type dummyAddr struct{}

func (dummyAddr) Network() string { return "verif" }
func (dummyAddr) String() string  { return "verif-remote-peer" }

func (dummyConn) Read(b []byte) (int, error)         { return 0, nil }
func (dummyConn) Write(b []byte) (int, error)        { return len(b), nil }
func (dummyConn) Close() error                       { return nil }
func (dummyConn) LocalAddr() net.Addr                { return dummyAddr{} }
func (dummyConn) RemoteAddr() net.Addr               { return dummyAddr{} }
func (dummyConn) SetDeadline(t time.Time) error      { return nil }
func (dummyConn) SetReadDeadline(t time.Time) error  { return nil }
func (dummyConn) SetWriteDeadline(t time.Time) error { return nil }

// ---------------------------------------------------------------- violations with a per-signature list of affected subjects

var (
	affMu    sync.Mutex
	affected = map[string]map[string]struct{}{}
)

var panicSites = map[string]int{}

func notePanic(site string) {
	affMu.Lock()
	panicSites[site]++
	affMu.Unlock()
	run.Distinct("panic_sites_skipped(C12)", site)
}

func violate(sig, what string, subj string, witness map[string]interface{}) {
	affMu.Lock()
	m := affected[sig]
	if m == nil {
		m = map[string]struct{}{}
		affected[sig] = m
	}
	if len(m) < 400 {
		m[subj] = struct{}{}
	}
	affMu.Unlock()
	witness["subject"] = subj
	run.Violation(sig, what, witness)
}

func affectedSummary() map[string]interface{} {
	affMu.Lock()
	defer affMu.Unlock()
	out := map[string]interface{}{}
	for sig, m := range affected {
		var l []string
		for s := range m {
			l = append(l, s)
		}
		sort.Strings(l)
		n := len(l)
		if len(l) > 40 {
			l = l[:40]
		}
		out[sig] = map[string]interface{}{"subjects": n, "first": l}
	}
	return out
}

// jsonMembers marshals v and returns the member names of the resulting object and the raw members.
func jsonMembers(v interface{}) (map[string]json.RawMessage, error) {
	b, err := json.Marshal(v)
	if err != nil {
		return nil, err
	}
	var m map[string]json.RawMessage
	if err := json.Unmarshal(b, &m); err != nil {
		return nil, err
	}
	return m, nil
}

// reveals says whether a raw "value" member carries something (JSON null reveals nothing).
func reveals(raw json.RawMessage, present bool) bool {
	if !present {
		return false
	}
	return strings.TrimSpace(string(raw)) != "null"
}

func main() {
	run = vf.Start("C11", "exploration")
	r := run
	r.SetRule("a case = one remote update (UpdateValueFromConnection or PUT /characteristics), one local update, one read (GetValueFromConnection, " +
		"json.Marshal, GET /characteristics, GET /accessories) or one subscription attempt + later change + fence, on one subject (catalog constructor " +
		"or synthetic permission-subset characteristic); non-trivial = distinct (path, subject, value / step) where the subject lacks the permission the step needs")
	r.Assume("the permission list of the object at the time of the call is the authority (the literal strings pr / pw / ev)")
	r.Assume("a JSON null in a \"value\" member reveals nothing (hc's EVENT bodies always carry the member)")
	r.Assume("panics raised by hostile values are C12's / C13's business: the case is skipped and counted (skipped_due_to_panic), not reported")
	r.Watchdog(time.Duration(r.Pick(10, 30)) * time.Minute)

	repo := os.Getenv("VERIF_REPO")
	if repo == "" {
		repo = "/repo"
	}
	r.Extra("repo", repo)
	r.Extra("catalog_source", catalog.Source)

	r.Guard("c11", func() {
		if catalog.Source == "" {
			r.Inconclusive("harness/catalog/zz_generated.go is missing (run through ./check, which generates it)")
			return
		}
		if filepath.Clean(catalog.Source) != filepath.Clean(repo) {
			r.Inconclusive(fmt.Sprintf("catalog was generated from %s but VERIF_REPO is %s", catalog.Source, repo))
			return
		}
		for _, u := range catalog.Uncovered {
			if strings.HasPrefix(u, "characteristic.") {
				r.Inconclusive("constructor not covered by the catalog: " + u)
			}
		}
		r.Floor("catalog characteristic constructors", len(catalog.Chars), 100)
		subjects := buildSubjects()
		r.Count("subjects_catalog", len(catalog.Chars))
		r.Count("subjects_synthetic", len(subjects)-len(catalog.Chars))
		inproc(r, subjects)
		httpPath(r, subjects)
	})
	if len(panicSites) > 0 {
		r.Extra("panic_sites_skipped(C12)", panicSites)
	}
	if a := affectedSummary(); len(a) > 0 {
		r.Extra("violations_by_signature", a)
	}
	r.Finish()
}

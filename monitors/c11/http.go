package main

import (
	"encoding/json"
	"fmt"
	"math/rand"
	"os"
	"strings"
	"time"

	"github.com/brutella/hc/accessory"
	"github.com/brutella/hc/characteristic"
	"github.com/brutella/hc/service"

	"verif/harness/app"
	"verif/harness/catalog"
	"verif/refctl"
	"verif/vf"
)

func catalogNames() []string {
	var n []string
	for _, c := range catalog.Chars {
		n = append(n, c.Name)
	}
	return n
}

// ---------------------------------------------------------------- controllers

type ctl struct {
	name       string
	id         *refctl.Identity
	a          *app.App
	acc        app.StoredEntity
	c          *refctl.Conn
	reconnects int
	dead       bool
}

func (k *ctl) connect() error {
	c, err := k.a.Verified(k.id, k.acc.PublicKey, k.acc.Name)
	if err != nil {
		return err
	}
	c.Timeout = 15 * time.Second
	k.c = c
	return nil
}

// do sends one request. On an error the connection is replaced (a handler panic closes it: C12/C13's business).
func (k *ctl) do(method, target string, body []byte) (*refctl.Message, error) {
	if k.dead {
		return nil, fmt.Errorf("controller %s has no connection", k.name)
	}
	m, err := k.c.Do(method, target, refctl.ContentJSON, body)
	if err == nil {
		run.Count("http_round_trips", 1)
		return m, nil
	}
	run.Count("http_connection_lost_"+k.name, 1)
	k.c.Close()
	k.reconnects++
	if k.reconnects > 200 {
		k.dead = true
		run.Inconclusive(fmt.Sprintf("controller %s lost its connection more than 200 times (last: %v)", k.name, err))
		return nil, err
	}
	if e := k.connect(); e != nil {
		k.dead = true
		run.Inconclusive(fmt.Sprintf("controller %s cannot pair-verify again after %v: %v", k.name, err, e))
	}
	return nil, err
}

// ---------------------------------------------------------------- response parsing (refctl delivers bytes; this is the monitor's own reading)

type charEntry map[string]json.RawMessage

func (e charEntry) num(k string) (uint64, bool) {
	raw, ok := e[k]
	if !ok {
		return 0, false
	}
	var n uint64
	if json.Unmarshal(raw, &n) != nil {
		return 0, false
	}
	return n, true
}

func (e charEntry) is(aid, iid uint64) bool {
	a, ok1 := e.num("aid")
	i, ok2 := e.num("iid")
	return ok1 && ok2 && a == aid && i == iid
}

func (e charEntry) nonZeroStatus() bool {
	raw, ok := e["status"]
	if !ok {
		return false
	}
	var n float64
	if json.Unmarshal(raw, &n) != nil {
		return false
	}
	return n != 0
}

func parseCharList(b []byte) ([]charEntry, error) {
	var x struct {
		Characteristics []charEntry `json:"characteristics"`
	}
	if err := json.Unmarshal(b, &x); err != nil {
		return nil, err
	}
	return x.Characteristics, nil
}

func msgText(m *refctl.Message) string {
	if m == nil {
		return "<no response>"
	}
	return fmt.Sprintf("%s %d %s", m.Proto, m.Status, trunc(string(m.Body), 300))
}

// ---------------------------------------------------------------- database under test

type entry struct {
	s        subject
	c        *characteristic.Characteristic
	rec      *recorder
	p        perms
	aid, iid uint64
}

func (e *entry) where() string { return fmt.Sprintf("%d.%d", e.aid, e.iid) }

func (e *entry) witness(extra map[string]interface{}) map[string]interface{} {
	w := map[string]interface{}{"characteristic": describe(e.s, e.c), "aid.iid": e.where(), "app_side_Value": show(e.c.Value)}
	for k, v := range extra {
		w[k] = v
	}
	return w
}

type controlMiss struct {
	Subject string `json:"subject"`
	What    string `json:"what"`
}

type httpRun struct {
	r        *vf.Run
	rnd      *rand.Rand
	W, S     *ctl
	entries  []*entry
	values   []hostile
	perChar  int
	misses   []controlMiss
	missN    int
	evOK     int
	done     map[string]bool
	strays   []string
	noValue  []string
	layoutNo int
}

func (h *httpRun) miss(e *entry, what string) {
	h.r.Count("http_control_misses", 1)
	h.missN++
	if len(h.misses) < 30 {
		h.misses = append(h.misses, controlMiss{e.s.Name + " (" + e.p.String() + ", " + e.c.Format + ")", what})
	}
}

// writeChecks looks at the application's side after a PUT that carried a value.
func (h *httpRun) writeChecks(e *entry, from, request string, m *refctl.Message, before string, l0, r0 int) (applied bool) {
	after := fmt.Sprintf("%#v", e.c.Value)
	l1, r1 := e.rec.counts()
	h.r.Eval()
	h.r.Count("http_puts_with_value", 1)
	if !e.p.pw {
		h.r.Count("http_puts_without_pw", 1)
		if after != before {
			violate("http:write:no-pw:value-changed", fmt.Sprintf("PUT %s by %s on a characteristic with perms %v changed the application's Value from %s to %s (answer %d)", trunc(request, 100), from, e.c.Perms, trunc(before, 60), trunc(after, 60), m.Status),
				e.s.Name, e.witness(map[string]interface{}{"request": trunc(request, 400), "response": msgText(m), "before": trunc(before, 200), "after": trunc(after, 200)}))
		}
		if l1 != l0 || r1 != r0 {
			violate("http:write:no-pw:callback-fired", fmt.Sprintf("PUT %s by %s on a characteristic with perms %v invoked %d OnValueUpdate and %d OnValueUpdateFromConn callbacks: %s", trunc(request, 100), from, e.c.Perms, l1-l0, r1-r0, trunc(e.rec.lastCall(), 120)),
				e.s.Name, e.witness(map[string]interface{}{"request": trunc(request, 400), "response": msgText(m), "local_callbacks": l1 - l0, "conn_callbacks": r1 - r0, "last_callback": e.rec.lastCall()}))
		}
	}
	if !e.p.pr {
		h.r.Count("http_unreadable_checks", 1)
		if e.c.Value != nil {
			violate("http:read:no-pr:value-stored", fmt.Sprintf("after PUT %s by %s a characteristic with perms %v holds Value %s", trunc(request, 100), from, e.c.Perms, show(e.c.Value)),
				e.s.Name, e.witness(map[string]interface{}{"request": trunc(request, 400), "response": msgText(m)}))
		}
	}
	return r1 > r0
}

func putValueBody(e *entry, v interface{}, ev bool) []byte {
	cv := refctl.CharValue{AID: e.aid, IID: e.iid}
	if v != nil {
		cv.Value = refctl.RawJSON(v)
	}
	if ev {
		t := true
		cv.Ev = &t
	}
	return refctl.PutBody(cv)
}

// revealChecks looks for a value of e in a list of /characteristics entries.
func (h *httpRun) revealChecks(e *entry, list []charEntry, whereSig, request string, m *refctl.Message) {
	for _, ce := range list {
		if !ce.is(e.aid, e.iid) {
			continue
		}
		raw, ok := ce["value"]
		if e.p.pr {
			if reveals(raw, ok) {
				h.r.Count("http_control_readable_value_seen", 1)
			}
			continue
		}
		h.r.Count("http_unreadable_checks", 1)
		if ok && !reveals(raw, ok) {
			h.r.Count("http_null_value_members_for_unreadable", 1)
		}
		if reveals(raw, ok) {
			violate("http:read:no-pr:value-revealed:"+whereSig, fmt.Sprintf("%s shows \"value\":%s for a characteristic with perms %v", request, trunc(string(raw), 60), e.c.Perms),
				e.s.Name, e.witness(map[string]interface{}{"request": request, "entry": ce, "response_status": m.Status}))
		}
	}
}

// fence: one cheap request on S; every EVENT written to S before precedes its response.
func (h *httpRun) fence() ([]charEntry, bool) {
	m, err := h.S.do("GET", "/characteristics?id=1.3", nil)
	if err != nil || m.Status != 200 {
		h.r.Count("http_fence_failed", 1)
		return nil, false
	}
	h.r.Count("http_fences", 1)
	var out []charEntry
	for _, ev := range h.S.c.TakeEvents() {
		h.r.Count("http_events_received_by_subscriber", 1)
		l, err := parseCharList(ev.Body)
		if err != nil {
			h.r.Count("http_event_bodies_unparsable", 1)
			continue
		}
		out = append(out, l...)
	}
	return out, true
}

func (h *httpRun) exercise(e *entry, idx int) {
	r := h.r
	if h.W.dead || h.S.dead {
		return
	}
	// ---- 1. hostile values from W on characteristics that lack pw or pr (pw+pr ones would keep them: C12)
	if !e.p.pw || !e.p.pr {
		var pick []hostile
		for _, hv := range h.values {
			if hv.JSON && hv.V != nil {
				pick = append(pick, hv)
			}
		}
		pick = append(pick, domainValues(e.c)...)
		if h.perChar < len(pick) {
			h.rnd.Shuffle(len(pick), func(i, j int) { pick[i], pick[j] = pick[j], pick[i] })
			pick = pick[:h.perChar]
		}
		for _, hv := range pick {
			body := putValueBody(e, hv.V, false)
			before := fmt.Sprintf("%#v", e.c.Value)
			l0, r0 := e.rec.counts()
			m, err := h.W.do("PUT", "/characteristics", body)
			if err != nil {
				r.Count("skipped_due_to_panic", 1)
				if h.W.dead {
					return
				}
				continue
			}
			h.writeChecks(e, "W", string(body), m, before, l0, r0)
			r.Nontrivial(fmt.Sprintf("http|%s|put|%s", e.s.Name, hv.Label))
		}
	}

	// ---- 2. S asks for events (one third of the characteristics: value and ev in the same entry)
	combined := h.rnd.Intn(3) == 0
	cur := fmt.Sprintf("%#v", e.c.Value)
	w1, haveW1 := goodValue(e.c, h.rnd, cur)
	var body []byte
	before := cur
	l0, r0 := e.rec.counts()
	if combined && haveW1 {
		body = putValueBody(e, w1, true)
	} else {
		combined = false
		body = putValueBody(e, nil, true)
	}
	m, err := h.S.do("PUT", "/characteristics", body)
	if err != nil {
		r.Count("http_characteristics_abandoned", 1)
		return
	}
	r.Eval()
	r.Count("http_subscription_attempts", 1)
	rejected := false
	if m.Status != 204 {
		if l, err := parseCharList(m.Body); err == nil {
			for _, ce := range l {
				if ce.is(e.aid, e.iid) && ce.nonZeroStatus() {
					rejected = true
				}
			}
		}
	}
	r.Distinct("http_subscription_answers", fmt.Sprintf("ev=%v -> HTTP %d rejected=%v", e.p.ev, m.Status, rejected))
	if !e.p.ev {
		r.Count("http_subscription_attempts_without_ev", 1)
		r.Nontrivial(fmt.Sprintf("http|%s|subscribe", e.s.Name))
		if !rejected {
			violate("http:event:no-ev:subscription-not-rejected", fmt.Sprintf("PUT %s on a characteristic with perms %v was answered %s: no non-zero status for %s", string(body), e.c.Perms, msgText(m), e.where()),
				e.s.Name, e.witness(map[string]interface{}{"request": string(body), "response": msgText(m)}))
		}
	} else if rejected {
		h.miss(e, "subscription to a characteristic with ev was rejected: "+msgText(m))
	}
	remoteApplied := false
	if combined {
		h.writeChecks(e, "S", string(body), m, before, l0, r0)
	}

	// ---- 3. W writes a type-appropriate changing value
	if !combined && haveW1 {
		body := putValueBody(e, w1, false)
		before := fmt.Sprintf("%#v", e.c.Value)
		l0, r0 := e.rec.counts()
		m, err := h.W.do("PUT", "/characteristics", body)
		if err != nil {
			r.Count("http_characteristics_abandoned", 1)
			return
		}
		remoteApplied = h.writeChecks(e, "W", string(body), m, before, l0, r0)
		r.Distinct("http_put_answers", fmt.Sprintf("pw=%v -> HTTP %d", e.p.pw, m.Status))
		if !e.p.pw {
			r.Nontrivial(fmt.Sprintf("http|%s|put-good", e.s.Name))
		} else if remoteApplied {
			r.Count("http_control_writable_callback_fired", 1)
		} else {
			h.miss(e, fmt.Sprintf("PUT %s on a writable characteristic fired no callback", string(body)))
		}
	}
	if !haveW1 {
		r.Count("http_no_changing_value_available", 1)
		h.noValue = append(h.noValue, e.s.Name+" (remote write)")
	}

	// ---- 4. the application changes the value
	localChanged := false
	l1v, haveL1 := goodValue(e.c, h.rnd, fmt.Sprintf("%#v", e.c.Value))
	if haveL1 {
		lb, _ := e.rec.counts()
		if panicked, _ := vf.Recover(func() { e.c.UpdateValue(l1v) }); panicked {
			r.Count("skipped_due_to_panic", 1)
		} else {
			r.Eval()
			r.Count("http_local_changes", 1)
			la, _ := e.rec.counts()
			localChanged = la > lb
			if !e.p.pr {
				r.Count("http_unreadable_checks", 1)
				if e.c.Value != nil {
					violate("http:read:no-pr:value-stored", fmt.Sprintf("after UpdateValue(%s) a characteristic with perms %v in a running transport holds Value %s", show(l1v), e.c.Perms, show(e.c.Value)),
						e.s.Name, e.witness(map[string]interface{}{"local_update": show(l1v)}))
				}
			} else if fmt.Sprintf("%#v", e.c.Value) != fmt.Sprintf("%#v", l1v) {
				h.miss(e, fmt.Sprintf("UpdateValue(%s) left Value %s", show(l1v), show(e.c.Value)))
			}
		}
	} else {
		r.Count("http_no_changing_value_available", 1)
		h.noValue = append(h.noValue, e.s.Name+" (local change)")
	}

	// ---- 5. fence on S
	evs, ok := h.fence()
	if !ok {
		r.Count("http_characteristics_abandoned", 1)
		return
	}
	n := 0
	for _, ce := range evs {
		if !ce.is(e.aid, e.iid) {
			r.Count("http_stray_events(C10)", 1)
			if len(h.strays) < 10 {
				b, _ := json.Marshal(ce)
				h.strays = append(h.strays, fmt.Sprintf("while exercising %s: %s", e.where(), b))
			}
			continue
		}
		n++
		if raw, ok := ce["value"]; !e.p.pr && reveals(raw, ok) {
			violate("http:read:no-pr:value-revealed:event", fmt.Sprintf("an EVENT shows \"value\":%s for a characteristic with perms %v", trunc(string(raw), 60), e.c.Perms),
				e.s.Name, e.witness(map[string]interface{}{"event_entry": ce}))
		}
	}
	if !e.p.ev {
		r.Count("http_fenced_changes_without_ev", 1)
		if n > 0 {
			violate("http:event:no-ev:event-delivered", fmt.Sprintf("%d EVENT(s) for %s (perms %v) reached the controller whose ev:true had been answered %s", n, e.where(), e.c.Perms, msgText(m)),
				e.s.Name, e.witness(map[string]interface{}{"subscription_request": string(body), "subscription_response": msgText(m), "events_for_this_id": n,
					"local_update": show(l1v), "remote_write_by_W_applied": remoteApplied}))
		}
	} else if !rejected {
		want := 0
		if localChanged {
			want++
		}
		if remoteApplied {
			want++
		}
		if n == want && want > 0 {
			h.evOK++
			r.Count("http_control_ev_events_exact", 1)
		} else if n != want {
			h.miss(e, fmt.Sprintf("subscribed characteristic: %d EVENTs, expected %d (local change fired=%v, remote write by W fired=%v)", n, want, localChanged, remoteApplied))
		}
	}

	// ---- 6. W reads it
	target := "/characteristics?id=" + e.where()
	gm, err := h.W.do("GET", target, nil)
	if err != nil {
		r.Count("http_characteristics_abandoned", 1)
		return
	}
	r.Eval()
	r.Count("http_gets", 1)
	if l, err := parseCharList(gm.Body); err == nil {
		h.revealChecks(e, l, "get-characteristics", "GET "+target, gm)
		if !e.p.pr {
			r.Nontrivial(fmt.Sprintf("http|%s|get", e.s.Name))
		}
	} else {
		r.Count("http_get_bodies_unparsable", 1)
	}
	if ev := h.W.c.TakeEvents(); len(ev) > 0 {
		r.Count("http_stray_events_on_writer(C10)", len(ev))
	}
	h.done[e.s.Name] = true
	if idx == 5 || idx == 90 {
		r.Sample(map[string]interface{}{"path": "http", "subject": e.s.Name, "perms": e.c.Perms, "format": e.c.Format, "aid.iid": e.where(),
			"subscription_request": string(body), "subscription_response": msgText(m), "events_for_this_id_after_fence": n, "get_response": msgText(gm)})
	}
}

// exerciseGetFn: characteristics with an OnValueGet function (a read runs application code and updates).
func (h *httpRun) exerciseGetFn(e *entry) {
	r := h.r
	if h.W.dead {
		return
	}
	if w1, ok := goodValue(e.c, h.rnd, fmt.Sprintf("%#v", e.c.Value)); ok {
		body := putValueBody(e, w1, false)
		before := fmt.Sprintf("%#v", e.c.Value)
		l0, r0 := e.rec.counts()
		if m, err := h.W.do("PUT", "/characteristics", body); err == nil {
			h.writeChecks(e, "W", string(body), m, before, l0, r0)
		}
	}
	for i := 0; i < 2; i++ {
		target := "/characteristics?id=" + e.where()
		gm, err := h.W.do("GET", target, nil)
		if err != nil {
			r.Count("http_characteristics_abandoned", 1)
			return
		}
		r.Eval()
		r.Count("http_gets", 1)
		if l, err := parseCharList(gm.Body); err == nil {
			h.revealChecks(e, l, "get-characteristics", "GET "+target+" (OnValueGet installed)", gm)
		}
		if !e.p.pr {
			r.Count("http_unreadable_checks", 1)
			if e.c.Value != nil {
				violate("http:read:no-pr:value-stored", fmt.Sprintf("after GET %s a characteristic with perms %v and an OnValueGet function holds Value %s", target, e.c.Perms, show(e.c.Value)),
					e.s.Name, e.witness(map[string]interface{}{"request": "GET " + target}))
			}
			r.Nontrivial(fmt.Sprintf("http|%s|get", e.s.Name))
		}
	}
	h.done[e.s.Name] = true
}

func (h *httpRun) accessoriesCheck(tag string) {
	r := h.r
	if h.W.dead {
		return
	}
	m, err := h.W.do("GET", "/accessories", nil)
	if err != nil || m.Status != 200 {
		r.Inconclusive(fmt.Sprintf("GET /accessories (%s) failed: %v %s", tag, err, msgText(m)))
		return
	}
	r.Eval()
	var db struct {
		Accessories []struct {
			AID      uint64 `json:"aid"`
			Services []struct {
				Characteristics []charEntry `json:"characteristics"`
			} `json:"services"`
		} `json:"accessories"`
	}
	if err := json.Unmarshal(m.Body, &db); err != nil {
		r.Inconclusive("GET /accessories does not parse: " + err.Error())
		return
	}
	idx := map[string]charEntry{}
	for _, a := range db.Accessories {
		for _, s := range a.Services {
			for _, c := range s.Characteristics {
				if iid, ok := c.num("iid"); ok {
					idx[fmt.Sprintf("%d.%d", a.AID, iid)] = c
				}
			}
		}
	}
	r.Count("http_accessories_bytes", len(m.Body))
	found := 0
	for _, e := range h.entries {
		ce, ok := idx[e.where()]
		if !ok {
			continue
		}
		found++
		raw, has := ce["value"]
		if e.p.pr {
			if reveals(raw, has) {
				r.Count("http_control_readable_value_in_accessories", 1)
			}
			continue
		}
		r.Count("http_unreadable_checks", 1)
		r.Nontrivial(fmt.Sprintf("http|%s|accessories|%s", e.s.Name, tag))
		if reveals(raw, has) {
			violate("http:read:no-pr:value-revealed:accessories", fmt.Sprintf("GET /accessories shows \"value\":%s for %s with perms %v", trunc(string(raw), 60), e.where(), e.c.Perms),
				e.s.Name, e.witness(map[string]interface{}{"entry": ce, "when": tag}))
		}
	}
	if found != len(h.entries) {
		r.Inconclusive(fmt.Sprintf("GET /accessories lists %d of the %d characteristics the harness added", found, len(h.entries)))
	}
}

func (h *httpRun) batchGets() {
	r := h.r
	for i := 0; i < len(h.entries) && !h.W.dead; i += 25 {
		j := i + 25
		if j > len(h.entries) {
			j = len(h.entries)
		}
		var ids []string
		for _, e := range h.entries[i:j] {
			ids = append(ids, e.where())
		}
		target := "/characteristics?id=" + strings.Join(ids, ",")
		m, err := h.W.do("GET", target, nil)
		if err != nil {
			continue
		}
		r.Eval()
		r.Count("http_batch_gets", 1)
		l, err := parseCharList(m.Body)
		if err != nil {
			r.Count("http_get_bodies_unparsable", 1)
			continue
		}
		for _, e := range h.entries[i:j] {
			h.revealChecks(e, l, "get-characteristics", fmt.Sprintf("GET /characteristics?id=<%d ids incl. %s>", j-i, e.where()), m)
		}
	}
}

// batchSubscribe: one PUT asks for events on several characteristics at once (with and without ev, some entries
// also carrying a value); every id without ev needs its own non-zero status, and no later change of it may reach S.
func (h *httpRun) batchSubscribe() {
	r := h.r
	var pool []*entry
	for _, e := range h.entries {
		if !e.s.GetFn {
			pool = append(pool, e)
		}
	}
	h.rnd.Shuffle(len(pool), func(i, j int) { pool[i], pool[j] = pool[j], pool[i] })
	batchNo := 0
	for i := 0; i+1 < len(pool) && !h.S.dead; {
		n := 2 + h.rnd.Intn(9)
		if i+n > len(pool) {
			n = len(pool) - i
		}
		group := pool[i : i+n]
		i += n
		var cvs []refctl.CharValue
		type pre struct {
			before string
			l, r   int
			wrote  bool
		}
		pres := make([]pre, len(group))
		for k, e := range group {
			t := true
			cv := refctl.CharValue{AID: e.aid, IID: e.iid, Ev: &t}
			pres[k].before = fmt.Sprintf("%#v", e.c.Value)
			pres[k].l, pres[k].r = e.rec.counts()
			if !e.p.pw && h.rnd.Intn(2) == 0 {
				if v, ok := goodValue(e.c, h.rnd, pres[k].before); ok {
					cv.Value = refctl.RawJSON(v)
					pres[k].wrote = true
				}
			}
			// entries for ids the accessory does not have, in front of and between the real ones (every third batch): they are
			// answered with a status of their own and must not move what belongs to the entries after them
			if batchNo%3 == 2 && (k == 0 || h.rnd.Intn(3) == 0) {
				for u := 0; u <= h.rnd.Intn(2); u++ {
					ghost := refctl.CharValue{AID: e.aid, IID: 900000 + uint64(h.rnd.Intn(1000)), Ev: &t}
					if h.rnd.Intn(2) == 0 {
						ghost.AID = 77000 + uint64(h.rnd.Intn(100))
					}
					cvs = append(cvs, ghost)
					r.Count("http_batch_entries_for_unknown_ids", 1)
				}
			}
			cvs = append(cvs, cv)
		}
		batchNo++
		body := refctl.PutBody(cvs...)
		// other ways a controller may spell "events on": an accessory that takes one of them for a subscription must
		// refuse it like "ev":true on a characteristic without ev; one that ignores it may answer anything; in no
		// case may an event follow
		evSpelling := []string{"true", "true", "1", "1.0", `"true"`, `"1"`, "[true]"}[h.rnd.Intn(7)]
		strict := evSpelling == "true"
		if !strict {
			body = []byte(strings.ReplaceAll(string(body), `"ev":true`, `"ev":`+evSpelling))
		}
		r.Distinct("ev_spelling", evSpelling)
		m, err := h.S.do("PUT", "/characteristics", body)
		if err != nil {
			continue
		}
		r.Eval()
		r.Count("http_batch_subscriptions", 1)
		var list []charEntry
		if m.Status != 204 {
			list, _ = parseCharList(m.Body)
		}
		for k, e := range group {
			if pres[k].wrote {
				h.writeChecks(e, "S", string(body), m, pres[k].before, pres[k].l, pres[k].r)
			}
			if e.p.ev {
				continue
			}
			r.Count("http_subscription_attempts_without_ev", 1)
			rejected := false
			for _, ce := range list {
				if ce.is(e.aid, e.iid) && ce.nonZeroStatus() {
					rejected = true
				}
			}
			if !rejected && !strict {
				r.Count("http_odd_ev_spelling_not_rejected(allowed if ignored)", 1)
			}
			if !rejected && strict {
				violate("http:event:no-ev:subscription-not-rejected", fmt.Sprintf("a PUT asking for events on %d characteristics was answered %s: no non-zero status for %s (perms %v)", len(group), msgText(m), e.where(), e.c.Perms),
					e.s.Name, e.witness(map[string]interface{}{"request": trunc(string(body), 600), "response": msgText(m)}))
			}
		}
		// the application changes all of them
		changed := map[*entry]bool{}
		for _, e := range group {
			if v, ok := goodValue(e.c, h.rnd, fmt.Sprintf("%#v", e.c.Value)); ok {
				lb, _ := e.rec.counts()
				if p, _ := vf.Recover(func() { e.c.UpdateValue(v) }); !p {
					la, _ := e.rec.counts()
					changed[e] = la > lb
					r.Count("http_local_changes", 1)
				}
			}
		}
		evs, ok := h.fence()
		if !ok {
			continue
		}
		for _, e := range group {
			n := 0
			for _, ce := range evs {
				if ce.is(e.aid, e.iid) {
					n++
					if raw, ok := ce["value"]; !e.p.pr && reveals(raw, ok) {
						violate("http:read:no-pr:value-revealed:event", fmt.Sprintf("an EVENT shows \"value\":%s for a characteristic with perms %v", trunc(string(raw), 60), e.c.Perms),
							e.s.Name, e.witness(map[string]interface{}{"event_entry": ce}))
					}
				}
			}
			if !e.p.ev {
				r.Count("http_fenced_changes_without_ev", 1)
				r.Nontrivial(fmt.Sprintf("http|%s|batch-subscribe|%d", e.s.Name, len(group)))
				if n > 0 {
					violate("http:event:no-ev:event-delivered", fmt.Sprintf("%d EVENT(s) for %s (perms %v) reached the controller after a PUT asking for events on %d characteristics (answer %s)", n, e.where(), e.c.Perms, len(group), msgText(m)),
						e.s.Name, e.witness(map[string]interface{}{"subscription_request": trunc(string(body), 600), "subscription_response": msgText(m), "events_for_this_id": n}))
				}
			} else if changed[e] && n == 1 {
				r.Count("http_control_ev_events_exact", 1)
			} else if changed[e] {
				h.miss(e, fmt.Sprintf("subscribed characteristic (batch of %d): %d EVENTs for one local change", len(group), n))
			}
		}
	}
}

func oneLayout(r *vf.Run, subjects []subject, layoutNo int, done map[string]bool, synthCover map[string]bool) {
	rnd := r.RandN("http-layout", layoutNo)
	h := &httpRun{r: r, rnd: rnd, done: done, layoutNo: layoutNo}
	h.values = hostileValues(rnd, r.Pick(0, 40))
	h.perChar = r.Pick(1000, 1000) // every JSON-encodable hostile value on every eligible characteristic

	order := rnd.Perm(len(subjects))
	svcSize := 8 + rnd.Intn(17)
	svcPerAcc := 3 + rnd.Intn(4)
	bridge := accessory.New(accessory.Info{Name: fmt.Sprintf("C11 bridge %d", layoutNo), SerialNumber: "C11-0", Manufacturer: "verif", Model: "c11", FirmwareRevision: "1.0"}, accessory.TypeBridge)
	accs := []*accessory.Accessory{}
	var curAcc *accessory.Accessory
	var curSvc *service.Service
	owner := map[*entry]*accessory.Accessory{}
	nsvc := 0
	for _, si := range order {
		s := subjects[si]
		c := s.make()
		if c == nil {
			r.Count("constructors_unusable(C15)", 1)
			continue
		}
		if curSvc == nil || len(curSvc.Characteristics) >= svcSize {
			if curAcc == nil || len(curAcc.Services)-1 >= svcPerAcc {
				curAcc = accessory.New(accessory.Info{Name: fmt.Sprintf("C11 acc %d", len(accs)+1), SerialNumber: fmt.Sprintf("C11-%d", len(accs)+1), Manufacturer: "verif", Model: "c11", FirmwareRevision: "1.0"}, accessory.TypeOther)
				accs = append(accs, curAcc)
			}
			nsvc++
			curSvc = service.New(fmt.Sprintf("F11F%04X-0000-1000-8000-0026BB765291", nsvc))
			curAcc.AddService(curSvc)
		}
		e := &entry{s: s, c: c, p: declared(c)}
		e.rec = instrument(c)
		curSvc.AddCharacteristic(c)
		owner[e] = curAcc
		h.entries = append(h.entries, e)
	}

	dir := app.ScratchDir(r.WorkDir(), "store")
	defer os.RemoveAll(dir)
	idW := refctl.NewIdentity(fmt.Sprintf("c11-writer-%d", layoutNo), rnd)
	idS := refctl.NewIdentity(fmt.Sprintf("c11-subscriber-%d", layoutNo), rnd)
	if err := app.StoreController(dir, idW); err != nil {
		r.Inconclusive("cannot store controller: " + err.Error())
		return
	}
	app.StoreController(dir, idS)
	a, err := app.Start(dir, "00102003", bridge, accs...)
	if err != nil {
		r.Inconclusive("transport did not start: " + err.Error())
		return
	}
	defer a.Stop()
	accEnt, ok := app.AccessoryEntity(dir)
	if !ok {
		r.Inconclusive("accessory entity not found in " + dir)
		return
	}
	for _, e := range h.entries {
		e.aid, e.iid = owner[e].ID, e.c.ID
		if e.aid == 0 || e.iid == 0 {
			r.Inconclusive("a characteristic has no id after NewIPTransport: " + e.s.Name)
			return
		}
	}
	r.Count("http_transports", 1)
	r.Count("http_accessories", len(accs)+1)
	r.Count("http_characteristics_in_database", len(h.entries))
	h.W = &ctl{name: "W", id: idW, a: a, acc: accEnt}
	h.S = &ctl{name: "S", id: idS, a: a, acc: accEnt}
	for _, k := range []*ctl{h.W, h.S} {
		if err := k.connect(); err != nil {
			r.Inconclusive("pair-verify of controller " + k.name + " failed: " + err.Error())
			return
		}
		defer func(k *ctl) { k.c.Close() }(k)
	}

	h.accessoriesCheck("before")
	for i, e := range h.entries {
		r.Distinct("http_perm_sets", e.p.String())
		r.Distinct("http_format_x_perms", e.c.Format+"/"+e.p.String())
		if e.s.GetFn {
			h.exerciseGetFn(e)
		} else {
			h.exercise(e, i)
		}
		if e.s.Kind == "synthetic" && done[e.s.Name] {
			synthCover[e.s.Format+"/"+e.p.String()] = true
		}
	}
	h.batchSubscribe()
	h.batchGets()
	h.accessoriesCheck("after")
	// no late EVENT for anything: one more fence
	if evs, ok := h.fence(); ok {
		for _, ce := range evs {
			for _, e := range h.entries {
				if ce.is(e.aid, e.iid) && !e.p.ev {
					violate("http:event:no-ev:event-delivered", fmt.Sprintf("an EVENT for %s (perms %v) reached the subscriber at the end of the run", e.where(), e.c.Perms), e.s.Name, e.witness(map[string]interface{}{"event_entry": ce}))
				}
			}
		}
	}

	if p := app.HTTPPanics(app.TakeStdLog()); len(p) > 0 {
		r.Count("http_handler_panics(C12/C13)", len(p))
		for _, x := range p {
			notePanic("http handler: " + vf.PanicSite(x.Stack, "brutella/hc"))
		}
	}
	if len(h.noValue) > 0 {
		r.Extra(fmt.Sprintf("no_changing_value_layout_%d", layoutNo), h.noValue)
	}
	if len(h.strays) > 0 {
		r.Extra(fmt.Sprintf("stray_events_layout_%d", layoutNo), h.strays)
	}
	if len(h.misses) > 0 {
		r.Extra(fmt.Sprintf("positive_control_misses_layout_%d", layoutNo), h.misses)
		r.Inconclusive(fmt.Sprintf("positive control failed %d time(s) in layout %d (C10 / C09 own the cause), first: %s: %s", h.missN, layoutNo, h.misses[0].Subject, h.misses[0].What))
	}
	r.Floor(fmt.Sprintf("http layout %d: ev characteristics that delivered exactly the expected EVENTs (positive control)", layoutNo), h.evOK, 50)
}

func httpPath(r *vf.Run, subjects []subject) {
	done := map[string]bool{}
	synthCover := map[string]bool{}
	layouts := r.Pick(1, 5)
	for k := 0; k < layouts; k++ {
		oneLayout(r, subjects, k, done, synthCover)
	}
	got := 0
	for _, n := range catalogNames() {
		if done[n] {
			got++
		}
	}
	r.Count("http_catalog_constructors_exercised", got)
	r.Floor("http: catalog constructors exercised", got, len(catalogNames()))
	r.Count("http_synthetic_format_x_permset", len(synthCover))
	r.Floor("http: synthetic format x permission subsets", len(synthCover), len(allFormats)*8)
	r.Floor("http: PUTs on characteristics without pw", int(r.Counter("http_puts_without_pw")), 100)
	r.Floor("http: subscription attempts on characteristics without ev", int(r.Counter("http_subscription_attempts_without_ev")), 30)
	r.Floor("http: fenced changes on characteristics without ev", int(r.Counter("http_fenced_changes_without_ev")), 30)
	r.Floor("http: subscription batches with entries for unknown ids in between", int(r.Counter("http_batch_entries_for_unknown_ids")), 20)
	r.Floor("http: positive control (a writable characteristic's callback fires)", int(r.Counter("http_control_writable_callback_fired")), 50)
	r.Floor("http: positive control (a readable characteristic's value is seen in GET)", int(r.Counter("http_control_readable_value_seen")), 50)
}

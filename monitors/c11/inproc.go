package main

import (
	"fmt"
	"math/rand"
	"sync/atomic"
	"time"

	"github.com/brutella/hc/characteristic"

	"verif/vf"
)

var peer = dummyConn{}

func describe(s subject, c *characteristic.Characteristic) map[string]interface{} {
	return map[string]interface{}{"kind": s.Kind, "format": c.Format, "perms": append([]string{}, c.Perms...), "type": c.Type,
		"min": show(c.MinValue), "max": show(c.MaxValue), "on_value_get_installed": s.GetFn}
}

// checkUnreadable: a characteristic without pr holds no value and shows none.
func checkUnreadable(path string, s subject, c *characteristic.Characteristic, history []string) {
	w := func() map[string]interface{} {
		return map[string]interface{}{"characteristic": describe(s, c), "history": append([]string{}, history...), "Value": show(c.Value)}
	}
	run.Count(path+"_unreadable_checks", 1)
	if c.Value != nil {
		violate(path+":read:no-pr:value-stored", fmt.Sprintf("a characteristic without pr holds Value %s after %s", show(c.Value), last(history)), s.Name, w())
	}
	m, err := jsonMembers(c)
	if err != nil {
		run.Count(path+"_json_marshal_errors(C12)", 1)
	} else if raw, ok := m["value"]; reveals(raw, ok) {
		wt := w()
		wt["json_value_member"] = string(raw)
		violate(path+":read:no-pr:value-revealed:json", fmt.Sprintf("json.Marshal of a characteristic without pr carries \"value\":%s after %s", trunc(string(raw), 60), last(history)), s.Name, wt)
	}
	var got interface{}
	if p, _ := vf.Recover(func() { got = c.GetValueFromConnection(peer) }); p {
		run.Count("skipped_due_to_panic", 1)
	} else if got != nil {
		wt := w()
		wt["returned"] = show(got)
		violate(path+":read:no-pr:value-revealed:get-from-connection", fmt.Sprintf("GetValueFromConnection of a characteristic without pr returns %s after %s", show(got), last(history)), s.Name, wt)
	}
	// the get function may have run: the invariant must still hold
	if c.Value != nil {
		violate(path+":read:no-pr:value-stored", fmt.Sprintf("a characteristic without pr holds Value %s after %s + a read", show(c.Value), last(history)), s.Name, w())
	}
}

func last(h []string) string {
	if len(h) == 0 {
		return "construction"
	}
	return h[len(h)-1]
}

func trunc(s string, n int) string {
	if len(s) > n {
		return s[:n] + "..."
	}
	return s
}

// remoteUpdate performs one UpdateValueFromConnection and checks it. false = panicked (case skipped).
func remoteUpdate(s subject, c *characteristic.Characteristic, rec *recorder, label string, v interface{}, history *[]string) bool {
	p := declared(c)
	before := fmt.Sprintf("%#v", c.Value)
	l0, r0 := rec.counts()
	step := "UpdateValueFromConnection(" + label + ")"
	run.Eval()
	run.Count("inproc_remote_updates", 1)
	if panicked, text := vf.Recover(func() { c.UpdateValueFromConnection(v, peer) }); panicked {
		run.Count("skipped_due_to_panic", 1)
		notePanic(vf.PanicSite(text, "brutella/hc"))
		return false
	}
	*history = append(*history, step)
	after := fmt.Sprintf("%#v", c.Value)
	l1, r1 := rec.counts()
	if !p.pw {
		run.Count("inproc_remote_updates_without_pw", 1)
		if after != before {
			violate("inproc:write:no-pw:value-changed", fmt.Sprintf("%s on a characteristic with perms %v changed Value from %s to %s", step, c.Perms, trunc(before, 60), trunc(after, 60)), s.Name,
				map[string]interface{}{"characteristic": describe(s, c), "history": append([]string{}, *history...), "written": show(v), "before": trunc(before, 200), "after": trunc(after, 200)})
		}
		if l1 != l0 || r1 != r0 {
			violate("inproc:write:no-pw:callback-fired", fmt.Sprintf("%s on a characteristic with perms %v invoked %d OnValueUpdate and %d OnValueUpdateFromConn callbacks: %s", step, c.Perms, l1-l0, r1-r0, trunc(rec.lastCall(), 120)), s.Name,
				map[string]interface{}{"characteristic": describe(s, c), "history": append([]string{}, *history...), "written": show(v), "local_callbacks": l1 - l0, "conn_callbacks": r1 - r0, "last_callback": rec.lastCall()})
		}
	} else if r1 > r0 {
		run.Count("inproc_control_writable_callback_fired", 1)
		if after != before {
			run.Count("inproc_control_writable_value_changed", 1)
		}
	}
	if !p.pr {
		checkUnreadable("inproc", s, c, *history)
	}
	return true
}

// localUpdate performs one UpdateValue. false = panicked.
func localUpdate(s subject, c *characteristic.Characteristic, label string, v interface{}, history *[]string) bool {
	p := declared(c)
	run.Eval()
	run.Count("inproc_local_updates", 1)
	if panicked, text := vf.Recover(func() { c.UpdateValue(v) }); panicked {
		run.Count("skipped_due_to_panic", 1)
		notePanic(vf.PanicSite(text, "brutella/hc"))
		return false
	}
	*history = append(*history, "UpdateValue("+label+")")
	if !p.pr {
		checkUnreadable("inproc", s, c, *history)
	}
	return true
}

// domainValues: the values a well-behaved controller would write to this very characteristic (every value of a
// small declared integer range, the bounds and their neighbours otherwise), as JSON numbers arrive (float64).
func domainValues(c *characteristic.Characteristic) []hostile {
	var out []hostile
	add := func(f float64) { out = append(out, hostile{fmt.Sprintf("in-domain %v", f), f, true}) }
	switch lo := c.MinValue.(type) {
	case int:
		if hi, ok := c.MaxValue.(int); ok && hi >= lo {
			if hi-lo <= 40 {
				for v := lo - 1; v <= hi+1; v++ {
					add(float64(v))
				}
			} else {
				for _, v := range []int{lo - 1, lo, lo + 1, (lo + hi) / 2, hi - 1, hi, hi + 1} {
					add(float64(v))
				}
			}
		}
	case float64:
		if hi, ok := c.MaxValue.(float64); ok && hi >= lo {
			st, _ := c.StepValue.(float64)
			if st <= 0 {
				st = 1
			}
			for _, v := range []float64{lo - st, lo, lo + st, (lo + hi) / 2, hi - st, hi, hi + st} {
				add(v)
			}
		}
	}
	return out
}

func inproc(r *vf.Run, subjects []subject) {
	rnd := r.Rand("inproc")
	values := hostileValues(rnd, r.Pick(0, 120))
	r.Count("hostile_values", len(values))
	exercised := map[string]bool{}
	synthCover := map[string]bool{}
	for si, s := range subjects {
		c0 := s.make()
		if c0 == nil {
			r.Count("constructors_unusable(C15)", 1)
			continue
		}
		p := declared(c0)
		r.Distinct("inproc_perm_sets", p.String())
		r.Distinct("inproc_format_x_perms", c0.Format+"/"+p.String())
		if s.Kind == "synthetic" {
			synthCover[s.Format+"/"+p.String()] = true
		}
		// the constructor itself (catalog) / the application's SetValue (synthetic) is a local update
		if !p.pr {
			checkUnreadable("inproc", s, c0, nil)
		}
		subjValues := append(append([]hostile{}, values...), domainValues(c0)...)
		for vi, hv := range subjValues {
			for state := 0; state < 2; state++ {
				c := s.make()
				rec := instrument(c)
				var history []string
				if state == 1 {
					lv, ok := goodValue(c, rnd, fmt.Sprintf("%#v", c.Value))
					if !ok {
						continue
					}
					if !localUpdate(s, c, show(lv), lv, &history) {
						continue
					}
				}
				if !remoteUpdate(s, c, rec, hv.Label, hv.V, &history) {
					continue
				}
				if !p.pw || !p.pr {
					r.Nontrivial(fmt.Sprintf("inproc|%s|%s|%d", s.Name, hv.Label, state))
				}
				if si%97 == 0 && vi == 3 && state == 0 {
					r.Sample(map[string]interface{}{"path": "inproc", "subject": s.Name, "perms": c.Perms, "format": c.Format, "written": hv.Label,
						"value_after": show(c.Value), "callbacks": rec.lastCall()})
				}
			}
		}
		if !p.pw || !p.pr {
			overlappedWrite(s, rnd)
		}
		exercised[s.Name] = true

		// sequences on one object
		nseq := r.Pick(40, 1200)
		for q := 0; q < nseq; q++ {
			sr := rand.New(rand.NewSource(r.Seed*7919 + int64(si)*100003 + int64(q)))
			c := s.make()
			rec := instrument(c)
			var history []string
			n := 2 + sr.Intn(7)
			for k := 0; k < n; k++ {
				ok := true
				switch sr.Intn(6) {
				case 0:
					if lv, has := goodValue(c, sr, fmt.Sprintf("%#v", c.Value)); has {
						ok = localUpdate(s, c, show(lv), lv, &history)
					}
				case 1:
					hv := values[sr.Intn(len(values))]
					ok = localUpdate(s, c, hv.Label, hv.V, &history)
				case 2, 3:
					hv := values[sr.Intn(len(values))]
					ok = remoteUpdate(s, c, rec, hv.Label, hv.V, &history)
				case 4:
					if lv, has := goodValue(c, sr, fmt.Sprintf("%#v", c.Value)); has {
						ok = remoteUpdate(s, c, rec, show(lv), lv, &history)
					}
				default:
					r.Eval()
					history = append(history, "GetValueFromConnection")
					if panicked, _ := vf.Recover(func() { c.GetValueFromConnection(peer) }); panicked {
						r.Count("skipped_due_to_panic", 1)
						ok = false
					} else if !p.pr {
						checkUnreadable("inproc", s, c, history)
					}
				}
				if !ok {
					break // the object may be half-updated: C12's business, start a new sequence
				}
			}
			if !p.pr {
				// an update whose callbacks panic (the application's own fault, recovered by whoever called): afterwards the
				// characteristic is as empty as before
				if lv, has := goodValue(c, sr, fmt.Sprintf("%#v", c.Value)); has {
					atomic.StoreInt32(&panicInCallbacks, 1)
					vf.Recover(func() { c.UpdateValue(lv) })
					vf.Recover(func() { c.UpdateValueFromConnection(lv, peer) })
					atomic.StoreInt32(&panicInCallbacks, 0)
					r.Count("updates_whose_callbacks_panicked_on_characteristics_without_pr", 1)
					checkUnreadable("inproc", s, c, append(append([]string{}, history...), "an update whose callback panicked"))
				}
			}
			if !p.pw || !p.pr {
				r.Nontrivial(fmt.Sprintf("inproc-seq|%s|%d", s.Name, q))
			}
			r.Count("inproc_sequences", 1)
		}
	}
	// coverage floors
	got := 0
	for _, c := range catalogNames() {
		if exercised[c] {
			got++
		}
	}
	r.Count("inproc_catalog_constructors_exercised", got)
	r.Floor("inproc: catalog constructors exercised", got, len(catalogNames()))
	r.Count("inproc_synthetic_format_x_permset", len(synthCover))
	r.Floor("inproc: synthetic format x permission subsets", len(synthCover), len(allFormats)*8)
	r.Floor("inproc: remote updates on characteristics without pw", int(r.Counter("inproc_remote_updates_without_pw")), 1000)
	r.Floor("inproc: remote writes overlapping a local update", int(r.Counter("inproc_remote_writes_overlapping_a_local_update")), 40)
	r.Floor("inproc: checks on characteristics without pr", int(r.Counter("inproc_unreadable_checks")), 1000)
	r.Floor("inproc: positive control (a writable characteristic's callback fires)", int(r.Counter("inproc_control_writable_callback_fired")), 100)
}

// overlappedWrite: a remote write arrives while the application is INSIDE an update of the same characteristic (a slow
// OnValueUpdate callback of a local SetValue; hc calls the callbacks on the updating goroutine), once from another
// goroutine and once from inside the callback itself.  Whatever the library does to cope with updates that overlap or
// nest, a characteristic without pw keeps its value and its remote callbacks stay silent.
func overlappedWrite(s subject, rnd *rand.Rand) {
	c := s.make()
	if c == nil {
		return
	}
	p := declared(c)
	rec := instrument(c)
	lv, ok := goodValue(c, rnd, fmt.Sprintf("%#v", c.Value))
	if !ok {
		return
	}
	entered, release := make(chan struct{}), make(chan struct{})
	nested := make(chan [2]string, 1)
	rv1, ok1 := goodValue(c, rnd, fmt.Sprintf("%#v", lv), fmt.Sprintf("%#v", c.Value))
	rv2, ok2 := goodValue(c, rnd, fmt.Sprintf("%#v", lv), fmt.Sprintf("%#v", c.Value), fmt.Sprintf("%#v", rv1))
	if !ok1 {
		return
	}
	if !ok2 {
		rv2 = rv1
	}
	first := true
	c.OnValueUpdate(func(*characteristic.Characteristic, interface{}, interface{}) {
		if !first {
			return
		}
		first = false
		close(entered)
		<-release
		// nested: the callback itself passes on a remote value (an application that mirrors one characteristic into another
		// may end up here)
		b := fmt.Sprintf("%#v", c.Value)
		vf.Recover(func() { c.UpdateValueFromConnection(rv2, peer) })
		nested <- [2]string{b, fmt.Sprintf("%#v", c.Value)}
	})
	done := make(chan struct{})
	go func() {
		defer close(done)
		vf.Recover(func() { c.UpdateValue(lv) })
	}()
	select {
	case <-entered:
	case <-done:
		return // the local value did not change anything: nothing overlaps
	case <-time.After(5 * time.Second):
		return
	}
	run.Eval()
	run.Count("inproc_remote_writes_overlapping_a_local_update", 1)
	before := fmt.Sprintf("%#v", c.Value)
	_, r0 := rec.counts()
	vf.Recover(func() { c.UpdateValueFromConnection(rv1, peer) })
	after := fmt.Sprintf("%#v", c.Value)
	close(release)
	var nb [2]string
	select {
	case nb = <-nested:
	case <-time.After(5 * time.Second):
	}
	<-done
	_, r1 := rec.counts()
	hist := []string{"UpdateValue(" + show(lv) + ") — its OnValueUpdate callback is still running", "UpdateValueFromConnection(" + show(rv1) + ") from another goroutine",
		"UpdateValueFromConnection(" + show(rv2) + ") from inside the callback"}
	if !p.pw {
		if after != before {
			violate("inproc:write:no-pw:value-changed:overlapping-update", fmt.Sprintf("a remote write that arrives while a local update of the same characteristic (perms %v) is in its callback changed Value from %s to %s", c.Perms, trunc(before, 60), trunc(after, 60)), s.Name,
				map[string]interface{}{"characteristic": describe(s, c), "history": hist[:2], "before": trunc(before, 200), "after": trunc(after, 200)})
		}
		if nb[0] != nb[1] {
			violate("inproc:write:no-pw:value-changed:nested-update", fmt.Sprintf("a remote write made from inside an update callback of the same characteristic (perms %v) changed Value from %s to %s", c.Perms, trunc(nb[0], 60), trunc(nb[1], 60)), s.Name,
				map[string]interface{}{"characteristic": describe(s, c), "history": hist, "before": trunc(nb[0], 200), "after": trunc(nb[1], 200)})
		}
		if r1 != r0 {
			violate("inproc:write:no-pw:callback-fired:overlapping-update", fmt.Sprintf("remote writes overlapping / nested in a local update of a characteristic with perms %v invoked %d OnValueUpdateFromConn callbacks", c.Perms, r1-r0), s.Name,
				map[string]interface{}{"characteristic": describe(s, c), "history": hist})
		}
	}
	if !p.pr {
		checkUnreadable("inproc", s, c, hist)
	}
}

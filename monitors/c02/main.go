// C02 — pair-setup stores a controller key only after a valid setup-code proof.
//
// The monitor plays the controller with refctl and therefore knows, for every message it builds, whether the
// connection has proved knowledge of the setup code in the exchange opened by the last accepted start.  After
// EVERY message the set of stored entities is compared with the previous snapshot:
//
//	db changed  =>  the message is a key-exchange sealed under the key of a proved exchange on this connection,
//	                correctly signed, and the only change is the new entity (name, ltpk) of that message.
//
// Harness (i): pair.SetupServerController.Handle in-process, one or two controllers sharing one database.
// Harness (ii): the same alphabet over /pair-setup on a real transport.
package main

import (
	"bytes"
	"crypto/ed25519"
	crand "crypto/rand"
	"encoding/hex"
	"fmt"
	"math/big"
	"math/rand"
	"os"
	"sort"
	"strings"
	"time"

	"github.com/brutella/hc/accessory"
	"github.com/brutella/hc/db"
	"github.com/brutella/hc/hap"
	"github.com/brutella/hc/hap/pair"
	"github.com/brutella/hc/util"

	"verif/harness/app"
	"verif/refctl"
	"verif/vf"
)

var run *vf.Run

type symbol struct {
	Kind string `json:"kind"` // start | verify | exchange | step | method | admin
	Var  string `json:"variant"`
}

// A variant that ends in "!entropy": while the accessory handles this message its entropy source fails (crypto/rand.Reader,
// the process-wide source every Go package draws from, returns an error): in-process harness only.
const entropyFault = "!entropy"

type failingEntropy struct{}

func (failingEntropy) Read(p []byte) (int, error) {
	return 0, fmt.Errorf("entropy source failed (injected)")
}

var alphabet = []symbol{
	{"start", ""},
	{"verify", "right"}, {"verify", "wrong-proof"}, {"verify", "A=0"}, {"verify", "A=N"}, {"verify", "A=2N"}, {"verify", "A-missing"}, {"verify", "proof-missing"},
	{"verify", "replay-recorded"}, {"verify", "A=0+proof-over-empty-key"}, {"verify", "A=N+proof-over-empty-key"}, {"verify", "A-missing+proof-over-empty-key"},
	{"exchange", "genuine"}, {"exchange", "tampered-ciphertext"}, {"exchange", "tampered-tag"}, {"exchange", "short"}, {"exchange", "replay"},
	{"exchange", "zero-key"}, {"exchange", "hkdf-of-empty-secret"}, {"exchange", "random-key"}, {"exchange", "signed-by-other-key"},
	{"exchange", "permuted-material"}, {"exchange", "name-swapped"}, {"exchange", "key-swapped"},
	// the NAME of a controller that is stored already, a NEW key, signed with the STORED controller's key (not with the key
	// that is delivered): nobody proved to own the delivered key
	{"exchange", "stored-name-new-key-signed-by-stored-key"},
	// genuine in every respect, but sealed under the key of the PREVIOUS exchange of this connection (one that was proved
	// and then abandoned by a new start): the proof belongs to another exchange
	{"exchange", "genuine-for-the-previous-exchange"},
	// what a peer without the code can compute when the accessory's session holds a secret of N zero bytes (a buffer that was
	// allocated and never filled): sealed under the all-zero key or under the key derived from that secret, signed over it
	{"exchange", "zero-key+secret-of-32-zero-bytes"}, {"exchange", "zero-key+secret-of-64-zero-bytes"}, {"exchange", "zero-key+secret-of-384-zero-bytes"},
	{"exchange", "hkdf-of-32-zero-bytes"}, {"exchange", "hkdf-of-64-zero-bytes"}, {"exchange", "hkdf-of-384-zero-bytes"},
	{"step", "0"}, {"step", "7"}, {"step", "255"}, {"method", "1"}, {"method", "3"}, {"method", "4"},
	// a complete, consistent SRP run with a password anybody can know (see publicGuesses); the key exchange that follows is
	// sealed under the key of THAT run
	{"verify", "guess:accessory-id"}, {"verify", "guess:accessory-name"}, {"verify", "guess:empty"}, {"verify", "guess:srp-user"}, {"verify", "guess:code-digits"}, {"verify", "guess:library-default"},
}

var guessNames = []string{"accessory-id", "accessory-name", "empty", "srp-user", "code-digits", "library-default"}

// publicGuesses are passwords a peer WITHOUT the setup code can try: what the accessory advertises (its id, its name),
// the fixed SRP user name, the empty string, the code's digits without the dashes (not the code: hc's SRP password is
// XXX-XX-XXX) and the default pin of the library's examples.
func publicGuesses(code, accID, accName string) map[string]string {
	g := map[string]string{"accessory-id": accID, "accessory-name": accName, "empty": "", "srp-user": "Pair-Setup",
		"code-digits": strings.Replace(code, "-", "", -1), "library-default": "001-02-003"}
	for k, v := range g {
		if v == code {
			g[k] = "not-" + v
		}
	}
	return g
}

// short alphabet for the exhaustive part (16 symbols as in DESIGN)
var coreAlphabet = []symbol{
	{"start", ""}, {"verify", "right"}, {"verify", "wrong-proof"}, {"verify", "A=0"}, {"verify", "A=N"}, {"verify", "A-missing"},
	{"exchange", "genuine"}, {"exchange", "tampered-tag"}, {"exchange", "short"}, {"exchange", "replay"}, {"exchange", "zero-key"},
	{"exchange", "hkdf-of-empty-secret"}, {"exchange", "random-key"}, {"exchange", "signed-by-other-key"}, {"step", "7"}, {"method", "1"},
}

// peer is the controller-side state of one connection.
type peer struct {
	salt, B []byte // from the last accepted start
	started bool
	srp     *refctl.SRPClient // computed for (salt, B) with the right code
	proofOK bool              // the accessory answered our right proof with a valid server proof, since the last accepted start
	prevSrp *refctl.SRPClient // the proved run of the exchange BEFORE the last accepted start (nil when that one was not proved)
	me      *refctl.Identity
}

type world struct {
	code                    string
	rnd                     *rand.Rand
	lastGood                []byte // a genuine M5 of an earlier, completed exchange
	recordedM3              []byte // the last verify message with a right proof (recorded on any connection, e.g. by an eavesdropper)
	lastStored              string // name of the controller stored by the last legitimate key exchange
	recordedOn              *peer  // the connection the recorded verify message was sent on
	recordedSalt, recordedB []byte
	recordedSrp             *refctl.SRPClient
	lastGoodName            string
	lastGoodLTPK, lastGoodK []byte
	fixedConns              []int             // when set: the connection of each step (targeted histories)
	expect                  map[string][]byte // model of stored controllers: name -> ltpk
	lastIdentity            *refctl.Identity  // the controller stored by the last legitimate key exchange (name, key pair)
	public                  map[string]string // see publicGuesses
	storedNow               map[string][]byte // the snapshot before the message that is being built
	intruders               int
}

// transport abstracts "send a pair-setup message on connection i and get the answer".
type transport interface {
	send(conn int, msg []byte) (status int, body []byte, dropped bool)
	entities() (map[string][]byte, error) // stored controller entities name -> ltpk (the accessory's own entity excluded)
	remove(name string)                   // delete a stored controller (admin action of the monitor)
}

func bigBytes(x *big.Int) []byte { return x.Bytes() }

type built struct {
	msg []byte
	// for exchange messages: is it fully legitimate (sealed under the proved key, right signature)?
	legit bool
	name  string
	ltpk  []byte
	// verify: was the right proof sent?
	rightProof bool
}

func build(w *world, p *peer, s symbol) built {
	N := refctl.SRPPrime()
	switch s.Kind {
	case "start":
		return built{msg: refctl.SetupM1()}
	case "step":
		var v byte
		fmt.Sscan(s.Var, &v)
		e := &refctl.Enc{}
		return built{msg: e.Byte(refctl.TagState, v).B}
	case "method":
		var v byte
		fmt.Sscan(s.Var, &v)
		e := &refctl.Enc{}
		return built{msg: e.Byte(refctl.TagState, 1).Byte(refctl.TagMethod, v).B}
	case "verify":
		// SRP numbers against the last accepted start (or made-up ones when there was none)
		salt, B := p.salt, p.B
		if !p.started {
			salt = make([]byte, 16)
			w.rnd.Read(salt)
			B = new(big.Int).Exp(big.NewInt(5), big.NewInt(int64(3+w.rnd.Intn(1000))), N).Bytes()
		}
		cl := refctl.NewSRPClient(w.rnd)
		code := w.code
		if s.Var == "wrong-proof" {
			code = "999-99-998"
			if code == w.code {
				code = "999-99-997"
			}
		}
		if strings.HasPrefix(s.Var, "guess:") {
			code = w.public[s.Var[6:]]
		}
		if err := cl.Compute(salt, B, code); err != nil {
			return built{msg: refctl.SetupM3(cl.Abytes, make([]byte, 64))}
		}
		if strings.HasPrefix(s.Var, "guess:") {
			// the peer keeps the key of its own run: a following key exchange is sealed under it (not a proof of the code)
			if p.started {
				p.srp = cl
			}
			run.Count("verify_with_public_guess", 1)
			return built{msg: refctl.SetupM3(cl.Abytes, cl.M1)}
		}
		switch s.Var {
		case "replay-recorded":
			// a verify message recorded from an earlier exchange (this or another connection): NOT a proof of knowledge
			if w.recordedM3 != nil {
				// On the connection it was recorded on, and against the very same (salt, B), the recorded message IS
				// the peer's own earlier proof (hc keeps one SRP session per connection): that is the same peer
				// proving the same thing again, not a replay by somebody else.
				if w.recordedOn == p && p.started && bytes.Equal(p.salt, w.recordedSalt) && bytes.Equal(p.B, w.recordedB) {
					p.srp = w.recordedSrp
					return built{msg: w.recordedM3, rightProof: true}
				}
				return built{msg: w.recordedM3}
			}
			return built{msg: refctl.SetupM3(cl.Abytes, make([]byte, 64))}
		case "right":
			if p.started {
				p.srp = cl
			}
			m := refctl.SetupM3(cl.Abytes, cl.M1)
			if p.started {
				w.recordedM3, w.recordedOn, w.recordedSalt, w.recordedB, w.recordedSrp = m, p, p.salt, p.B, cl
			}
			return built{msg: m, rightProof: p.started}
		case "wrong-proof":
			return built{msg: refctl.SetupM3(cl.Abytes, cl.M1)}
		case "A=0+proof-over-empty-key", "A=N+proof-over-empty-key", "A-missing+proof-over-empty-key":
			// what a peer without the code can compute when the accessory's SRP session has no key at all:
			// the proof over an EMPTY session key (big-endian A exactly as the library hashes it: minimal bytes)
			var A, hashed []byte
			switch s.Var {
			case "A=0+proof-over-empty-key":
				A, hashed = []byte{0}, nil
			case "A=N+proof-over-empty-key":
				A, hashed = N.Bytes(), N.Bytes()
			}
			proof := refctl.ProofM1(salt, hashed, new(big.Int).SetBytes(B).Bytes(), nil)
			if s.Var == "A-missing+proof-over-empty-key" {
				e := &refctl.Enc{}
				return built{msg: e.Byte(refctl.TagState, 3).Bytes(refctl.TagProof, proof).B}
			}
			return built{msg: refctl.SetupM3(A, proof)}
		case "A=0":
			return built{msg: refctl.SetupM3([]byte{0}, cl.M1)}
		case "A=N":
			return built{msg: refctl.SetupM3(N.Bytes(), cl.M1)}
		case "A=2N":
			return built{msg: refctl.SetupM3(new(big.Int).Lsh(N, 1).Bytes(), cl.M1)}
		case "A-missing":
			e := &refctl.Enc{}
			return built{msg: e.Byte(refctl.TagState, 3).Bytes(refctl.TagProof, cl.M1).B}
		case "proof-missing":
			e := &refctl.Enc{}
			return built{msg: e.Byte(refctl.TagState, 3).Bytes(refctl.TagPublicKey, cl.Abytes).B}
		}
	case "exchange":
		// the key material the peer claims
		K := make([]byte, 64)
		w.rnd.Read(K)
		proved := p.proofOK && p.srp != nil
		if p.srp != nil && p.srp.K != nil {
			K = p.srp.K
		}
		me := p.me
		if _, in := w.storedNow[me.ID]; in && s.Var != "genuine" && s.Var != "replay" {
			// the peer's own pairing is stored already: storing the very same (name, key) again would not be observable,
			// so a forged exchange presents a new identity
			w.intruders++
			me = refctl.NewIdentity(fmt.Sprintf("intruder-%d-%s", w.intruders, p.me.ID), w.rnd)
			run.Count("forged_exchanges_with_a_new_identity_after_a_store", 1)
		}
		encKey := refctl.SetupEncKey(K)
		sub := refctl.SetupM5Plain(K, me.ID, me.LTPK, me.LTSK)
		b := built{name: me.ID, ltpk: me.LTPK}
		switch s.Var {
		case "genuine":
			b.msg = refctl.SetupM5(encKey, sub)
			b.legit = proved
			return b
		case "tampered-ciphertext":
			sealed := refctl.Seal(encKey, []byte("PS-Msg05"), sub, nil)
			sealed[w.rnd.Intn(len(sealed)-16)] ^= 0x40
			b.msg = refctl.SetupM5Raw(sealed)
			return b
		case "tampered-tag":
			sealed := refctl.Seal(encKey, []byte("PS-Msg05"), sub, nil)
			sealed[len(sealed)-1-w.rnd.Intn(16)] ^= 0x01
			b.msg = refctl.SetupM5Raw(sealed)
			return b
		case "short":
			d := make([]byte, w.rnd.Intn(16))
			w.rnd.Read(d)
			b.msg = refctl.SetupM5Raw(d)
			return b
		case "replay":
			if w.lastGood != nil {
				b.msg = w.lastGood
				b.name, b.ltpk = w.lastGoodName, w.lastGoodLTPK
				// genuine again only if this connection proved the very same exchange key (possible on the connection
				// the message was recorded on, which keeps its SRP session)
				b.legit = proved && bytes.Equal(w.lastGoodK, p.srp.K)
				return b
			}
			b.msg = refctl.SetupM5Raw(make([]byte, 60))
			return b
		case "zero-key":
			// everything a peer WITHOUT the code can compute: all-zero session key, signature over HKDF(empty secret)
			b.msg = refctl.SetupM5([32]byte{}, refctl.SetupM5Plain(nil, me.ID, me.LTPK, me.LTSK))
			return b
		case "hkdf-of-empty-secret":
			b.msg = refctl.SetupM5(refctl.SetupEncKey(nil), refctl.SetupM5Plain(nil, me.ID, me.LTPK, me.LTSK))
			return b
		case "random-key":
			var k [32]byte
			w.rnd.Read(k[:])
			b.msg = refctl.SetupM5(k, sub)
			return b
		case "signed-by-other-key":
			other := refctl.NewIdentity("x", w.rnd)
			b.msg = refctl.SetupM5(encKey, refctl.SetupM5Plain(K, me.ID, me.LTPK, other.LTSK))
			return b
		case "permuted-material":
			x := refctl.HKDF512(K, "Pair-Setup-Controller-Sign-Salt", "Pair-Setup-Controller-Sign-Info")
			info := append(append(append([]byte{}, []byte(me.ID)...), x[:]...), me.LTPK...)
			e := &refctl.Enc{}
			b.msg = refctl.SetupM5(encKey, e.Bytes(refctl.TagIdentifier, []byte(me.ID)).Bytes(refctl.TagPublicKey, me.LTPK).Bytes(refctl.TagSignature, ed25519.Sign(me.LTSK, info)).B)
			return b
		case "name-swapped":
			// signature made for name X, message names Y
			x := refctl.HKDF512(K, "Pair-Setup-Controller-Sign-Salt", "Pair-Setup-Controller-Sign-Info")
			info := append(append(append([]byte{}, x[:]...), []byte(me.ID)...), me.LTPK...)
			e := &refctl.Enc{}
			b.name = "admin-" + me.ID
			b.msg = refctl.SetupM5(encKey, e.Bytes(refctl.TagIdentifier, []byte(b.name)).Bytes(refctl.TagPublicKey, me.LTPK).Bytes(refctl.TagSignature, ed25519.Sign(me.LTSK, info)).B)
			return b
		case "zero-key+secret-of-32-zero-bytes", "zero-key+secret-of-64-zero-bytes", "zero-key+secret-of-384-zero-bytes", "hkdf-of-32-zero-bytes", "hkdf-of-64-zero-bytes", "hkdf-of-384-zero-bytes":
			n := 0
			fmt.Sscanf(s.Var[strings.Index(s.Var, "of-")+3:], "%d", &n)
			guess := make([]byte, n)
			key := [32]byte{}
			if strings.HasPrefix(s.Var, "hkdf") {
				key = refctl.SetupEncKey(guess)
			}
			b.msg = refctl.SetupM5(key, refctl.SetupM5Plain(guess, me.ID, me.LTPK, me.LTSK))
			return b
		case "genuine-for-the-previous-exchange":
			pk := make([]byte, 64) // (no previous proved exchange: a key nobody agreed on)
			w.rnd.Read(pk)
			if p.prevSrp != nil && p.prevSrp.K != nil {
				pk = p.prevSrp.K
				run.Count("exchanges_sealed_under_the_key_of_the_previous_proved_exchange", 1)
			}
			b.msg = refctl.SetupM5(refctl.SetupEncKey(pk), refctl.SetupM5Plain(pk, me.ID, me.LTPK, me.LTSK))
			return b
		case "stored-name-new-key-signed-by-stored-key":
			old := w.lastIdentity
			if old == nil {
				old = p.me
			}
			if _, in := w.storedNow[old.ID]; !in {
				old = p.me
			}
			nw := refctl.NewIdentity(old.ID, w.rnd)
			x := refctl.HKDF512(K, "Pair-Setup-Controller-Sign-Salt", "Pair-Setup-Controller-Sign-Info")
			info := append(append(append([]byte{}, x[:]...), []byte(nw.ID)...), nw.LTPK...)
			e := &refctl.Enc{}
			b.name, b.ltpk = nw.ID, nw.LTPK
			b.msg = refctl.SetupM5(encKey, e.Bytes(refctl.TagIdentifier, []byte(nw.ID)).Bytes(refctl.TagPublicKey, nw.LTPK).Bytes(refctl.TagSignature, ed25519.Sign(old.LTSK, info)).B)
			run.Count("exchanges_for_a_stored_name_with_a_new_key_signed_by_the_stored_key", 1)
			return b
		case "key-swapped":
			other := refctl.NewIdentity("x", w.rnd)
			x := refctl.HKDF512(K, "Pair-Setup-Controller-Sign-Salt", "Pair-Setup-Controller-Sign-Info")
			info := append(append(append([]byte{}, x[:]...), []byte(me.ID)...), me.LTPK...)
			e := &refctl.Enc{}
			b.ltpk = other.LTPK
			b.msg = refctl.SetupM5(encKey, e.Bytes(refctl.TagIdentifier, []byte(me.ID)).Bytes(refctl.TagPublicKey, other.LTPK).Bytes(refctl.TagSignature, ed25519.Sign(me.LTSK, info)).B)
			return b
		}
	}
	panic(fmt.Sprint("unknown symbol ", s))
}

// applyResponse updates the controller-side state from the accessory's answer.
func applyResponse(w *world, p *peer, s symbol, b built, status int, body []byte, dropped bool) {
	// whatever the answer: a start sent after a proved run makes that run "the previous exchange"
	if s.Kind == "start" && p.proofOK && p.srp != nil {
		p.prevSrp = p.srp
	}
	if dropped || status != 200 {
		return
	}
	t, err := refctl.ParseTLV(body)
	if err != nil {
		return
	}
	_, isErr := t.Get(refctl.TagError)
	st, _ := t.Byte(refctl.TagState)
	switch s.Kind {
	case "start":
		if st == 2 && !isErr {
			salt, _ := t.Get(refctl.TagSalt)
			B, _ := t.Get(refctl.TagPublicKey)
			if len(salt) > 0 && len(B) > 0 {
				p.salt, p.B, p.started = salt, B, true
				p.proofOK = false
				p.srp = nil
			}
		}
	case "verify":
		if b.rightProof && st == 4 && !isErr && p.srp != nil {
			if m2, ok := t.Get(refctl.TagProof); ok && p.srp.CheckM2(m2) {
				p.proofOK = true
			}
		}
	}
}

func describe(m map[string][]byte) []string {
	var out []string
	for k, v := range m {
		out = append(out, fmt.Sprintf("%q:%x", k, v[:min(4, len(v))]))
	}
	sort.Strings(out)
	return out
}

func runHistory(hno int, tr transport, w *world, seq []symbol, nconn int, harness string) {
	run.Eval()
	peers := make([]*peer, nconn)
	for i := range peers {
		// every fifth name ends in bytes a text routine would strip (NUL, blank, line break) or starts with a blank: the
		// name that is stored is the name that was delivered and signed, byte for byte
		tail := ""
		if (hno+i)%5 == 3 {
			tail = []string{"\x00", "\x00\x00", " ", "\n", "\r\n", "\t"}[(hno/5+i)%6]
			run.Count("controller_names_with_a_tail_a_text_routine_would_strip", 1)
		}
		peers[i] = &peer{me: refctl.NewIdentity(fmt.Sprintf("ctl-%d-%d-%s%s", hno, i, strings.Repeat("x", w.rnd.Intn(20)), tail), w.rnd)}
	}
	prev, err := tr.entities()
	if err != nil {
		run.Inconclusive("cannot read stored entities: " + err.Error())
		return
	}
	var trace []map[string]interface{}
	for step, s := range seq {
		ci := 0
		if nconn > 1 && w.rnd.Intn(2) == 0 {
			ci = 1
		}
		if step < len(w.fixedConns) {
			ci = w.fixedConns[step]
		}
		p := peers[ci]
		if s.Kind == "admin" {
			// the monitor itself removes the controller stored last (what an admin controller's "remove pairing" does);
			// the snapshot is refreshed, this is not a message of the peer
			if w.lastStored != "" {
				tr.remove(w.lastStored)
				run.Count("admin_removals", 1)
			}
			prev, _ = tr.entities()
			trace = append(trace, map[string]interface{}{"step": step, "admin": "removed pairing " + w.lastStored})
			continue
		}
		w.storedNow = prev
		fault := strings.HasSuffix(s.Var, entropyFault)
		b := build(w, p, symbol{s.Kind, strings.TrimSuffix(s.Var, entropyFault)})
		var status int
		var body []byte
		var dropped bool
		if fault && harness == "inproc" {
			good := crand.Reader
			crand.Reader = failingEntropy{}
			status, body, dropped = tr.send(ci, b.msg)
			crand.Reader = good
			run.Count("messages_handled_while_the_entropy_source_fails", 1)
		} else {
			status, body, dropped = tr.send(ci, b.msg)
		}
		run.Count(harness+"_messages", 1)
		state := "fresh"
		if p.started {
			state = "started"
		}
		if p.proofOK {
			state = "proved"
		}
		run.Distinct("(state,symbol)", harness+"/"+state+"/"+s.Kind+":"+s.Var)
		applyResponse(w, p, s, b, status, body, dropped)
		now, err := tr.entities()
		trace = append(trace, map[string]interface{}{"step": step, "conn": ci, "symbol": s, "legit": b.legit, "status": status, "response": vf.Hex(body), "dropped_or_panicked": dropped})
		wit := func() map[string]interface{} {
			return map[string]interface{}{"harness": harness, "history": hno, "setup_code": w.code, "connections": nconn, "trace": trace, "stored_before": describe(prev), "stored_after": describe(now)}
		}
		if err != nil {
			run.Violation(harness+":"+s.Kind+":"+s.Var+":stored-entities-unreadable", "after the message the stored entities cannot be read: "+err.Error(), wit())
			return
		}
		// compare snapshots
		var added, removed, changed []string
		for k, v := range now {
			if pv, ok := prev[k]; !ok {
				added = append(added, k)
			} else if !bytes.Equal(pv, v) {
				changed = append(changed, k)
			}
		}
		for k := range prev {
			if _, ok := now[k]; !ok {
				removed = append(removed, k)
			}
		}
		if len(added)+len(removed)+len(changed) > 0 {
			run.Count("stores_observed", 1)
			ok := s.Kind == "exchange" && b.legit && len(removed) == 0 &&
				((len(added) == 1 && len(changed) == 0 && added[0] == b.name) || (len(added) == 0 && len(changed) == 1 && changed[0] == b.name)) &&
				bytes.Equal(now[b.name], b.ltpk)
			if !ok {
				run.Violation(harness+":"+s.Kind+":"+s.Var+":stored-without-proof",
					fmt.Sprintf("the set of stored pairings changed (added %q changed %q removed %q) by a %s[%s] message that is not a genuine key exchange of a proved exchange (proof_ok=%v)", added, changed, removed, s.Kind, s.Var, p.proofOK), wit())
				return
			}
			run.Count("legitimate_stores", 1)
			w.lastGood = b.msg
			w.lastStored = b.name
			if b.name == p.me.ID && bytes.Equal(b.ltpk, p.me.LTPK) {
				w.lastIdentity = p.me
			}
			w.lastGoodName, w.lastGoodLTPK = b.name, b.ltpk
			if p.srp != nil {
				w.lastGoodK = p.srp.K
			}
		} else if s.Kind == "exchange" && b.legit && !dropped {
			run.Count("legit_exchange_not_stored(C04's business)", 1)
		}
		if s.Kind == "exchange" {
			// hc never returns to "waiting" after a key exchange: the connection's exchange is over
			p.proofOK = false
		}
		prev = now
	}
	run.SampleAt(hno, func() interface{} {
		return map[string]interface{}{"harness": harness, "sequence": seq, "connections": nconn}
	})
}

// ---------------------------------------------------------------- harness (i): in-process

type inproc struct {
	dir   string
	db    db.Database
	ctrls []*pair.SetupServerController
	own   string
}

func newInproc(code string, nconn int) (*inproc, error) {
	dir := app.ScratchDir(run.WorkDir(), "db")
	database, err := db.NewDatabase(dir)
	if err != nil {
		return nil, err
	}
	dev, err := hap.NewSecuredDevice("AC:CE:55:0R:1D:02", code, database)
	if err != nil {
		return nil, err
	}
	ip := &inproc{dir: dir, db: database, own: dev.Name()}
	for i := 0; i < nconn; i++ {
		c, err := pair.NewSetupServerController(dev, database)
		if err != nil {
			return nil, err
		}
		ip.ctrls = append(ip.ctrls, c)
	}
	return ip, nil
}

func (ip *inproc) send(conn int, msg []byte) (int, []byte, bool) {
	var out util.Container
	var err error
	panicked, _ := vf.Recover(func() {
		var in util.Container
		in, err = util.NewTLV8ContainerFromReader(bytes.NewReader(msg))
		if err == nil {
			out, err = ip.ctrls[conn].Handle(in)
		}
	})
	if panicked {
		run.Count("handler_panics_left_to_C13", 1)
		return 0, nil, true
	}
	if err != nil || out == nil {
		return 500, nil, false
	}
	return 200, out.BytesBuffer().Bytes(), false
}

func (ip *inproc) entities() (map[string][]byte, error) { return storedControllers(ip.dir) }
func (ip *inproc) remove(name string)                   { ip.db.DeleteEntity(db.NewEntity(name, nil, nil)) }

func storedControllers(dir string) (map[string][]byte, error) {
	es, err := app.Entities(dir)
	if err != nil {
		return nil, err
	}
	out := map[string][]byte{}
	for _, e := range es {
		if len(e.PrivateKey) > 0 {
			continue
		}
		out[e.Name] = e.PublicKey
	}
	return out, nil
}

// ---------------------------------------------------------------- harness (ii): full stack

type fullstack struct {
	a     *app.App
	conns []*refctl.Conn
}

func (f *fullstack) send(conn int, msg []byte) (int, []byte, bool) {
	for len(f.conns) <= conn {
		f.conns = append(f.conns, nil)
	}
	if f.conns[conn] == nil {
		c, err := refctl.Dial(f.a.Addr)
		if err != nil {
			return 0, nil, true
		}
		c.Timeout = 5 * time.Second
		f.conns[conn] = c
	}
	m, err := f.conns[conn].Do("POST", "/pair-setup", refctl.ContentTLV8, msg)
	if err != nil {
		// dropped connection (handler panic): C13's business; the peer reconnects and is "fresh"
		f.conns[conn].Close()
		f.conns[conn] = nil
		run.Count("dropped_connections_left_to_C13", 1)
		return 0, nil, true
	}
	return m.Status, m.Body, false
}

func (f *fullstack) entities() (map[string][]byte, error) { return storedControllers(f.a.Dir) }
func (f *fullstack) remove(name string) {
	os.Remove(f.a.Dir + "/" + hex.EncodeToString([]byte(name)) + ".entity")
}

func (f *fullstack) reset() {
	for i, c := range f.conns {
		if c != nil {
			c.Close()
			f.conns[i] = nil
		}
	}
}

func randomCode(rnd *rand.Rand) string {
	for {
		p := fmt.Sprintf("%08d", rnd.Intn(100000000))
		bad := p == "12345678" || p == "87654321"
		if p[0] == p[1] && p[1] == p[2] && p[2] == p[3] && p[3] == p[4] && p[4] == p[5] && p[5] == p[6] && p[6] == p[7] {
			bad = true
		}
		if !bad {
			return p
		}
	}
}

func main() {
	run = vf.Start("C02", "exploration")
	r := run
	r.SetRule("a history = (setup code, controller identities, 1 or 2 connections sharing one database, sequence over the pair-setup alphabet of 44 symbols (6 of them complete SRP runs with a password anybody can know: accessory id / name, empty, the SRP user name, the code's digits, the library's default pin)); every sequence up to length 2 (quick) / 3 (thorough) over a 16-symbol core alphabet, " +
		"the known critical prefixes followed by every symbol, and random sequences of length 3..8; after every message the stored entities are compared with the previous snapshot; non-trivial = distinct (harness, connections, sequence)")
	r.Assume("the monitor builds every message itself and therefore knows whether the connection proved knowledge of the setup code; crypto/ed25519, x/crypto AEAD are correct")
	r.Watchdog(time.Duration(r.Pick(20, 90)) * time.Minute)
	rnd := r.Rand("c02")
	hno := 0
	inprocDo := func(seq []symbol, nconn int) {
		hno++
		r.Nontrivial(fmt.Sprint("inproc", seq, nconn))
		code := app.FormatCode(randomCode(rnd))
		ip, err := newInproc(code, nconn)
		if err != nil {
			r.Inconclusive("inproc setup: " + err.Error())
			return
		}
		defer os.RemoveAll(ip.dir)
		w := &world{code: code, rnd: rand.New(rand.NewSource(r.Seed*31 + int64(hno))), public: publicGuesses(code, ip.own, "C02")}
		r.Guard("history", func() { runHistory(hno, ip, w, seq, nconn, "inproc") })
	}
	// exhaustive short sequences over the core alphabet
	maxLen := r.Pick(2, 3)
	var rec func(prefix []symbol)
	rec = func(prefix []symbol) {
		if len(prefix) > 0 {
			inprocDo(append([]symbol(nil), prefix...), 1)
		}
		if len(prefix) == maxLen {
			return
		}
		for _, s := range coreAlphabet {
			rec(append(prefix, s))
		}
	}
	rec(nil)
	// critical prefixes followed by every symbol of the full alphabet
	prefixes := [][]symbol{
		{{"start", ""}},
		{{"start", ""}, {"verify", "right"}},
		{{"start", ""}, {"verify", "wrong-proof"}},
		{{"start", ""}, {"verify", "A=0"}},
		{{"start", ""}, {"verify", "A=N"}},
		{{"start", ""}, {"verify", "A-missing"}},
		{{"start", ""}, {"verify", "proof-missing"}},
		{{"start", ""}, {"verify", "A=0+proof-over-empty-key"}},
		{{"start", ""}, {"verify", "A=N+proof-over-empty-key"}},
		{{"start", ""}, {"verify", "A-missing+proof-over-empty-key"}},
		{{"start", ""}, {"verify", "right"}, {"exchange", "genuine"}},
		{{"start", ""}, {"verify", "right"}, {"start", ""}},
		{{"start", ""}, {"verify", "right"}, {"exchange", "tampered-tag"}},
		// a proved exchange, then a request that is refused for its step / method (what does the refusal leave behind?)
		{{"start", ""}, {"verify", "right"}, {"step", "7"}},
		{{"start", ""}, {"verify", "right"}, {"step", "0"}},
		{{"start", ""}, {"verify", "right"}, {"step", "255"}},
		{{"start", ""}, {"verify", "right"}, {"method", "1"}},
		{{"start", ""}, {"verify", "right"}, {"method", "4"}},
		{{"start", ""}, {"verify", "right"}, {"verify", "wrong-proof"}},
		{{"start", ""}, {"verify", "right"}, {"exchange", "short"}},
		// after a completed exchange the first start is refused, the second accepted
		{{"start", ""}, {"verify", "right"}, {"exchange", "genuine"}, {"start", ""}, {"start", ""}},
	}
	for _, g := range guessNames {
		prefixes = append(prefixes, []symbol{{"start", ""}, {"verify", "guess:" + g}})
	}
	for _, p := range prefixes {
		for _, s := range alphabet {
			seq := append(append([]symbol(nil), p...), s)
			inprocDo(seq, 1)
			if r.Thorough() {
				inprocDo(seq, 2)
				for _, s2 := range alphabet {
					inprocDo(append(append([]symbol(nil), seq...), s2), 1)
				}
			}
		}
	}
	// replay of a recorded genuine exchange on ANOTHER connection after the pairing was removed (needs two connections)
	replaySeqs := [][]symbol{
		{{"start", ""}, {"verify", "right"}, {"exchange", "genuine"}, {"admin", "remove-stored"}, {"start", ""}, {"verify", "replay-recorded"}, {"exchange", "replay"}},
		{{"start", ""}, {"verify", "right"}, {"exchange", "genuine"}, {"admin", "remove-stored"}, {"start", ""}, {"verify", "replay-recorded"}, {"exchange", "genuine"}},
		{{"start", ""}, {"verify", "right"}, {"start", ""}, {"verify", "replay-recorded"}, {"exchange", "genuine"}},
		// same connection: the first start after the completed exchange is refused, the second accepted with the SAME
		// (salt, B) because hc keeps one SRP session per connection: the peer's own earlier messages are valid again
		{{"start", ""}, {"verify", "right"}, {"exchange", "genuine"}, {"admin", "remove-stored"}, {"start", ""}, {"start", ""}, {"verify", "replay-recorded"}, {"exchange", "replay"}},
	}
	replayConns := [][]int{{0, 0, 0, 0, 1, 1, 1}, {0, 0, 0, 0, 1, 1, 1}, {0, 0, 1, 1, 1}, {0, 0, 0, 0, 0, 0, 0, 0}}
	for i, seq := range replaySeqs {
		for _, same := range []bool{false, true} {
			hno++
			r.Nontrivial(fmt.Sprint("inproc-replay", seq, same))
			code := app.FormatCode(randomCode(rnd))
			ip, err := newInproc(code, 2)
			if err != nil {
				r.Inconclusive("inproc setup: " + err.Error())
				continue
			}
			w := &world{code: code, rnd: rand.New(rand.NewSource(r.Seed*37 + int64(hno))), fixedConns: replayConns[i], public: publicGuesses(code, ip.own, "C02")}
			if same {
				w.fixedConns = make([]int, len(seq)) // everything on one connection
			}
			r.Guard("history", func() { runHistory(hno, ip, w, seq, 2, "inproc") })
			os.RemoveAll(ip.dir)
		}
	}
	// persistence: K failed attempts on one connection (counters, lock-outs and what they leave behind), then what a
	// peer without the code can still send, and what a peer with the code sends
	repeats := []int{1, 3, 100}
	fails := []string{"A-missing", "wrong-proof", "A=0", "A=0+proof-over-empty-key", "A=N+proof-over-empty-key"}
	if r.Thorough() {
		repeats = []int{1, 2, 3, 10, 99, 100, 101, 255, 256, 300}
		fails = []string{"A-missing", "wrong-proof", "A=0", "A=N", "proof-missing", "A-missing+proof-over-empty-key", "A=0+proof-over-empty-key", "A=N+proof-over-empty-key", "A=2N"}
	}
	tails := [][]symbol{
		{{"exchange", "zero-key"}},
		{{"start", ""}, {"exchange", "hkdf-of-empty-secret"}},
		{{"start", ""}, {"verify", "FAIL"}, {"exchange", "zero-key"}},
		{{"start", ""}, {"verify", "FAIL"}, {"exchange", "hkdf-of-empty-secret"}},
		{{"start", ""}, {"verify", "FAIL"}, {"exchange", "zero-key+secret-of-64-zero-bytes"}},
		{{"start", ""}, {"verify", "FAIL"}, {"exchange", "hkdf-of-64-zero-bytes"}},
		{{"start", ""}, {"verify", "right"}, {"exchange", "genuine"}},
	}
	for _, k := range repeats {
		for _, f := range fails {
			for _, tail := range tails {
				var seq []symbol
				for i := 0; i < k; i++ {
					seq = append(seq, symbol{"start", ""}, symbol{"verify", f})
				}
				for _, t := range tail {
					if t.Var == "FAIL" {
						t.Var = f
					}
					seq = append(seq, t)
				}
				inprocDo(seq, 1)
				r.Count("persistence_histories", 1)
			}
		}
	}
	// after K failed attempts (and after a completed exchange) on the same connection: a complete run with each public guess
	gk := []int{1, 2, 3}
	if r.Thorough() {
		gk = []int{1, 2, 3, 10, 100}
	}
	for _, g := range guessNames {
		tail := []symbol{{"start", ""}, {"verify", "guess:" + g}, {"exchange", "genuine"}}
		for _, k := range gk {
			for _, f := range fails {
				var seq []symbol
				for i := 0; i < k; i++ {
					seq = append(seq, symbol{"start", ""}, symbol{"verify", f})
				}
				inprocDo(append(seq, tail...), 1)
				r.Count("guess_after_failures_histories", 1)
			}
		}
		inprocDo(append([]symbol{{"start", ""}, {"verify", "right"}, {"exchange", "genuine"}, {"start", ""}}, tail...), 1)
		inprocDo(append([]symbol{{"start", ""}, {"verify", "right"}, {"exchange", "genuine"}, {"admin", "remove-stored"}, {"start", ""}}, tail...), 1)
		inprocDo(append([]symbol{{"start", ""}, {"verify", "right"}, {"start", ""}}, tail...), 1)
		inprocDo(append([]symbol{{"start", ""}, {"exchange", "zero-key"}}, tail...), 1)
	}
	// a proved exchange abandoned by a new start (answered or refused), then the key exchange of the abandoned one
	for _, mid := range [][]symbol{{{"start", ""}}, {{"start", ""}, {"start", ""}}, {{"start", ""}, {"verify", "A-missing"}}, {{"start", ""}, {"step", "7"}}, {{"start", ""}, {"start", ""}, {"verify", "wrong-proof"}},
		{{"method", "1"}, {"start", ""}}, {{"start", ""}, {"verify", "proof-missing"}, {"start", ""}}} {
		seq := append([]symbol{{"start", ""}, {"verify", "right"}}, mid...)
		inprocDo(append(seq, symbol{"exchange", "genuine-for-the-previous-exchange"}), 1)
	}
	// a second, PROVED exchange that names the controller stored by the first one and delivers another key
	for _, e := range []string{"stored-name-new-key-signed-by-stored-key", "key-swapped", "signed-by-other-key"} {
		inprocDo([]symbol{{"start", ""}, {"verify", "right"}, {"exchange", "genuine"}, {"start", ""}, {"start", ""}, {"verify", "right"}, {"exchange", e}}, 1)
		inprocDo([]symbol{{"start", ""}, {"verify", "right"}, {"exchange", "genuine"}, {"start", ""}, {"verify", "right"}, {"exchange", e}}, 2)
		inprocDo([]symbol{{"start", ""}, {"verify", "right"}, {"exchange", "genuine"}, {"start", ""}, {"verify", "right"}, {"exchange", e}}, 1)
	}
	// a fault at one step: the entropy source fails while one message is handled (a session that cannot be renewed, a
	// nonce that cannot be drawn); what a peer without the code sends next must still store nothing
	for _, v := range alphabet {
		if v.Kind != "verify" {
			continue
		}
		for _, e := range alphabet {
			if e.Kind != "exchange" {
				continue
			}
			fv := symbol{v.Kind, v.Var + entropyFault}
			fs := symbol{"start", entropyFault}
			inprocDo([]symbol{{"start", ""}, fv, e}, 1)
			if r.Thorough() || e.Var == "zero-key" || e.Var == "hkdf-of-empty-secret" || e.Var == "genuine" {
				inprocDo([]symbol{fs, v, e}, 1)
				inprocDo([]symbol{{"start", ""}, fv, {"start", ""}, v, e}, 1)
				inprocDo([]symbol{{"start", ""}, v, fs, e}, 1)
			}
		}
	}
	n := r.Pick(300, 5000)
	for i := 0; i < n; i++ {
		k := 3 + rnd.Intn(6)
		seq := make([]symbol, k)
		for j := range seq {
			switch rnd.Intn(5) {
			case 0:
				seq[j] = symbol{"start", ""}
			case 1:
				seq[j] = symbol{"verify", "right"}
			default:
				seq[j] = alphabet[rnd.Intn(len(alphabet))]
			}
		}
		inprocDo(seq, 1+rnd.Intn(2))
	}

	// full stack: one transport, many histories (the database is shared by all histories: the model is the snapshot diff)
	dir := app.ScratchDir(r.WorkDir(), "fs")
	defer os.RemoveAll(dir)
	pin := randomCode(rnd)
	a, err := app.Start(dir, pin, accessory.NewSwitch(accessory.Info{Name: "C02"}).Accessory)
	if err != nil {
		r.Inconclusive("transport: " + err.Error())
	} else {
		fs := &fullstack{a: a}
		w := &world{code: app.FormatCode(pin), rnd: r.Rand("c02-fs"), public: publicGuesses(app.FormatCode(pin), a.TXT()["id"], "C02")}
		if a.TXT()["id"] == "" {
			r.Inconclusive("the transport advertises no id")
		}
		nfs := r.Pick(150, 3000)
		for i := 0; i < nfs; i++ {
			var seq []symbol
			if i < len(prefixes)*len(alphabet) && i%3 == 0 {
				seq = append(append([]symbol(nil), prefixes[(i/3)%len(prefixes)]...), alphabet[(i/3)%len(alphabet)])
			} else {
				k := 2 + rnd.Intn(6)
				for j := 0; j < k; j++ {
					switch rnd.Intn(4) {
					case 0:
						seq = append(seq, symbol{"start", ""})
					default:
						seq = append(seq, alphabet[rnd.Intn(len(alphabet))])
					}
				}
			}
			if i == 1 {
				seq = []symbol{{"start", ""}, {"verify", "A=0"}, {"exchange", "zero-key"}}
			}
			w.fixedConns = nil
			if i >= 2 && i < 2+len(replaySeqs) {
				seq = replaySeqs[i-2]
				w.fixedConns = replayConns[i-2]
			}
			hno++
			r.Nontrivial(fmt.Sprint("fullstack", seq))
			nc := 1 + rnd.Intn(2)
			if w.fixedConns != nil {
				nc = 2
			}
			r.Guard("fs-history", func() { runHistory(hno, fs, w, seq, nc, "fullstack") })
			fs.reset()
		}
		a.Stop()
	}
	r.Floor("inproc_messages", int(r.Counter("inproc_messages")), 1500)
	r.Floor("fullstack_messages", int(r.Counter("fullstack_messages")), 400)
	r.Floor("legitimate_stores", int(r.Counter("legitimate_stores")), 10)
	r.Floor("exchanges_sealed_under_the_key_of_the_previous_proved_exchange", int(r.Counter("exchanges_sealed_under_the_key_of_the_previous_proved_exchange")), 5)
	r.Floor("exchanges_for_a_stored_name_with_a_new_key_signed_by_the_stored_key", int(r.Counter("exchanges_for_a_stored_name_with_a_new_key_signed_by_the_stored_key")), 20)
	r.Floor("messages_handled_while_the_entropy_source_fails", int(r.Counter("messages_handled_while_the_entropy_source_fails")), 300)
	r.Floor("verify_with_public_guess", int(r.Counter("verify_with_public_guess")), 150)
	r.Floor("forged_exchanges_with_a_new_identity_after_a_store", int(r.Counter("forged_exchanges_with_a_new_identity_after_a_store")), 10)
	r.Finish()
}

package main

// Overlapping writes.  The enumeration above kills ONE write at each of its steps.  An accessory also has writes of
// the same key in flight on several goroutines (two connections saving the same pairing, the application and a
// handler), and the kill then meets a state that no single write produces.  A child process lets four goroutines
// write the same two keys over and over, every value being one byte repeated (the byte names the writer, the
// length varies), and is killed with SIGKILL after a random few milliseconds; afterwards the directory is read
// with a fresh storage object.  Every key must hold the value it had before the child started or one of the
// values the writers write, in full: one byte value throughout, a length a writer uses, not empty.

import (
	"fmt"
	"math/rand"
	"os"
	"os/exec"
	"path/filepath"
	"sync"
	"syscall"
	"time"

	"github.com/brutella/hc/util"

	"verif/vf"
)

var hammerLens = []int{1, 31, 32, 33, 200, 1024, 4096, 20000}

func hammerChild(dir string) {
	st, err := util.NewFileStorage(dir)
	if err != nil {
		os.Exit(4)
	}
	var wg sync.WaitGroup
	for w := 0; w < 4; w++ {
		wg.Add(1)
		go func(w int) {
			defer wg.Done()
			rnd := rand.New(rand.NewSource(int64(os.Getpid())*7 + int64(w)))
			for i := 0; ; i++ {
				n := hammerLens[rnd.Intn(len(hammerLens))]
				v := make([]byte, n)
				for k := range v {
					v[k] = byte('A' + w)
				}
				st.Set([]string{"hammer-1", "hammer-2"}[rnd.Intn(2)], v)
			}
		}(w)
	}
	fmt.Println("running")
	wg.Wait()
}

func hammer(r *vf.Run, root string) {
	trials := r.Pick(150, 3000)
	rnd := r.Rand("c19-hammer")
	old := []byte("the value before the writers started")
	okLen := map[int]bool{}
	for _, n := range hammerLens {
		okLen[n] = true
	}
	for t := 0; t < trials; t++ {
		dir := filepath.Join(root, fmt.Sprintf("hammer-%d", t))
		os.MkdirAll(dir, 0o755)
		st0, err := util.NewFileStorage(dir)
		if err != nil {
			r.Inconclusive("hammer: " + err.Error())
			return
		}
		st0.Set("hammer-1", old)
		st0.Set("bystander", old)
		cmd := exec.Command(selfBin, "-hammer-child", dir)
		out, _ := cmd.StdoutPipe()
		if err := cmd.Start(); err != nil {
			r.Inconclusive("hammer: child: " + err.Error())
			return
		}
		buf := make([]byte, 8)
		out.Read(buf) // "running"
		time.Sleep(time.Duration(200+rnd.Intn(6000)) * time.Microsecond)
		cmd.Process.Signal(syscall.SIGKILL)
		cmd.Wait()
		r.Eval()
		r.Count("overlapping_write_kills", 1)
		st, err := util.NewFileStorage(dir)
		if err != nil {
			r.Inconclusive("hammer: reopen: " + err.Error())
			return
		}
		for _, key := range []string{"hammer-1", "hammer-2", "bystander"} {
			v, err := st.Get(key)
			w := map[string]interface{}{"trial": t, "key": key, "got_len": len(v), "got_head": string(cut(v, 24))}
			switch {
			case key == "bystander":
				if err != nil || string(v) != string(old) {
					r.Violation("overlapping-writes:bystander-changed", fmt.Sprintf("a key nobody wrote holds %d bytes / error %v after the kill", len(v), err), w)
				}
				continue
			case err != nil:
				if key == "hammer-2" {
					r.Count("overlapping_write_reads_absent(old)", 1)
					continue // never written before the kill
				}
				r.Violation("overlapping-writes:key-lost", fmt.Sprintf("%s existed before the writers started and cannot be read after the kill: %v", key, err), w)
				continue
			case key == "hammer-1" && string(v) == string(old):
				r.Count("overlapping_write_reads_old", 1)
				continue
			}
			whole := len(v) > 0 && okLen[len(v)] && v[0] >= 'A' && v[0] <= 'D'
			for _, b := range v {
				if b != v[0] {
					whole = false
				}
			}
			if !whole {
				kind := "mixed-or-truncated"
				if len(v) == 0 {
					kind = "empty"
				}
				r.Violation("overlapping-writes:"+kind, fmt.Sprintf("after a kill while four goroutines were writing %s, the key holds %d bytes that are none of the values written in full (nor the value before)", key, len(v)), w)
				continue
			}
			r.Count("overlapping_write_reads_new_in_full", 1)
			r.Nontrivial(fmt.Sprintf("hammer/%d/%s/%d", t, key, len(v)))
		}
		os.RemoveAll(dir)
	}
	r.Floor("overlapping_write_kills", int(r.Counter("overlapping_write_kills")), trials)
	r.Floor("overlapping_write_reads_new_in_full", int(r.Counter("overlapping_write_reads_new_in_full")), trials/2)
}

// C19 — a crash during a storage write never corrupts the stored value.
//
// Fault enumeration with strace.  The monitor binary re-executes itself as a child
// (`-child <op.json>`) which, locked to its main OS thread, performs exactly ONE operation of
// brutella/hc (util.Storage Set/Delete, db SaveEntity/DeleteEntity, hc.NewIPTransport) between two
// marker syscalls.  The parent
//
//  1. runs the child under `strace -f` without injection on a copy of a prepared directory and
//     extracts the state-changing syscalls of the marked thread between the markers together with
//     their per-syscall-name ordinal counted from the start of the process (that is what strace's
//     `when=` counts); this run is also the "no crash" case;
//  2. for each of them runs the child again on a fresh copy with
//     `-e inject=<name>:signal=SIGKILL:when=<ordinal>` (the kill lands BEFORE the call executes),
//     confirms from the trace that the kill hit exactly that call, opens the directory with fresh
//     storage / database objects and reads everything back.
//
// Oracle (a model in the monitor, nothing of hc's write path is consulted): every key holds its old
// state or its new state in full (absent counts as old only if it was absent), every other key is
// byte-identical, Entities() succeeds and lists exactly old-or-new, nothing else is visible through
// KeysWithSuffix(".entity").
package main

import (
	"bufio"
	"bytes"
	"context"
	"crypto/ed25519"
	"encoding/json"
	"fmt"
	"io"
	"io/ioutil"
	"math/rand"
	"os"
	"os/exec"
	"os/signal"
	"path/filepath"
	"regexp"
	"runtime"
	"sort"
	"strconv"
	"strings"
	"sync"
	"syscall"
	"time"

	"github.com/brutella/hc"
	"github.com/brutella/hc/accessory"
	"github.com/brutella/hc/db"
	"github.com/brutella/hc/log"
	"github.com/brutella/hc/util"

	"verif/vf"
)

const (
	markerBegin = "/verif-marker-begin"
	markerEnd   = "/verif-marker-end"
)

func init() {
	// The child's main goroutine must stay on the main thread (tid == pid) from the very start.
	if len(os.Args) > 1 && os.Args[1] == "-child" {
		runtime.LockOSThread()
	}
}

// ------------------------------------------------------------------------------------------------
// child

type entityJ struct {
	Name       string
	PublicKey  []byte
	PrivateKey []byte
}

type childOp struct {
	Op      string   `json:"op"` // set | delete | save-entity | delete-entity | transport
	Dir     string   `json:"dir"`
	Key     string   `json:"key,omitempty"`
	Value   []byte   `json:"value,omitempty"`
	Entity  *entityJ `json:"entity,omitempty"`
	Variant string   `json:"variant,omitempty"` // transport: "switch" | "switch+outlet" | "switch+outlet+bulb"
	// TmpDir, when set, becomes the child's TMPDIR before anything else happens: the system's temporary directory
	// is on another file system than the storage directory (rename across them fails with EXDEV)
	TmpDir string `json:"tmpdir,omitempty"`
	// Unpriv: the child gives up root (uid / gid 65534) before it touches the storage: the parent has made the storage
	// directory read-only (0555) and its files writable by everybody (0666), as on a device whose configuration partition
	// is mounted for one user and used by another
	Unpriv bool `json:"unprivileged,omitempty"`
	// FSizeLimit > 0: the child lowers its RLIMIT_FSIZE to that many bytes (SIGXFSZ ignored) before the operation: a
	// write(2) beyond the limit stores its first part and then fails (what a full disk or a quota does to a large write)
	FSizeLimit uint64 `json:"file_size_limit,omitempty"`
}

func accessories(variant string) (*accessory.Accessory, []*accessory.Accessory) {
	first := accessory.NewSwitch(accessory.Info{Name: "x"}).Accessory
	var rest []*accessory.Accessory
	switch variant {
	case "switch":
	case "switch+outlet":
		rest = append(rest, accessory.NewOutlet(accessory.Info{Name: "y"}).Accessory)
	case "switch+outlet+bulb":
		rest = append(rest, accessory.NewOutlet(accessory.Info{Name: "y"}).Accessory,
			accessory.NewLightbulb(accessory.Info{Name: "z"}).Accessory)
	default:
		fmt.Fprintln(os.Stderr, "unknown variant", variant)
		os.Exit(4)
	}
	return first, rest
}

func childMain(arg string) {
	runtime.LockOSThread()
	var op childOp
	raw := []byte(arg)
	if !strings.HasPrefix(arg, "{") {
		b, err := ioutil.ReadFile(arg)
		if err != nil {
			fmt.Fprintln(os.Stderr, "child: cannot read op file:", err)
			os.Exit(4)
		}
		raw = b
	}
	if err := json.Unmarshal(raw, &op); err != nil {
		fmt.Fprintln(os.Stderr, "child: bad op:", err)
		os.Exit(4)
	}
	log.Info.SetOutput(io.Discard)
	log.Debug.SetOutput(io.Discard)
	if op.TmpDir != "" {
		os.Setenv("TMPDIR", op.TmpDir)
	}
	if op.Unpriv {
		if err := syscall.Setgroups([]int{}); err != nil {
			fmt.Fprintln(os.Stderr, "child: setgroups:", err)
			os.Exit(5)
		}
		if err := syscall.Setgid(65534); err != nil {
			fmt.Fprintln(os.Stderr, "child: setgid:", err)
			os.Exit(5)
		}
		if err := syscall.Setuid(65534); err != nil {
			fmt.Fprintln(os.Stderr, "child: setuid:", err)
			os.Exit(5)
		}
	}

	var st util.Storage
	var d db.Database
	var first *accessory.Accessory
	var rest []*accessory.Accessory
	var err error
	if op.Op == "transport" {
		first, rest = accessories(op.Variant)
	} else {
		// object construction only; the directory exists already (the parent prepared it)
		if st, err = util.NewFileStorage(op.Dir); err != nil {
			fmt.Fprintln(os.Stderr, "child: NewFileStorage:", err)
			os.Exit(4)
		}
		d = db.NewDatabaseWithStorage(st)
	}

	if op.FSizeLimit > 0 {
		signal.Ignore(syscall.SIGXFSZ)
		if err := syscall.Setrlimit(syscall.RLIMIT_FSIZE, &syscall.Rlimit{Cur: op.FSizeLimit, Max: op.FSizeLimit}); err != nil {
			fmt.Fprintln(os.Stderr, "child: setrlimit:", err)
			os.Exit(5)
		}
	}
	syscall.Access(markerBegin, 0)
	switch op.Op {
	case "set":
		err = st.Set(op.Key, op.Value)
	case "delete":
		err = st.Delete(op.Key)
	case "save-entity":
		err = d.SaveEntity(db.Entity{Name: op.Entity.Name, PublicKey: op.Entity.PublicKey, PrivateKey: op.Entity.PrivateKey})
	case "delete-entity":
		d.DeleteEntity(db.Entity{Name: op.Entity.Name})
	case "transport":
		_, err = hc.NewIPTransport(hc.Config{StoragePath: op.Dir, Pin: "00102003"}, first, rest...)
	default:
		err = fmt.Errorf("unknown op %q", op.Op)
	}
	syscall.Access(markerEnd, 0)
	if err != nil {
		fmt.Fprintln(os.Stderr, "child: operation returned error:", err)
		os.Exit(3)
	}
	os.Exit(0)
}

// ------------------------------------------------------------------------------------------------
// strace trace parsing

type tcall struct {
	Tid        int
	Name       string
	Args       string
	Ret        string // "" when the call never returned
	Line       int
	Text       string
	NeverEnded bool
}

type trace struct {
	Calls      []*tcall
	Killed     bool // some task was killed by SIGKILL
	ExitedZero map[int]bool
}

var (
	reLine    = regexp.MustCompile(`^(\d+)\s+(.*)$`)
	reEntry   = regexp.MustCompile(`^([a-z_0-9]+)\((.*)$`)
	reResumed = regexp.MustCompile(`^<\.\.\. ([a-z_0-9]+) resumed>(.*)$`)
)

var reRet = regexp.MustCompile(`^(.*)\)\s+= (.*)$`)

func splitRet(s string) (args, ret string) {
	m := reRet.FindStringSubmatch(s)
	if m == nil {
		return s, ""
	}
	return m[1], strings.TrimSpace(m[2])
}

func parseTrace(path string) (*trace, error) {
	f, err := os.Open(path)
	if err != nil {
		return nil, err
	}
	defer f.Close()
	tr := &trace{ExitedZero: map[int]bool{}}
	pending := map[int]*tcall{}
	sc := bufio.NewScanner(f)
	sc.Buffer(make([]byte, 1<<20), 1<<24)
	n := 0
	for sc.Scan() {
		n++
		m := reLine.FindStringSubmatch(sc.Text())
		if m == nil {
			continue
		}
		tid, _ := strconv.Atoi(m[1])
		rest := m[2]
		switch {
		case strings.HasPrefix(rest, "+++"):
			if strings.Contains(rest, "killed by SIGKILL") {
				tr.Killed = true
			}
			if strings.Contains(rest, "exited with 0") {
				tr.ExitedZero[tid] = true
			}
		case strings.HasPrefix(rest, "---"):
		case strings.HasPrefix(rest, "<..."):
			rm := reResumed.FindStringSubmatch(rest)
			if rm == nil {
				continue
			}
			if p := pending[tid]; p != nil && p.Name == rm[1] {
				a, r := splitRet(rm[2])
				p.Args += a
				p.Ret = r
				p.NeverEnded = false
				p.Text += " " + rest
				delete(pending, tid)
			}
		default:
			em := reEntry.FindStringSubmatch(rest)
			if em == nil {
				continue
			}
			c := &tcall{Tid: tid, Name: em[1], Line: n, Text: rest}
			if strings.HasSuffix(rest, "<unfinished ...>") {
				c.Args = strings.TrimSuffix(em[2], "<unfinished ...>")
				c.NeverEnded = true
				pending[tid] = c
			} else {
				c.Args, c.Ret = splitRet(em[2])
			}
			tr.Calls = append(tr.Calls, c)
		}
	}
	return tr, sc.Err()
}

func (c *tcall) killedHere() bool { return c.NeverEnded || c.Ret == "?" || c.Ret == "" }
func (c *tcall) failed() bool     { return strings.HasPrefix(c.Ret, "-1") }

func firstIntArg(args string) (int, bool) {
	a := args
	if i := strings.IndexAny(a, ",)"); i >= 0 {
		a = a[:i]
	}
	a = strings.TrimSpace(a)
	if j := strings.IndexByte(a, '<'); j >= 0 { // fd<path> decoration, not requested but harmless
		a = a[:j]
	}
	v, err := strconv.Atoi(a)
	return v, err == nil
}

func writableOpen(args string) bool {
	for _, fl := range []string{"O_CREAT", "O_TRUNC", "O_WRONLY", "O_RDWR", "O_APPEND", "O_TMPFILE"} {
		if strings.Contains(args, fl) {
			return true
		}
	}
	return false
}

// every syscall we ask strace to show; "?" makes strace ignore names the architecture lacks
var traceSet = []string{"open", "openat", "openat2", "creat", "write", "pwrite64", "writev", "pwritev", "pwritev2",
	"rename", "renameat", "renameat2", "unlink", "unlinkat", "rmdir", "ftruncate", "truncate", "fallocate",
	"fsync", "fdatasync", "sync_file_range", "close", "mkdir", "mkdirat", "link", "linkat", "symlink", "symlinkat",
	"chmod", "fchmod", "fchmodat", "copy_file_range", "sendfile", "dup", "dup2", "dup3", "faccessat", "faccessat2"}

type point struct {
	Index   int    `json:"index"`   // position in the sequence of state-changing calls of the operation
	Name    string `json:"syscall"` // syscall name
	Ordinal int    `json:"ordinal"` // per-name ordinal on the marked thread counted from process start (strace when=)
	InOp    int    `json:"ordinal_within_operation"`
	Text    string `json:"baseline_call"`
}

// mutatingBetweenMarkers returns the state-changing calls of the marked thread after the begin
// marker (up to the end marker if present) and whether both markers were seen on one thread.
func mutatingBetweenMarkers(tr *trace) (pts []point, seq []*tcall, tid int, begin, end bool) {
	tid = -1
	for _, c := range tr.Calls {
		if strings.HasPrefix(c.Name, "faccessat") && strings.Contains(c.Args, markerBegin) {
			tid = c.Tid
			break
		}
	}
	if tid < 0 {
		return
	}
	perName := map[string]int{}
	inOpName := map[string]int{}
	wfd := map[int]bool{}
	in := false
	for _, c := range tr.Calls {
		if c.Tid != tid {
			if strings.HasPrefix(c.Name, "faccessat") && strings.Contains(c.Args, markerEnd) {
				// end marker on another thread: the pinning did not work
				return pts, seq, tid, true, false
			}
			continue
		}
		perName[c.Name]++
		if strings.HasPrefix(c.Name, "faccessat") {
			if strings.Contains(c.Args, markerBegin) {
				in, begin = true, true
			} else if strings.Contains(c.Args, markerEnd) {
				in, end = false, true
			}
			continue
		}
		if !in {
			continue
		}
		mut := false
		switch c.Name {
		case "open", "openat", "openat2", "creat":
			if c.Name == "creat" || writableOpen(c.Args) {
				mut = true
				if fd, err := strconv.Atoi(strings.Fields(c.Ret + " x")[0]); err == nil && fd >= 0 {
					wfd[fd] = true
				}
			}
		case "write", "pwrite64", "writev", "pwritev", "pwritev2", "ftruncate", "fallocate", "fsync", "fdatasync",
			"sync_file_range", "fchmod":
			if fd, ok := firstIntArg(c.Args); ok && wfd[fd] {
				mut = true
			}
		case "close":
			if fd, ok := firstIntArg(c.Args); ok && wfd[fd] {
				mut = true
				delete(wfd, fd)
			}
		case "dup", "dup2", "dup3":
			if fd, ok := firstIntArg(c.Args); ok && wfd[fd] {
				if nfd, err := strconv.Atoi(strings.Fields(c.Ret + " x")[0]); err == nil && nfd >= 0 {
					wfd[nfd] = true
				}
			}
		case "rename", "renameat", "renameat2", "unlink", "unlinkat", "rmdir", "truncate", "mkdir", "mkdirat",
			"link", "linkat", "symlink", "symlinkat", "chmod", "fchmodat", "copy_file_range", "sendfile":
			mut = true
		}
		if mut && c.failed() {
			mut = false // a call that fails in the baseline changes nothing; killing before it is the previous point
		}
		if mut {
			inOpName[c.Name]++
			pts = append(pts, point{Index: len(pts), Name: c.Name, Ordinal: perName[c.Name], InOp: inOpName[c.Name], Text: shorten(c.Text, 160)})
			seq = append(seq, c)
		}
	}
	return
}

// foreignMutations counts state-changing calls on the scenario directory made by OTHER threads while the
// marked thread is between its markers: the enumeration would miss them.
func foreignMutations(tr *trace, tid int, dir string) int {
	in, n := false, 0
	for _, c := range tr.Calls {
		if c.Tid == tid {
			if strings.HasPrefix(c.Name, "faccessat") {
				if strings.Contains(c.Args, markerBegin) {
					in = true
				} else if strings.Contains(c.Args, markerEnd) {
					in = false
				}
			}
			continue
		}
		if !in || !strings.Contains(c.Args, dir) {
			continue
		}
		switch c.Name {
		case "open", "openat", "openat2", "creat":
			if c.Name == "creat" || writableOpen(c.Args) {
				n++
			}
		case "rename", "renameat", "renameat2", "unlink", "unlinkat", "rmdir", "truncate", "mkdir", "mkdirat",
			"link", "linkat", "symlink", "symlinkat", "chmod", "fchmodat":
			n++
		}
	}
	return n
}

func shorten(s string, n int) string {
	if len(s) > n {
		return s[:n] + "..."
	}
	return s
}

func markedThreadExcerpt(tr *trace, tid int, max int) []string {
	var out []string
	in := false
	for _, c := range tr.Calls {
		if c.Tid != tid {
			continue
		}
		if strings.Contains(c.Args, markerBegin) {
			in = true
		}
		if in {
			out = append(out, shorten(c.Text, 200))
		}
	}
	if len(out) > max {
		out = append([]string{fmt.Sprintf("... (%d earlier calls of the operation omitted)", len(out)-max)}, out[len(out)-max:]...)
	}
	return out
}

// ------------------------------------------------------------------------------------------------
// running the child

var (
	selfBin   string
	straceBin string
)

type runResult struct {
	ExitCode int
	Signaled bool
	TimedOut bool
	Err      string
	Stderr   string
}

func runChild(opFile, traceFile, inject string) runResult {
	ctx, cancel := context.WithTimeout(context.Background(), 120*time.Second)
	defer cancel()
	var cmd *exec.Cmd
	if traceFile == "" {
		cmd = exec.CommandContext(ctx, selfBin, "-child", opFile)
	} else {
		args := []string{"-f", "-o", traceFile, "-s", "24", "-e", "trace=?" + strings.Join(traceSet, ",?")}
		for _, in := range strings.Split(inject, ";") {
			if in != "" {
				args = append(args, "-e", "inject="+in)
			}
		}
		args = append(args, selfBin, "-child", opFile)
		cmd = exec.CommandContext(ctx, straceBin, args...)
	}
	var eb bytes.Buffer
	cmd.Stdout = nil
	cmd.Stderr = &eb
	err := cmd.Run()
	res := runResult{Stderr: shorten(eb.String(), 600)}
	if ctx.Err() != nil {
		res.TimedOut = true
	}
	if err != nil {
		res.Err = err.Error()
		if ee, ok := err.(*exec.ExitError); ok {
			res.ExitCode = ee.ExitCode()
			if ws, ok := ee.Sys().(syscall.WaitStatus); ok && ws.Signaled() {
				res.Signaled = true
				res.ExitCode = 128 + int(ws.Signal())
			}
		} else {
			res.ExitCode = -1
		}
	}
	return res
}

// materialise copies the scenario's template to dst; with Links every file is moved to dst+".persist" and replaced
// by a symbolic link.
func (sc *scenario) materialise(dst string) error {
	if err := copyDir(filepath.Join(sc.dir, "template"), dst); err != nil {
		return err
	}
	if sc.Op.Unpriv {
		infos, err := ioutil.ReadDir(dst)
		if err != nil {
			return err
		}
		for _, fi := range infos {
			if err := os.Chmod(filepath.Join(dst, fi.Name()), 0o666); err != nil {
				return err
			}
		}
		return os.Chmod(dst, 0o555)
	}
	if !sc.Links {
		return nil
	}
	persist, err := filepath.Abs(dst + ".persist")
	if err != nil {
		return err
	}
	if err := os.MkdirAll(persist, 0o755); err != nil {
		return err
	}
	infos, err := ioutil.ReadDir(dst)
	if err != nil {
		return err
	}
	for _, fi := range infos {
		if !fi.Mode().IsRegular() {
			continue
		}
		from, to := filepath.Join(dst, fi.Name()), filepath.Join(persist, fi.Name())
		if err := os.Rename(from, to); err != nil {
			return err
		}
		if err := os.Symlink(to, from); err != nil {
			return err
		}
	}
	return nil
}

func copyDir(src, dst string) error {
	if err := os.MkdirAll(dst, 0o755); err != nil {
		return err
	}
	infos, err := ioutil.ReadDir(src)
	if err != nil {
		return err
	}
	for _, fi := range infos {
		s, d := filepath.Join(src, fi.Name()), filepath.Join(dst, fi.Name())
		if fi.IsDir() {
			if err := copyDir(s, d); err != nil {
				return err
			}
			continue
		}
		b, err := ioutil.ReadFile(s)
		if err != nil {
			return err
		}
		if err := ioutil.WriteFile(d, b, fi.Mode().Perm()); err != nil {
			return err
		}
	}
	return nil
}

// ------------------------------------------------------------------------------------------------
// observing a directory through hc's public API with fresh objects (the state is only on disk)

type kv struct {
	Present bool
	Val     []byte
}

func (a kv) eq(b kv) bool { return a.Present == b.Present && (!a.Present || bytes.Equal(a.Val, b.Val)) }
func (a kv) String() string {
	if !a.Present {
		return "absent"
	}
	return fmt.Sprintf("%d bytes %s", len(a.Val), vf.Hex(cut(a.Val, 48)))
}
func cut(b []byte, n int) []byte {
	if len(b) > n {
		return b[:n]
	}
	return b
}

type snapshot struct {
	AllKeys     []string      // KeysWithSuffix("")
	EntKeys     []string      // KeysWithSuffix(".entity")
	Vals        map[string]kv // Get of every key of AllKeys ∪ EntKeys ∪ asked
	Entities    []entityJ
	EntitiesErr string
	Files       []string // raw listing "name(size)" — informational only
	Err         string
}

func observe(dir string, ask []string) snapshot {
	s := snapshot{Vals: map[string]kv{}}
	st, err := util.NewFileStorage(dir)
	if err != nil {
		s.Err = "NewFileStorage: " + err.Error()
		return s
	}
	if s.AllKeys, err = st.KeysWithSuffix(""); err != nil {
		s.Err = "KeysWithSuffix(\"\"): " + err.Error()
	}
	if s.EntKeys, err = st.KeysWithSuffix(".entity"); err != nil {
		s.Err = "KeysWithSuffix(\".entity\"): " + err.Error()
	}
	sort.Strings(s.AllKeys)
	sort.Strings(s.EntKeys)
	get := func(k string) {
		if _, ok := s.Vals[k]; ok {
			return
		}
		b, err := st.Get(k)
		if err != nil {
			s.Vals[k] = kv{}
			return
		}
		s.Vals[k] = kv{Present: true, Val: append([]byte{}, b...)}
	}
	for _, k := range s.AllKeys {
		get(k)
	}
	for _, k := range s.EntKeys {
		get(k)
	}
	for _, k := range ask {
		get(k)
	}
	d := db.NewDatabaseWithStorage(st)
	var es []db.Entity
	var eerr error
	if p, text := vf.Recover(func() { es, eerr = d.Entities() }); p {
		s.EntitiesErr = "panic: " + shorten(text, 300)
	} else if eerr != nil {
		s.EntitiesErr = eerr.Error()
	}
	for _, e := range es {
		s.Entities = append(s.Entities, entityJ{e.Name, e.PublicKey, e.PrivateKey})
	}
	if infos, err := ioutil.ReadDir(dir); err == nil {
		for _, fi := range infos {
			s.Files = append(s.Files, fmt.Sprintf("%s(%d)", fi.Name(), fi.Size()))
		}
	}
	return s
}

func entKey(e entityJ) string {
	return fmt.Sprintf("%q|%x|%x", e.Name, e.PublicKey, e.PrivateKey)
}

// ------------------------------------------------------------------------------------------------
// scenarios

type scenario struct {
	ID    string
	Kind  string // set | delete | save-entity | delete-entity | transport-config
	Class string // new-key | overwrite-longer | overwrite-equal | overwrite-shorter | existing | first-start | restart-unchanged | restart-changed
	Op    childOp

	// preparation, through hc's API on a fresh directory (no crash involved), verified by reading back
	PrepKeys     map[string][]byte
	PrepEntities []entityJ
	PrepTransp   string // "" or the accessory variant of a complete earlier start
	PrepVersion  string // transport: rewrite "version" after the first start (e.g. "9" so that the bump makes it longer)

	// what the monitor knows about the new state independently of a run
	Target     string   // storage key written by set/delete ("" for entity and transport scenarios)
	WantNew    *kv      // intended new state of Target
	WantNewEnt *entityJ // intended new entity (save-entity), nil for delete-entity
	EntName    string   // name of the entity written / deleted
	WantVer    string   // transport: expected "version" after a complete run

	// FaultErr: the FIRST write(2) of the operation fails with this errno (ENOSPC: the disk is full until something is
	// removed); every later call works.  The crash points are those of the operation as it runs under that fault.
	FaultErr    string
	faultInject string

	// Foreign: files that lie in the storage directory under names hc itself never writes (written by an older version
	// or another tool), e.g. the name of a key WITH the characters hc removes from file names.  What the key reads as
	// before the operation is observed, not assumed; after a kill it reads as that or as the new value.
	Foreign map[string][]byte

	// Links: every key file of the storage directory is a symbolic link to a regular file in another directory (a
	// deployment that keeps the files on a persistent partition).  What the link becomes is the implementation's
	// choice; the value read back through the API after a kill is not.
	Links bool

	dir       string
	template  snapshot
	baseNew   snapshot
	points    []point
	baseSeq   []string
	confirmed int
	skipped   string
}

func (s *scenario) label() string { return s.Kind + ":" + s.Class }

func randBytes(rnd *rand.Rand, n int) []byte {
	b := make([]byte, n)
	rnd.Read(b)
	return b
}

func mkEntity(rnd *rand.Rand, name string, withPriv bool) entityJ {
	seed := randBytes(rnd, 32)
	priv := ed25519.NewKeyFromSeed(seed)
	e := entityJ{Name: name, PublicKey: append([]byte{}, priv[32:]...)}
	if withPriv {
		e.PrivateKey = append([]byte{}, priv...)
	}
	return e
}

func sizeClass(old *int, nw int) string {
	switch {
	case old == nil:
		return "new-key"
	case *old < nw:
		return "overwrite-longer"
	case *old == nw:
		return "overwrite-equal"
	default:
		return "overwrite-shorter"
	}
}

func buildScenarios(r *vf.Run) []*scenario {
	rnd := r.Rand("c19-scenarios")
	var out []*scenario
	neighbours := func(sc *scenario) {
		if sc.PrepKeys == nil {
			sc.PrepKeys = map[string][]byte{}
		}
		// names chosen to sit next to the written key in every plausible ordering / derived-name scheme
		sc.PrepKeys["neighbour-a"] = randBytes(rnd, 100)
		sc.PrepKeys["k2"] = randBytes(rnd, 7)
		sc.PrepKeys["k.tmp"] = randBytes(rnd, 9)
		sc.PrepKeys["zz-empty-neighbour"] = []byte{}
		sc.PrepEntities = append(sc.PrepEntities, mkEntity(rnd, "neighbour-controller", false))
	}
	ip := func(v int) *int { return &v }
	addSet := func(old *int, nw int) {
		sc := &scenario{Kind: "set", Class: sizeClass(old, nw), Target: "k"}
		neighbours(sc)
		newVal := randBytes(rnd, nw)
		if old != nil {
			ov := randBytes(rnd, *old)
			for *old > 0 && nw > 0 && ov[0] == newVal[0] {
				ov[0]++
			}
			sc.PrepKeys["k"] = ov
			sc.ID = fmt.Sprintf("set-old%d-new%d", *old, nw)
		} else {
			sc.ID = fmt.Sprintf("set-absent-new%d", nw)
		}
		sc.Op = childOp{Op: "set", Key: "k", Value: newVal}
		sc.WantNew = &kv{Present: true, Val: newVal}
		out = append(out, sc)
	}
	// keys with a colon (hc removes it from the file name) next to a file that carries the colon in its name
	addSetColon := func(withOwnFile bool, nw int) {
		key := "AA:BB:0" + fmt.Sprint(nw%7) + ".serial"
		sc := &scenario{Kind: "set", Class: "key-with-colon", Target: key, ID: fmt.Sprintf("set-colon-own%v-new%d", withOwnFile, nw)}
		neighbours(sc)
		sc.Foreign = map[string][]byte{key: []byte("VALUE-UNDER-THE-NAME-WITH-COLONS")}
		if withOwnFile {
			sc.PrepKeys[key] = randBytes(rnd, 20)
			sc.Class = "key-with-colon+own-file"
		}
		newVal := randBytes(rnd, nw)
		sc.Op = childOp{Op: "set", Key: key, Value: newVal}
		sc.WantNew = &kv{Present: true, Val: newVal}
		out = append(out, sc)
	}
	// values whose last bytes are what a text tool would strip (line break, blank, NUL), as the old and as the new value
	addSetTail := func(tail string, oldToo bool, nw int) {
		sc := &scenario{Kind: "set", Class: "value-ends-in-" + fmt.Sprintf("%q", tail), Target: "k", ID: fmt.Sprintf("set-tail-%x-old%v-new%d", tail, oldToo, nw)}
		neighbours(sc)
		newVal := append(randBytes(rnd, nw), tail...)
		if oldToo {
			sc.PrepKeys["k"] = append(randBytes(rnd, 9), tail...)
		}
		sc.Op = childOp{Op: "set", Key: "k", Value: newVal}
		sc.WantNew = &kv{Present: true, Val: newVal}
		out = append(out, sc)
	}
	addSetTail("\n", false, 15)
	addSetTail("\n", true, 31)
	addSetTail("\r\n", true, 5)
	addSetTail(" ", false, 7)
	addSetTail("\x00", true, 16)
	addSetTail("\n\n", false, 0)
	addSetColon(false, 40)
	addSetColon(true, 5)
	addSetColon(false, 3000)
	addDelete := func(old int) {
		sc := &scenario{Kind: "delete", Class: "existing", Target: "k", ID: fmt.Sprintf("delete-old%d", old)}
		neighbours(sc)
		sc.PrepKeys["k"] = randBytes(rnd, old)
		sc.Op = childOp{Op: "delete", Key: "k"}
		sc.WantNew = &kv{}
		out = append(out, sc)
	}
	addSave := func(name string, old *bool, newPriv bool, tag string) {
		sc := &scenario{Kind: "save-entity", EntName: name}
		neighbours(sc)
		ne := mkEntity(rnd, name, newPriv)
		switch {
		case old == nil:
			sc.Class = "new"
		default:
			oe := mkEntity(rnd, name, *old)
			sc.PrepEntities = append(sc.PrepEntities, oe)
			switch {
			case *old == newPriv:
				sc.Class = "overwrite-equal"
			case newPriv:
				sc.Class = "overwrite-longer"
			default:
				sc.Class = "overwrite-shorter"
			}
		}
		sc.ID = "save-entity-" + sc.Class + tag
		sc.Op = childOp{Op: "save-entity", Entity: &ne}
		sc.WantNewEnt = &ne
		out = append(out, sc)
	}
	addDelEnt := func(name string, priv bool, tag string) {
		sc := &scenario{Kind: "delete-entity", Class: "existing", EntName: name, ID: "delete-entity" + tag}
		neighbours(sc)
		oe := mkEntity(rnd, name, priv)
		sc.PrepEntities = append(sc.PrepEntities, oe)
		sc.Op = childOp{Op: "delete-entity", Entity: &entityJ{Name: name}}
		out = append(out, sc)
	}
	addTransport := func(class, prep, variant, prepVersion, wantVer string, withNeighbours bool, tag string) {
		sc := &scenario{Kind: "transport-config", Class: class, ID: "transport-" + class + tag,
			PrepTransp: prep, PrepVersion: prepVersion, WantVer: wantVer}
		if withNeighbours {
			neighbours(sc)
		}
		sc.Op = childOp{Op: "transport", Variant: variant}
		out = append(out, sc)
	}
	T, F := true, false

	if !r.Thorough() {
		addSet(nil, 32)
		addSet(nil, 0)
		addSet(nil, 4096)
		addSet(ip(8), 4096)
		addSet(ip(32), 32)
		addSet(ip(4096), 32)
		addSet(ip(32), 1)
		addSet(ip(32), 0)
		addDelete(32)
		addSave("AA:BB:CC:DD:EE:01", nil, true, "")
		addSave("controller-1", &F, true, "")
		addSave("controller-1", &T, false, "")
		addDelEnt("controller-2", false, "")
		addTransport("first-start", "", "switch", "", "1", false, "")
		addTransport("restart-unchanged", "switch", "switch", "", "1", true, "")
		addTransport("restart-changed", "switch", "switch+outlet", "9", "10", true, "")
		return out
	}
	// thorough: every old class against every new size, plus random pairs
	for _, nw := range []int{0, 1, 32, 4096} {
		addSet(nil, nw)
		addSet(ip(0), nw)
		if nw > 1 {
			addSet(ip(1+rnd.Intn(nw-1)), nw)
			addSet(ip(nw-1), nw)
		}
		if nw > 0 {
			addSet(ip(nw), nw)
		}
		addSet(ip(nw+1), nw)
		addSet(ip(nw+1+rnd.Intn(5000)), nw)
	}
	addSet(nil, 65536)
	addSet(ip(65536), 100)
	addSet(ip(100), 65536)
	addSet(ip(70000), 65536)
	for i := 0; i < 45; i++ {
		sizes := []int{0, 1, 2, 31, 32, 33, 255, 256, 1023, 4095, 4096, 4097, 8192, rnd.Intn(20000)}
		nw := sizes[rnd.Intn(len(sizes))]
		if rnd.Intn(5) == 0 {
			addSet(nil, nw)
		} else {
			addSet(ip(sizes[rnd.Intn(len(sizes))]), nw)
		}
	}
	for _, n := range []int{0, 1, 32, 4096} {
		addDelete(n)
	}
	names := []string{"AA:BB:CC:DD:EE:01", "controller with spaces / and : colons", strings.Repeat("n", 100)}
	for i, nm := range names {
		tag := fmt.Sprintf("-%d", i)
		addSave(nm, nil, true, tag+"a")
		addSave(nm, nil, false, tag+"b")
		addSave(nm, &F, true, tag)
		addSave(nm, &T, false, tag)
		addSave(nm, &T, true, tag+"-priv")
		addSave(nm, &F, false, tag+"-pub")
		addDelEnt(nm, i%2 == 0, tag)
	}
	addTransport("first-start", "", "switch", "", "1", false, "")
	addTransport("first-start", "", "switch+outlet", "", "1", false, "-bridge")
	addTransport("first-start", "", "switch", "", "1", true, "-neighbours")
	addTransport("restart-unchanged", "switch", "switch", "", "1", true, "")
	addTransport("restart-unchanged", "switch", "switch", "", "1", false, "-alone")
	addTransport("restart-unchanged", "switch+outlet", "switch+outlet", "41", "41", true, "-bridge")
	addTransport("restart-changed", "switch", "switch+outlet", "", "2", true, "-1to2")
	addTransport("restart-changed", "switch", "switch+outlet", "9", "10", true, "-9to10")
	addTransport("restart-changed", "switch+outlet", "switch", "99", "100", false, "-99to100")
	addTransport("restart-changed", "switch", "switch+outlet+bulb", "999", "1000", true, "-999to1000")
	addTransport("restart-changed", "switch+outlet+bulb", "switch+outlet", "12345", "12346", true, "-5digits")
	return out
}

// ------------------------------------------------------------------------------------------------
// preparation

func writeOp(dir string, op childOp, file string) error {
	op.Dir = dir
	b, _ := json.Marshal(op)
	return ioutil.WriteFile(file, b, 0o644)
}

func (sc *scenario) prepare(root string) error {
	sc.dir = filepath.Join(root, sc.ID)
	tpl := filepath.Join(sc.dir, "template")
	if err := os.MkdirAll(tpl, 0o755); err != nil {
		return err
	}
	if sc.PrepTransp != "" {
		opf := filepath.Join(sc.dir, "prep-op.json")
		if err := writeOp(tpl, childOp{Op: "transport", Variant: sc.PrepTransp}, opf); err != nil {
			return err
		}
		if res := runChild(opf, "", ""); res.ExitCode != 0 || res.Err != "" {
			return fmt.Errorf("preparing start of the transport failed: %+v", res)
		}
	}
	st, err := util.NewFileStorage(tpl)
	if err != nil {
		return err
	}
	d := db.NewDatabaseWithStorage(st)
	keys := make([]string, 0, len(sc.PrepKeys))
	for k := range sc.PrepKeys {
		keys = append(keys, k)
	}
	sort.Strings(keys)
	for _, k := range keys {
		if err := st.Set(k, sc.PrepKeys[k]); err != nil {
			return err
		}
	}
	for _, e := range sc.PrepEntities {
		if err := d.SaveEntity(db.Entity{Name: e.Name, PublicKey: e.PublicKey, PrivateKey: e.PrivateKey}); err != nil {
			return err
		}
	}
	for name, val := range sc.Foreign {
		if err := os.WriteFile(filepath.Join(tpl, name), val, 0o644); err != nil {
			return err
		}
	}
	if sc.PrepVersion != "" {
		// hc wrote "1" on the first start; give the stored number the wanted width by removing the key first
		// (so that preparation does not depend on how Set treats an existing value)
		st.Delete("version")
		if err := st.Set("version", []byte(sc.PrepVersion)); err != nil {
			return err
		}
	}
	// verify the preparation by reading back with fresh objects
	sc.template = observe(tpl, append(keys, "uuid", "version", "configHash", sc.Target))
	if sc.template.Err != "" || sc.template.EntitiesErr != "" {
		return fmt.Errorf("prepared directory does not read back: %s %s", sc.template.Err, sc.template.EntitiesErr)
	}
	for _, k := range keys {
		if got := sc.template.Vals[k]; !got.eq(kv{true, sc.PrepKeys[k]}) {
			return fmt.Errorf("prepared key %q reads back as %s", k, got)
		}
	}
	have := map[string]bool{}
	for _, e := range sc.template.Entities {
		have[entKey(e)] = true
	}
	for _, e := range sc.PrepEntities {
		if !have[entKey(e)] {
			return fmt.Errorf("prepared entity %q does not read back", e.Name)
		}
	}
	if sc.PrepVersion != "" && !sc.template.Vals["version"].eq(kv{true, []byte(sc.PrepVersion)}) {
		return fmt.Errorf("prepared version reads back as %s", sc.template.Vals["version"])
	}
	if sc.PrepTransp != "" {
		if !macRe.Match(sc.template.Vals["uuid"].Val) || len(sc.template.Vals["configHash"].Val) == 0 {
			return fmt.Errorf("preparing start left uuid=%s configHash=%s", sc.template.Vals["uuid"], sc.template.Vals["configHash"])
		}
	}
	return nil
}

// ------------------------------------------------------------------------------------------------
// oracle

var macRe = regexp.MustCompile(`^[0-9A-F]{2}(:[0-9A-F]{2}){5}$`)

// completeDeviceEntity: the raw value of a device entity key is a complete, self-consistent record.
func completeDeviceEntity(raw []byte) (entityJ, bool) {
	var e entityJ
	if err := json.Unmarshal(raw, &e); err != nil {
		return e, false
	}
	if !macRe.MatchString(e.Name) || len(e.PublicKey) != 32 || len(e.PrivateKey) != 64 {
		return e, false
	}
	if !bytes.Equal(e.PrivateKey[32:], e.PublicKey) {
		return e, false
	}
	return e, true
}

// classify names how got differs from both old and new.
func classify(old, nw *kv, got kv) string {
	if !got.Present {
		return "lost"
	}
	if old != nil && !old.Present && len(got.Val) == 0 {
		return "empty-file"
	}
	if nw != nil && nw.Present {
		if old != nil && old.Present && len(nw.Val) < len(old.Val) && len(got.Val) == len(old.Val) &&
			bytes.Equal(got.Val[:len(nw.Val)], nw.Val) && bytes.Equal(got.Val[len(nw.Val):], old.Val[len(nw.Val):]) {
			return "mixture"
		}
		if len(got.Val) < len(nw.Val) && bytes.Equal(got.Val, nw.Val[:len(got.Val)]) {
			return "truncated"
		}
		if old != nil && old.Present && len(got.Val) <= len(old.Val) && len(got.Val) > 0 {
			// some prefix of new followed by the rest of old
			n := 0
			for n < len(got.Val) && n < len(nw.Val) && got.Val[n] == nw.Val[n] {
				n++
			}
			if n > 0 && bytes.Equal(got.Val[n:], old.Val[n:len(got.Val)]) {
				return "mixture"
			}
		}
	}
	if old != nil && old.Present && len(got.Val) < len(old.Val) && bytes.Equal(got.Val, old.Val[:len(got.Val)]) {
		return "truncated"
	}
	if len(got.Val) == 0 {
		return "empty-file"
	}
	return "garbage"
}

type finding struct {
	Sig  string
	What string
	Key  string
	Got  string
	Old  string
	New  string
}

func parseEntity(v kv) (entityJ, bool) {
	var e entityJ
	if !v.Present {
		return e, false
	}
	if err := json.Unmarshal(v.Val, &e); err != nil {
		return e, false
	}
	return e, true
}

// expectation for one key: its old state and what counts as "the new state in full"
type expectation struct {
	old      kv
	nw       *kv           // exact new state when the monitor knows it
	pred     func(kv) bool // or a predicate for it
	newDesc  string
	entity   bool // the key is the entity the operation writes / deletes
	unchange bool // the operation must not touch this key
	dynamic  bool // decided in the dynamic-key step
}

func (sc *scenario) expect(k string, got kv, crashed bool) expectation {
	tpl, base := sc.template, sc.baseNew
	o := tpl.Vals[k] // zero value = absent
	e := expectation{old: o}
	// a key the operation has no business with: unchanged if it existed; if it did not exist it is a leftover
	// (temporary file), judged by its visibility in the dynamic-key step
	same := func() expectation {
		if !o.Present {
			e.dynamic = true
			return e
		}
		e.nw = &o
		e.unchange = true
		e.newDesc = "unchanged"
		return e
	}
	switch sc.Kind {
	case "set", "delete":
		// (hc removes ':' from file names: the key without its colons names the same file, and is what a listing reports)
		if k == sc.Target || k == strings.ReplaceAll(sc.Target, ":", "") {
			e.nw = sc.WantNew
			e.newDesc = sc.WantNew.String()
			return e
		}
		return same()
	case "save-entity", "delete-entity":
		if !strings.HasSuffix(k, ".entity") {
			return same()
		}
		isTarget := false
		for _, v := range []kv{o, got, base.Vals[k]} {
			if pe, ok := parseEntity(v); ok && pe.Name == sc.EntName {
				isTarget = true
			}
		}
		if !isTarget {
			return same()
		}
		e.entity = true
		if sc.WantNewEnt == nil {
			e.nw = &kv{}
			e.newDesc = "absent"
			return e
		}
		want := entKey(*sc.WantNewEnt)
		e.pred = func(g kv) bool { pe, ok := parseEntity(g); return ok && entKey(pe) == want }
		e.newDesc = fmt.Sprintf("the JSON of entity %q with a %d byte public and a %d byte private key", sc.WantNewEnt.Name, len(sc.WantNewEnt.PublicKey), len(sc.WantNewEnt.PrivateKey))
		return e
	case "transport-config":
		switch {
		case k == "version":
			e.nw = &kv{true, []byte(sc.WantVer)}
			e.newDesc = fmt.Sprintf("%q", sc.WantVer)
			e.unchange = o.eq(*e.nw)
			return e
		case k == "uuid":
			if o.Present {
				return same()
			}
			e.pred = func(g kv) bool { return g.Present && macRe.Match(g.Val) }
			e.newDesc = "a complete MAC-48 style id"
			return e
		case k == "configHash":
			if sc.Class == "restart-unchanged" {
				return same()
			}
			if b, ok := base.Vals[k]; crashed && ok && b.Present && len(b.Val) == 16 {
				// the content hash is a function of the accessories only: the completed run shows it
				e.nw = &b
				e.newDesc = b.String()
				return e
			}
			e.pred = func(g kv) bool { return g.Present && len(g.Val) == 16 && !g.eq(o) }
			e.newDesc = "a 16 byte hash different from the old one"
			return e
		}
		return same()
	}
	return same()
}

// check applies the oracle to an observed directory. crashed=false is the run that completed
// (everything must be new).
func (sc *scenario) check(got snapshot, crashed bool) []finding {
	var fs []finding
	add := func(sig, what, key string, g kv, o *kv, n string) {
		f := finding{Sig: sig, What: what, Key: key, Got: g.String(), New: n}
		if o != nil {
			f.Old = o.String()
		}
		fs = append(fs, f)
	}
	isTransport := sc.Kind == "transport-config"
	pre := sc.Kind + ":" + sc.Class
	if got.Err != "" {
		add(pre+":storage-unreadable", "the directory cannot be listed after the operation: "+got.Err, "", kv{}, nil, "")
		return fs
	}
	tkey := func(k string) string {
		if strings.HasSuffix(k, ".entity") {
			return "device-entity"
		}
		return k
	}
	sigFor := func(k, outcome string) string {
		if isTransport {
			return "transport-config:" + tkey(k) + ":" + outcome
		}
		if sc.Kind == "set" && strings.HasPrefix(sc.Class, "overwrite") && (outcome == "truncated" || outcome == "lost") {
			return "set:overwrite:" + outcome
		}
		return pre + ":" + outcome
	}
	tpl, base := sc.template, sc.baseNew

	// 1. every key that the prepared directory, a completed run or this directory shows
	universe := map[string]bool{}
	for k := range tpl.Vals {
		universe[k] = true
	}
	for k := range base.Vals {
		universe[k] = true
	}
	for k := range got.Vals {
		universe[k] = true
	}
	delete(universe, "")
	keys := make([]string, 0, len(universe))
	for k := range universe {
		keys = append(keys, k)
	}
	sort.Strings(keys)
	entityErrExplained := false
	targetFailed := false // the written entity's key is already reported: its absence / oddity in Entities() is the same fact
	dynamic := []string{}
	for _, k := range keys {
		g := got.Vals[k]
		e := sc.expect(k, g, crashed)
		if e.dynamic {
			if g.Present {
				dynamic = append(dynamic, k)
			}
			continue
		}
		if (crashed && g.eq(e.old)) || (e.nw != nil && g.eq(*e.nw)) || (e.pred != nil && e.pred(g)) {
			continue
		}
		outcome := classify(&e.old, e.nw, g)
		if strings.HasSuffix(k, ".entity") && g.Present {
			if _, ok := parseEntity(g); !ok {
				outcome = "unparsable"
				entityErrExplained = true
			}
		}
		if !crashed && g.eq(e.old) && outcome != "mixture" {
			outcome = "not-written"
		}
		if e.unchange {
			what := fmt.Sprintf("after %s the key %q, which the operation must not change, holds %s; it held %s", sc.when(crashed), k, g, e.old)
			if isTransport {
				add(sigFor(k, outcome), what, k, g, &e.old, e.newDesc)
			} else {
				add(pre+":neighbour-changed", what, k, g, &e.old, e.newDesc)
			}
			continue
		}
		add(sigFor(k, outcome), fmt.Sprintf("after %s key %q holds %s; old value: %s; new value: %s", sc.when(crashed), k, g, e.old, e.newDesc), k, g, &e.old, e.newDesc)
		if e.entity {
			targetFailed = true
		}
	}

	// 2. keys that exist now but neither in the prepared directory nor as a recognised target
	deviceEntities := 0
	for _, k := range dynamic {
		g := got.Vals[k]
		listed := false
		for _, ek := range got.EntKeys {
			if ek == k {
				listed = true
			}
		}
		if !listed {
			continue // not visible as an entity; KeysWithSuffix("") visibility is only counted by the caller
		}
		if isTransport && sc.Class == "first-start" {
			deviceEntities++
			if _, ok := completeDeviceEntity(g.Val); ok && deviceEntities == 1 {
				continue
			}
			outcome := "unparsable"
			if _, ok := parseEntity(g); ok {
				outcome = "incomplete"
			}
			if deviceEntities > 1 {
				outcome = "duplicate"
			}
			entityErrExplained = true
			add("transport-config:device-entity:"+outcome, fmt.Sprintf("after %s the entity key %q holds %s, neither absent (old) nor a complete device entity", sc.when(crashed), k, g), k, g, nil, "a complete device entity")
			continue
		}
		entityErrExplained = true
		sig := pre + ":temp-visible"
		if isTransport {
			sig = "transport-config:device-entity:unexpected-key"
		}
		add(sig, fmt.Sprintf("after %s KeysWithSuffix(\".entity\") lists %q (%s), which is neither an old nor a new key", sc.when(crashed), k, g), k, g, nil, "")
	}
	if isTransport && sc.Class == "first-start" && !crashed && deviceEntities != 1 {
		add("transport-config:device-entity:not-written", fmt.Sprintf("a completed first start left %d device entities", deviceEntities), "", kv{}, nil, "")
	}

	// 3. Entities() succeeds and lists exactly old-or-new
	esig := pre + ":entities-list"
	if isTransport {
		esig = "transport-config:device-entity:entities-list"
	}
	if got.EntitiesErr != "" {
		if !entityErrExplained {
			add(strings.TrimSuffix(esig, "-list")+"-error", fmt.Sprintf("after %s Entities() fails: %s", sc.when(crashed), got.EntitiesErr), "", kv{}, nil, "")
		} else {
			for i := range fs {
				fs[i].What += " — Entities() fails: " + got.EntitiesErr
			}
		}
		return fs
	}
	oldByName, newByName := map[string]string{}, map[string]string{}
	for _, e := range tpl.Entities {
		oldByName[e.Name] = entKey(e)
		if e.Name != sc.EntName || sc.EntName == "" {
			newByName[e.Name] = entKey(e) // untouched entities
		}
	}
	if sc.WantNewEnt != nil {
		newByName[sc.WantNewEnt.Name] = entKey(*sc.WantNewEnt)
	}
	seenName := map[string]int{}
	newDevice := 0
	for _, e := range got.Entities {
		seenName[e.Name]++
		ek := entKey(e)
		if targetFailed && e.Name == sc.EntName {
			continue
		}
		if nk, ok := newByName[e.Name]; ok && ek == nk {
			continue
		}
		if ok, isOld := oldByName[e.Name]; crashed && isOld && ek == ok {
			continue
		}
		if _, known := oldByName[e.Name]; !known && isTransport && sc.Class == "first-start" {
			newDevice++
			if macRe.MatchString(e.Name) && len(e.PublicKey) == 32 && len(e.PrivateKey) == 64 && newDevice == 1 {
				continue
			}
		}
		add(esig, fmt.Sprintf("after %s Entities() lists entity %q with keys that are neither its old nor its new ones", sc.when(crashed), e.Name), "", kv{}, nil, "")
	}
	for name := range oldByName {
		if targetFailed && name == sc.EntName {
			continue
		}
		if _, stays := newByName[name]; stays && seenName[name] == 0 {
			add(esig, fmt.Sprintf("after %s Entities() no longer lists entity %q", sc.when(crashed), name), "", kv{}, nil, "")
		}
		if _, stays := newByName[name]; !stays && !crashed && seenName[name] != 0 {
			add(pre+":not-written", fmt.Sprintf("after the completed operation Entities() still lists the deleted entity %q", name), "", kv{}, nil, "")
		}
	}
	for name := range newByName {
		if _, wasOld := oldByName[name]; !wasOld && !crashed && seenName[name] == 0 {
			add(pre+":not-written", fmt.Sprintf("after the completed operation Entities() does not list the new entity %q", name), "", kv{}, nil, "")
		}
	}
	for name, n := range seenName {
		if n > 1 {
			add(esig, fmt.Sprintf("after %s Entities() lists entity %q %d times", sc.when(crashed), name, n), "", kv{}, nil, "")
		}
	}
	_ = base
	return fs
}

func (sc *scenario) when(crashed bool) string {
	if crashed {
		return "the kill"
	}
	return "the completed operation (no kill)"
}

func crashClass(name string) string {
	switch {
	case strings.HasPrefix(name, "open") || name == "creat":
		return "before-open"
	case strings.Contains(name, "write"):
		return "before-write"
	case name == "close":
		return "before-close"
	case strings.HasPrefix(name, "rename"):
		return "before-rename"
	case strings.HasPrefix(name, "unlink") || name == "rmdir":
		return "before-unlink"
	case name == "":
		return "after-end"
	}
	return "before-" + name
}

// ------------------------------------------------------------------------------------------------

type job struct {
	sc *scenario
	pt point
}

func main() {
	if len(os.Args) > 2 && os.Args[1] == "-child" {
		childMain(os.Args[2])
		return
	}
	if len(os.Args) > 2 && os.Args[1] == "-hammer-child" {
		hammerChild(os.Args[2])
		return
	}
	r := vf.Start("C19", "fault_enumeration")
	r.Watchdog(40 * time.Minute)
	r.SetRule("a case = (scenario, crash point): one hc operation (Set / Delete / SaveEntity / DeleteEntity / NewIPTransport) run in a child process " +
		"under strace and killed with SIGKILL immediately before one of its state-changing syscalls (every one of them in turn, plus the run that is " +
		"not killed); afterwards the directory is read with fresh Storage / Database objects. non-trivial = distinct (scenario, crash point) whose " +
		"kill was confirmed in the trace")
	r.Assume("a process kill loses nothing the kernel has accepted (page cache survives); power loss / fsync ordering is not part of the property")
	r.Assume("strace's when= counter is per syscall name and per thread from the start of tracing; the child keeps the operation on its main thread (both checked per injected run: the trace must end in the intended unfinished call)")
	r.Assume("leftover temporary files after a kill are tolerated when invisible to Get, KeysWithSuffix(\".entity\") and Entities(); their visibility through KeysWithSuffix(\"\") is only counted")

	selfBin = os.Getenv("VERIF_BIN")
	if selfBin == "" {
		selfBin, _ = os.Executable()
	}
	var err error
	if straceBin, err = exec.LookPath("strace"); err != nil {
		r.Inconclusive("strace not found: " + err.Error())
		r.Finish()
	}

	root := filepath.Join(r.WorkDir(), fmt.Sprintf("run-%d", os.Getpid()))
	os.RemoveAll(root)
	if err := os.MkdirAll(root, 0o755); err != nil {
		r.Inconclusive("cannot create work dir: " + err.Error())
		r.Finish()
	}
	if r.Replay == "" {
		// witnesses of earlier runs (possibly of another tree) would be misleading next to this run's
		if old, _ := filepath.Glob(filepath.Join(r.WorkDir(), "replay-*.json")); len(old) > 0 {
			for _, f := range old {
				os.Remove(f)
			}
		}
	}
	witnessDir := filepath.Join(r.WorkDir(), "witness-traces")
	os.RemoveAll(witnessDir)
	os.MkdirAll(witnessDir, 0o755)
	keepRoot := false
	defer func() {
		if !keepRoot {
			os.RemoveAll(root)
		}
	}()

	scs := buildScenarios(r)
	// the same writes with the system's temporary directory on ANOTHER file system than the storage directory
	// (/dev/shm): an implementation that stages its temporary file there cannot rename it into place
	if shm, ok := otherFS(root); ok {
		shmDir = shm
		var more []*scenario
		picked := map[string]int{}
		for _, sc := range scs {
			lim := 1
			if sc.Kind == "set" {
				lim = r.Pick(3, 12)
			}
			if picked[sc.Kind] >= lim || (sc.Kind == "set" && sc.Class == "new-key" && picked["set-new"] > 0) {
				continue
			}
			if sc.Kind == "transport-config" && sc.Class != "restart-changed" {
				continue
			}
			picked[sc.Kind]++
			if sc.Class == "new-key" {
				picked["set-new"]++
			}
			c := *sc
			c.ID = sc.ID + "+tmpdir-on-another-file-system"
			c.Op.TmpDir = shm
			more = append(more, &c)
		}
		scs = append(scs, more...)
		r.Count("scenarios_with_tmpdir_on_another_file_system", len(more))
	} else {
		r.Count("no_second_file_system_available", 1)
	}
	// the same writes on a storage directory whose key files are symbolic links
	{
		var more []*scenario
		picked := map[string]int{}
		for _, sc := range scs {
			if sc.Op.TmpDir != "" || sc.Class == "new-key" || sc.Class == "first-start" {
				continue
			}
			lim := 1
			if sc.Kind == "set" {
				lim = r.Pick(3, 12)
			}
			if picked[sc.Kind] >= lim {
				continue
			}
			picked[sc.Kind]++
			c := *sc
			c.ID = sc.ID + "+key-files-are-symbolic-links"
			c.Links = true
			more = append(more, &c)
		}
		scs = append(scs, more...)
		r.Count("scenarios_with_symbolic_links", len(more))
	}
	// the same writes when the first write(2) of the operation fails with ENOSPC (a full disk) and everything after works
	{
		var more []*scenario
		picked := map[string]int{}
		for _, sc := range scs {
			if sc.Op.TmpDir != "" || sc.Links || sc.Kind == "transport-config" || sc.Kind == "delete" || sc.Kind == "delete-entity" {
				continue
			}
			lim := 2
			if sc.Kind == "set" {
				lim = r.Pick(5, 14)
			}
			if picked[sc.Kind] >= lim {
				continue
			}
			picked[sc.Kind]++
			c := *sc
			c.ID = sc.ID + "+first-write-fails-with-ENOSPC"
			c.FaultErr = "ENOSPC"
			more = append(more, &c)
		}
		scs = append(scs, more...)
		r.Count("scenarios_with_a_failing_first_write", len(more))
	}
	// the same writes under a file size limit of 64 bytes: the write of a longer value stores 64 bytes and fails
	{
		var more []*scenario
		picked := map[string]int{}
		for _, sc := range scs {
			if sc.Op.TmpDir != "" || sc.Links || sc.FaultErr != "" || sc.Kind == "transport-config" || sc.Kind == "delete" || sc.Kind == "delete-entity" {
				continue
			}
			if sc.Kind == "set" && len(sc.Op.Value) <= 64 {
				continue
			}
			lim := 2
			if sc.Kind == "set" {
				lim = r.Pick(4, 12)
			}
			if picked[sc.Kind] >= lim {
				continue
			}
			picked[sc.Kind]++
			c := *sc
			c.ID = sc.ID + "+file-size-limit-64"
			c.Op.FSizeLimit = 64
			more = append(more, &c)
		}
		scs = append(scs, more...)
		r.Count("scenarios_under_a_file_size_limit", len(more))
	}
	// the same writes by a process without root on a read-only storage directory whose files it may write
	if traversable(root) {
		var more []*scenario
		picked := map[string]int{}
		for _, sc := range scs {
			if sc.Op.TmpDir != "" || sc.Links || sc.Kind == "transport-config" || sc.Class == "new-key" {
				continue
			}
			lim := 1
			if sc.Kind == "set" {
				lim = r.Pick(4, 12)
			}
			if picked[sc.Kind] >= lim {
				continue
			}
			picked[sc.Kind]++
			c := *sc
			c.ID = sc.ID + "+unprivileged-process-read-only-directory"
			c.Op.Unpriv = true
			more = append(more, &c)
		}
		scs = append(scs, more...)
		r.Count("scenarios_as_unprivileged_process", len(more))
	} else {
		r.Count("unprivileged_scenarios_not_possible(work directory not reachable for other users)", 1)
	}
	for i, sc := range scs {
		sc.ID = fmt.Sprintf("%03d-%s", i, sc.ID) // unique: the id names the scenario's directory
	}
	const workers = 16
	var vmu sync.Mutex
	sigPoints := map[string]map[string]bool{}
	type pendingViolation struct {
		crashedFirst, scIdx, ptIdx int
		sig, what, cc, traceFile   string
		witness                    map[string]interface{}
	}
	var pend []pendingViolation
	scIndex := map[*scenario]int{}
	for i, sc := range scs {
		scIndex[sc] = i
	}
	report := func(sc *scenario, pt *point, fs []finding, got snapshot, excerpt []string, traceFile string) {
		vmu.Lock()
		defer vmu.Unlock()
		opCopy := sc.Op
		opCopy.Value = nil
		for _, f := range fs {
			cc := "after-end"
			w := map[string]interface{}{
				"scenario": sc.ID, "operation": opCopy, "operation_value_bytes": len(sc.Op.Value), "class": sc.label(), "key": f.Key,
				"observed": f.Got, "old": f.Old, "new": f.New,
				"files_in_directory": got.Files, "keys_listed_as_entities": got.EntKeys, "entities_error": got.EntitiesErr,
				"operation_syscalls_of_a_complete_run": sc.baseSeq,
				"reproduce":                            "VERIF_SEED=" + strconv.FormatInt(r.Seed, 10) + " ./check C19 " + r.Tier + "  (VERIF_C19_KEEP=1 keeps the directories and traces under .work/C19/run-<pid>/" + sc.ID + "/)",
			}
			pv := pendingViolation{crashedFirst: 1, scIdx: scIndex[sc], sig: f.Sig, traceFile: traceFile}
			if pt != nil {
				cc = crashClass(pt.Name)
				pv.crashedFirst, pv.ptIdx = 0, pt.Index
				w["crash_point"] = pt
				w["crash_class"] = cc
				w["strace_injection"] = fmt.Sprintf("-e inject=%s:signal=SIGKILL:when=%d", pt.Name, pt.Ordinal)
				w["trace_of_killed_run"] = excerpt
			} else {
				w["crash_point"] = "none: the operation completed (sanity case)"
				w["trace_of_run"] = excerpt
			}
			pv.cc, pv.what, pv.witness = cc, f.What+" ["+cc+"]", w
			pend = append(pend, pv)
		}
	}
	// violations are emitted in a fixed order (killed runs first, then by scenario and crash point) so that the
	// witness of a signature does not depend on goroutine scheduling
	emit := func() {
		sort.SliceStable(pend, func(i, j int) bool {
			a, b := pend[i], pend[j]
			if a.crashedFirst != b.crashedFirst {
				return a.crashedFirst < b.crashedFirst
			}
			if a.scIdx != b.scIdx {
				return a.scIdx < b.scIdx
			}
			if a.ptIdx != b.ptIdx {
				return a.ptIdx < b.ptIdx
			}
			return a.sig < b.sig
		})
		for _, pv := range pend {
			if sigPoints[pv.sig] == nil {
				sigPoints[pv.sig] = map[string]bool{}
				if b, err := ioutil.ReadFile(pv.traceFile); err == nil && pv.traceFile != "" {
					name := strings.NewReplacer(":", "_", "/", "_").Replace(pv.sig) + ".strace"
					ioutil.WriteFile(filepath.Join(witnessDir, name), b, 0o644)
					pv.witness["full_trace"] = filepath.Join(witnessDir, name)
				}
			}
			sigPoints[pv.sig][pv.cc] = true
			r.Violation(pv.sig, pv.what, pv.witness)
		}
	}

	// phase 1: prepare + baseline (no injection) per scenario
	var wg sync.WaitGroup
	sem := make(chan struct{}, workers)
	for _, sc := range scs {
		sc := sc
		wg.Add(1)
		sem <- struct{}{}
		go func() {
			defer wg.Done()
			defer func() { <-sem }()
			r.Guard("baseline "+sc.ID, func() {
				if err := sc.prepare(root); err != nil {
					sc.skipped = "preparation: " + err.Error()
					return
				}
				bdir := filepath.Join(sc.dir, "base")
				if err := sc.materialise(bdir); err != nil {
					sc.skipped = "copy: " + err.Error()
					return
				}
				opf := filepath.Join(sc.dir, "base-op.json")
				writeOp(bdir, sc.Op, opf)
				tf := filepath.Join(sc.dir, "base.strace")
				res := runChild(opf, tf, "")
				if res.TimedOut || (res.ExitCode != 0 && !((sc.Op.Unpriv || sc.Op.FSizeLimit > 0) && res.ExitCode == 3)) {
					sc.skipped = fmt.Sprintf("baseline run failed: %+v", res)
					return
				}
				tr, err := parseTrace(tf)
				if err != nil {
					sc.skipped = "baseline trace: " + err.Error()
					return
				}
				pts, seq, tid, begin, end := mutatingBetweenMarkers(tr)
				if !begin || !end {
					sc.skipped = fmt.Sprintf("markers not found on one thread in the baseline trace (begin=%v end=%v)", begin, end)
					return
				}
				if n := foreignMutations(tr, tid, bdir); n > 0 {
					sc.skipped = fmt.Sprintf("%d state-changing calls on the directory were made by other threads during the operation; the enumeration would be incomplete", n)
					return
				}
				if sc.FaultErr != "" {
					// second baseline: the same operation with its first write(2) failing
					ord := 0
					for _, p := range pts {
						if p.Name == "write" {
							ord = p.Ordinal
							break
						}
					}
					if ord == 0 {
						sc.skipped = "no write(2) between the markers to fail"
						return
					}
					sc.faultInject = fmt.Sprintf("write:error=%s:when=%d", sc.FaultErr, ord)
					bdir = filepath.Join(sc.dir, "base-fault")
					if err := sc.materialise(bdir); err != nil {
						sc.skipped = "copy: " + err.Error()
						return
					}
					writeOp(bdir, sc.Op, opf)
					tf = filepath.Join(sc.dir, "base-fault.strace")
					res := runChild(opf, tf, sc.faultInject)
					if res.TimedOut || (res.ExitCode != 0 && res.ExitCode != 3) {
						sc.skipped = fmt.Sprintf("baseline run under the fault failed: %+v", res)
						return
					}
					if tr, err = parseTrace(tf); err != nil {
						sc.skipped = "baseline trace: " + err.Error()
						return
					}
					pts, seq, tid, begin, end = mutatingBetweenMarkers(tr)
					if !begin || !end {
						sc.skipped = fmt.Sprintf("markers not found in the baseline trace under the fault (begin=%v end=%v)", begin, end)
						return
					}
					// (a kill at a write cannot be combined with the failing write in one strace run: those points are left out)
					var keep []point
					for _, p := range pts {
						if p.Name != "write" {
							keep = append(keep, p)
						}
					}
					pts = keep
				}
				sc.points = pts
				for _, c := range seq {
					sc.baseSeq = append(sc.baseSeq, shorten(c.Text, 140))
				}
				ask := []string{"uuid", "version", "configHash", sc.Target}
				for k := range sc.template.Vals {
					ask = append(ask, k)
				}
				sc.baseNew = observe(bdir, ask)
				r.Count("no_crash_runs", 1)
				r.Eval()
				// (an operation that may be refused by the environment leaves the old state or the new one, like a killed one)
				if fs := sc.check(sc.baseNew, sc.Op.Unpriv || sc.FaultErr != "" || sc.Op.FSizeLimit > 0); len(fs) > 0 {
					report(sc, nil, fs, sc.baseNew, markedThreadExcerpt(tr, tid, 14), tf)
				}
			})
		}()
	}
	wg.Wait()

	// phase 2: one injected run per crash point
	var jobs []job
	enumerated := 0
	for _, sc := range scs {
		r.Count("scenarios", 1)
		r.Distinct("scenario_class", sc.label())
		if sc.skipped != "" {
			r.Inconclusive("scenario " + sc.ID + ": " + sc.skipped)
			continue
		}
		if len(sc.points) == 0 && sc.FaultErr != "" {
			r.Count("fault_scenarios_without_a_crash_point_left", 1)
			continue
		}
		if len(sc.points) == 0 && sc.Op.Unpriv {
			r.Count("unprivileged_scenarios_in_which_nothing_is_changed(the operation is refused)", 1)
			continue
		}
		if len(sc.points) == 0 {
			r.Inconclusive("scenario " + sc.ID + ": no state-changing syscall between the markers")
			continue
		}
		enumerated += len(sc.points)
		for _, p := range sc.points {
			jobs = append(jobs, job{sc, p})
		}
	}
	r.Count("crash_points_enumerated", enumerated)
	var cmu sync.Mutex
	var unconfirmed []string
	for _, j := range jobs {
		j := j
		wg.Add(1)
		sem <- struct{}{}
		go func() {
			defer wg.Done()
			defer func() { <-sem }()
			r.Guard("inject "+j.sc.ID, func() {
				sc, pt := j.sc, j.pt
				var why string
				for attempt := 0; attempt < 2; attempt++ {
					pdir := filepath.Join(sc.dir, fmt.Sprintf("p%02d-%d", pt.Index, attempt))
					if err := sc.materialise(pdir); err != nil {
						why = "copy: " + err.Error()
						continue
					}
					opf := pdir + "-op.json"
					writeOp(pdir, sc.Op, opf)
					tf := pdir + ".strace"
					res := runChild(opf, tf, sc.faultInject+";"+fmt.Sprintf("%s:signal=SIGKILL:when=%d", pt.Name, pt.Ordinal))
					if attempt == 0 {
						r.Count("crash_points_injected", 1)
					}
					tr, err := parseTrace(tf)
					if err != nil {
						why = "trace: " + err.Error()
						continue
					}
					_, seq, tid, begin, end := mutatingBetweenMarkers(tr)
					// confirmation: killed, begin marker seen, no end marker, the marked thread's state-changing calls are
					// exactly the baseline's first Index+1 and the last one never returned
					switch {
					case res.TimedOut:
						why = "timeout"
					case !tr.Killed || res.ExitCode != 137:
						why = fmt.Sprintf("child was not killed (exit %d, %s)", res.ExitCode, res.Stderr)
					case !begin || end:
						why = fmt.Sprintf("kill outside the operation (begin marker %v, end marker %v)", begin, end)
					case len(seq) != pt.Index+1:
						why = fmt.Sprintf("killed after %d state-changing calls, wanted %d", len(seq), pt.Index+1)
					case !seq[pt.Index].killedHere() || seq[pt.Index].Name != pt.Name:
						why = fmt.Sprintf("last call %q is not the unfinished %s", seq[pt.Index].Text, pt.Name)
					default:
						why = ""
						for i := 0; i < pt.Index; i++ {
							if seq[i].Name != sc.points[i].Name || seq[i].killedHere() {
								why = fmt.Sprintf("call %d differs from the baseline: %q", i, seq[i].Text)
							}
						}
					}
					if why != "" {
						continue
					}
					ask := []string{"uuid", "version", "configHash", sc.Target}
					for k := range sc.template.Vals {
						ask = append(ask, k)
					}
					for k := range sc.baseNew.Vals {
						ask = append(ask, k)
					}
					got := observe(pdir, ask)
					cmu.Lock()
					sc.confirmed++
					cmu.Unlock()
					r.Count("crash_points_confirmed", 1)
					r.Count("kills_"+crashClass(pt.Name), 1)
					r.Distinct("syscall", pt.Name)
					r.Nontrivial(fmt.Sprintf("%s/%d", sc.ID, pt.Index))
					r.Eval()
					extra := 0
					known := map[string]bool{}
					for k := range sc.template.Vals {
						known[k] = true
					}
					for k := range sc.baseNew.Vals {
						known[k] = true
					}
					for _, k := range got.EntKeys {
						known[k] = true // judged by the oracle
					}
					for _, k := range got.AllKeys {
						if !known[k] {
							extra++
						}
					}
					if extra > 0 {
						r.Count("leftover_files_listed_by_KeysWithSuffix_empty_suffix(tolerated)", extra)
					}
					if len(got.Files) > len(got.AllKeys) {
						r.Count("leftover_files_hidden_from_KeysWithSuffix(tolerated)", len(got.Files)-len(got.AllKeys))
					}
					if fs := sc.check(got, true); len(fs) > 0 {
						report(sc, &pt, fs, got, markedThreadExcerpt(tr, tid, 14), tf)
					} else if what := aftermath(pdir, sc, got); what != "" {
						// the state after the kill was fine, but the store no longer behaves like a map for the
						// keys the killed operation touched: the crash left something behind that corrupts later writes
						r.Violation(sc.Kind+":after-crash:later-write-corrupted", what, map[string]interface{}{"scenario": sc.ID, "class": sc.Class,
							"crash_point": fmt.Sprintf("%s #%d", pt.Name, pt.Ordinal), "files_after_kill": got.Files})
					} else {
						r.Count("aftermath_writes_checked", 1)
					}
					return
				}
				cmu.Lock()
				unconfirmed = append(unconfirmed, fmt.Sprintf("%s point %d (%s #%d): %s", sc.ID, pt.Index, pt.Name, pt.Ordinal, why))
				cmu.Unlock()
			})
		}()
	}
	wg.Wait()
	emit()

	// evidence
	type scEv struct {
		ID        string   `json:"scenario"`
		Class     string   `json:"class"`
		Points    []string `json:"crash_points"`
		Confirmed int      `json:"confirmed"`
	}
	var evs []scEv
	allOK := len(unconfirmed) == 0
	for _, sc := range scs {
		e := scEv{ID: sc.ID, Class: sc.label(), Confirmed: sc.confirmed}
		for _, p := range sc.points {
			e.Points = append(e.Points, fmt.Sprintf("%s#%d", p.Name, p.Ordinal))
		}
		evs = append(evs, e)
		if sc.skipped != "" || len(sc.points) == 0 || sc.confirmed != len(sc.points) {
			allOK = false
		}
	}
	r.Extra("scenarios", evs)
	for _, i := range []int{0, 5, len(scs) - 1} {
		if i >= 0 && i < len(scs) {
			sc := scs[i]
			r.Sample(map[string]interface{}{"scenario": sc.ID, "state_changing_syscalls_between_markers": sc.baseSeq, "crash_points": sc.points})
		}
	}
	if len(sigPoints) > 0 {
		sp := map[string][]string{}
		for s, m := range sigPoints {
			for c := range m {
				sp[s] = append(sp[s], c)
			}
			sort.Strings(sp[s])
		}
		r.Extra("violation_crash_classes", sp)
	}
	sort.Strings(unconfirmed)
	if len(unconfirmed) > 0 {
		r.Extra("unconfirmed_crash_points", unconfirmed)
		r.Inconclusive(fmt.Sprintf("%d crash points could not be confirmed, first: %s", len(unconfirmed), unconfirmed[0]))
	}
	r.Guard("overlapping writes", func() { hammer(r, root) })
	r.Floor("crash_points_injected", int(r.Counter("crash_points_injected")), enumerated)
	r.Floor("crash_points_confirmed", int(r.Counter("crash_points_confirmed")), enumerated)
	r.Floor("scenarios_with_crash_points", len(jobs), 1)
	r.SetExhaustive(allOK)
	if shmDir != "" {
		os.RemoveAll(shmDir)
	}
	if os.Getenv("VERIF_C19_KEEP") != "" {
		keepRoot = true
	} else {
		os.RemoveAll(root)
	}
	r.Finish()
}

// aftermath: after a confirmed kill and a clean read-back, the keys the killed operation touched are written
// again (first a SHORT value, then a long one) without any crash, with fresh objects, and read back. A leftover of
// the killed write (for example a reused temporary file) must not leak into these values.
func aftermath(dir string, sc *scenario, got snapshot) string {
	// first in a FRESH process (whatever the killed process counted or cached starts again from the beginning there):
	// its first write is a short value, read back here
	k0 := sc.Target
	if k0 == "" {
		k0 = "written-by-the-next-process"
	}
	opf := dir + ".aftermath.json"
	if err := writeOp(dir, childOp{Op: "set", Key: k0, Value: []byte("s")}, opf); err == nil {
		res := runChild(opf, "", "")
		os.Remove(opf)
		if res.ExitCode != 0 || res.Err != "" {
			return fmt.Sprintf("after the kill, Set(%q, 1 byte) in a fresh process fails: exit %d %s %s", k0, res.ExitCode, res.Err, shorten(res.Stderr, 200))
		}
		stf, _ := util.NewFileStorage(dir)
		if b, err := stf.Get(k0); err != nil || string(b) != "s" {
			return fmt.Sprintf("after the kill (state read back fine), the first write of the NEXT process, Set(%q, 1 byte), reads back as %d bytes %q (err %v)", k0, len(b), cut(b, 40), err)
		}
	}
	st, err := util.NewFileStorage(dir)
	if err != nil {
		return ""
	}
	var keys []string
	if sc.Target != "" {
		keys = append(keys, sc.Target)
	}
	if sc.Kind == "transport-config" {
		keys = append(keys, "uuid", "version", "configHash")
	}
	for _, k := range keys {
		for _, v := range [][]byte{[]byte("s"), []byte("a-somewhat-longer-value-0123456789-0123456789"), {}} {
			if err := st.Set(k, v); err != nil {
				return fmt.Sprintf("after the kill, Set(%q, %d bytes) fails: %v", k, len(v), err)
			}
			st2, _ := util.NewFileStorage(dir)
			b, err := st2.Get(k)
			if err != nil || !bytes.Equal(b, v) {
				return fmt.Sprintf("after the kill (state read back fine), a later uninterrupted Set(%q, %d bytes) reads back as %d bytes %q (err %v)", k, len(v), len(b), cut(b, 40), err)
			}
		}
	}
	if sc.EntName != "" {
		d := db.NewDatabaseWithStorage(st)
		for _, e := range []db.Entity{db.NewEntity(sc.EntName, []byte{1}, nil), db.NewEntity(sc.EntName, bytes.Repeat([]byte{7}, 32), bytes.Repeat([]byte{9}, 64))} {
			if err := d.SaveEntity(e); err != nil {
				return fmt.Sprintf("after the kill, SaveEntity(%q) fails: %v", sc.EntName, err)
			}
			st2, _ := util.NewFileStorage(dir)
			back, err := db.NewDatabaseWithStorage(st2).EntityWithName(sc.EntName)
			if err != nil || !bytes.Equal(back.PublicKey, e.PublicKey) || !bytes.Equal(back.PrivateKey, e.PrivateKey) {
				return fmt.Sprintf("after the kill (state read back fine), a later uninterrupted SaveEntity(%q) does not read back (err %v)", sc.EntName, err)
			}
		}
	}
	return ""
}

var shmDir string

// otherFS returns a fresh directory on a file system other than the one of dir (tmpfs under /dev/shm).
func otherFS(dir string) (string, bool) {
	var a, b syscall.Stat_t
	if syscall.Stat("/dev/shm", &a) != nil || syscall.Stat(dir, &b) != nil || a.Dev == b.Dev {
		return "", false
	}
	d, err := os.MkdirTemp("/dev/shm", "verif-c19-")
	if err != nil {
		return "", false
	}
	return d, true
}

// traversable: every directory on the way to dir (and the monitor's own binary) can be entered by other users.
func traversable(dir string) bool {
	abs, err := filepath.Abs(dir)
	if err != nil {
		return false
	}
	exe, _ := os.Executable()
	for _, start := range []string{abs, filepath.Dir(exe)} {
		for p := start; p != "/" && p != "."; p = filepath.Dir(p) {
			st, err := os.Stat(p)
			if err != nil || st.Mode().Perm()&0o005 != 0o005 {
				return false
			}
		}
	}
	if st, err := os.Stat(exe); err != nil || st.Mode().Perm()&0o005 != 0o005 {
		return false
	}
	return os.Geteuid() == 0
}

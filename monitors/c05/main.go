// C05 — any alteration of the encrypted stream is detected.
//
// Streams are framed by the independent reference framer (and, for reflection, by hc itself).
// Every alteration is fed (a) to crypto.Decrypt directly and (b) through hap.Connection.Read over a
// scripted connection.  Oracle: everything released is p1..pj for some j < a (a = index of the first
// altered frame), and once the altered frame has completely arrived an error is reported.
package main

import (
	"bytes"
	"encoding/binary"
	"fmt"
	"io/ioutil"
	"math/rand"
	"net"
	"os"
	"runtime"
	"strconv"
	"sync/atomic"
	"time"

	"github.com/brutella/hc/crypto"
	"github.com/brutella/hc/hap"

	"verif/harness/hcx"
	"verif/harness/script"
	"verif/refctl"
	"verif/vf"
)

type stream struct {
	secret  [32]byte
	advance int      // frames already exchanged in this direction
	frames  [][]byte // original ciphertext frames
	plains  [][]byte // plaintext of each frame
}

func mkStream(rnd *rand.Rand, secret [32]byte, advance int, msgLens []int) *stream {
	c2a, _ := refctl.SessionKeys(secret[:])
	f := &refctl.Framer{Key: c2a, Count: uint64(advance)}
	s := &stream{secret: secret, advance: advance}
	for _, n := range msgLens {
		p := make([]byte, n)
		rnd.Read(p)
		for len(p) > 0 {
			k := len(p)
			if k > 1024 {
				k = 1024
			}
			s.frames = append(s.frames, f.SealFrame(p[:k]))
			s.plains = append(s.plains, append([]byte(nil), p[:k]...))
			p = p[k:]
		}
	}
	return s
}

func (s *stream) bytes() []byte { return bytes.Join(s.frames, nil) }

type altered struct {
	kind string
	data []byte
	a    int // index of first altered frame
	// pureTruncation: the altered stream is a proper frame-boundary prefix of the original
	pureTruncation bool
	// complete: the altered frame (by the altered stream's own length field) is completely present
	complete  bool
	unaltered bool
}

// analyse computes a / pureTruncation / complete for an altered byte stream.
func (s *stream) analyse(kind string, data []byte) altered {
	al := altered{kind: kind, data: data}
	off := 0
	i := 0
	for ; i < len(s.frames); i++ {
		f := s.frames[i]
		if off == len(data) {
			al.a = i
			al.pureTruncation = true
			return al
		}
		if len(data)-off >= len(f) && bytes.Equal(data[off:off+len(f)], f) {
			off += len(f)
			continue
		}
		break
	}
	al.a = i
	if off == len(data) {
		al.unaltered = true
		return al
	}
	// frame a by its own length field
	rest := data[off:]
	if len(rest) >= 2 {
		l := int(binary.LittleEndian.Uint16(rest[:2]))
		al.complete = len(rest) >= 2+l+16
	}
	return al
}

func advanceHC(c crypto.Cryptographer, secret [32]byte, n int) error {
	c2a, _ := refctl.SessionKeys(secret[:])
	f := &refctl.Framer{Key: c2a}
	for i := 0; i < n; i++ {
		if _, err := c.Decrypt(bytes.NewReader(f.SealFrame([]byte{0}))); err != nil {
			return err
		}
	}
	return nil
}

var run *vf.Run

// checkDirect feeds the altered stream to crypto.Decrypt.
func checkDirect(s *stream, al altered) {
	run.Eval()
	run.Count("direct_cases", 1)
	acc, err := crypto.NewSecureSessionFromSharedKey(s.secret)
	if err != nil {
		run.Inconclusive("session constructor: " + err.Error())
		return
	}
	if err := advanceHC(acc, s.secret, s.advance); err != nil {
		run.Inconclusive("cannot advance session: " + err.Error())
		return
	}
	rd := bytes.NewReader(al.data)
	var released []byte
	var gotErr error
	for rd.Len() > 0 {
		out, err := acc.Decrypt(rd)
		if err != nil {
			gotErr = err
			break
		}
		b, _ := ioutil.ReadAll(out)
		released = append(released, b...)
	}
	judge("direct", s, al, released, gotErr != nil, true)
}

// judge applies the oracle. errorDue: whether the path is obliged to report (direct: the reader hits EOF,
// so even an incomplete altered frame must fail; connection: only when the altered frame is complete).
func judge(path string, s *stream, al altered, released []byte, gotErr bool, eofSemantics bool) {
	// released must be p1..pj, j < = a  (j frames, all before the first altered one)
	j := 0
	off := 0
	ok := true
	for off < len(released) {
		if j >= len(s.plains) || j >= al.a {
			ok = false
			break
		}
		p := s.plains[j]
		if len(released)-off < len(p) || !bytes.Equal(released[off:off+len(p)], p) {
			ok = false
			break
		}
		off += len(p)
		j++
	}
	w := func() map[string]interface{} {
		return map[string]interface{}{"path": path, "alteration": al.kind, "first_altered_frame": al.a, "frames": len(s.frames),
			"session_advance": s.advance, "secret": vf.Hex(s.secret[:]), "altered_stream": vf.Hex(al.data), "released_bytes": len(released),
			"released_frames_ok": j, "error_reported": gotErr}
	}
	if !ok {
		run.Violation(fmt.Sprintf("%s:%s:released-other-than-prefix", path, kindClass(al.kind)),
			fmt.Sprintf("%s path released %d bytes that are not an unmodified frame prefix before altered frame %d (%s)", path, len(released), al.a, al.kind), w())
		return
	}
	if al.unaltered {
		// control case: on the direct path everything must come out without error
		// (delivery through the connection is decided by C07, not here)
		if path == "direct" && (gotErr || j != len(s.frames)) {
			run.Violation(path+":control:unaltered-stream-rejected", "unaltered stream was not delivered completely", w())
		}
		return
	}
	due := !al.pureTruncation && (eofSemantics || al.complete)
	if due && !gotErr {
		run.Violation(fmt.Sprintf("%s:%s:no-error", path, kindClass(al.kind)),
			fmt.Sprintf("%s path consumed the altered stream (%s, first altered frame %d of %d) without reporting an error", path, al.kind, al.a, len(s.frames)), w())
		return
	}
	if gotErr {
		run.Count("errors_reported", 1)
	}
	run.Count("frames_released_before_error", j)
}

func kindClass(k string) string {
	for i := 0; i < len(k); i++ {
		if k[i] == '@' || k[i] == '=' || k[i] == ':' {
			return k[:i]
		}
	}
	return k
}

// checkConn feeds the altered stream through hap.Connection.Read over a scripted connection.
func checkConn(s *stream, al altered, rnd *rand.Rand) {
	if s.advance > 300 {
		return
	}
	run.Eval()
	run.Count("connection_cases", 1)
	// segmentation
	var steps []script.Step
	c2a, _ := refctl.SessionKeys(s.secret[:])
	pre := &refctl.Framer{Key: c2a}
	var preface []byte
	for i := 0; i < s.advance; i++ {
		preface = append(preface, pre.SealFrame([]byte{0})...)
	}
	data := al.data
	switch rnd.Intn(5) {
	case 0:
		steps = append(steps, script.Step{Data: data})
	case 4:
		// a frame arrives together with the first bytes of the next one, then nothing for a while (read timeout), then the rest
		for len(data) > 0 {
			n := len(data)
			if len(data) >= 2 {
				if l := int(binary.LittleEndian.Uint16(data[:2])) + 18; l < n {
					n = l + 1 + rnd.Intn(20)
					if n > len(data) {
						n = len(data)
					}
				}
			}
			steps = append(steps, script.Step{Data: data[:n]})
			data = data[n:]
			if len(data) > 0 {
				steps = append(steps, script.Step{Idle: true})
				run.Count("connection_cases_idle_periods_inside_the_stream", 1)
				k := 1 + rnd.Intn(40)
				if k > len(data) {
					k = len(data)
				}
				steps = append(steps, script.Step{Data: data[:k]})
				data = data[k:]
			}
		}
	case 3:
		// the adversary also DELAYS: pieces cut anywhere (inside headers, ciphertext and tags), with periods in which
		// nothing arrives and the receiver's read times out
		for len(data) > 0 {
			n := 1 + rnd.Intn(1200)
			if rnd.Intn(3) == 0 {
				n = 1 + rnd.Intn(20)
			}
			if n > len(data) {
				n = len(data)
			}
			steps = append(steps, script.Step{Data: data[:n]})
			data = data[n:]
			if len(data) > 0 && rnd.Intn(2) == 0 {
				steps = append(steps, script.Step{Idle: true})
				run.Count("connection_cases_idle_periods_inside_the_stream", 1)
			}
		}
	case 1:
		for len(data) > 0 {
			n := 1 + rnd.Intn(700)
			if n > len(data) {
				n = len(data)
			}
			steps = append(steps, script.Step{Data: data[:n]})
			data = data[n:]
		}
	default:
		// frame by frame of the ORIGINAL boundaries as far as they apply
		for len(data) > 0 {
			n := len(data)
			if len(data) >= 2 {
				l := int(binary.LittleEndian.Uint16(data[:2])) + 18
				if l < n {
					n = l
				}
			}
			steps = append(steps, script.Step{Data: data[:n]})
			data = data[n:]
		}
	}
	sc := script.New(nil)
	sc.KeepReads = false
	ctx := hcx.NewContext()
	var hc *hap.Connection
	late := s.advance == 0 && rnd.Intn(4) == 0
	if late {
		// the adversary is there from the very first byte: the session keys are installed while a read that began in the
		// plaintext phase is still pending (pair-verify completes in the handler while net/http's background read waits), the
		// plaintext M4 is written only afterwards; what arrives in that window is ciphertext like everything after it
		hc = hap.NewConnection(sc, ctx)
		cr, cerr := crypto.NewSecureSessionFromSharedKey(s.secret)
		if cerr != nil {
			run.Inconclusive("session constructor: " + cerr.Error())
			return
		}
		sc.OnData = func() { ctx.GetSessionForConnection(sc).SetCryptographer(cr) }
		run.Count("connection_cases_with_keys_installed_during_a_pending_read", 1)
	} else {
		var err error
		hc, err = hcx.ServerConn(sc, ctx, s.secret)
		if err != nil {
			run.Inconclusive("ServerConn: " + err.Error())
			return
		}
		hc.Write([]byte("HTTP/1.1 200 OK\r\nContent-Length: 0\r\n\r\n")) // the plaintext M4, as after pair-verify
	}
	buf := make([]byte, 4096)
	// advance: each preface frame delivered separately and read out
	for i := 0; i < s.advance; i++ {
		sc.Append(script.Step{Data: preface[i*19 : (i+1)*19]})
		if n, err := hc.Read(buf); n != 1 || err != nil {
			// the unchanged read path may misbehave here; that is C07's business
			run.Count("connection_cases_skipped_read_path", 1)
			return
		}
	}
	sc.Append(steps...)
	var released []byte
	gotErr := false
	idle := 0
	afterClose := 0
	for calls := 0; calls < 20000 && idle < 3; calls++ {
		n, err := hc.Read(buf)
		released = append(released, buf[:n]...)
		if late && calls == 0 {
			hc.Write([]byte("HTTP/1.1 200 OK\r\nContent-Length: 0\r\n\r\n")) // M4 goes out after the first read has returned
		}
		if err != nil {
			if ne, ok := err.(net.Error); ok && ne.Timeout() {
				if sc.Exhausted() {
					idle++
				}
				continue
			}
			gotErr = true
			afterClose++
			if afterClose > 5 {
				break
			}
			// the caller goes on as a server loop does: it renews or clears its deadlines and reads again; whatever the
			// receiver remembered about the rejected frame must survive that
			switch afterClose % 3 {
			case 1:
				hc.SetReadDeadline(time.Now().Add(time.Hour))
			case 2:
				hc.SetDeadline(time.Time{})
			}
			continue
		}
		if n > 0 {
			idle = 0
		} else if sc.Closed() {
			// the receiver closed the connection (its way of reporting the failure); keep reading a few more
			// times: plaintext released AFTER that still counts as released
			afterClose++
			if afterClose > 5 {
				break
			}
		}
	}
	if sc.Closed() {
		// the receiver closed the connection: that is how the connection layer reports the failure
		gotErr = true
		run.Count("connection_closed_by_receiver", 1)
	}
	judge("connection", s, al, released, gotErr, false)
}

func main() {
	if len(os.Args) == 5 && os.Args[1] == "-duplex-child" {
		seed, _ := strconv.ParseInt(os.Args[2], 10, 64)
		rounds, _ := strconv.Atoi(os.Args[3])
		frames, _ := strconv.Atoi(os.Args[4])
		duplexChild(seed, rounds, frames)
		return
	}
	run = vf.Start("C05", "exploration")
	r := run
	r.SetRule("a case = (stream of reference-framed messages, session counter position, one alteration, path direct|connection); alterations: every single-bit flip, " +
		"truncation at every offset, every permutation / duplication / deletion of frames, reflection of hc's own output, replay from another session or counter; " +
		"non-trivial = distinct (alteration, stream shape, counter position)")
	r.Assume("x/crypto chacha20poly1305 is a correct AEAD; refctl framing follows the specification")
	rnd := r.Rand("c05")

	var secrets [4][32]byte
	for i := range secrets {
		rnd.Read(secrets[i][:])
	}
	secrets[3] = [32]byte{}

	type shape struct {
		lens    []int
		advance int
	}
	shapes := []shape{
		{[]int{1}, 0}, {[]int{17}, 1}, {[]int{0, 16}, 0}, {[]int{15, 1}, 255}, {[]int{100, 30}, 256},
		{[]int{1023}, 0}, {[]int{1024}, 1}, {[]int{1025}, 0}, {[]int{40, 50, 60}, 0}, {[]int{2, 3, 4, 5}, 2},
	}
	if r.Thorough() {
		shapes = append(shapes, shape{[]int{2048}, 0}, shape{[]int{2049}, 3}, shape{[]int{3000}, 0}, shape{[]int{1024, 1024}, 0},
			shape{[]int{1, 1, 1, 1, 1}, 65536}, shape{[]int{500, 500}, 65536}, shape{[]int{1024, 1}, 255}, shape{[]int{17, 1025, 17}, 256})
	} else {
		shapes = append(shapes, shape{[]int{2049}, 0}, shape{[]int{7, 9}, 65536})
	}

	caseNo := 0
	both := func(s *stream, al altered, connEvery int) {
		caseNo++
		r.Nontrivial(fmt.Sprintf("%s/%v/%d/%d", al.kind, len(s.frames), s.advance, len(al.data)))
		r.Distinct("alteration_kind", kindClass(al.kind))
		checkDirect(s, al)
		if connEvery > 0 && caseNo%connEvery == 0 {
			checkConn(s, al, rnd)
		}
		r.SampleAt(caseNo, func() interface{} {
			return map[string]interface{}{"alteration": al.kind, "frames": len(s.frames), "counter_position": s.advance, "stream_bytes": len(al.data), "first_altered_frame": al.a}
		})
	}

	for si, sh := range shapes {
		s := mkStream(rnd, secrets[si%4], sh.advance, sh.lens)
		orig := s.bytes()
		r.Distinct("stream_shape", fmt.Sprint(sh.lens, "@", sh.advance))
		heavy := sh.advance > 1000 // advancing hc's counter costs one Decrypt call per frame: sample sparsely
		stride := 1
		if heavy {
			stride = 1 + len(orig)*8/40
		}
		// control
		both(s, s.analyse("control", orig), 1)
		// bit flips: all for streams <= 1200 bytes (quick: every bit of header+tag, every 3rd elsewhere for > 300 bytes)
		maxFlip := 1200
		if r.Thorough() {
			maxFlip = 3200
		}
		if len(orig) <= maxFlip {
			for bit := 0; bit < len(orig)*8; bit += stride {
				if !r.Thorough() && len(orig) > 300 && bit%8 != bit/8%8 && bit/8 >= 2 && bit/8 < len(orig)-16 {
					continue
				}
				d := append([]byte(nil), orig...)
				d[bit/8] ^= 1 << uint(bit%8)
				both(s, s.analyse(fmt.Sprintf("bitflip@%d", bit), d), 37)
			}
		}
		// truncation at every offset
		{
			for cut := 0; cut < len(orig); cut += (stride + 7) / 8 {
				if !r.Thorough() && len(orig) > 600 && cut%5 != 0 && cut > 40 && cut < len(orig)-40 {
					continue
				}
				both(s, s.analyse(fmt.Sprintf("truncate@%d", cut), orig[:cut]), 23)
			}
		}
		// frame-level alterations
		k := len(s.frames)
		if k >= 2 && k <= 5 && !(heavy && k > 3) {
			perm := make([]int, k)
			for i := range perm {
				perm[i] = i
			}
			var rec func(i int)
			rec = func(i int) {
				if i == k {
					id := true
					for x, v := range perm {
						if x != v {
							id = false
						}
					}
					if id {
						return
					}
					var d []byte
					for _, v := range perm {
						d = append(d, s.frames[v]...)
					}
					both(s, s.analyse(fmt.Sprintf("permute=%v", perm), d), 3)
					return
				}
				for j := i; j < k; j++ {
					perm[i], perm[j] = perm[j], perm[i]
					rec(i + 1)
					perm[i], perm[j] = perm[j], perm[i]
				}
			}
			rec(0)
		}
		if k <= 5 {
			for i := 0; i < k; i++ {
				// duplicate frame i in place
				var d []byte
				for x, f := range s.frames {
					d = append(d, f...)
					if x == i {
						d = append(d, f...)
					}
				}
				both(s, s.analyse(fmt.Sprintf("duplicate=%d", i), d), 1)
				// delete frame i
				d = nil
				for x, f := range s.frames {
					if x != i {
						d = append(d, f...)
					}
				}
				both(s, s.analyse(fmt.Sprintf("delete=%d", i), d), 1)
				// replay frame i at the end
				d = append(append([]byte(nil), orig...), s.frames[i]...)
				both(s, s.analyse(fmt.Sprintf("replay-at-end=%d", i), d), 1)
				// frame i from another session (other secret, same counter)
				other := mkStreamLike(rnd, secrets[(si+1)%4], s)
				d = nil
				for x, f := range s.frames {
					if x == i {
						d = append(d, other.frames[x]...)
					} else {
						d = append(d, f...)
					}
				}
				if secrets[(si+1)%4] != s.secret {
					both(s, s.analyse(fmt.Sprintf("cross-session=%d", i), d), 1)
				}
				// frame i sealed at another counter of the same session
				shifted := mkStreamLikeAt(rnd, s, s.advance+1)
				d = nil
				for x, f := range s.frames {
					if x == i {
						d = append(d, shifted.frames[x]...)
					} else {
						d = append(d, f...)
					}
				}
				both(s, s.analyse(fmt.Sprintf("other-counter=%d", i), d), 1)
			}
		}
		// forged frames: the adversary writes frames of its own (any length field, arbitrary bytes for ciphertext and
		// tag) between the peer's frames, or in place of one
		if k <= 6 {
			for i := 0; i <= k; i++ {
				for _, fl := range []int{0, 1, 16, 17, 1024} {
					forged := make([]byte, 2+fl+16)
					rnd.Read(forged)
					binary.LittleEndian.PutUint16(forged, uint16(fl))
					if fl == 0 && i%2 == 1 {
						for x := 2; x < len(forged); x++ {
							forged[x] = 0
						}
					}
					var d []byte
					for x, f := range s.frames {
						if x == i {
							d = append(d, forged...)
						}
						d = append(d, f...)
					}
					if i == k {
						d = append(d, forged...)
					}
					both(s, s.analyse(fmt.Sprintf("insert-forged-frame-len%d@%d", fl, i), d), 1)
					if i < k {
						d = nil
						for x, f := range s.frames {
							if x == i {
								d = append(d, forged...)
							} else {
								d = append(d, f...)
							}
						}
						both(s, s.analyse(fmt.Sprintf("replace-by-forged-frame-len%d@%d", fl, i), d), 1)
					}
				}
			}
		}
		// reflection: the accessory's own output fed back to it
		if sh.advance == 0 {
			acc, _ := crypto.NewSecureSessionFromSharedKey(s.secret)
			var refl []byte
			for _, n := range sh.lens {
				p := make([]byte, n)
				rnd.Read(p)
				e, err := acc.Encrypt(bytes.NewReader(p))
				if err == nil {
					b, _ := ioutil.ReadAll(e)
					refl = append(refl, b...)
				}
			}
			if len(refl) > 0 {
				// a is 0: nothing of it was sent by the peer
				al := altered{kind: "reflection", data: refl, a: 0, complete: true}
				both(s, al, 1)
			}
		}
	}
	// random multi-alterations (thorough): combine two alterations
	n := r.Pick(300, 20000)
	for i := 0; i < n; i++ {
		lens := make([]int, 1+rnd.Intn(3))
		for j := range lens {
			lens[j] = []int{0, 1, 15, 16, 17, 100, 1023, 1024, 1025, 2048}[rnd.Intn(10)]
		}
		var sec [32]byte
		rnd.Read(sec[:])
		s := mkStream(rnd, sec, []int{0, 0, 1, 2, 255, 256}[rnd.Intn(6)], lens)
		if len(s.frames) == 0 {
			continue
		}
		d := append([]byte(nil), s.bytes()...)
		kind := "random:"
		for m := 0; m < 1+rnd.Intn(3); m++ {
			switch rnd.Intn(4) {
			case 0:
				b := rnd.Intn(len(d) * 8)
				d[b/8] ^= 1 << uint(b%8)
				kind += "flip"
			case 1:
				if len(d) > 1 {
					d = d[:rnd.Intn(len(d))]
					kind += "cut"
				}
			case 2:
				f := s.frames[rnd.Intn(len(s.frames))]
				at := rnd.Intn(len(d) + 1)
				d = append(append(append([]byte(nil), d[:at]...), f...), d[at:]...)
				kind += "insert"
			case 3:
				if len(d) > 4 {
					x, y := rnd.Intn(len(d)), rnd.Intn(len(d))
					d[x], d[y] = d[y], d[x]
					kind += "swap"
				}
			}
			if len(d) == 0 {
				break
			}
		}
		al := s.analyse(kind, d)
		if al.unaltered {
			continue // alterations cancelled out
		}
		both(s, al, 2)
	}
	farReplays(r, rnd)
	handoverAtomicity(r, rnd)
	duplexAdversary(r, rnd)
	deferredReaders(r, rnd)
	afterRejectNewKeys(r, rnd)
	insertedAtHandover(r, rnd)
	r.Floor("direct_cases", int(r.Counter("direct_cases")), 5000)
	r.Floor("connection_cases", int(r.Counter("connection_cases")), 200)
	r.Floor("connection_cases_with_keys_installed_during_a_pending_read", int(r.Counter("connection_cases_with_keys_installed_during_a_pending_read")), 40)
	r.Floor("connection_cases_idle_periods_inside_the_stream", int(r.Counter("connection_cases_idle_periods_inside_the_stream")), 100)
	r.Floor("errors_reported", int(r.Counter("errors_reported")), 1000)
	r.Finish()
}

// mkStreamLike frames the same plaintexts under another secret at the same counters.
func mkStreamLike(rnd *rand.Rand, secret [32]byte, s *stream) *stream {
	c2a, _ := refctl.SessionKeys(secret[:])
	f := &refctl.Framer{Key: c2a, Count: uint64(s.advance)}
	o := &stream{secret: secret, advance: s.advance}
	for _, p := range s.plains {
		o.frames = append(o.frames, f.SealFrame(p))
		o.plains = append(o.plains, p)
	}
	return o
}

func mkStreamLikeAt(rnd *rand.Rand, s *stream, advance int) *stream {
	c2a, _ := refctl.SessionKeys(s.secret[:])
	f := &refctl.Framer{Key: c2a, Count: uint64(advance)}
	o := &stream{secret: s.secret, advance: advance}
	for _, p := range s.plains {
		o.frames = append(o.frames, f.SealFrame(p))
		o.plains = append(o.plains, p)
	}
	return o
}

// farReplays: a frame recorded at counter c is replayed when the receiver has reached c + d, for distances d that
// no test can produce by sending frames (the receiver is placed there through the crypto.VerifSetFrameCounters
// hook): multiples of 2^8, 2^16, 2^32, 2^40, 2^48, 2^56 and 2^63.  Nothing may be released and an error must be
// reported; the same frame at its own counter is the positive control.
func farReplays(r *vf.Run, rnd *rand.Rand) {
	dists := []uint64{1 << 8, 1 << 16, 1 << 24, 1 << 32, 1 << 33, 3 << 32, 1 << 40, 1 << 48, 1 << 56, 1 << 63, 1<<32 + 1<<8, 1<<63 + 1<<32}
	for _, d := range dists {
		for _, c := range []uint64{0, 5, 1 << 20} {
			var secret [32]byte
			rnd.Read(secret[:])
			c2a, _ := refctl.SessionKeys(secret[:])
			p := make([]byte, 1+rnd.Intn(200))
			rnd.Read(p)
			frame := (&refctl.Framer{Key: c2a, Count: c}).SealFrame(p)
			w := map[string]interface{}{"recorded_at_counter": fmt.Sprint(c), "replayed_at_counter": fmt.Sprint(c + d), "distance": fmt.Sprint(d), "secret": vf.Hex(secret[:])}
			for _, at := range []uint64{c, c + d} {
				acc, err := crypto.NewSecureSessionFromSharedKey(secret)
				if err != nil || !crypto.VerifSetFrameCounters(acc, 0, at) {
					r.Inconclusive("the frame counter hook does not apply to the session type any more")
					return
				}
				dec, derr := acc.Decrypt(bytes.NewReader(frame))
				var got []byte
				if dec != nil {
					got, _ = ioutil.ReadAll(dec)
				}
				switch {
				case at == c && (derr != nil || !bytes.Equal(got, p)):
					r.Violation("far-replay:control-rejected", fmt.Sprintf("a frame sealed at counter %d is not accepted by a receiver at counter %d: %v", c, c, derr), w)
				case at != c && (derr == nil || len(got) > 0):
					r.Violation("far-replay:accepted", fmt.Sprintf("a frame recorded at counter %d is accepted again (%d plaintext bytes released, error %v) by a receiver that has reached counter %d: the distance %d is invisible to the nonce", c, len(got), derr, c+d, d), w)
				default:
					r.Count("far_replay_decisions_right", 1)
				}
				r.Eval()
			}
			r.Nontrivial(fmt.Sprintf("far-replay/%d/%d", d, c))
		}
	}
	r.Floor("far_replay_decisions_right", int(r.Counter("far_replay_decisions_right")), len(dists)*3*2)
}

// handoverAtomicity: from the moment pair-verify installs the session keys, everything that arrives is ciphertext: the
// session must answer "is there a decrypter?" with yes from then on, without a gap (Connection.Read asks exactly that
// when a read that was pending on the raw socket returns: during a gap it hands the bytes out as they came, unauthenticated).
// An observer goroutine asks in a tight loop while the keys are installed and the plaintext M4 response is written (which
// activates the keys for the outgoing direction too); first handovers and repeated ones (a second pair-verify on the
// encrypted connection).  The observer mostly waits on the session's own lock, so it is served between any two lock
// sections of the activation.
func handoverAtomicity(r *vf.Run, rnd *rand.Rand) {
	rounds := r.Pick(3000, 40000)
	gaps, stale := 0, 0
	for i := 0; i < rounds && gaps+stale < 5; i++ {
		r.Eval()
		var s1, s2 [32]byte
		rnd.Read(s1[:])
		rnd.Read(s2[:])
		sc := script.New(nil)
		sc.KeepReads = false
		ctx := hcx.NewContext()
		hc := hap.NewConnection(sc, ctx)
		sess := ctx.GetSessionForConnection(sc)
		if sess == nil {
			r.Inconclusive("handover atomicity: no session for the connection")
			return
		}
		for rep, secret := range [][32]byte{s1, s2} {
			cr, err := crypto.NewSecureSessionFromSharedKey(secret)
			if err != nil {
				r.Inconclusive("session constructor: " + err.Error())
				return
			}
			var stop, sawGap, ready int32
			done := make(chan struct{})
			go func() {
				defer close(done)
				had := sess.Decrypter() != nil
				atomic.StoreInt32(&ready, 1)
				for atomic.LoadInt32(&stop) == 0 {
					d := sess.Decrypter()
					if d != nil {
						had = true
					} else if had {
						atomic.StoreInt32(&sawGap, 1)
					}
				}
			}()
			for atomic.LoadInt32(&ready) == 0 {
				runtime.Gosched()
			}
			sess.SetCryptographer(cr)
			hc.Write([]byte("HTTP/1.1 200 OK\r\nContent-Length: 0\r\n\r\n"))
			for k := 0; k < 50; k++ {
				runtime.Gosched()
			}
			atomic.StoreInt32(&stop, 1)
			<-done
			r.Count("handovers_observed", 1)
			if atomic.LoadInt32(&sawGap) == 1 {
				gaps++
				r.Violation("handover:decrypter-gap", fmt.Sprintf("while the M4 response of pair-verify number %d on a connection was written, the session answered that it has NO decrypter although the keys were installed before (and a decrypter had been reported): bytes that arrive in that gap are released as plaintext, unauthenticated", rep+1),
					map[string]interface{}{"round": i, "verify_on_this_connection": rep + 1})
			}
			if sess.Decrypter() == nil || sess.Encrypter() == nil {
				stale++
				r.Violation("handover:keys-not-active-after-m4", "after the M4 response was written the session has no decrypter or no encrypter", map[string]interface{}{"round": i})
			}
		}
		hc.Close()
	}
	r.Floor("handovers_observed+violations", int(r.Counter("handovers_observed"))+10000*r.ViolationCount(), rounds)
}

package main

import (
	"bytes"
	"fmt"
	"io/ioutil"
	"math/rand"
	"os"
	"os/exec"
	"path/filepath"
	"strings"
	"sync/atomic"

	"github.com/brutella/hc/crypto"

	"verif/harness/hcx"
	"verif/harness/script"
	"verif/refctl"
	"verif/vf"
)

// Duplex: a session is used from two goroutines by design: the goroutine that serves the connection decrypts what
// arrives, other goroutines (notifications, keep alives, responses) seal what leaves.  The adversary acts on the incoming
// stream WHILE the accessory seals outgoing frames: it replays frames that were accepted before - in particular the one
// whose number equals the number of the frame the accessory is sealing at that moment, of the same length - and reflects
// the accessory's own output.  Every one of those frames must be rejected, whatever the writer does at that moment.
//
// The workload runs twice: in this process (volume: the replay lands in every window the scheduler offers) and in a child
// built with the race detector, where a write of the sealing goroutine to anything the decrypting goroutine reads between
// "counter -> nonce" and "nonce -> AEAD" is reported the first time both run, however narrow the window.

type duplexResult struct {
	attempts, accepted, sealed, reflected int
	first                                 string
}

func duplexRound(rnd *rand.Rand, frames int) (res duplexResult, err error) {
	var secret [32]byte
	rnd.Read(secret[:])
	acc, e := crypto.NewSecureSessionFromSharedKey(secret)
	if e != nil {
		return res, e
	}
	c2a, a2c := refctl.SessionKeys(secret[:])
	_ = a2c
	fr := &refctl.Framer{Key: c2a}
	size := 1 + rnd.Intn(3)
	recorded := make([][]byte, frames)
	for j := range recorded {
		p := bytes.Repeat([]byte{byte(j)}, size)
		recorded[j] = fr.SealFrame(p)
		dec, e := acc.Decrypt(bytes.NewReader(recorded[j]))
		if e != nil {
			return res, fmt.Errorf("genuine frame %d refused: %v", j, e)
		}
		if got, _ := ioutil.ReadAll(dec); !bytes.Equal(got, p) {
			return res, fmt.Errorf("genuine frame %d released as %x", j, got)
		}
	}
	var written int64
	own := make(chan []byte, 64)
	done := make(chan struct{})
	go func() {
		defer close(done)
		msg := bytes.Repeat([]byte{0}, size)
		for j := 0; j < frames; j++ {
			atomic.StoreInt64(&written, int64(j))
			enc, e := acc.Encrypt(bytes.NewReader(msg))
			if e != nil {
				return
			}
			if j%97 == 0 {
				if b, _ := ioutil.ReadAll(enc); len(b) > 0 {
					select {
					case own <- b:
					default:
					}
				}
			}
		}
	}()
	for {
		select {
		case <-done:
			res.sealed = int(atomic.LoadInt64(&written)) + 1
			return res, nil
		default:
		}
		var frame []byte
		what := ""
		select {
		case b := <-own:
			frame, what = b, "the accessory's own frame reflected"
			res.reflected++
		default:
			j := atomic.LoadInt64(&written) + int64(rnd.Intn(3))
			if j >= int64(frames) {
				continue
			}
			frame, what = recorded[j], fmt.Sprintf("frame %d of the controller, accepted before, replayed", j)
		}
		res.attempts++
		dec, e := acc.Decrypt(bytes.NewReader(frame))
		var got []byte
		if dec != nil {
			got, _ = ioutil.ReadAll(dec)
		}
		if e == nil || len(got) > 0 {
			res.accepted++
			if res.first == "" {
				res.first = fmt.Sprintf("%s while the accessory was sealing its frame %d: accepted, %d plaintext bytes released", what, atomic.LoadInt64(&written), len(got))
			}
		}
	}
}

func duplexChild(seed int64, rounds, frames int) {
	for i := 0; i < rounds; i++ {
		res, err := duplexRound(rand.New(rand.NewSource(seed*131+int64(i))), frames)
		if err != nil {
			fmt.Println("DUPLEX-INCONCLUSIVE", err)
			return
		}
		fmt.Printf("DUPLEX-ROUND %d attempts=%d accepted=%d sealed=%d reflected=%d\n", i, res.attempts, res.accepted, res.sealed, res.reflected)
		if res.first != "" {
			fmt.Println("DUPLEX-ACCEPTED", res.first)
		}
	}
	fmt.Println("DUPLEX-DONE")
}

func duplexAdversary(r *vf.Run, rnd *rand.Rand) {
	rounds, frames := r.Pick(12, 60), r.Pick(60000, 200000)
	for i := 0; i < rounds; i++ {
		r.Eval()
		res, err := duplexRound(rnd, frames)
		if err != nil {
			r.Violation("duplex:genuine-refused", "before any alteration: "+err.Error(), map[string]interface{}{"round": i})
			return
		}
		r.Count("duplex_rounds", 1)
		r.Count("duplex_frames_presented_while_the_accessory_seals", res.attempts)
		r.Count("duplex_own_frames_reflected", res.reflected)
		r.Count("duplex_frames_sealed_meanwhile", res.sealed)
		if res.accepted > 0 {
			r.Violation("duplex:replay-accepted", res.first, map[string]interface{}{"round": i, "accepted": res.accepted, "presented": res.attempts})
		}
		r.Nontrivial(fmt.Sprintf("duplex/%d", i))
	}
	r.Floor("duplex_frames_presented_while_the_accessory_seals", int(r.Counter("duplex_frames_presented_while_the_accessory_seals")), rounds*50)

	bin := os.Getenv("VERIF_RACE_BIN")
	if bin == "" {
		r.Inconclusive("VERIF_RACE_BIN not set (race build missing)")
		return
	}
	dir := r.WorkDir()
	old, _ := filepath.Glob(filepath.Join(dir, "race.log.*"))
	for _, f := range old {
		os.Remove(f)
	}
	crounds := r.Pick(4, 20)
	cmd := exec.Command("timeout", "-s", "QUIT", "1800", bin, "-duplex-child", fmt.Sprint(r.Seed), fmt.Sprint(crounds), "20000")
	cmd.Env = append(os.Environ(), "GORACE=halt_on_error=0 log_path="+filepath.Join(dir, "race.log"))
	outf := filepath.Join(dir, "duplex-child.out")
	lf, _ := os.Create(outf)
	cmd.Stdout, cmd.Stderr = lf, lf
	err := cmd.Run()
	lf.Close()
	b, _ := os.ReadFile(outf)
	out := string(b)
	if !strings.Contains(out, "DUPLEX-DONE") {
		r.Inconclusive(fmt.Sprintf("duplex race child did not finish (%v); see %s", err, outf))
		return
	}
	for _, l := range strings.Split(out, "\n") {
		var rd, at, ac, se, re int
		if n, _ := fmt.Sscanf(l, "DUPLEX-ROUND %d attempts=%d accepted=%d sealed=%d reflected=%d", &rd, &at, &ac, &se, &re); n == 5 {
			r.Count("duplex_race_child_rounds", 1)
			r.Count("duplex_race_child_frames_presented", at)
		}
		if strings.HasPrefix(l, "DUPLEX-ACCEPTED ") {
			r.Violation("duplex:replay-accepted", strings.TrimPrefix(l, "DUPLEX-ACCEPTED ")+" (race build)", nil)
		}
	}
	const mod = "github.com/brutella/hc/"
	for _, rep := range vf.ParseRaceLogs(filepath.Join(dir, "race.log.*"), mod) {
		r.Count("race_reports_total", 1)
		inCrypto := false
		for _, t := range rep.Tops {
			if strings.Contains(t, "hc/crypto") {
				inCrypto = true
			}
		}
		if !inCrypto {
			continue
		}
		blk := rep.Block
		if len(blk) > 3000 {
			blk = blk[:3000]
		}
		r.Violation("race:"+rep.Key(mod), "the race detector reports that sealing an outgoing frame writes what decrypting an incoming frame reads (or the reverse) on the same session: which counter, length or key an incoming frame is verified against then depends on the writer: "+rep.Key(mod),
			map[string]interface{}{"report": blk, "log": rep.File})
	}
	r.Floor("duplex_race_child_rounds", int(r.Counter("duplex_race_child_rounds")), crounds)
	r.Floor("duplex_race_child_frames_presented", int(r.Counter("duplex_race_child_frames_presented")), crounds*20)
}

// deferredReaders: the receiving side opens message N, and before it has read what Decrypt returned for it, it opens
// message N+1 (a caller that still parses one message when the next arrives).  N+1 is genuine, or its last frame is
// altered.  What was returned for N must read as N's plaintext, byte for byte, whatever happened to N+1: anything else
// (N+1's leading frames, nothing at all) is plaintext released that is not the prefix of what the peer sent.
func deferredReaders(r *vf.Run, rnd *rand.Rand) {
	n := r.Pick(600, 6000)
	bad := 0
	for i := 0; i < n && bad < 5; i++ {
		r.Eval()
		var secret [32]byte
		rnd.Read(secret[:])
		acc, err := crypto.NewSecureSessionFromSharedKey(secret)
		if err != nil {
			r.Inconclusive("session constructor: " + err.Error())
			return
		}
		c2a, _ := refctl.SessionKeys(secret[:])
		fr := &refctl.Framer{Key: c2a}
		lens := []int{1, 17, 1024, 1025, 2048, 2100, 3000}
		p1 := make([]byte, lens[rnd.Intn(len(lens))])
		p2 := make([]byte, lens[2+rnd.Intn(len(lens)-2)])
		rnd.Read(p1)
		rnd.Read(p2)
		w1, w2 := fr.SealFrames(p1, nil), fr.SealFrames(p2, nil)
		altered := i%2 == 0
		if altered {
			w2 = append([]byte{}, w2...)
			w2[len(w2)-1-rnd.Intn(16)] ^= 1 << uint(rnd.Intn(8)) // the tag of the last frame
		}
		d1, e1 := acc.Decrypt(bytes.NewReader(w1))
		if e1 != nil || d1 == nil {
			r.Violation("deferred:control-rejected", fmt.Sprintf("a genuine message of %d bytes is rejected: %v", len(p1), e1), nil)
			return
		}
		d2, e2 := acc.Decrypt(bytes.NewReader(w2))
		got1, _ := ioutil.ReadAll(d1)
		r.Count("deferred_reader_cases", 1)
		r.Nontrivial(fmt.Sprintf("deferred/%d/%d/%v", len(p1), len(p2), altered))
		wit := map[string]interface{}{"first_message_bytes": len(p1), "second_message_bytes": len(p2), "second_message_last_frame_altered": altered, "secret": vf.Hex(secret[:])}
		if !bytes.Equal(got1, p1) {
			bad++
			what := "nothing"
			if len(got1) > 0 && bytes.HasPrefix(p2, got1) {
				what = fmt.Sprintf("the first %d bytes of the NEXT message", len(got1))
			} else if len(got1) > 0 {
				what = fmt.Sprintf("%d other bytes", len(got1))
			}
			r.Violation("deferred:earlier-message-replaced", fmt.Sprintf("what Decrypt returned for a message of %d bytes reads as %s once the next message (%d bytes, last frame altered: %v, error %v) has been opened", len(p1), what, len(p2), altered, e2), wit)
			continue
		}
		if altered {
			var got2 []byte
			if d2 != nil {
				got2, _ = ioutil.ReadAll(d2)
			}
			if e2 == nil || len(got2) > 0 && !bytes.HasPrefix(p2, got2) {
				bad++
				r.Violation("deferred:altered-accepted", fmt.Sprintf("a message whose last frame is altered is opened without an error (%v) or releases other bytes", e2), wit)
			}
		} else if d2 != nil {
			if got2, _ := ioutil.ReadAll(d2); e2 != nil || !bytes.Equal(got2, p2) {
				bad++
				r.Violation("deferred:later-message-wrong", fmt.Sprintf("the second genuine message reads as %d bytes, error %v", len(got2), e2), wit)
			}
		}
	}
	r.Floor("deferred_reader_cases", int(r.Counter("deferred_reader_cases"))+100000*bad, n)
}

// afterRejectNewKeys: a frame is rejected on a connection; then the connection's owner installs NEW session keys (a
// repeated pair-verify whose last request was already being handled when the altered frame arrived) and goes on reading.
// Behind the altered frame the adversary has placed frames that are valid under the new keys at counter 0 (the genuine
// controller's first frames of the new session, recorded or simply delivered early).  The rejection belongs to the
// connection's byte stream, not to a key: nothing behind the altered frame may be released, whatever keys come later.
func afterRejectNewKeys(r *vf.Run, rnd *rand.Rand) {
	n := r.Pick(200, 2000)
	bad := 0
	for i := 0; i < n && bad < 5; i++ {
		r.Eval()
		var s1, s2 [32]byte
		rnd.Read(s1[:])
		rnd.Read(s2[:])
		k1, _ := refctl.SessionKeys(s1[:])
		k2, _ := refctl.SessionKeys(s2[:])
		f1, f2 := &refctl.Framer{Key: k1}, &refctl.Framer{Key: k2}
		p1, bogus, q := make([]byte, 1+rnd.Intn(300)), make([]byte, 1+rnd.Intn(300)), make([]byte, 1+rnd.Intn(300))
		rnd.Read(p1)
		rnd.Read(bogus)
		rnd.Read(q)
		good := f1.SealFrame(p1)
		altered := f1.SealFrame(bogus)
		altered[2+rnd.Intn(len(altered)-2)] ^= 1 << uint(rnd.Intn(8))
		later := append(f2.SealFrame(q), f2.SealFrame(q)...)
		stream := append(append(append([]byte{}, good...), altered...), later...)
		var steps []script.Step
		if i%2 == 0 {
			steps = []script.Step{{Data: stream}}
		} else {
			steps = []script.Step{{Data: append(append([]byte{}, good...), altered...)}, {Data: later}}
		}
		sc := script.New(steps)
		sc.KeepReads = false
		ctx := hcx.NewContext()
		hc, err := hcx.ServerConn(sc, ctx, s1)
		if err != nil {
			r.Inconclusive("afterRejectNewKeys: " + err.Error())
			return
		}
		hc.Write([]byte("HTTP/1.1 200 OK\r\nContent-Length: 0\r\n\r\n")) // M4: activates the keys for both directions
		var got []byte
		buf := make([]byte, 4096)
		sawErr := false
		for k := 0; k < 6 && !sawErr; k++ {
			nn, e := hc.Read(buf)
			got = append(got, buf[:nn]...)
			if e != nil {
				if te, ok := e.(interface{ Timeout() bool }); ok && te.Timeout() {
					continue
				}
				sawErr = true
			}
		}
		// the owner installs the keys of a repeated pair-verify and answers it
		cr2, err := crypto.NewSecureSessionFromSharedKey(s2)
		if err != nil {
			r.Inconclusive("afterRejectNewKeys: " + err.Error())
			return
		}
		ctx.GetSessionForConnection(sc).SetCryptographer(cr2)
		hc.Write([]byte("HTTP/1.1 200 OK\r\nContent-Length: 0\r\n\r\n"))
		var after []byte
		for k := 0; k < 4; k++ {
			nn, _ := hc.Read(buf)
			after = append(after, buf[:nn]...)
		}
		hc.Close()
		r.Count("after_reject_new_keys_cases", 1)
		r.Nontrivial(fmt.Sprintf("after-reject/%d/%d", i%2, len(p1)))
		wit := map[string]interface{}{"segments": len(steps), "released_before_the_error": len(got), "released_after_the_new_keys": len(after), "error_reported_for_the_altered_frame": sawErr}
		switch {
		case !bytes.Equal(got, p1) && !bytes.HasPrefix(p1, got):
			bad++
			r.Violation("after-reject:released-other-than-prefix", fmt.Sprintf("%d bytes released that are not a prefix of the one genuine frame in front of the altered one", len(got)), wit)
		case len(after) > 0:
			bad++
			r.Violation("after-reject:released-under-new-keys", fmt.Sprintf("a frame was rejected (error reported: %v); then new session keys were installed on the connection and the next reads released %d bytes that lay BEHIND the altered frame in the stream", sawErr, len(after)), wit)
		}
	}
	r.Floor("after_reject_new_keys_cases", int(r.Counter("after_reject_new_keys_cases"))+100000*bad, n)
}

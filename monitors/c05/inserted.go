package main

import (
	"fmt"
	"math/rand"
	"os"
	"strings"
	"sync/atomic"
	"time"

	"github.com/brutella/hc/accessory"
	"github.com/brutella/hc/verifhook"

	"verif/harness/app"
	"verif/refctl"
	"verif/vf"
)

// Inserted at the handover, through the whole stack.  The controller's encrypted stream starts with the byte after its
// last pair-verify request (M3).  An on-path adversary inserts a complete plaintext HTTP request at exactly that place:
// in the TCP segment that carries M3 (so that the accessory's HTTP layer has it in its buffer before the keys exist), as
// a segment of its own right behind M3, or after the accessory's answer M4.  Whatever the accessory reads after M3 is
// ciphertext of the verified controller or nothing: the inserted request is not what the peer sent, so it must not be
// released to the application - not executed (no value change, no callback, no stored pairing) and not answered with
// success.  The accessory may close the connection (the error the property asks for).
//
// Afterwards the genuine controller continues on the connection with one encrypted read request; the answers that
// arrive are counted: a successful answer in front of the controller's own is the answer to the inserted request.

type insertedCase struct {
	Where   string `json:"where"`   // same-segment | next-segment | after-m4
	Request string `json:"request"` // what was inserted
}

func insertedAtHandover(r *vf.Run, rnd *rand.Rand) {
	dir := app.ScratchDir(r.WorkDir(), "inserted")
	defer os.RemoveAll(dir)
	me := refctl.NewIdentity("c05-controller", rnd)
	app.StoreController(dir, me)
	sw := accessory.NewSwitch(accessory.Info{Name: "C05 I"})
	var remote int64
	sw.Switch.On.OnValueRemoteUpdate(func(bool) { atomic.AddInt64(&remote, 1) })
	a, err := app.Start(dir, "00102003", sw.Accessory)
	if err != nil {
		r.Inconclusive("inserted-at-handover: transport: " + err.Error())
		return
	}
	defer a.Stop()
	acc, _ := app.AccessoryEntity(dir)
	// ids, through a genuine connection (also the positive control of the harness)
	c0, err := a.Verified(me, acc.PublicKey, acc.Name)
	if err != nil {
		r.Inconclusive("inserted-at-handover: genuine pair-verify failed: " + err.Error())
		return
	}
	c0.Timeout = 20 * time.Second
	m, err := c0.Do("GET", "/accessories", "", nil)
	if err != nil || m.Status != 200 {
		r.Inconclusive("inserted-at-handover: genuine GET /accessories failed")
		return
	}
	db, err := refctl.ParseAttrDB(m.Body)
	if err != nil {
		r.Inconclusive("inserted-at-handover: attribute database: " + err.Error())
		return
	}
	aid, on := db.Find(0, "25")
	if on == nil {
		r.Inconclusive("inserted-at-handover: no On characteristic")
		return
	}
	c0.Close()
	own := fmt.Sprintf("/characteristics?id=%d.%d", aid, on.IID)

	n := r.Pick(90, 900)
	bad := 0
	// the forged frame of the variant same-segment+forged-frame is sent from inside the accessory's M4 write
	var armed int32
	var fired, stalled int64
	var fire, firePoint atomic.Value
	firePoint.Store("conn.write.enter")
	verifhook.Install(func(point string) {
		if point == firePoint.Load().(string) && atomic.CompareAndSwapInt32(&armed, 1, 0) {
			fire.Load().(func())()
			time.Sleep(3 * time.Millisecond)
		}
	})
	defer verifhook.Install(func(string) {})
	for i := 0; i < n && bad < 6; i++ {
		r.Eval()
		where := []string{"same-segment", "same-segment+forged-frame", "next-segment", "after-m4", "same-segment+stalled-accessory"}[i%5]
		want := !sw.Switch.On.GetValue()
		intruder := refctl.NewIdentity(fmt.Sprintf("c05-intruder-%d", i), rnd)
		var ins []byte
		kind := ""
		switch (i / 5) % 5 {
		case 0, 1:
			kind = "PUT /characteristics (value)"
			ins = refctl.BuildRequest("PUT", "/characteristics", refctl.ContentJSON, refctl.PutBody(refctl.CharValue{AID: aid, IID: on.IID, Value: refctl.RawJSON(want)}))
		case 2:
			kind = "GET /accessories"
			ins = refctl.BuildRequest("GET", "/accessories", "", nil)
		case 3:
			kind = "POST /pairings (add an administrator)"
			ins = refctl.BuildRequest("POST", "/pairings", refctl.ContentTLV8, refctl.PairingsAdd(intruder.ID, intruder.LTPK, true))
		case 4:
			kind = "PUT /characteristics (value, chunked)"
			ins = refctl.BuildRequestChunked("PUT", "/characteristics", refctl.ContentJSON, refctl.PutBody(refctl.CharValue{AID: aid, IID: on.IID, Value: refctl.RawJSON(want)}), []int{5})
		}
		ic := insertedCase{where, kind}
		before := sw.Switch.On.GetValue()
		cb0 := atomic.LoadInt64(&remote)
		ents0, _ := app.Controllers(dir)

		c, err := refctl.Dial(a.Addr)
		if err != nil {
			r.Inconclusive("inserted-at-handover: dial: " + err.Error())
			return
		}
		c.Timeout = 5 * time.Second
		v, err := c.StartVerify(me, acc.PublicKey, acc.Name, nil)
		if err != nil {
			c.Close()
			r.Inconclusive("inserted-at-handover: verify start: " + err.Error())
			return
		}
		m3 := refctl.BuildRequest("POST", "/pair-verify", refctl.ContentTLV8, refctl.VerifyM3(v.EncKey, refctl.VerifyM3Plain(me.ID, me.LTSK, v.Pub[:], v.AccPub)))
		// (the inserted request is followed by filler: an accessory that takes its first two bytes for a frame length would
		// otherwise wait for the rest of that frame for as long as the connection lives)
		padded := append(append([]byte{}, ins...), make([]byte, 2200)...)
		switch where {
		case "same-segment+forged-frame":
			// ... and, once the accessory has installed the keys (it is about to write M4: hook point conn.write.enter, or
			// has just written it: conn.write.done), a frame that cannot authenticate: 2 bytes under a random tag.  The
			// accessory's pending read takes and rejects it before the inserted request is looked at.  A rejected frame is
			// not a received one.
			forged := append(append([]byte{2, 0}, rbytes(rnd, 18)...), make([]byte, 2200)...) // (and filler, as above)
			firePoint.Store([]string{"conn.write.done", "conn.write.enter", "conn.write.written"}[(i/5)%3])
			fire.Store(func() { c.WriteRaw(forged); atomic.AddInt64(&fired, 1) })
			atomic.StoreInt32(&armed, 1)
			c.WriteRaw(append(append([]byte{}, m3...), ins...))
		case "same-segment+stalled-accessory":
			// ... and the accessory's goroutine is held for a few milliseconds right after it has written M4 (a loaded
			// machine): the genuine controller's first frame arrives and is decrypted BEFORE the accessory looks at the
			// inserted request.  That the connection has received encrypted data by then says nothing about this request.
			fire.Store(func() { atomic.AddInt64(&stalled, 1) })
			firePoint.Store([]string{"conn.write.done", "conn.write.written"}[(i/5)%2])
			atomic.StoreInt32(&armed, 1)
			c.WriteRaw(append(append([]byte{}, m3...), padded...))
		case "same-segment":
			c.WriteRaw(append(append([]byte{}, m3...), padded...))
		case "next-segment":
			c.WriteRaw(m3)
			c.WriteRaw(padded)
		default:
			c.WriteRaw(m3)
		}
		m4, err := c.ReadResponse()
		if where != "same-segment+stalled-accessory" {
			atomic.StoreInt32(&armed, 0)
		}
		var answers []string
		success := 0
		if err != nil || m4.Status != 200 {
			r.Count("inserted_cases_handover_not_completed", 1)
			answers = append(answers, "no M4")
		} else {
			r.Count("inserted_cases_handover_completed", 1)
			if where == "after-m4" {
				c.WriteRaw(padded)
			}
			c.Secure(v.Shared)
			// the genuine controller goes on
			c.Send(refctl.BuildRequest("GET", own, "", nil))
			for k := 0; k < 3; k++ {
				m, err := c.ReadResponse()
				if err != nil {
					answers = append(answers, "connection ended: "+firstWords(err.Error()))
					break
				}
				answers = append(answers, fmt.Sprintf("%d (%d body bytes)", m.Status, len(m.Body)))
				if m.Status >= 200 && m.Status < 300 {
					success++
				}
				if m.Status == 200 && strings.Contains(string(m.Body), fmt.Sprintf(`"iid":%d`, on.IID)) && !strings.Contains(string(m.Body), `"services"`) {
					break // the answer to the controller's own request
				}
			}
		}
		c.Close()
		atomic.StoreInt32(&armed, 0)
		if err := a.Probe(); err != nil {
			r.Violation("inserted:accessory-not-serving", "after a request was inserted at the handover the accessory does not serve other connections: "+err.Error(), ic)
			return
		}
		r.Count("inserted_cases", 1)
		r.Count("inserted_cases_"+where, 1)
		r.Distinct("inserted_request_kind", kind)
		r.Nontrivial(fmt.Sprintf("inserted/%s/%s/%d", where, kind, i))
		wit := map[string]interface{}{"case": ic, "answers_seen_by_the_controller": answers, "inserted_request": string(ins[:min(len(ins), 300)])}
		after := sw.Switch.On.GetValue()
		cb1 := atomic.LoadInt64(&remote)
		ents1, _ := app.Controllers(dir)
		switch {
		case after != before || cb1 != cb0:
			bad++
			r.Violation("inserted:"+where+":executed", fmt.Sprintf("a plaintext %s inserted behind the controller's last pair-verify request (%s) was executed: value %v -> %v, %d application callbacks", kind, where, before, after, cb1-cb0), wit)
		case len(ents1) != len(ents0):
			bad++
			r.Violation("inserted:"+where+":pairing-stored", fmt.Sprintf("a plaintext %s inserted behind the controller's last pair-verify request (%s) was executed: %d -> %d stored controllers", kind, where, len(ents0), len(ents1)), wit)
		case success > 1:
			bad++
			r.Violation("inserted:"+where+":answered", fmt.Sprintf("a plaintext %s inserted behind the controller's last pair-verify request (%s) was answered with success in front of the answer to the controller's own request: %v", kind, where, answers), wit)
		default:
			r.Count("inserted_requests_without_effect", 1)
		}
		if len(ents1) != len(ents0) { // undo, so that later cases start from the same state
			if c1, err := a.Verified(me, acc.PublicKey, acc.Name); err == nil {
				c1.Timeout = 20 * time.Second
				c1.PostTLV("/pairings", refctl.PairingsRemove(intruder.ID))
				c1.Close()
			}
		}
	}
	r.Count("inserted_forged_frames_sent_from_inside_the_m4_write", int(atomic.LoadInt64(&fired)))
	r.Count("inserted_cases_in_which_the_accessory_was_held_after_m4", int(atomic.LoadInt64(&stalled)))
	r.Floor("inserted_cases_same-segment", int(r.Counter("inserted_cases_same-segment"))+10000*bad, n/8)
	r.Floor("inserted_forged_frames_sent_from_inside_the_m4_write", int(atomic.LoadInt64(&fired))+10000*bad, n/8)
	r.Floor("inserted_cases_in_which_the_accessory_was_held_after_m4", int(atomic.LoadInt64(&stalled))+10000*bad, n/8)
	r.Floor("inserted_cases_handover_completed", int(r.Counter("inserted_cases_handover_completed"))+10000*bad, n/2)
}

func firstWords(s string) string {
	if len(s) > 80 {
		return s[:80]
	}
	return s
}

func rbytes(rnd *rand.Rand, n int) []byte {
	b := make([]byte, n)
	rnd.Read(b)
	return b
}

// C16 — TLV8 containers round-trip and fragment correctly.
//
// Oracle (independent of hc): refctl's TLV8 codec plus a model of what was set per tag (the
// concatenation of the set values, in order).
//
//	containers: the reference parser applied to BytesBuffer() yields per tag exactly the model
//	(this is also what Get* must return before serialisation); every wire item is <= 255 bytes,
//	no single set is spread over items that are separated by another tag (a standard merging
//	parser reassembles it) and every non-final fragment of a set is exactly 255 bytes;
//	re-parsing the bytes with hc gives the same Get* values for all 256 tags and the same bytes.
//
//	parser: never panics; when it succeeds BytesBuffer() of the parsed container is
//	byte-identical to the input, the input is well-formed for the reference parser (otherwise
//	the container's own serialisation is not TLV8) and Get* equals the reference's per-tag
//	concatenation; when it fails it returns an error.
//
// Deliberately NOT demanded (the property does not state it): the order of items of different
// tags on the wire; whether an empty value is emitted as a zero-length item or not at all;
// whether two consecutive sets of the same tag are kept as separate items or coalesced; that hc
// accepts every input the reference parser accepts (counted, informational).
package main

import (
	"bytes"
	"crypto/sha256"
	"encoding/hex"
	"fmt"
	"io"
	"math/rand"
	"runtime"
	"runtime/debug"
	"strings"
	"sync"
	"sync/atomic"
	"testing/iotest"
	"time"

	"github.com/brutella/hc/util"

	"verif/refctl"
	"verif/vf"
)

const hcFragment = "brutella/hc"

// ---------------------------------------------------------------------------------------------
// per-job context: local counters, flushed into the Run when the job ends
// ---------------------------------------------------------------------------------------------

type ctx struct {
	r        *vf.Run
	rnd      *rand.Rand
	evals    int
	counts   map[string]int
	distinct map[string]map[string]struct{}
	nontriv  []string
	caseNo   int
}

func newCtx(r *vf.Run, rnd *rand.Rand) *ctx {
	return &ctx{r: r, rnd: rnd, counts: map[string]int{}, distinct: map[string]map[string]struct{}{}}
}

func (c *ctx) count(k string, n int) { c.counts[k] += n }
func (c *ctx) dist(class, key string) {
	m := c.distinct[class]
	if m == nil {
		m = map[string]struct{}{}
		c.distinct[class] = m
	}
	m[key] = struct{}{}
}
func (c *ctx) nontrivial(key string) { c.nontriv = append(c.nontriv, key) }
func (c *ctx) flush() {
	c.r.Evals(c.evals)
	for k, v := range c.counts {
		c.r.Count(k, v)
	}
	for cl, m := range c.distinct {
		for k := range m {
			c.r.Distinct(cl, k)
		}
	}
	for _, k := range c.nontriv {
		c.r.Nontrivial(k)
	}
}

var (
	vmu   sync.Mutex
	vseen = map[string]bool{}
)

// violate builds the witness only for the first occurrence of a signature.
func (c *ctx) violate(sig, what string, witness func() interface{}) {
	vmu.Lock()
	defer vmu.Unlock()
	if vseen[sig] {
		c.r.Violation(sig, what, nil)
		return
	}
	vseen[sig] = true
	c.r.Violation(sig, what, witness())
}

func hexFull(b []byte) string {
	if len(b) <= 2048 {
		return hex.EncodeToString(b)
	}
	return vf.Hex(b)
}

// ---------------------------------------------------------------------------------------------
// readers handed to hc's parser
// ---------------------------------------------------------------------------------------------

var readerModes = []string{"bytes.Reader", "bytes.Buffer", "onebyte", "half", "data+eof"}

func mkReader(mode string, b []byte) io.Reader {
	switch mode {
	case "bytes.Reader":
		return bytes.NewReader(b)
	case "bytes.Buffer":
		return bytes.NewBuffer(append([]byte(nil), b...))
	case "onebyte":
		return iotest.OneByteReader(bytes.NewReader(b))
	case "half":
		return iotest.HalfReader(bytes.NewReader(b))
	case "data+eof":
		return iotest.DataErrReader(bytes.NewReader(b))
	}
	panic(mode)
}

// ---------------------------------------------------------------------------------------------
// set operations and the model
// ---------------------------------------------------------------------------------------------

type op struct {
	Kind string // SetByte | SetBytes | SetString
	Tag  byte
	Val  []byte
}

func opsWitness(ops []op) []map[string]interface{} {
	out := make([]map[string]interface{}, len(ops))
	for i, o := range ops {
		out[i] = map[string]interface{}{"call": o.Kind, "tag": int(o.Tag), "len": len(o.Val), "value_hex": hexFull(o.Val)}
	}
	return out
}

func opsKey(ops []op) string {
	var sb strings.Builder
	for _, o := range ops {
		fmt.Fprintf(&sb, "%s/%d/%d;", o.Kind, o.Tag, len(o.Val))
	}
	return sb.String()
}

func lenClass(n int) string {
	switch {
	case n == 0:
		return "0"
	case n < 255:
		return "1..254"
	case n == 255:
		return "255"
	case n%255 == 0:
		return "k*255(k>=2)"
	case n < 510:
		return "256..509"
	case n <= 1024:
		return "511..1024"
	case n < 65536:
		return "1025..65535"
	default:
		return ">=65536"
	}
}

type gets struct {
	b   [256][]byte
	s   [256]string
	one [256]byte
}

func (c *ctx) getAll(cont util.Container, stage string, witness func() interface{}) *gets {
	g := &gets{}
	last := -1
	panicked, text := vf.Recover(func() {
		for t := 0; t < 256; t++ {
			last = t
			g.b[t] = cont.GetBytes(byte(t))
			g.s[t] = cont.GetString(byte(t))
			g.one[t] = cont.GetByte(byte(t))
		}
	})
	if panicked {
		c.violate("get:"+stage+":panic:"+vf.PanicSite(text, hcFragment), fmt.Sprintf("Get* of tag %d panicked (%s): %s", last, stage, firstLine(text)), witness)
		return nil
	}
	c.count("get_calls", 3*256)
	return g
}

func firstLine(s string) string {
	if i := strings.IndexByte(s, '\n'); i >= 0 {
		return s[:i]
	}
	return s
}

// how a returned value differs from the expected one (part of the signature)
func diffKind(got, want []byte) string {
	switch {
	case len(got) == 0:
		return "got-nothing"
	case len(got) < len(want) && bytes.HasPrefix(want, got):
		return "got-prefix"
	case len(got) < len(want) && bytes.HasSuffix(want, got):
		return "got-suffix"
	case len(got) < len(want):
		return "got-shorter"
	case len(got) > len(want) && len(want) == 0:
		return "got-data-for-unset-tag"
	case len(got) > len(want):
		return "got-longer"
	default:
		return "same-length-different-content"
	}
}

// compare Get* results against the model; shape[t] describes how tag t was set.
// Returns false after reporting the first difference.
func (c *ctx) compareGets(stage string, g *gets, model *[256][]byte, shape *[256]string, before *gets, witness func() interface{}) bool {
	for t := 0; t < 256; t++ {
		want := model[t]
		if !bytes.Equal(g.b[t], want) {
			c.violate(fmt.Sprintf("get:%s:GetBytes:%s:%s", stage, shape[t], diffKind(g.b[t], want)),
				fmt.Sprintf("GetBytes(%d) %s returns %d bytes, expected (concatenation of the tag's values in the model / reference parse) %d bytes (%s)", t, stage, len(g.b[t]), len(want), diffKind(g.b[t], want)), witness)
			return false
		}
		if g.s[t] != string(want) {
			c.violate(fmt.Sprintf("get:%s:GetString:%s:%s", stage, shape[t], diffKind([]byte(g.s[t]), want)),
				fmt.Sprintf("GetString(%d) %s returns %d bytes, expected (concatenation of the tag's values in the model / reference parse) %d bytes", t, stage, len(g.s[t]), len(want)), witness)
			return false
		}
		if len(want) > 0 && g.one[t] != want[0] {
			c.violate(fmt.Sprintf("get:%s:GetByte:%s:not-first-byte", stage, shape[t]),
				fmt.Sprintf("GetByte(%d) %s returns %#02x, the first byte of the tag's expected value is %#02x", t, stage, g.one[t], want[0]), witness)
			return false
		}
		if len(want) == 0 && before != nil && g.one[t] != before.one[t] {
			c.violate(fmt.Sprintf("get:%s:GetByte:%s:changed-by-round-trip", stage, shape[t]),
				fmt.Sprintf("GetByte(%d) of a tag without data was %#02x before serialisation and is %#02x after re-parsing", t, before.one[t], g.one[t]), witness)
			return false
		}
	}
	return true
}

// fragment rule seen from the single sets: items g (lengths of one run of consecutive same-tag
// items) against the non-empty sets that make up the run.
func perSetRule(g []int, sets []int) bool {
	i := 0
	for _, n := range sets {
		for i < len(g) && g[i] == 0 { // zero-length items between sets carry nothing
			i++
		}
		rem := n
		for rem > 0 {
			if i >= len(g) {
				return false
			}
			l := g[i]
			i++
			if l > rem { // one item carries bytes of two sets
				return false
			}
			rem -= l
			if rem > 0 && l != 255 { // non-final fragment
				return false
			}
		}
	}
	return true
}

// fragment rule seen from the run as a whole (an implementation may coalesce consecutive sets
// of one tag): all items but the last are full.
func runRule(g []int) bool {
	for i := 0; i+1 < len(g); i++ {
		if g[i] != 255 {
			return false
		}
	}
	return true
}

// runContainer executes one container case. It returns hc's serialisation (nil after a violation).
func (c *ctx) runContainer(ops []op, origin string) []byte {
	c.evals++
	c.caseNo++
	c.count("containers", 1)
	c.dist("container_origin", origin)
	c.dist("sequence_length", fmt.Sprint(len(ops)))

	var model [256][]byte
	var nsets, nonEmpty, maxLen [256]int
	var setLens [256][]int
	var wire []byte
	witness := func() interface{} {
		w := map[string]interface{}{"origin": origin, "sets": opsWitness(ops)}
		if wire != nil {
			w["hc_BytesBuffer_hex"] = hexFull(wire)
		}
		return w
	}

	cont := util.NewTLV8Container()
	if cont == nil {
		c.violate("container:nil", "NewTLV8Container returned nil", witness)
		return nil
	}
	anyData := false
	// every third container is also serialised and read BETWEEN its sets (a message that is logged while it is built,
	// a container that is sent and then extended): what an earlier BytesBuffer / Get* call returned is the caller's
	// (it is overwritten and drained here), and it must not fix what a later call returns
	peek := c.caseNo%3 == 0 && len(ops) > 1
	for i, o := range ops {
		o := o
		if peek && (i > 0 || c.caseNo%2 == 0) {
			vf.Recover(func() {
				if b := cont.BytesBuffer(); b != nil {
					raw := b.Bytes()
					for k := range raw {
						raw[k] ^= 0x5a
					}
					b.Write([]byte{0xEE, 0x01, 0xEE})
					b.Next(3)
				}
				if g := cont.GetBytes(o.Tag); len(g) > 0 {
					g[0] ^= 0xff
				}
			})
			c.count("serialisations_between_sets", 1)
		}
		panicked, text := vf.Recover(func() {
			switch o.Kind {
			case "SetByte":
				cont.SetByte(o.Tag, o.Val[0])
			case "SetBytes":
				// the caller owns its buffer: it is handed over as a private copy and reused (overwritten) as
				// soon as the call has returned; the container must hold the value that was set
				arg := append(make([]byte, 0, len(o.Val)+7), o.Val...)
				cont.SetBytes(o.Tag, arg)
				for k := range arg {
					arg[k] = ^arg[k]
				}
				_ = append(arg, 0xEE, 0xEE, 0xEE, 0xEE, 0xEE, 0xEE, 0xEE)
			case "SetString":
				cont.SetString(o.Tag, string(o.Val))
			}
		})
		if panicked {
			c.violate("set:panic:"+vf.PanicSite(text, hcFragment), fmt.Sprintf("%s(tag %d, %d bytes) (set #%d) panicked: %s", o.Kind, o.Tag, len(o.Val), i, firstLine(text)), witness)
			return nil
		}
		t := o.Tag
		model[t] = append(model[t], o.Val...)
		nsets[t]++
		if len(o.Val) > 0 {
			nonEmpty[t]++
			anyData = true
			setLens[t] = append(setLens[t], len(o.Val))
		}
		if len(o.Val) > maxLen[t] {
			maxLen[t] = len(o.Val)
		}
		c.count("sets", 1)
		c.count("sets_"+o.Kind, 1)
		c.count("bytes_set", len(o.Val))
		c.dist("tag_set", fmt.Sprint(t))
		c.dist("set_length_class", lenClass(len(o.Val)))
		if len(ops) == 1 {
			c.dist("single_set_length", fmt.Sprint(len(o.Val)))
		}
		if len(o.Val) > 255 {
			c.count("sets_longer_than_255", 1)
		}
		if len(o.Val) > 0 && len(o.Val)%255 == 0 {
			c.count("sets_exact_multiple_of_255", 1)
		}
	}
	var shape [256]string
	tagsUsed, repeated := 0, false
	for t := 0; t < 256; t++ {
		switch {
		case nsets[t] == 0:
			shape[t] = "unset-tag"
		case nonEmpty[t] == 0:
			shape[t] = "only-empty-values"
		case nonEmpty[t] == 1 && maxLen[t] <= 255:
			shape[t] = "one-item"
		default:
			shape[t] = "multi-item"
		}
		if nsets[t] > 0 {
			tagsUsed++
		}
		if nsets[t] > 1 {
			repeated = true
		}
	}
	if repeated {
		c.count("containers_with_repeated_tag", 1)
	}
	if len(ops) > 1 {
		c.dist("sequence_shape", seqShape(ops))
		for _, f := range seqFeatures(ops) {
			c.dist("sequence_feature", f)
		}
	}
	if anyData {
		c.nontrivial("container:" + opsKey(ops))
	}

	// 1. Get* before serialisation equals the model
	before := c.getAll(cont, "before-serialise", witness)
	if before == nil || !c.compareGets("before-serialise", before, &model, &shape, nil, witness) {
		return nil
	}

	// 2. serialise
	var buf *bytes.Buffer
	if panicked, text := vf.Recover(func() { buf = cont.BytesBuffer() }); panicked {
		c.violate("serialise:panic:"+vf.PanicSite(text, hcFragment), "BytesBuffer panicked: "+firstLine(text), witness)
		return nil
	}
	if buf == nil {
		c.violate("serialise:nil-buffer", "BytesBuffer returned nil", witness)
		return nil
	}
	wire = append([]byte{}, buf.Bytes()...)
	c.count("wire_bytes", len(wire))

	// 3. the reference parser on hc's bytes
	tlv, err := refctl.ParseTLV(wire)
	if err != nil {
		c.violate("wire:reference-parser-rejects", fmt.Sprintf("the reference TLV8 parser rejects hc's serialisation: %v", err), witness)
		return nil
	}
	var perTag [256][]byte
	for _, it := range tlv.Raw {
		perTag[it.Tag] = append(perTag[it.Tag], it.Val...)
		c.count("wire_items", 1)
		if len(it.Val) > 255 { // cannot happen with a one-byte length; kept as the stated check
			c.violate("wire:item-longer-than-255", fmt.Sprintf("item of %d bytes", len(it.Val)), witness)
			return nil
		}
		if len(it.Val) == 255 {
			c.count("wire_items_full_255", 1)
		}
		if len(it.Val) == 0 {
			c.count("wire_items_zero_length", 1)
		}
	}
	for t := 0; t < 256; t++ {
		if !bytes.Equal(perTag[t], model[t]) {
			c.violate(fmt.Sprintf("wire:reference-parse-differs-from-what-was-set:%s:%s", shape[t], diffKind(perTag[t], model[t])),
				fmt.Sprintf("the reference parser finds %d bytes for tag %d in hc's serialisation, %d bytes were set (%s)", len(perTag[t]), t, len(model[t]), diffKind(perTag[t], model[t])), witness)
			return nil
		}
	}
	// what a standard (merging) parser sees: tlv.Items; cross-check with the raw runs
	// runs of consecutive same-tag raw items, per tag in wire order
	var runs [256][][]int
	for i, it := range tlv.Raw {
		if i > 0 && tlv.Raw[i-1].Tag == it.Tag {
			rs := runs[it.Tag]
			rs[len(rs)-1] = append(rs[len(rs)-1], len(it.Val))
		} else {
			runs[it.Tag] = append(runs[it.Tag], []int{len(it.Val)})
		}
	}
	for t := 0; t < 256; t++ {
		if len(runs[t]) == 0 {
			continue
		}
		sets := setLens[t]
		si := 0
		for _, g := range runs[t] {
			total := 0
			for _, l := range g {
				total += l
			}
			if total == 0 {
				continue
			}
			start, s := si, 0
			for si < len(sets) && s < total {
				s += sets[si]
				si++
			}
			if s != total {
				c.violate("wire:fragments-of-one-set-not-consecutive",
					fmt.Sprintf("tag %d: a merged item of %d bytes ends inside a value that one set call wrote; a standard parser cannot reassemble that value", t, total), witness)
				return nil
			}
			c.count("merged_items_checked", 1)
			if len(g) > 1 {
				c.count("fragment_runs_checked", 1)
			}
			if !perSetRule(g, sets[start:si]) && !runRule(g) {
				c.violate("wire:non-final-fragment-not-255",
					fmt.Sprintf("tag %d: item lengths %v for set lengths %v: a fragment that is not the last one of its value is not 255 bytes", t, g, sets[start:si]), witness)
				return nil
			}
		}
	}
	// a value set alone for its tag must come out of the standard parser as one merged item
	for _, it := range tlv.Items {
		t := it.Tag
		if nonEmpty[t] == 1 && len(it.Val) > 0 && !bytes.Equal(it.Val, model[t]) {
			c.violate("wire:standard-parser-does-not-reassemble",
				fmt.Sprintf("tag %d was set once with %d bytes; the merging reference parser yields an item of %d bytes", t, len(model[t]), len(it.Val)), witness)
			return nil
		}
	}

	// 4. re-parse with hc
	mode := readerModes[c.caseNo%len(readerModes)]
	c.dist("reader_mode", mode)
	var back util.Container
	var perr error
	// (the parser is given a reader over the caller's receive buffer, which the caller reuses once the parser has returned)
	rbuf := append([]byte(nil), wire...)
	var rd io.Reader = mkReader(mode, rbuf)
	if mode == "bytes.Buffer" {
		rd = bytes.NewBuffer(rbuf)
	}
	hung, panicked, text := vf.RecoverWithin(parseWatchdog, func() { back, perr = util.NewTLV8ContainerFromReader(rd) })
	if !hung {
		for k := range rbuf {
			rbuf[k] = ^rbuf[k]
		}
	}
	if hung {
		c.hung("reparse:does-not-return", fmt.Sprintf("parsing hc's own serialisation (%d bytes, %s reader) did not return within %s", len(wire), mode, parseWatchdog), witness)
		return nil
	}
	if panicked {
		c.violate("reparse:panic:"+vf.PanicSite(text, hcFragment), "parsing hc's own serialisation panicked: "+firstLine(text), witness)
		return nil
	}
	if perr != nil || back == nil {
		c.violate("reparse:error", fmt.Sprintf("hc cannot parse its own serialisation (%s reader): container=%v err=%v", mode, back != nil, perr), witness)
		return nil
	}
	after := c.getAll(back, "after-reparse", witness)
	if after == nil || !c.compareGets("after-reparse", after, &model, &shape, before, witness) {
		return nil
	}
	var buf2 *bytes.Buffer
	if panicked, text := vf.Recover(func() { buf2 = back.BytesBuffer() }); panicked {
		c.violate("reparse:serialise:panic:"+vf.PanicSite(text, hcFragment), "BytesBuffer of the re-parsed container panicked: "+firstLine(text), witness)
		return nil
	}
	if buf2 == nil || !bytes.Equal(buf2.Bytes(), wire) {
		c.violate("reparse:bytes-differ", "serialise -> parse -> serialise does not reproduce the bytes", witness)
		return nil
	}
	c.count("containers_roundtripped", 1)
	c.count("tags_compared", 2*256)
	return wire
}

func seqShape(ops []op) string {
	var idx [256]int
	next := 0
	var sb strings.Builder
	for _, o := range ops {
		if idx[o.Tag] == 0 {
			next++
			idx[o.Tag] = next
		}
		sb.WriteByte(byte('A' + idx[o.Tag] - 1))
		if len(o.Val) > 255 {
			sb.WriteByte('+')
		} else if len(o.Val) == 0 {
			sb.WriteByte('0')
		}
	}
	return sb.String()
}

func seqFeatures(ops []op) []string {
	var f []string
	seen := map[byte]int{}
	for i, o := range ops {
		if i > 0 && ops[i-1].Tag == o.Tag {
			f = append(f, "same-tag-consecutive")
			if len(ops[i-1].Val) > 255 {
				f = append(f, "same-tag-after-fragmented-value")
			}
			if len(ops[i-1].Val) > 0 && len(ops[i-1].Val)%255 == 0 {
				f = append(f, "same-tag-after-exact-multiple-of-255")
			}
		} else if j, ok := seen[o.Tag]; ok && j < i-1 {
			f = append(f, "same-tag-interleaved")
		}
		if len(o.Val) == 0 {
			f = append(f, "empty-value-in-sequence")
			if i > 0 && i+1 < len(ops) && ops[i-1].Tag == ops[i+1].Tag && ops[i-1].Tag != o.Tag {
				f = append(f, "empty-value-between-two-sets-of-another-tag")
			}
		}
		if len(o.Val) > 255 {
			f = append(f, "fragmented-value-in-sequence")
		}
		seen[o.Tag] = i
	}
	return f
}

// ---------------------------------------------------------------------------------------------
// parser cases
// ---------------------------------------------------------------------------------------------

func (c *ctx) runParse(input []byte, class string) {
	c.evals++
	c.caseNo++
	c.count("parser_inputs", 1)
	c.count("parser_inputs_"+class, 1)
	c.dist("parser_input_class", class)
	mode := readerModes[c.caseNo%len(readerModes)]
	c.dist("reader_mode", mode)
	if len(input) > 0 {
		h := sha256.Sum256(input)
		c.nontrivial("parse:" + string(h[:16]))
	}
	var out []byte
	witness := func() interface{} {
		w := map[string]interface{}{"input_class": class, "reader_mode": mode, "input_len": len(input), "input_hex": hexFull(input)}
		if out != nil {
			w["BytesBuffer_of_parsed_container_hex"] = hexFull(out)
		}
		return w
	}
	var cont util.Container
	var err error
	hung, panicked, text := vf.RecoverWithin(parseWatchdog, func() { cont, err = util.NewTLV8ContainerFromReader(mkReader(mode, input)) })
	if hung {
		c.hung("parse:does-not-return", fmt.Sprintf("NewTLV8ContainerFromReader did not return within %s on %d input bytes (%s reader): it neither succeeds nor returns an error", parseWatchdog, len(input), mode), witness)
		return
	}
	if panicked {
		c.violate("parse:panic:"+vf.PanicSite(text, hcFragment), fmt.Sprintf("NewTLV8ContainerFromReader panicked on %d input bytes: %s", len(input), firstLine(text)), witness)
		return
	}
	ref, refErr := refctl.ParseTLV(input)
	if err != nil {
		c.count("parse_failures", 1)
		if refErr == nil {
			c.count("parse_failures_on_input_the_reference_accepts", 1) // informational: not demanded
		} else {
			c.count("parse_failures_agreeing_with_reference", 1)
		}
		return
	}
	if cont == nil {
		c.violate("parse:nil-container-without-error", "the parser returned neither a container nor an error", witness)
		return
	}
	c.count("parse_successes", 1)
	malformed := "wellformed-input"
	if refErr != nil {
		malformed = "truncated-input-accepted"
		c.count("parse_successes_on_input_the_reference_rejects", 1)
	} else {
		c.count("parse_successes_agreeing_with_reference", 1)
	}
	var buf *bytes.Buffer
	if panicked, text := vf.Recover(func() { buf = cont.BytesBuffer() }); panicked {
		c.violate("parse:serialise:panic:"+vf.PanicSite(text, hcFragment), "BytesBuffer of a parsed container panicked: "+firstLine(text), witness)
		return
	}
	if buf == nil {
		c.violate("parse:serialise:nil-buffer", "BytesBuffer of a parsed container returned nil", witness)
		return
	}
	out = append([]byte{}, buf.Bytes()...)
	if !bytes.Equal(out, input) {
		kind := "content-differs"
		switch {
		case len(out) > len(input) && bytes.HasPrefix(out, input):
			kind = "bytes-invented-after-input"
		case len(out) > len(input):
			kind = "longer-than-input"
		case len(out) < len(input) && bytes.HasPrefix(input, out):
			kind = "input-tail-dropped"
		case len(out) < len(input):
			kind = "shorter-than-input"
		}
		c.violate("parse:"+malformed+":reserialised-"+kind,
			fmt.Sprintf("parsing %d bytes succeeds but the parsed container serialises to %d bytes that are not the input (%s)", len(input), len(out), kind), witness)
		return
	}
	if refErr != nil {
		// The parser accepted an input whose last item is cut short and kept the stump: the
		// container it returned serialises (identically to the input) to bytes that no standard
		// TLV8 parser accepts, and Get* hands out a value the sender never completed.
		c.violate("parse:truncated-input-accepted:partial-item-kept",
			fmt.Sprintf("parsing %d bytes succeeds although the last item is truncated (reference: %v); the parsed container serialises to bytes a standard parser rejects", len(input), refErr), witness)
		return
	}
	var model [256][]byte
	var items [256]int
	for _, it := range ref.Raw {
		model[it.Tag] = append(model[it.Tag], it.Val...)
		items[it.Tag]++
	}
	var shape [256]string
	for t := 0; t < 256; t++ {
		switch {
		case items[t] == 0:
			shape[t] = "unset-tag"
		case len(model[t]) == 0:
			shape[t] = "only-empty-values"
		case items[t] == 1:
			shape[t] = "one-item"
		default:
			shape[t] = "multi-item"
		}
	}
	g := c.getAll(cont, "after-parse", witness)
	if g == nil || !c.compareGets("after-parse", g, &model, &shape, nil, witness) {
		return
	}
	c.count("parse_successes_fully_checked", 1)
}

// ---------------------------------------------------------------------------------------------
// generators
// ---------------------------------------------------------------------------------------------

func content(rnd *rand.Rand, n int) []byte {
	b := make([]byte, n)
	switch rnd.Intn(8) {
	case 0: // zeros
	case 1:
		for i := range b {
			b[i] = 0xFF
		}
	case 2:
		for i := range b {
			b[i] = byte(i % 251)
		}
	case 3: // looks like TLV headers
		for i := 0; i+1 < n; i += 2 {
			b[i] = byte(rnd.Intn(4))
			b[i+1] = byte([]int{0, 1, 2, 254, 255}[rnd.Intn(5)])
		}
	default:
		rnd.Read(b)
	}
	return b
}

var runes = []rune("aZ09 \x00\x7fé߿漢￿😀\U0010FFFF")

// text returns valid UTF-8 of exactly n bytes (multi-byte runes land on fragment boundaries).
func text(rnd *rand.Rand, n int) []byte {
	b := make([]byte, 0, n)
	for len(b) < n {
		s := string(runes[rnd.Intn(len(runes))])
		if len(b)+len(s) > n {
			s = "x"
		}
		b = append(b, s...)
	}
	return b
}

func mkOp(rnd *rand.Rand, kind string, tag byte, n int) op {
	switch kind {
	case "SetByte":
		return op{kind, tag, []byte{byte(rnd.Intn(256))}}
	case "SetString":
		if rnd.Intn(2) == 0 {
			return op{kind, tag, text(rnd, n)}
		}
	}
	return op{kind, tag, content(rnd, n)}
}

var boundaryLens = []int{0, 1, 2, 254, 255, 256, 257, 509, 510, 511, 764, 765, 766, 1019, 1020, 1021, 1024}
var seqLens = []int{0, 0, 1, 1, 2, 16, 100, 253, 254, 255, 255, 256, 257, 509, 510, 510, 511, 765}
var kinds = []string{"SetByte", "SetBytes", "SetString"}

func genSequence(rnd *rand.Rand) []op {
	k := 1 + rnd.Intn(12)
	pool := make([]byte, 1+rnd.Intn(4))
	for i := range pool {
		switch rnd.Intn(4) {
		case 0:
			pool[i] = []byte{0, 1, 6, 0x0A, 0x7F, 0x80, 0xFE, 0xFF}[rnd.Intn(8)]
		default:
			pool[i] = byte(rnd.Intn(256))
		}
	}
	ops := make([]op, k)
	for i := range ops {
		tag := pool[rnd.Intn(len(pool))]
		if i > 0 && rnd.Intn(4) == 0 {
			tag = ops[i-1].Tag
		}
		var n int
		switch rnd.Intn(10) {
		case 0, 1, 2, 3:
			n = seqLens[rnd.Intn(len(seqLens))]
		case 4, 5, 6:
			n = rnd.Intn(40)
		case 7, 8:
			n = rnd.Intn(1100)
		default:
			n = rnd.Intn(3000)
		}
		ops[i] = mkOp(rnd, kinds[rnd.Intn(3)], tag, n)
	}
	return ops
}

// refEncode encodes a sequence with the reference encoder; variant chooses how empty values
// and fragment sizes are written (all variants are well-formed TLV8).
func refEncode(rnd *rand.Rand, ops []op, variant int) []byte {
	e := &refctl.Enc{}
	for _, o := range ops {
		switch variant {
		case 0: // canonical, empty value as zero-length item
			e.Bytes(o.Tag, o.Val)
		case 1: // canonical, empty value omitted (what hc writes)
			if len(o.Val) > 0 {
				e.Bytes(o.Tag, o.Val)
			}
		default: // arbitrary item sizes 0..255
			v := o.Val
			for len(v) > 0 {
				n := rnd.Intn(256)
				if rnd.Intn(3) == 0 {
					n = 255
				}
				if n > len(v) {
					n = len(v)
				}
				e.RawItem(o.Tag, v[:n])
				v = v[n:]
			}
			if rnd.Intn(3) == 0 {
				e.RawItem(o.Tag, nil)
			}
		}
	}
	return e.B
}

func randomInput(rnd *rand.Rand) ([]byte, string) {
	switch rnd.Intn(7) {
	case 0:
		b := make([]byte, rnd.Intn(41))
		rnd.Read(b)
		return b, "random-uniform-short"
	case 1:
		b := make([]byte, rnd.Intn(601))
		rnd.Read(b)
		return b, "random-uniform"
	case 2:
		n := rnd.Intn(300)
		b := make([]byte, n)
		v := []byte{0, 0xFF, 1, byte(rnd.Intn(256))}[rnd.Intn(4)]
		for i := range b {
			b[i] = v
		}
		return b, "random-constant-byte"
	default:
		// structured: random items, then possibly damaged
		e := &refctl.Enc{}
		k := rnd.Intn(8)
		for i := 0; i < k; i++ {
			var n int
			switch rnd.Intn(6) {
			case 0:
				n = 0
			case 1:
				n = 255
			case 2:
				n = 254
			default:
				n = rnd.Intn(20)
			}
			e.RawItem(byte(rnd.Intn(256)), content(rnd, n))
		}
		b := e.B
		switch rnd.Intn(5) {
		case 0:
			return b, "random-structured-wellformed"
		case 1:
			if len(b) > 0 {
				b = b[:rnd.Intn(len(b))]
			}
			return b, "random-structured-chopped"
		case 2:
			junk := make([]byte, 1+rnd.Intn(3))
			rnd.Read(junk)
			return append(b, junk...), "random-structured-junk-appended"
		case 3:
			if len(b) > 0 {
				b[rnd.Intn(len(b))] ^= byte(1 << uint(rnd.Intn(8)))
			}
			return b, "random-structured-bit-flipped"
		default:
			if len(b) > 0 {
				i := rnd.Intn(len(b))
				b = append(append([]byte{}, b[:i]...), b[i+1:]...)
			}
			return b, "random-structured-byte-deleted"
		}
	}
}

// truncations and length-byte mutations of one valid encoding
func (c *ctx) damage(base []byte, allValues bool) {
	c.count("valid_encodings_damaged", 1)
	for cut := 0; cut <= len(base); cut++ {
		c.runParse(base[:cut], "truncation-of-valid-encoding")
	}
	items, err := refctl.ParseItems(base)
	if err != nil {
		return
	}
	pos := 0
	for _, it := range items {
		lp := pos + 1
		old := int(base[lp])
		var repl []int
		if allValues {
			for v := 0; v < 256; v++ {
				repl = append(repl, v)
			}
		} else {
			repl = []int{0, 1, old - 1, old + 1, old + 2, 254, 255, c.rnd.Intn(256)}
		}
		for _, v := range repl {
			if v < 0 || v > 255 || v == old {
				continue
			}
			m := append([]byte{}, base...)
			m[lp] = byte(v)
			c.runParse(m, "length-byte-mutation")
		}
		pos += 2 + len(it.Val)
	}
}

// ---------------------------------------------------------------------------------------------

type sample struct {
	Sets []map[string]interface{} `json:"sets"`
	Wire string                   `json:"hc_wire"`
}

func main() {
	debug.SetGCPercent(1000) // the live heap is small and the cases allocate a lot: collect less often
	r := vf.Start("C16", "exploration")
	r.SetRule("a container case = a sequence of 1..12 SetByte/SetBytes/SetString calls on a fresh util TLV8 container: Get* of all 256 tags before serialisation, " +
		"(values up to 70000 bytes sampled, and containers of 64 KiB .. 1 MiB (thorough 4 MiB) with an item boundary on / next to the round offset) the reference parse of BytesBuffer(), the fragment rule and hc's re-parse (Get* of all 256 tags, bytes) are compared with a per-tag model; non-trivial = distinct " +
		"(call, tag, length) sequence with at least one non-empty value. A parser case = one byte string handed to NewTLV8ContainerFromReader: no panic, on success " +
		"BytesBuffer() identical to the input and Get* equal to the reference's per-tag concatenation; non-trivial = distinct non-empty input")
	r.Assume("refctl's TLV8 codec follows the HAP specification (self-tested): one-byte tag, one-byte length, consecutive same-tag items are fragments of one value")
	r.Assume("not demanded: wire order of different tags, how an empty value is written, whether consecutive sets of one tag are coalesced, acceptance of every well-formed input (counted only)")

	// ---- showcase cases, run first and serially so that the evidence samples are deterministic
	{
		c := newCtx(r, r.Rand("showcase"))
		show := [][]op{
			{mkOp(c.rnd, "SetBytes", 0x03, 5)},
			{mkOp(c.rnd, "SetBytes", 0x05, 256)},
			{mkOp(c.rnd, "SetByte", 0x06, 1), mkOp(c.rnd, "SetString", 0x01, 12), mkOp(c.rnd, "SetByte", 0x06, 1)},
			{mkOp(c.rnd, "SetBytes", 0xFF, 510), mkOp(c.rnd, "SetBytes", 0xFF, 3), mkOp(c.rnd, "SetString", 0x00, 0)},
		}
		for _, ops := range show {
			w := c.runContainer(ops, "showcase")
			r.Sample(sample{opsWitness(ops), vf.Hex(w)})
		}
		// the parser's io.Reader may be nil (the loop condition of the parser tests for it)
		var cont util.Container
		var err error
		c.evals++
		if panicked, text := vf.Recover(func() { cont, err = util.NewTLV8ContainerFromReader(nil) }); panicked {
			c.violate("parse:nil-reader:panic:"+vf.PanicSite(text, hcFragment), "nil reader panicked: "+firstLine(text), func() interface{} { return nil })
		} else if err == nil && cont != nil {
			if b := cont.BytesBuffer(); b == nil || b.Len() != 0 {
				c.violate("parse:nil-reader:data-invented", "a nil reader gave a container with content", func() interface{} { return nil })
			}
		}
		c.count("parser_nil_reader", 1)
		c.flush()
	}

	var jobs []func(c *ctx)
	add := func(f func(c *ctx)) { jobs = append(jobs, f) }

	// ---- A1: every tag alone at the boundary lengths, every call kind
	blens := boundaryLens
	if r.Thorough() {
		blens = append(append([]int{}, boundaryLens...), 3, 127, 128, 253, 258, 508, 512, 1023, 1025, 1275, 1276, 2040, 2041, 2295, 4096)
	}
	for t := 0; t < 256; t++ {
		tag := byte(t)
		add(func(c *ctx) {
			for _, n := range blens {
				c.runContainer([]op{mkOp(c.rnd, "SetBytes", tag, n)}, "single-set-boundary")
				c.runContainer([]op{mkOp(c.rnd, "SetString", tag, n)}, "single-set-boundary")
			}
			for _, v := range []byte{0, 1, tag, 0xFF, byte(c.rnd.Intn(256))} {
				c.runContainer([]op{{"SetByte", tag, []byte{v}}}, "single-set-byte")
			}
		})
	}
	// SetByte: every byte value on a few tags
	for _, t := range []byte{0x00, 0x06, 0xFF} {
		tag := t
		add(func(c *ctx) {
			for v := 0; v < 256; v++ {
				c.runContainer([]op{{"SetByte", tag, []byte{byte(v)}}}, "single-set-byte")
			}
		})
	}

	// ---- A2: every length 0..1024 for some tags
	seedRnd := r.Rand("plan")
	sweepTags := []byte{0x00, 0xFF, byte(1 + seedRnd.Intn(254))}
	if r.Thorough() {
		sweepTags = []byte{0x00, 0x01, 0x03, 0x05, 0x06, 0x0A, 0x7F, 0x80, 0xFE, 0xFF}
		for len(sweepTags) < 16 {
			t := byte(seedRnd.Intn(256))
			if bytes.IndexByte(sweepTags, t) < 0 {
				sweepTags = append(sweepTags, t)
			}
		}
	}
	r.Extra("tags_with_every_length_0_to_1024", fmt.Sprint(sweepTags))
	for _, t := range sweepTags {
		tag := t
		for lo := 0; lo <= 1024; lo += 205 {
			lo := lo
			add(func(c *ctx) {
				for n := lo; n < lo+205 && n <= 1024; n++ {
					c.runContainer([]op{mkOp(c.rnd, "SetBytes", tag, n)}, "single-set-every-length")
					c.runContainer([]op{mkOp(c.rnd, "SetString", tag, n)}, "single-set-every-length")
					c.count("every_length_cases", 2)
				}
			})
		}
	}

	// ---- A3: long values, sampled up to 70000 bytes
	longFixed := []int{65024, 65025, 65026, 65535, 65536, 65537, 70000}
	nlong := r.Pick(40, 600)
	for i := 0; i < nlong+len(longFixed); i += 10 {
		i := i
		add(func(c *ctx) {
			for j := i; j < i+10 && j < nlong+len(longFixed); j++ {
				var n int
				switch {
				case j < len(longFixed):
					n = longFixed[j]
				case j%3 == 0:
					n = 255 * (5 + c.rnd.Intn(270)) // exact multiples
				default:
					n = 1025 + c.rnd.Intn(70000-1025+1)
				}
				kind := kinds[1+j%2]
				ops := []op{mkOp(c.rnd, kind, byte(c.rnd.Intn(256)), n)}
				if j%4 == 0 { // a long value followed by the same tag and by another one
					ops = append(ops, mkOp(c.rnd, "SetBytes", ops[0].Tag, c.rnd.Intn(600)), mkOp(c.rnd, "SetByte", ops[0].Tag+1, 1))
				}
				c.runContainer(ops, "long-value-sampled")
				c.count("long_value_cases", 1)
			}
		})
	}

	// ---- A3b: very long values around round total sizes (64 KiB .. 4 MiB, 10^5 .. 2*10^6): a first small item is sized so that an
	// item boundary of the second value's fragments falls exactly on the round offset R (also R-1, R+1 and an unaligned
	// layout), and the container continues beyond it.  Both directions: hc serialises + re-parses, and hc parses the
	// reference encoding.
	rounds := []int{1 << 16, 100000, 1 << 17, 1 << 18, 500000, 1 << 19, 1000000, 1 << 20}
	if r.Thorough() {
		rounds = append(rounds, 2000000, 1<<21, 3000000, 1<<22)
	}
	for _, R := range rounds {
		R := R
		add(func(c *ctx) {
			for _, off := range []int{0, -1, 1, 100} {
				target := R + off
				n0 := (target - 2) % 257 // (2+n0) + 257*m == target
				m := (target - 2 - n0) / 257
				if n0 > 255 { // 256: two items 2+254 and 2+0 ... use a 255 byte and shift by one full fragment less one byte
					n0 = 255
					m = (target - 2 - n0) / 257
				}
				tagA := byte(c.rnd.Intn(256))
				tagB := tagA + 1 + byte(c.rnd.Intn(254))
				ops := []op{mkOp(c.rnd, "SetBytes", tagA, n0), mkOp(c.rnd, "SetBytes", tagB, 255*m+1000+c.rnd.Intn(2000)), mkOp(c.rnd, "SetByte", tagA+1, 1)}
				if ops[2].Tag == tagB {
					ops = ops[:2]
				}
				c.runContainer(ops, "very-long-value-round-offset")
				c.runParse(refEncode(c.rnd, ops, 0), "valid-reference-encoding-very-long")
				c.count("very_long_value_cases", 2)
				c.dist("very_long_round_offset", fmt.Sprint(R))
			}
		})
	}

	// ---- A4: sequences with repeated and interleaved tags
	nseq := r.Pick(30000, 1000000)
	const seqBatch = 500
	for i := 0; i < nseq; i += seqBatch {
		add(func(c *ctx) {
			for j := 0; j < seqBatch; j++ {
				c.runContainer(genSequence(c.rnd), "sequence")
				c.count("sequence_cases", 1)
			}
		})
	}

	// ---- A5: containers that come out of the parser and are extended with sets
	nsap := r.Pick(20000, 400000)
	for i := 0; i < nsap; i += 500 {
		add(func(c *ctx) {
			for j := 0; j < 500; j++ {
				c.caseNo++
				ops := genSequence(c.rnd)
				k := c.rnd.Intn(len(ops) + 1)
				pre, post := ops[:k], ops[k:]
				if len(pre) > 0 && c.rnd.Intn(2) == 0 {
					// the first set continues the tag of the last parsed item, with lengths around what is left to 255
					last := pre[len(pre)-1]
					n := []int{1, 2, 255 - len(last.Val)%255, 256 - len(last.Val)%255, 254, 255, 256, 300, 600}[c.rnd.Intn(9)]
					post = append([]op{mkOp(c.rnd, "SetBytes", last.Tag, n)}, post...)
				}
				c.runSetAfterParse(pre, post)
			}
		})
	}

	// ---- B0: every input of 0, 1 and 2 bytes (thorough: also every 3-byte input whose length byte is 0, 1 or 2)
	add(func(c *ctx) {
		c.runParse([]byte{}, "exhaustive-up-to-2-bytes")
		for a := 0; a < 256; a++ {
			c.runParse([]byte{byte(a)}, "exhaustive-up-to-2-bytes")
		}
	})
	for a := 0; a < 256; a++ {
		a := a
		add(func(c *ctx) {
			for b := 0; b < 256; b++ {
				c.runParse([]byte{byte(a), byte(b)}, "exhaustive-up-to-2-bytes")
			}
			if c.r.Thorough() {
				for l := 0; l < 3; l++ {
					for v := 0; v < 256; v++ {
						c.runParse([]byte{byte(a), byte(l), byte(v)}, "exhaustive-3-bytes-small-length")
					}
				}
			}
		})
	}

	// ---- B1: random byte strings
	nrand := r.Pick(60000, 1000000)
	const randBatch = 2000
	for i := 0; i < nrand; i += randBatch {
		add(func(c *ctx) {
			for j := 0; j < randBatch; j++ {
				b, class := randomInput(c.rnd)
				c.runParse(b, class)
			}
		})
	}

	// ---- B2/B3: every truncation and length-byte mutations of valid encodings
	nbase := r.Pick(120, 1800)
	for i := 0; i < nbase; i++ {
		i := i
		add(func(c *ctx) {
			var ops []op
			for {
				ops = genSequence(c.rnd)
				total := 0
				for _, o := range ops {
					total += len(o.Val)
				}
				if total <= 1400 {
					break
				}
			}
			switch i % 4 {
			case 0, 1, 2:
				c.dist("damaged_encoding_source", fmt.Sprintf("reference-encoder-variant-%d", i%4))
				c.damage(refEncode(c.rnd, ops, i%4), i%40 == 0)
			default:
				c.dist("damaged_encoding_source", "hc-BytesBuffer")
				if w := c.runContainer(ops, "sequence"); w != nil {
					c.damage(w, false)
				}
			}
		})
	}
	// the reference encodings themselves must parse in hc to the model (a conformant peer's message)
	nrefenc := r.Pick(4000, 100000)
	for i := 0; i < nrefenc; i += 500 {
		add(func(c *ctx) {
			for j := 0; j < 500; j++ {
				c.runParse(refEncode(c.rnd, genSequence(c.rnd), j%3), "valid-reference-encoding")
			}
		})
	}

	// ---- run the jobs on all cores; job i draws from its own stream (seed, i)
	workers := runtime.NumCPU()
	if workers > 16 {
		workers = 16
	}
	ch := make(chan int)
	var wg sync.WaitGroup
	for w := 0; w < workers; w++ {
		wg.Add(1)
		go func() {
			defer wg.Done()
			for i := range ch {
				c := newCtx(r, r.RandN("job", i))
				r.Guard(fmt.Sprintf("job %d", i), func() { jobs[i](c) })
				c.flush()
			}
		}()
	}
	for i := range jobs {
		ch <- i
	}
	close(ch)
	wg.Wait()
	r.Extra("jobs", len(jobs))

	// ---- coverage floors
	r.Floor("containers", int(r.Counter("containers")), r.Pick(30000, 900000))
	r.Floor("containers_roundtripped", int(r.Counter("containers_roundtripped")), 1)
	r.Floor("distinct tags set", r.DistinctN("tag_set"), 256)
	r.Floor("distinct single-set lengths", r.DistinctN("single_set_length"), 1025)
	r.Floor("every_length_cases", int(r.Counter("every_length_cases")), r.Pick(3, 16)*1025*2)
	r.Floor("sets_longer_than_255", int(r.Counter("sets_longer_than_255")), 1000)
	r.Floor("sets_exact_multiple_of_255", int(r.Counter("sets_exact_multiple_of_255")), 500)
	r.Floor("containers_with_repeated_tag", int(r.Counter("containers_with_repeated_tag")), 1000)
	r.Floor("sequence features", r.DistinctN("sequence_feature"), 7)
	r.Floor("containers_extended_after_parsing_ok+violations", int(r.Counter("containers_extended_after_parsing_ok"))+1000*r.ViolationCount(), nsap*8/10)
	r.Floor("sets_after_parsing_on_the_tag_of_the_last_parsed_item", int(r.Counter("sets_after_parsing_on_the_tag_of_the_last_parsed_item")), nsap/4)
	r.Floor("serialisations_between_sets", int(r.Counter("serialisations_between_sets")), 10000)
	r.Floor("very_long_value_cases", int(r.Counter("very_long_value_cases")), len(rounds)*8)
	r.Floor("parser_inputs", int(r.Counter("parser_inputs")), r.Pick(100000, 1000000))
	r.Floor("parser truncations", int(r.Counter("parser_inputs_truncation-of-valid-encoding")), 10000)
	r.Floor("parser length-byte mutations", int(r.Counter("parser_inputs_length-byte-mutation")), 1000)
	// when the parser accepts (nearly) nothing, the violations explain it; floors only matter for a silent run
	r.Floor("parse_successes", int(r.Counter("parse_successes")), 1000)
	r.Floor("parse_failures", int(r.Counter("parse_failures")), 1000)
	r.Finish()
}

// parseWatchdog bounds one parser call: microseconds are expected, so 20 s without returning is non-termination.
const parseWatchdog = 20 * time.Second

var hangs int32

// hung records a non-returning call; after a few of them the process ends (every hung goroutine keeps spinning).
func (c *ctx) hung(sig, what string, witness func() interface{}) {
	c.violate(sig, what, witness)
	if atomic.AddInt32(&hangs, 1) >= 3 {
		c.flush()
		c.r.Finish()
	}
}

// runSetAfterParse: a container that came out of the PARSER is extended with set calls (a received message that is
// completed and sent on) and serialised.  The per-tag model is the parsed values followed by the set values; the
// reference parser must find exactly that in hc's serialisation, and hc's own re-parse must agree.
func (c *ctx) runSetAfterParse(pre, post []op) {
	c.evals++
	c.count("containers_extended_after_parsing", 1)
	enc := refEncode(c.rnd, pre, c.caseNo%3)
	var model [256][]byte
	for _, o := range pre {
		model[o.Tag] = append(model[o.Tag], o.Val...)
	}
	var wire []byte
	witness := func() interface{} {
		w := map[string]interface{}{"origin": "set-after-parse", "parsed_input_hex": hexFull(enc), "parsed_values": opsWitness(pre), "sets_after_parsing": opsWitness(post)}
		if wire != nil {
			w["hc_BytesBuffer_hex"] = hexFull(wire)
		}
		return w
	}
	var cont util.Container
	var err error
	if p, text := vf.Recover(func() { cont, err = util.NewTLV8ContainerFromReader(bytes.NewReader(enc)) }); p {
		c.violate("parse:panic:"+vf.PanicSite(text, hcFragment), "NewTLV8ContainerFromReader panicked: "+firstLine(text), witness)
		return
	}
	if err != nil || cont == nil {
		c.count("set_after_parse_input_rejected", 1)
		return
	}
	for i, o := range post {
		o := o
		if p, text := vf.Recover(func() {
			switch o.Kind {
			case "SetByte":
				cont.SetByte(o.Tag, o.Val[0])
			case "SetBytes":
				arg := append(make([]byte, 0, len(o.Val)+7), o.Val...)
				cont.SetBytes(o.Tag, arg)
				for k := range arg {
					arg[k] = ^arg[k]
				}
			case "SetString":
				cont.SetString(o.Tag, string(o.Val))
			}
		}); p {
			c.violate("set-after-parse:panic:"+vf.PanicSite(text, hcFragment), fmt.Sprintf("%s(tag %d, %d bytes) (set #%d after parsing) panicked: %s", o.Kind, o.Tag, len(o.Val), i, firstLine(text)), witness)
			return
		}
		model[o.Tag] = append(model[o.Tag], o.Val...)
		c.count("sets_after_parsing", 1)
		if len(pre) > 0 && o.Tag == pre[len(pre)-1].Tag {
			c.count("sets_after_parsing_on_the_tag_of_the_last_parsed_item", 1)
		}
	}
	var buf *bytes.Buffer
	if p, text := vf.Recover(func() { buf = cont.BytesBuffer() }); p || buf == nil {
		c.violate("set-after-parse:serialise:panic-or-nil", "BytesBuffer of a parsed and extended container panicked or returned nil: "+firstLine(text), witness)
		return
	}
	wire = append([]byte{}, buf.Bytes()...)
	tlv, perr := refctl.ParseTLV(wire)
	if perr != nil {
		c.violate("set-after-parse:reference-parser-rejects", fmt.Sprintf("the reference TLV8 parser rejects the serialisation of a parsed and extended container: %v", perr), witness)
		return
	}
	var perTag [256][]byte
	for _, it := range tlv.Raw {
		perTag[it.Tag] = append(perTag[it.Tag], it.Val...)
	}
	for t := 0; t < 256; t++ {
		if !bytes.Equal(perTag[t], model[t]) {
			c.violate("set-after-parse:reference-parse-differs:"+diffKind(perTag[t], model[t]),
				fmt.Sprintf("parsed %d values, then %d sets: the reference parser finds %d bytes for tag %d in hc's serialisation, the parsed input and the sets hold %d (%s)", len(pre), len(post), len(perTag[t]), t, len(model[t]), diffKind(perTag[t], model[t])), witness)
			return
		}
		if got := cont.GetBytes(uint8(t)); !bytes.Equal(got, model[t]) && !(len(got) == 0 && len(model[t]) == 0) {
			c.violate("set-after-parse:get-differs:"+diffKind(got, model[t]), fmt.Sprintf("GetBytes(%d) of a parsed and extended container returns %d bytes, expected %d", t, len(got), len(model[t])), witness)
			return
		}
	}
	c.count("containers_extended_after_parsing_ok", 1)
}

// C07 — reads on an encrypted connection deliver exactly the bytes sent.
//
// Harness A (this file): hap.Connection over a scripted net.Conn.  The script is the reference-framed
// ciphertext of a message sequence cut into segments with idle periods; the reader uses a scripted
// sequence of buffer sizes.  Online oracle: (a) prefix, (b) no EOF / non-timeout error, (c) promptness,
// (d) bounded completion after the script is exhausted.
// Harness B (handover.go): the plaintext -> ciphertext switch around pair-verify M4 on a real transport.
package main

import (
	"bytes"
	"fmt"
	"io"
	"math/rand"
	"net"
	"os"
	"time"

	"verif/harness/hcx"
	"verif/harness/script"
	"verif/refctl"
	"verif/vf"
)

var run *vf.Run

type scriptCase struct {
	Msgs     []int  `json:"message_lengths"`
	Policy   string `json:"frame_policy"`
	Seg      string `json:"segmentation"`
	Idle     string `json:"idle"`
	Buf      string `json:"buffer_sizes"`
	FrameLen []int  `json:"frame_lengths,omitempty"`
	Cuts     []int  `json:"segment_lengths,omitempty"`
}

var lenSet = []int{1, 2, 17, 100, 1023, 1024, 1025, 2048, 4096, 4097}
var bufSet = []int{1, 2, 17, 100, 1023, 1024, 1025, 4096, 8192}

func lenClass(n int) string {
	switch {
	case n < 1024:
		return "<1024"
	case n%1024 == 0:
		return "k*1024"
	default:
		return ">1024"
	}
}

// runScript executes one case; cutAt >= 0 forces a single cut at that offset.
func runScript(rnd *rand.Rand, c scriptCase, cutAt int) {
	run.Eval()
	var secret [32]byte
	rnd.Read(secret[:])
	c2a, _ := refctl.SessionKeys(secret[:])
	fr := &refctl.Framer{Key: c2a}
	var expected []byte
	var stream []byte
	type frameEnd struct{ raw, plain int }
	var ends []frameEnd // cumulative raw / plaintext offsets after each frame
	var msgEndsRaw []int
	for _, n := range c.Msgs {
		p := make([]byte, n)
		rnd.Read(p)
		expected = append(expected, p...)
		for len(p) > 0 {
			k := 1024
			if c.Policy == "arbitrary" {
				k = 1 + rnd.Intn(1024)
			} else if c.Policy == "small" {
				k = 1 + rnd.Intn(600)
			}
			if k > len(p) {
				k = len(p)
			}
			if c.Policy == "with-empty" && rnd.Intn(3) == 0 {
				// a well-formed frame without content (length 0, tag only): it uses up a counter value and carries nothing
				stream = append(stream, fr.SealFrame(nil)...)
				c.FrameLen = append(c.FrameLen, 0)
				last := frameEnd{}
				if len(ends) > 0 {
					last = ends[len(ends)-1]
				}
				ends = append(ends, frameEnd{len(stream), last.plain})
				run.Count("empty_frames_sent_by_the_peer", 1)
			}
			stream = append(stream, fr.SealFrame(p[:k])...)
			c.FrameLen = append(c.FrameLen, k)
			last := frameEnd{}
			if len(ends) > 0 {
				last = ends[len(ends)-1]
			}
			ends = append(ends, frameEnd{len(stream), last.plain + k})
			p = p[k:]
		}
		if c.Policy == "with-empty" && rnd.Intn(2) == 0 {
			// ... also as the last frame of a message (what some peers send after a message of k*1024 bytes)
			stream = append(stream, fr.SealFrame(nil)...)
			c.FrameLen = append(c.FrameLen, 0)
			ends = append(ends, frameEnd{len(stream), ends[len(ends)-1].plain})
			run.Count("empty_frames_sent_by_the_peer", 1)
		}
		msgEndsRaw = append(msgEndsRaw, len(stream))
	}
	// segmentation
	var cuts []int // segment lengths
	rest := len(stream)
	add := func(n int) {
		if n > rest {
			n = rest
		}
		if n > 0 {
			cuts = append(cuts, n)
			rest -= n
		}
	}
	switch c.Seg {
	case "whole":
		add(rest)
	case "single-cut":
		add(cutAt)
		add(rest)
	case "bytewise":
		for rest > 0 {
			add(1)
		}
	case "per-frame":
		prev := 0
		for _, e := range ends {
			add(e.raw - prev)
			prev = e.raw
		}
	case "per-message":
		prev := 0
		for _, e := range msgEndsRaw {
			add(e - prev)
			prev = e
		}
	case "pairs":
		// two messages per segment
		prev := 0
		for i, e := range msgEndsRaw {
			if i%2 == 1 || i == len(msgEndsRaw)-1 {
				add(e - prev)
				prev = e
			}
		}
	case "random":
		for rest > 0 {
			switch rnd.Intn(4) {
			case 0:
				add(1 + rnd.Intn(20))
			case 1:
				add(1 + rnd.Intn(3000))
			default:
				add(1 + rnd.Intn(1100))
			}
		}
	case "header-split":
		// cut inside the 2-byte length and inside the tag of every frame
		prev := 0
		for _, e := range ends {
			add(1)
			add(e.raw - prev - 1 - 7)
			add(7)
			prev = e.raw
		}
	}
	add(rest)
	c.Cuts = cuts
	var steps []script.Step
	off := 0
	idles := 0
	for i, n := range cuts {
		idle := false
		switch c.Idle {
		case "every":
			idle = i > 0
		case "random":
			idle = rnd.Intn(3) == 0
		case "double":
			idle = i > 0
			if idle {
				steps = append(steps, script.Step{Idle: true})
				idles++
			}
		}
		if idle {
			steps = append(steps, script.Step{Idle: true})
			idles++
		}
		steps = append(steps, script.Step{Data: stream[off : off+n]})
		off += n
	}
	run.Count("idle_periods_injected", idles)
	run.Count("segments", len(cuts))
	run.Count("frames", len(ends))
	run.Count("messages", len(c.Msgs))

	sc := script.New(nil)
	sc.KeepReads = false
	ctx := hcx.NewContext()
	hc, err := hcx.ServerConn(sc, ctx, secret)
	if err != nil {
		run.Inconclusive("ServerConn: " + err.Error())
		return
	}
	// as after pair-verify: the M4 response goes out first, then the connection reads
	hc.Write([]byte("HTTP/1.1 200 OK\r\nContent-Length: 0\r\n\r\n"))
	sc.Append(steps...)

	bufFixed := 0
	switch c.Buf {
	case "random":
	default:
		fmt.Sscanf(c.Buf, "%d", &bufFixed)
	}
	buf := make([]byte, 16384)
	var got []byte
	extra := 0
	limit := len(ends) + len(cuts) + 8
	calls := 0
	maxCalls := 4*len(stream) + 1000
	viol := func(sig, what string) {
		c2 := c
		if len(c2.FrameLen) > 40 {
			c2.FrameLen = c2.FrameLen[:40]
		}
		if len(c2.Cuts) > 40 {
			c2.Cuts = c2.Cuts[:40]
		}
		run.Violation(sig, what, map[string]interface{}{"case": c2, "cut_at": cutAt, "read_calls": calls, "plaintext_expected": len(expected),
			"plaintext_returned": len(got), "raw_delivered": sc.Delivered, "raw_total": len(stream), "secret": vf.Hex(secret[:])})
	}
	for ; calls < maxCalls; calls++ {
		b := bufFixed
		if b == 0 {
			b = bufSet[rnd.Intn(len(bufSet))]
			if rnd.Intn(4) == 0 {
				b = 1 + rnd.Intn(9000)
			}
		}
		if bufFixed == 0 && rnd.Intn(40) == 0 {
			b = 0 // an empty buffer is a buffer size too: nothing may be returned, lost or reported
		}
		t0, gotBefore := sc.Timeouts, len(got)
		n, err := hc.Read(buf[:b])
		run.Count("read_calls", 1)
		if n < 0 || n > b {
			viol("read:count-exceeds-buffer", fmt.Sprintf("Read into a buffer of %d bytes returned n=%d", b, n))
			return
		}
		if b == 0 {
			run.Count("read_calls_with_empty_buffer", 1)
		}
		if n > 0 && sc.Timeouts > t0 {
			// The call returned data, but on its way it went back to the network and ran into a read timeout (on a
			// real socket: it blocked until the deadline). If complete frames were waiting at that moment, data
			// was withheld although it had arrived.
			avail := 0
			for _, e := range ends {
				if e.raw <= sc.DeliveredAtTimeout {
					avail = e.plain
				}
			}
			if avail > gotBefore {
				viol("read:not-prompt", fmt.Sprintf("Read waited for the network (read timeout inside the call) although %d plaintext bytes of completely arrived frames had not been returned yet; it returned them only afterwards", avail-gotBefore))
				return
			}
		}
		if n > 0 {
			got = append(got, buf[:n]...)
			for k := range buf[:b] {
				buf[k] = 0xEE // the reader reuses its buffer; nothing may be written into it after the call
			}
			if len(got) > len(expected) || !bytes.Equal(got[len(got)-n:], expected[len(got)-n:len(got)]) {
				viol("read:not-prefix", fmt.Sprintf("Read returned bytes that are not the next bytes the peer sent (after %d of %d plaintext bytes)", len(got)-n, len(expected)))
				return
			}
		}
		if err != nil {
			ne, isNet := err.(net.Error)
			if !(isNet && ne.Timeout()) {
				if err == io.EOF {
					viol("read:eof", fmt.Sprintf("Read returned (%d, EOF) although the peer is connected (buffer %d, %d of %d plaintext bytes returned)", n, b, len(got), len(expected)))
				} else {
					viol("read:error", fmt.Sprintf("Read returned error %q although the peer sent only well-formed frames", err.Error()))
				}
				return
			}
			run.Count("timeouts_returned", 1)
			// a caller whose read deadline has passed sets a new one before it reads again (net/http does; on a real
			// socket every read fails until it does), sometimes by clearing it
			if calls%2 == 0 {
				hc.SetReadDeadline(time.Now().Add(time.Hour))
			} else {
				hc.SetReadDeadline(time.Time{})
			}
			if n == 0 {
				// (c) promptness: the call went back to the network; every completely arrived frame must be out
				avail := 0
				for _, e := range ends {
					if e.raw <= sc.Delivered {
						avail = e.plain
					}
				}
				if len(got) < avail {
					viol("read:not-prompt", fmt.Sprintf("Read returned a timeout although %d plaintext bytes of completely arrived frames were not yet returned (%d returned, %d available)", avail-len(got), len(got), avail))
					return
				}
			}
		} else if n == 0 && sc.Closed() {
			viol("read:closed-connection", "the connection was closed by the receiver although the peer sent only well-formed frames")
			return
		}
		if len(got) == len(expected) {
			break
		}
		if sc.Exhausted() && n == 0 {
			// (d) bounded completion: calls that return nothing after everything arrived
			extra++
			if extra > limit {
				viol("read:stalled", fmt.Sprintf("after the whole stream was delivered, %d Read calls returned nothing while %d plaintext bytes were still outstanding", extra, len(expected)-len(got)))
				return
			}
		}
	}
	if len(got) != len(expected) {
		viol("read:stalled", "read loop ended without all plaintext")
		return
	}
	// nothing more may come
	for i := 0; i < 3; i++ {
		n, err := hc.Read(buf[:100])
		if n > 0 {
			viol("read:extra-bytes", "Read returned bytes after everything the peer sent was delivered")
			return
		}
		if err == io.EOF {
			viol("read:eof", "Read returned EOF after the last message although the peer is connected")
			return
		}
		if ne, ok := err.(net.Error); err != nil && !(ok && ne.Timeout()) {
			viol("read:error", fmt.Sprintf("Read returned error %q after the last message", err.Error()))
			return
		}
	}
	run.Count("scripts_delivered_completely", 1)
}

func main() {
	if len(os.Args) > 1 && os.Args[1] == "-handover-race-child" {
		raceChild()
		return
	}
	run = vf.Start("C07", "exploration")
	r := run
	r.SetRule("harness A: a case = (message lengths, frame policy, segmentation incl. every single cut offset of base streams, idle periods, caller buffer sizes); " +
		"non-trivial = distinct (message length classes, segmentation, idle mode, buffer class, cut offset). harness B: pair-verify handovers on a real transport under " +
		"four schedules (natural, late abort, late background read, late activation) each followed by three back-to-back encrypted requests. harness N: 2..4 encrypted connections of one process alive at the same time " +
		"after 1..2 earlier ones were used and closed (once / twice / close-read-close / three times), segments interleaved across the connections, each followed by reads until that connection reports a timeout; per connection prefix, no error, no lost bytes")
	r.Assume("refctl framing follows the specification; the scripted connection never disconnects (timeouts only)")
	rnd := r.Rand("c07a")

	segs := []string{"whole", "bytewise", "per-frame", "per-message", "pairs", "random", "header-split"}
	idles := []string{"none", "none", "every", "random", "double"}
	policies := []string{"max", "max", "arbitrary", "small", "with-empty"}
	caseNo := 0
	do := func(c scriptCase, cutAt int) {
		caseNo++
		key := fmt.Sprint(c.Seg, "/", c.Idle, "/", c.Buf, "/", c.Policy, "/", cutAt, "/")
		for _, m := range c.Msgs {
			key += lenClass(m) + ","
			r.Distinct("message_length", fmt.Sprint(m))
		}
		r.Nontrivial(key)
		r.Distinct("segmentation", c.Seg)
		r.Distinct("class(seg,idle,policy)", c.Seg+"/"+c.Idle+"/"+c.Policy)
		runScript(rnd, c, cutAt)
		r.SampleAt(caseNo, func() interface{} { return c })
	}

	// 1. every single message length x segmentation x buffer size
	for _, m := range lenSet {
		for _, sg := range segs {
			for _, b := range bufSet {
				do(scriptCase{Msgs: []int{m}, Policy: "max", Seg: sg, Idle: "none", Buf: fmt.Sprint(b)}, -1)
			}
		}
	}
	// 1b. large messages (16 KiB .. beyond 64 KiB: 16 .. 69 frames), a few segmentations and buffer sizes
	for _, m := range []int{16384, 65535, 65536, 70000} {
		for _, sg := range []string{"whole", "per-frame", "random", "header-split"} {
			for _, b := range []string{"1024", "4096", "8192", "random"} {
				do(scriptCase{Msgs: []int{m, 17}, Policy: "max", Seg: sg, Idle: "random", Buf: b}, -1)
				r.Count("scripts_with_a_message_of_16_to_69_frames", 1)
			}
		}
	}
	// 2. every single cut offset of base streams (<= 2.2 KB), with and without an idle period at the cut
	bases := [][]int{{1, 2}, {17, 100}, {1023}, {1024}, {1025}, {100, 1024, 2}, {2048}}
	for _, base := range bases {
		total := 0
		for _, m := range base {
			total += m + 18*((m+1023)/1024)
		}
		stride := 1
		if !r.Thorough() && total > 300 {
			stride = 7
		}
		for cut := 1; cut < total; cut += stride {
			for _, idle := range []string{"none", "every"} {
				do(scriptCase{Msgs: base, Policy: "max", Seg: "single-cut", Idle: idle, Buf: "4096"}, cut)
			}
		}
	}
	// 3. random scripts
	n := r.Pick(3000, 150000)
	for i := 0; i < n; i++ {
		k := 1 + rnd.Intn(6)
		msgs := make([]int, k)
		for j := range msgs {
			if rnd.Intn(5) == 0 {
				msgs[j] = 1 + rnd.Intn(5000)
			} else {
				msgs[j] = lenSet[rnd.Intn(len(lenSet))]
			}
		}
		bufm := "random"
		if rnd.Intn(2) == 0 {
			bufm = fmt.Sprint(bufSet[rnd.Intn(len(bufSet))])
		}
		do(scriptCase{Msgs: msgs, Policy: policies[rnd.Intn(len(policies))], Seg: segs[rnd.Intn(len(segs))], Idle: idles[rnd.Intn(len(idles))], Buf: bufm}, -1)
	}
	r.Floor("scripts", caseNo, 3000)
	r.Floor("empty_frames_sent_by_the_peer", int(r.Counter("empty_frames_sent_by_the_peer")), 300)
	r.Floor("idle_periods_injected", int(r.Counter("idle_periods_injected")), 1000)

	pauseDone := make(chan struct{})
	go func() { defer close(pauseDone); r.Guard("long pause", func() { longPause(r) }) }()
	r.Guard("harness N", func() { neighbours(r) })
	r.Floor("neighbour_rounds_completed+violations", int(r.Counter("neighbour_rounds_completed"))+r.ViolationCount(), r.Pick(150, 3000)*9/10)
	r.Floor("neighbour close variants", r.DistinctN("neighbour_close_variant"), 4)

	pendingReadHandovers(r, rnd)
	handover(r)
	if r.ViolationCount() == 0 {
		handoverRace(r) // (a tree that already violates is not also run under the race detector)
	}
	<-pauseDone
	r.Finish()
}

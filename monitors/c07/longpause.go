package main

import (
	"bytes"
	"fmt"
	"math/rand"
	"time"

	"verif/harness/hcx"
	"verif/harness/script"
	"verif/refctl"
	"verif/vf"
)

// Long pause: two frames of one connection each arrive in two pieces with a read timeout in between, and T seconds of
// REAL time lie between the two frames (T = 11 s in quick, 31 and 61 s in thorough runs: beyond the 10, 30 and 60 s a
// "the peer has stalled" limit would use).  During those T seconds the reader is inside one Read call that simply does not
// return (no timeout with an empty buffer in between).  Both frames are well-formed and complete in the end: both
// plaintexts must be delivered, and no Read may report anything but a timeout.  Whatever a connection remembers about
// the first interrupted frame (a time stamp, a count of timeouts) must not be held against the second.  Virtual time
// cannot produce this: what is measured is the wall clock.  The scenarios of a run wait at the same time.
func longPause(r *vf.Run) {
	Ts := []int{11}
	if r.Thorough() {
		Ts = []int{11, 31, 61}
	}
	type out struct {
		T        int
		sig      string
		what     string
		w        map[string]interface{}
		incon    string
		timeouts int
	}
	res := make(chan out, len(Ts)*2)
	n := 0
	for _, T := range Ts {
		for variant := 0; variant < 2; variant++ {
			n++
			go func(T, variant int) {
				o := out{T: T}
				defer func() { res <- o }()
				rnd := rand.New(rand.NewSource(r.Seed*577 + int64(T*2+variant)))
				var secret [32]byte
				rnd.Read(secret[:])
				c2a, _ := refctl.SessionKeys(secret[:])
				fr := &refctl.Framer{Key: c2a}
				p1, p2 := make([]byte, 200+rnd.Intn(700)), make([]byte, 200+rnd.Intn(700))
				rnd.Read(p1)
				rnd.Read(p2)
				f1, f2 := fr.SealFrame(p1), fr.SealFrame(p2)
				k1, k2 := 2+rnd.Intn(len(f1)-3), 2+rnd.Intn(len(f2)-3)
				if variant == 1 {
					k1, k2 = 1, 1 // the cut falls inside the length field
				}
				sc := script.New([]script.Step{{Data: f1[:k1]}, {Idle: true}, {Data: f1[k1:]}})
				sc.KeepReads = false
				hc, err := hcx.ServerConn(sc, hcx.NewContext(), secret)
				if err != nil {
					o.incon = err.Error()
					return
				}
				defer hc.Close()
				var got []byte
				buf := make([]byte, 4096)
				readUntil := func(want int, label string) bool {
					for tries := 0; len(got) < want && tries < 12; tries++ {
						nn, e := hc.Read(buf)
						got = append(got, buf[:nn]...)
						if e != nil {
							if te, ok := e.(interface{ Timeout() bool }); ok && te.Timeout() {
								o.timeouts++
								continue
							}
							o.sig = "long-pause:read-error"
							o.what = fmt.Sprintf("%s: Read reported %q although the peer sent only well-formed frames (two frames, each in two pieces with one read timeout in between, %d s apart); %d of %d plaintext bytes had been delivered", label, e, T, len(got), len(p1)+len(p2))
							return false
						}
					}
					if len(got) < want {
						o.sig = "long-pause:not-delivered"
						o.what = fmt.Sprintf("%s: %d of %d plaintext bytes delivered after every byte had arrived", label, len(got), want)
						return false
					}
					return true
				}
				o.w = map[string]interface{}{"seconds_between_the_frames": T, "first_frame_cut_at": k1, "second_frame_cut_at": k2, "frame_bytes": []int{len(f1), len(f2)}}
				if !readUntil(len(p1), "first frame") {
					return
				}
				sc.OnData = func() { time.Sleep(time.Duration(T) * time.Second) }
				sc.Append(script.Step{Data: f2[:k2]}, script.Step{Idle: true}, script.Step{Data: f2[k2:]})
				if !readUntil(len(p1)+len(p2), "second frame") {
					return
				}
				if !bytes.Equal(got, append(append([]byte{}, p1...), p2...)) {
					o.sig, o.what = "long-pause:wrong-bytes", "the bytes delivered are not the plaintexts sent"
				}
			}(T, variant)
		}
	}
	for i := 0; i < n; i++ {
		o := <-res
		r.Eval()
		switch {
		case o.incon != "":
			r.Inconclusive("long pause: " + o.incon)
		case o.sig != "":
			r.Violation(o.sig, o.what, o.w)
		default:
			r.Count("long_pause_scenarios_held", 1)
			r.Count("long_pause_mid_frame_timeouts", o.timeouts)
			r.Nontrivial(fmt.Sprintf("long-pause/%d", o.T))
		}
	}
	r.Floor("long_pause_scenarios_held+violations", int(r.Counter("long_pause_scenarios_held"))+r.ViolationCount(), n)
	r.Floor("long_pause_mid_frame_timeouts", int(r.Counter("long_pause_mid_frame_timeouts"))+100*r.ViolationCount(), n)
}

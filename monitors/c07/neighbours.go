package main

import (
	"bytes"
	"fmt"
	"io"
	"math/rand"
	"net"
	"runtime/debug"
	"time"

	"github.com/brutella/hc/hap"

	"verif/harness/hcx"
	"verif/harness/script"
	"verif/refctl"
	"verif/vf"
)

// Harness N (neighbours): several encrypted connections of ONE process and context are alive at the same time, after
// earlier connections of the process were used and closed (once, twice, or read again after Close).  Segments of the
// connections' streams arrive interleaved, with read timeouts in between; every connection must deliver exactly its
// own bytes.  What one connection leaves behind when it is closed (pooled readers, package-level buffers) must not
// show in another.  The garbage collector is switched off during the harness: a server with little garbage keeps
// pooled objects for a long time.

type nconn struct {
	name     string
	sc       *script.Conn
	hc       *hap.Connection
	segs     [][]byte
	next     int
	expected []byte
	got      []byte
	ends     [][2]int // (raw, plain) cumulative per frame
	raw      int      // raw bytes appended so far
	secret   [32]byte
}

func newNConn(rnd *rand.Rand, ctx hap.Context, name string, msgs []int) (*nconn, error) {
	c := &nconn{name: name}
	rnd.Read(c.secret[:])
	c2a, _ := refctl.SessionKeys(c.secret[:])
	fr := &refctl.Framer{Key: c2a}
	var stream []byte
	plain := 0
	for _, n := range msgs {
		p := make([]byte, n)
		rnd.Read(p)
		c.expected = append(c.expected, p...)
		for len(p) > 0 {
			k := 1024
			if rnd.Intn(3) == 0 {
				k = 1 + rnd.Intn(1024)
			}
			if k > len(p) {
				k = len(p)
			}
			stream = append(stream, fr.SealFrame(p[:k])...)
			plain += k
			c.ends = append(c.ends, [2]int{len(stream), plain})
			p = p[k:]
		}
	}
	// segments: cuts inside frames (so that partial frames stay buffered across the neighbours' reads)
	for len(stream) > 0 {
		var n int
		switch rnd.Intn(4) {
		case 0:
			n = 1 + rnd.Intn(3)
		case 1:
			n = 1 + rnd.Intn(40)
		default:
			n = 1 + rnd.Intn(1500)
		}
		if n > len(stream) {
			n = len(stream)
		}
		c.segs = append(c.segs, stream[:n])
		stream = stream[n:]
	}
	c.sc = script.New(nil)
	c.sc.KeepReads = false
	hc, err := hcx.ServerConn(c.sc, ctx, c.secret)
	if err != nil {
		return nil, err
	}
	c.hc = hc
	hc.Write([]byte("HTTP/1.1 200 OK\r\nContent-Length: 0\r\n\r\n"))
	return c, nil
}

// feedAndRead hands the next segment to the connection and reads until the connection reports a timeout.
func (c *nconn) feedAndRead(rnd *rand.Rand, viol func(c *nconn, sig, what string)) bool {
	if c.next < len(c.segs) {
		c.sc.Append(script.Step{Data: c.segs[c.next]})
		c.raw += len(c.segs[c.next])
		c.next++
	}
	buf := make([]byte, 9000)
	for calls := 0; calls < 200; calls++ {
		b := bufSet[rnd.Intn(len(bufSet))]
		n, err := c.hc.Read(buf[:b])
		run.Count("neighbour_read_calls", 1)
		if n > 0 {
			c.got = append(c.got, buf[:n]...)
			if len(c.got) > len(c.expected) || !bytes.Equal(c.got[len(c.got)-n:], c.expected[len(c.got)-n:len(c.got)]) {
				viol(c, "neighbours:not-prefix", fmt.Sprintf("connection %s: Read returned bytes that are not the next bytes ITS peer sent (after %d of %d plaintext bytes)", c.name, len(c.got)-n, len(c.expected)))
				return false
			}
		}
		if err != nil {
			ne, isNet := err.(net.Error)
			if !(isNet && ne.Timeout()) {
				sig := "neighbours:error"
				if err == io.EOF {
					sig = "neighbours:eof"
				}
				viol(c, sig, fmt.Sprintf("connection %s: Read returned error %q although its peer is connected and sent only well-formed frames", c.name, err.Error()))
				return false
			}
			c.hc.SetReadDeadline(time.Now().Add(time.Hour))
			if n == 0 {
				avail := 0
				for _, e := range c.ends {
					if e[0] <= c.raw {
						avail = e[1]
					}
				}
				if len(c.got) < avail {
					viol(c, "neighbours:bytes-lost", fmt.Sprintf("connection %s: Read reports a timeout although %d plaintext bytes of frames that arrived completely on THIS connection were never returned (%d returned, %d arrived)", c.name, avail-len(c.got), len(c.got), avail))
					return false
				}
				return true
			}
		}
	}
	viol(c, "neighbours:stalled", fmt.Sprintf("connection %s: 200 Read calls after a segment neither completed nor reported a timeout", c.name))
	return false
}

func neighbours(r *vf.Run) {
	old := debug.SetGCPercent(-1)
	defer debug.SetGCPercent(old)
	rounds := r.Pick(150, 3000)
	ctx := hcx.NewContext()
	for round := 0; round < rounds; round++ {
		r.Eval()
		rnd := r.RandN("c07-neighbours", round)
		var trace []string
		bad := false
		viol := func(c *nconn, sig, what string) {
			bad = true
			r.Violation(sig, what, map[string]interface{}{"round": round, "history": trace, "connection": c.name, "plaintext_expected": len(c.expected), "plaintext_returned": len(c.got), "raw_delivered": c.raw})
		}
		mkMsgs := func() []int {
			k := 1 + rnd.Intn(3)
			m := make([]int, k)
			for i := range m {
				m[i] = lenSet[rnd.Intn(len(lenSet))]
				if rnd.Intn(3) == 0 {
					m[i] = 1 + rnd.Intn(3000)
				}
			}
			return m
		}
		// generation 1: connections that are used and then closed in different ways
		nOld := 1 + rnd.Intn(2)
		for i := 0; i < nOld && !bad; i++ {
			c, err := newNConn(rnd, ctx, fmt.Sprintf("old%d", i), mkMsgs())
			if err != nil {
				r.Inconclusive("ServerConn: " + err.Error())
				return
			}
			stopAt := len(c.segs)
			if rnd.Intn(3) == 0 {
				stopAt = rnd.Intn(len(c.segs) + 1) // closed with a partial frame buffered
			}
			for c.next < stopAt && !bad {
				c.feedAndRead(rnd, viol)
			}
			how := rnd.Intn(4)
			switch how {
			case 0:
				c.hc.Close()
			case 1:
				c.hc.Close()
				c.hc.Close()
			case 2:
				c.hc.Close()
				c.hc.Read(make([]byte, 10))
				c.hc.Close()
			default:
				c.hc.Close()
				c.hc.Close()
				c.hc.Close()
			}
			trace = append(trace, fmt.Sprintf("%s: %d of %d segments read, then closed (variant %d: 0 once, 1 twice, 2 close-read-close, 3 three times)", c.name, c.next, len(c.segs), how))
			r.Distinct("neighbour_close_variant", fmt.Sprint(how))
		}
		// generation 2: connections alive at the same time, segments interleaved
		nNew := 2 + rnd.Intn(3)
		var live []*nconn
		for i := 0; i < nNew; i++ {
			c, err := newNConn(rnd, ctx, fmt.Sprintf("new%d", i), mkMsgs())
			if err != nil {
				r.Inconclusive("ServerConn: " + err.Error())
				return
			}
			live = append(live, c)
		}
		trace = append(trace, fmt.Sprintf("%d connections opened; their segments arrive interleaved, each followed by reads on that connection until it reports a timeout", nNew))
		for !bad {
			var open []*nconn
			for _, c := range live {
				if c.next < len(c.segs) {
					open = append(open, c)
				}
			}
			if len(open) == 0 {
				break
			}
			c := open[rnd.Intn(len(open))]
			if len(trace) < 60 {
				trace = append(trace, fmt.Sprintf("%s: segment %d (%d bytes)", c.name, c.next, len(c.segs[c.next])))
			}
			c.feedAndRead(rnd, viol)
			r.Count("neighbour_segments", 1)
		}
		for _, c := range live {
			if !bad && len(c.got) != len(c.expected) {
				viol(c, "neighbours:bytes-lost", fmt.Sprintf("connection %s: its whole stream arrived, %d of %d plaintext bytes were delivered", c.name, len(c.got), len(c.expected)))
			}
			c.hc.Close()
		}
		if !bad {
			r.Count("neighbour_rounds_completed", 1)
			r.Count("neighbour_connections_completed", nNew)
		}
		if r.ViolationCount() > 20 {
			break
		}
	}
}

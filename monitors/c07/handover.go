package main

import "verif/vf"

// handover is harness B; filled in once the full-stack harness exists.
func handover(r *vf.Run) {}

package main

import (
	"fmt"
	"os"
	"os/exec"
	"path/filepath"
	"regexp"
	"sync"
	"sync/atomic"
	"time"

	"github.com/brutella/hc/accessory"
	"github.com/brutella/hc/verifhook"

	"verif/harness/app"
	"verif/refctl"
	"verif/vf"
)

// schedule: 0 natural, 1 late abort (pause after Write returned), 2 late background read,
// 3 late activation (pause between the plaintext socket write of M4 and the activation of the encrypter)
var schedule int32
var delaysTaken int64

// per hook point: how often a delay was taken there (a tree that has lost a point must not pass as "held")
var delaysAt sync.Map // point -> *int64

func delayAt(point string, d time.Duration) {
	atomic.AddInt64(&delaysTaken, 1)
	v, _ := delaysAt.LoadOrStore(point, new(int64))
	atomic.AddInt64(v.(*int64), 1)
	time.Sleep(d)
}

func installHandoverHook() {
	verifhook.Install(func(point string) {
		switch atomic.LoadInt32(&schedule) {
		case 1:
			if point == "conn.write.done" {
				delayAt(point, 20*time.Millisecond)
			}
		case 3:
			if point == "conn.write.written" {
				delayAt(point, 20*time.Millisecond)
			}
		case 2:
			if point == "conn.read.enter" {
				delayAt(point, time.Millisecond)
			} else if point == "conn.write.enter" {
				delayAt(point, 5*time.Millisecond)
			}
		}
	})
}

var scheduleNames = []string{"natural", "late-abort", "late-background-read", "late-activation"}

// raceChild runs handovers in the -race build; the parent reads the race log.
func raceChild() {
	// args: -handover-race-child <seed> <per-mode>
	os.Setenv("VERIF_SEED", os.Args[2])
	r := vf.Start("C07", "exploration")
	r.Replay = "race-child" // do not write evidence from the child
	var per int
	fmt.Sscan(os.Args[3], &per)
	handoverN(r, per)
	fmt.Printf("race-child handovers_ok=%d violations=%d\n", r.Counter("handovers_ok"), r.ViolationCount())
}

// handoverRace runs harness B under the race detector and reports races on the session / connection state.
func handoverRace(r *vf.Run) {
	bin := os.Getenv("VERIF_RACE_BIN")
	if bin == "" {
		r.Inconclusive("VERIF_RACE_BIN not set (race build missing)")
		return
	}
	dir := r.WorkDir()
	old, _ := filepath.Glob(filepath.Join(dir, "race.log.*"))
	for _, f := range old {
		os.Remove(f)
	}
	per := r.Pick(10, 60)
	cmd := exec.Command("timeout", "-s", "QUIT", "900", bin, "-handover-race-child", fmt.Sprint(r.Seed), fmt.Sprint(per))
	cmd.Env = append(os.Environ(), "GORACE=halt_on_error=0 log_path="+filepath.Join(dir, "race.log"))
	out, err := cmd.CombinedOutput()
	os.WriteFile(filepath.Join(dir, "race-child.out"), out, 0o644)
	m := regexp.MustCompile(`race-child handovers_ok=(\d+) violations=(\d+)`).FindSubmatch(out)
	if m == nil {
		r.Inconclusive(fmt.Sprintf("handover race child did not finish (%v); see %s", err, filepath.Join(dir, "race-child.out")))
		return
	}
	var ok int
	fmt.Sscan(string(m[1]), &ok)
	r.Count("race_build_handovers_ok", ok)
	other := map[string]int{}
	for _, rep := range vf.ParseRaceLogs(filepath.Join(dir, "race.log.*"), "github.com/brutella/hc/") {
		r.Count("race_reports_total", 1)
		if rep.HasFrame("hap.(*session)", "hap.(*Connection)") {
			b := rep.Block
			if len(b) > 3000 {
				b = b[:3000]
			}
			r.Violation("race:"+rep.Key("github.com/brutella/hc/"), "the race detector reports a data race on the session / connection state during the handover: "+rep.Key("github.com/brutella/hc/"),
				map[string]interface{}{"report": b, "log": rep.File})
		} else {
			other[rep.Key("github.com/brutella/hc/")]++
		}
	}
	if len(other) > 0 {
		r.Extra("other_races_observed", other)
	}
	r.Floor("race_build_handovers_ok", ok, per)
}

// handover is harness B: the plaintext -> ciphertext switch around the pair-verify M4 response.
func handover(r *vf.Run) {
	installHandoverHook()
	dir := app.ScratchDir(r.WorkDir(), "handover")
	defer os.RemoveAll(dir)
	me := refctl.NewIdentity("handover-controller", r.Rand("handover-id"))
	app.StoreController(dir, me)
	sw := accessory.NewSwitch(accessory.Info{Name: "Handover"})
	app.EnableTimeJumps()
	a, err := app.Start(dir, "00102003", sw.Accessory)
	if err != nil {
		r.Inconclusive("handover: transport did not start: " + err.Error())
		return
	}
	defer a.Stop()
	acc, ok := app.AccessoryEntity(dir)
	if !ok {
		r.Inconclusive("handover: accessory entity not found")
		return
	}
	handoverRun(r, a, me, acc, r.Pick(20, 200))
}

// handoverN is the race child's entry: its own transport, per handovers per schedule.
func handoverN(r *vf.Run, per int) {
	installHandoverHook()
	dir := app.ScratchDir(r.WorkDir(), "handover-race")
	defer os.RemoveAll(dir)
	me := refctl.NewIdentity("handover-controller", r.Rand("handover-id"))
	app.StoreController(dir, me)
	sw := accessory.NewSwitch(accessory.Info{Name: "Handover"})
	app.EnableTimeJumps()
	a, err := app.Start(dir, "00102003", sw.Accessory)
	if err != nil {
		fmt.Println("transport did not start:", err)
		return
	}
	defer a.Stop()
	acc, _ := app.AccessoryEntity(dir)
	handoverRun(r, a, me, acc, per)
}

func handoverRun(r *vf.Run, a *app.App, me *refctl.Identity, acc app.StoredEntity, per int) {
	_ = a
	for mode := 0; mode < len(scheduleNames); mode++ {
		n := per
		if mode == 0 {
			n = per * 5 // the natural rate of the race is low: more trials
		}
		atomic.StoreInt32(&schedule, int32(mode))
		for i := 0; i < n; i++ {
			if r.ViolationCount() >= 3 {
				break // what is wrong has been shown; every further unanswered request costs fifty probe round trips
			}
			r.Eval()
			r.Count("handovers_"+scheduleNames[mode], 1)
			oneHandover(r, a, me, acc, mode)
		}
		atomic.StoreInt32(&schedule, 0)
	}
	r.Count("handover_delays_taken", int(atomic.LoadInt64(&delaysTaken)))
	r.Floor("handover_delays_taken", int(atomic.LoadInt64(&delaysTaken)), per)
	for _, p := range []string{"conn.write.done", "conn.write.written", "conn.read.enter", "conn.write.enter"} {
		n := 0
		if v, ok := delaysAt.Load(p); ok {
			n = int(atomic.LoadInt64(v.(*int64)))
		}
		r.Count("handover_delays_at_"+p, n)
		r.Floor("delays taken at hook point "+p, n, per/2)
	}
}

func oneHandover(r *vf.Run, a *app.App, me *refctl.Identity, acc app.StoredEntity, mode int) {
	w := func(extra string) map[string]interface{} {
		return map[string]interface{}{"schedule": scheduleNames[mode], "detail": extra}
	}
	c, err := refctl.Dial(a.Addr)
	if err != nil {
		r.Inconclusive("handover dial: " + err.Error())
		return
	}
	defer c.Close()
	c.Timeout = 5 * time.Second
	v, err := c.StartVerify(me, acc.PublicKey, acc.Name, nil)
	if err != nil {
		r.Violation("handover:"+stageSig(err), "pair-verify start failed: "+err.Error(), w(""))
		return
	}
	if err := c.FinishVerify(v); err != nil {
		se, _ := err.(*refctl.StageError)
		if se != nil && se.Stage == "verify.M4.not-plaintext" {
			r.Violation("handover:M4-not-plaintext", "the M4 response of pair-verify arrived encrypted (the session was promoted before M4 was written): "+se.Why, w(scheduleNames[mode]))
			return
		}
		if se != nil && se.Transport == refctl.ErrTimeout {
			r.Violation("handover:M4-unanswered", "no M4 response: "+err.Error(), w(""))
			return
		}
		r.Violation("handover:"+stageSig(err), "pair-verify finish failed: "+err.Error(), w(""))
		return
	}
	// three requests back to back, immediately
	req := refctl.BuildRequest("GET", "/characteristics?id=1.3", "", nil)
	if err := c.SendMany(req, req, req); err != nil {
		r.Inconclusive("handover send: " + err.Error())
		return
	}
	for k := 0; k < 3; k++ {
		m, err := c.ReadResponse()
		if err == refctl.ErrTimeout {
			old := atomic.SwapInt32(&schedule, 0) // probes run without injected delays
			un, late, perr := a.Unanswered(c)
			atomic.StoreInt32(&schedule, old)
			if perr != nil {
				r.Inconclusive("handover probe: " + perr.Error())
				return
			}
			if un {
				r.Violation("handover:first-request-unanswered", fmt.Sprintf("request %d of 3 sent right after M4 was never answered (50 round trips on other connections completed meanwhile)", k+1), w(""))
				return
			}
			m = late
			err = nil
		}
		if err != nil {
			r.Violation("handover:response-"+errClassH(err), fmt.Sprintf("response %d of 3 after the handover: %v", k+1, err), w(""))
			return
		}
		if m.Status != 200 {
			r.Violation("handover:response-status", fmt.Sprintf("response %d of 3 after the handover has status %d", k+1, m.Status), w(""))
			return
		}
	}
	r.Count("handovers_ok", 1)
	// ninety seconds without traffic (virtual: every deadline armed on an accepted connection moves into the past),
	// then the connection is used again: nothing the handover armed may fire on the idle connection
	if mode == 0 || mode == 3 {
		old := atomic.SwapInt32(&schedule, 0)
		app.Jump(90 * time.Second)
		m, err := c.Do("GET", "/characteristics?id=1.3", "", nil)
		atomic.StoreInt32(&schedule, old)
		if err != nil || m.Status != 200 {
			r.Violation("handover:dead-after-idle", fmt.Sprintf("the connection answered three requests after the handover; after ninety seconds without traffic the next request gets no answer: %v", err), w(""))
			return
		}
		r.Count("handovers_used_again_after_idle", 1)
	}
	// (under every schedule: with a late abort the read that was blocked while the second exchange was handled
	// is still waiting when the first frame under the new keys arrives)
	// pair-verify once more on the same, now encrypted, connection (the session "allows to switch encryption"):
	// M1..M4 travel under the current keys, everything after M4 under the keys of the new exchange
	v2, err := c.StartVerify(me, acc.PublicKey, acc.Name, nil)
	if err != nil {
		r.Violation("handover:reverify:"+stageSig(err), "a second pair-verify on the encrypted connection failed at its start: "+err.Error(), w(""))
		return
	}
	if err := c.FinishVerify(v2); err != nil {
		r.Violation("handover:reverify:"+stageSig(err), "a second pair-verify on the encrypted connection failed at its finish: "+err.Error(), w(""))
		return
	}
	for k := 0; k < 2; k++ {
		m, err := c.Do("GET", "/characteristics?id=1.3", "", nil)
		if err == refctl.ErrTimeout {
			if un, _, perr := a.Unanswered(c); perr == nil && un {
				r.Violation("handover:reverify:request-unanswered", "a request under the keys of the second pair-verify was never answered", w(""))
			} else if perr != nil {
				r.Inconclusive("handover probe: " + perr.Error())
			}
			return
		}
		if err != nil {
			r.Violation("handover:reverify:response-"+errClassH(err), fmt.Sprintf("after a second pair-verify on the same connection the accessory's answer does not decrypt under the new keys: %v", err), w(""))
			return
		}
		if m.Status != 200 {
			r.Violation("handover:reverify:response-status", fmt.Sprintf("status %d after the second pair-verify", m.Status), w(""))
			return
		}
	}
	r.Count("reverifications_ok", 1)
	r.Count("reverifications_ok_"+scheduleNames[mode], 1)
}

func stageSig(err error) string {
	if se, ok := err.(*refctl.StageError); ok {
		return se.Stage
	}
	return "transport"
}

func errClassH(err error) string {
	switch err.(type) {
	case *refctl.ErrBadFrame:
		return "bad-frame"
	case *refctl.MalformedError:
		return "malformed"
	}
	return "error"
}

package main

// Harness A2: the read that is pending when the session switches to encryption.  net/http keeps a one-byte read
// pending while a handler runs, another server loop may keep a large one; pair-verify completes while that read
// waits, and whatever it returns afterwards is the beginning of the encrypted stream.  The scripted connection
// installs the session keys INSIDE the Read call that hands out the first ciphertext (script.Conn.OnData), for
// every combination of caller buffer size (1 .. 9000) and number of frames that arrive coalesced (up to well beyond
// the connection's internal buffer), and the caller treats its buffer as its own: it is wiped after every call.
// Oracle as in harness A: exactly the bytes the peer sent, no EOF, no error.

import (
	"bytes"
	"fmt"
	"math/rand"
	"net"

	"github.com/brutella/hc/crypto"
	"github.com/brutella/hc/hap"

	"verif/harness/hcx"
	"verif/harness/script"
	"verif/refctl"
	"verif/vf"
)

func pendingReadHandovers(r *vf.Run, rnd *rand.Rand) {
	bufs := []int{1, 2, 100, 1024, 1042, 2083, 2084, 2085, 3000, 4096, 9000}
	shapes := [][]int{{5}, {1024}, {1024, 1024}, {1024, 1024, 1024}, {1024, 1024, 1024, 1024, 7}, {300, 300, 300, 300, 300, 300, 300, 300}, {1, 1, 1}, {1024, 1, 1024, 1, 1024}, {3000, 3000}}
	for _, b := range bufs {
		for si, lens := range shapes {
			for _, firstSeg := range []string{"all", "one-frame", "mid-frame"} {
				var secret [32]byte
				rnd.Read(secret[:])
				c2a, _ := refctl.SessionKeys(secret[:])
				f := &refctl.Framer{Key: c2a}
				var stream, expected []byte
				firstFrame := 0
				for i, n := range lens {
					p := make([]byte, n)
					rnd.Read(p)
					expected = append(expected, p...)
					stream = append(stream, f.SealFrames(p, nil)...)
					if i == 0 {
						firstFrame = len(stream)
						if n > 1024 {
							firstFrame = 2 + 1024 + 16
						}
					}
				}
				var steps []script.Step
				switch firstSeg {
				case "all":
					steps = []script.Step{{Data: stream}}
				case "one-frame":
					steps = []script.Step{{Data: stream[:firstFrame]}, {Data: stream[firstFrame:]}}
				default:
					cut := firstFrame / 2
					steps = []script.Step{{Data: stream[:cut]}, {Data: stream[cut:]}}
				}
				sc := script.New(steps)
				sc.KeepReads = false
				ctx := hcx.NewContext()
				hc := hap.NewConnection(sc, ctx)
				cr, err := crypto.NewSecureSessionFromSharedKey(secret)
				if err != nil {
					r.Inconclusive("session constructor: " + err.Error())
					return
				}
				sc.OnData = func() { ctx.GetSessionForConnection(sc).SetCryptographer(cr) } // pair-verify completes while the read waits
				w := map[string]interface{}{"caller_buffer": b, "plaintext_frames": lens, "first_segment": firstSeg, "secret": vf.Hex(secret[:]), "shape": si}
				buf := make([]byte, b)
				var got []byte
				idle := 0
				bad := false
				for calls := 0; calls < 40000 && len(got) < len(expected) && idle < 4; calls++ {
					n, err := hc.Read(buf)
					if n > len(buf) || n < 0 {
						r.Violation("pending-read:count-exceeds-buffer", fmt.Sprintf("Read into %d bytes returned %d", len(buf), n), w)
						bad = true
						break
					}
					got = append(got, buf[:n]...)
					for k := range buf {
						buf[k] = 0xEE // the caller's buffer is the caller's
					}
					if err != nil {
						if ne, ok := err.(net.Error); ok && ne.Timeout() {
							idle++
							continue
						}
						w["plaintext_returned"] = len(got)
						r.Violation("pending-read:error", fmt.Sprintf("a read that was pending while the session switched to encryption: %d frames arrived coalesced, caller buffer %d bytes: Read returned %q after %d of %d plaintext bytes although the peer sent only well-formed frames", len(lens), b, err.Error(), len(got), len(expected)), w)
						bad = true
						break
					}
					if n > 0 {
						idle = 0
					}
				}
				r.Eval()
				r.Count("pending_read_handovers", 1)
				if bad {
					continue
				}
				if !bytes.Equal(got, expected) {
					w["plaintext_returned"] = len(got)
					kind := "pending-read:not-the-bytes-sent"
					if len(got) < len(expected) && bytes.HasPrefix(expected, got) {
						kind = "pending-read:stalled"
					}
					r.Violation(kind, fmt.Sprintf("a read that was pending while the session switched to encryption: %d of %d plaintext bytes were returned (caller buffer %d, %d frames coalesced)", len(got), len(expected), b, len(lens)), w)
					continue
				}
				r.Nontrivial(fmt.Sprintf("pending/%d/%d/%s", b, si, firstSeg))
			}
		}
	}
	r.Floor("pending_read_handovers", int(r.Counter("pending_read_handovers")), len(bufs)*len(shapes)*3)
}

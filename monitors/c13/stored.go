package main

// Stored oddities: a hostile message may be *accepted* and leave something behind that a later message trips
// over.  A verified controller stores pairings whose long-term key has an odd size (POST /pairings accepts what it
// is given, or refuses it: both are fine); afterwards a peer on a new connection runs pair-verify naming that
// pairing, with a finish message that is correctly sealed and signed by a real key.  Whatever is stored, the
// finish message must be answered with a well-formed response (success only for a usable key), not with a dropped
// connection, and the accessory must still serve.

import (
	"crypto/ed25519"
	"fmt"
	"os"
	"strings"
	"sync"
	"time"

	"github.com/brutella/hc/accessory"

	"verif/harness/app"
	"verif/refctl"
	"verif/vf"
)

func storedOddities(r *vf.Run) {
	dir := app.ScratchDir(r.WorkDir(), "stored")
	defer os.RemoveAll(dir)
	rnd := r.Rand("c13-stored")
	admin := refctl.NewIdentity("c13-stored-admin", rnd)
	app.StoreController(dir, admin)
	a, err := app.Start(dir, "00102003", accessory.NewSwitch(accessory.Info{Name: "C13 stored"}).Accessory)
	if err != nil {
		r.Inconclusive("stored oddities: transport: " + err.Error())
		return
	}
	defer a.Stop()
	acc, _ := app.AccessoryEntity(dir)
	app.TakeStdLog()
	sizes := []int{0, 1, 16, 31, 32, 33, 64, 1000}
	names := []string{"odd", strings.Repeat("n", 200)}
	var wg sync.WaitGroup
	var mu sync.Mutex
	for ni, nm := range names {
		for _, size := range sizes {
			wg.Add(1)
			go func(ni int, nm string, size int) {
				defer wg.Done()
				name := fmt.Sprintf("%s-%d", nm, size)
				who := refctl.NewIdentity(name, nil)
				key := make([]byte, size)
				copy(key, who.LTPK)
				if size > ed25519.PublicKeySize {
					copy(key[ed25519.PublicKeySize:], who.LTPK)
				}
				w := map[string]interface{}{"pairing_name_len": len(name), "stored_key_bytes": size}
				ac, err := a.Verified(admin, acc.PublicKey, acc.Name)
				if err != nil {
					mu.Lock()
					r.Inconclusive("stored oddities: administrator cannot verify: " + err.Error())
					mu.Unlock()
					return
				}
				defer ac.Close()
				ac.Timeout = 20 * time.Second
				e := &refctl.Enc{}
				e.Byte(refctl.TagState, 1).Byte(refctl.TagMethod, 3).Bytes(refctl.TagIdentifier, []byte(name)).Bytes(refctl.TagPublicKey, key).Byte(refctl.TagPermissions, 0)
				m, _, err := ac.PostTLV("/pairings", e.B)
				mu.Lock()
				r.Eval()
				r.Count("stored_oddities_add_requests", 1)
				mu.Unlock()
				if err != nil {
					mu.Lock()
					r.Violation(fmt.Sprintf("stored:add-pairing:key-of-%d-bytes:no-well-formed-answer", size), fmt.Sprintf("POST /pairings adding a pairing with a %d byte key got no well-formed answer: %v", size, err), w)
					mu.Unlock()
					return
				}
				w["add_status"] = m.Status
				// a peer names that pairing in pair-verify
				c, err := refctl.Dial(a.Addr)
				if err != nil {
					return
				}
				defer c.Close()
				c.Timeout = 8 * time.Second
				local := c.LocalAddr()
				v, err := c.StartVerify(who, acc.PublicKey, acc.Name, nil)
				if err != nil {
					mu.Lock()
					r.Violation("stored:verify-start-fails", "pair-verify start failed: "+err.Error(), w)
					mu.Unlock()
					return
				}
				err = c.FinishVerify(v)
				se, _ := err.(*refctl.StageError)
				mu.Lock()
				defer mu.Unlock()
				r.Count("stored_oddities_finish_messages", 1)
				r.Nontrivial(fmt.Sprintf("stored/%d/%d", ni, size))
				switch {
				case err == nil:
					r.Count("stored_oddities_verified", 1)
					if size != ed25519.PublicKeySize {
						r.Count("stored_oddities_verified_with_an_odd_key", 1) // C03's business
					}
				case se != nil && se.Transport == nil:
					r.Count("stored_oddities_refused_with_an_answer", 1)
				default:
					pan := ""
					for _, p := range app.HTTPPanics(app.TakeStdLog()) {
						if p.Remote == local {
							pan = p.Text + "\n" + p.Stack
						}
					}
					w["error"] = err.Error()
					w["panic"] = trunc(pan, 1500)
					what := fmt.Sprintf("a pair-verify finish message naming a pairing whose stored key has %d bytes is not answered (the connection is dropped): %v", size, err)
					if pan != "" {
						what = fmt.Sprintf("a pair-verify finish message naming a pairing whose stored key has %d bytes makes the handler panic: %s", size, firstLineOf(pan))
					}
					r.Violation(fmt.Sprintf("stored:verify-finish:key-of-%s-bytes:dropped", sizeClass(size)), what, w)
				}
			}(ni, nm, size)
		}
	}
	wg.Wait()
	// the accessory still serves
	c, err := a.Verified(admin, acc.PublicKey, acc.Name)
	if err != nil {
		r.Violation("stored:accessory-does-not-serve-afterwards", "after the stored-oddities scenario a correct pair-verify fails: "+err.Error(), nil)
		return
	}
	defer c.Close()
	if m, err := c.Do("GET", "/accessories", "", nil); err != nil || m.Status != 200 {
		r.Violation("stored:accessory-does-not-serve-afterwards", fmt.Sprintf("after the stored-oddities scenario GET /accessories fails: %v", err), nil)
	}
	r.Floor("stored_oddities_finish_messages", int(r.Counter("stored_oddities_finish_messages")), len(sizes)*len(names)-2)
}

func sizeClass(n int) string {
	switch {
	case n == 0:
		return "0"
	case n < 32:
		return "1..31"
	case n == 32:
		return "32"
	}
	return "33+"
}

func firstLineOf(s string) string {
	if i := strings.IndexByte(s, '\n'); i >= 0 {
		return s[:i]
	}
	return s
}

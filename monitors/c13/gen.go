package main

import (
	"math/rand"
	"sort"
)

// A case descriptor names WHAT is sent (protocol state, endpoint, class of hostile input, a class
// parameter and a PRNG seed).  The bytes are materialised by the child at run time, because the correct
// next message of a state depends on what the accessory answered in the honest prefix (salt, B, curve key).
type caseDesc struct {
	ID    int    `json:"id"`
	State string `json:"state"`    // ps0 psM1 psM3 pv0 pvM1 verified
	EP    string `json:"endpoint"` // pair-setup pair-verify pairings characteristics-put characteristics-get accessories resource identify
	Class string `json:"class"`
	Arg   int    `json:"arg"`
	Seed  int64  `json:"seed"`
}

var stateNames = map[string]string{
	"ps0": "step0", "psM1": "after-M1", "psM3": "after-M3",
	"pv0": "verify-step0", "pvM1": "verify-after-M1", "verified": "verified", "late": "late",
}

var allStates = []string{"ps0", "psM1", "psM3", "pv0", "pvM1", "verified"}
var plaintextStates = []string{"ps0", "psM1", "psM3", "pv0", "pvM1"}

type family struct {
	States []string
	EP     string
	Class  string
	Base   int // number of parameter values enumerated systematically
	W      int // weight for the random remainder
}

type cb struct {
	c string
	n int
}

// generic structural TLV mutations of the correct next message
var tlvGeneric = []cb{
	{"random-bytes", 10}, {"empty-body", 1}, {"truncate", 14}, {"overlong-length", 6}, {"duplicate-item", 4},
	{"missing-item", 4}, {"reorder-items", 2}, {"fragment-endless", 6}, {"zero-length-items", 3}, {"wrong-tags", 4},
	{"unknown-step", 11}, {"unknown-method", 6}, {"state-odd-length", 3}, {"random-tlv", 6},
}

// mutations of the encrypted item (pair-setup M5, pair-verify M3)
var tlvEncrypted = []cb{
	{"short-encrypted-data", 16}, {"wrong-tag", 3}, {"tampered-ciphertext", 3}, {"tag-only", 1}, {"sealed-wrong-key", 2},
	{"inner-truncated", 6}, {"inner-garbage", 3}, {"inner-missing-item", 3}, {"inner-long-name", 3}, {"encrypted-huge", 1},
}

var httpOdd = []cb{
	{"no-content-length", 1}, {"content-length-larger", 2}, {"content-length-smaller", 2}, {"content-length-invalid", 4},
	{"chunked", 2}, {"chunked-malformed", 2}, {"expect-continue", 1}, {"http10", 1}, {"connection-close", 1},
	{"huge-header", 1}, {"unknown-path", 6}, {"garbage-request-line", 4}, {"no-host", 1},
}

func families() []family {
	var fs []family
	add := func(states []string, ep string, list []cb, w int, scale int) {
		for _, x := range list {
			n := x.n
			if scale > 0 && n > scale {
				n = scale
			}
			fs = append(fs, family{States: states, EP: ep, Class: x.c, Base: n, W: w})
		}
	}
	// the protocol of the state, abused at each of its steps
	// one extra item of every (tag, length): all pairs at the two start messages, the other steps in thorough runs and by chance
	fs = append(fs,
		family{[]string{"ps0"}, "pair-setup", "extra-item", len(extraTags) * len(extraLens), 3},
		family{[]string{"pv0"}, "pair-verify", "extra-item", len(extraTags) * len(extraLens), 3},
		family{[]string{"psM1", "psM3"}, "pair-setup", "extra-item", 40, 2},
		family{[]string{"pvM1"}, "pair-verify", "extra-item", 40, 2},
		family{[]string{"verified"}, "pairings", "extra-item", 40, 2},
	)
	add([]string{"ps0"}, "pair-setup", tlvGeneric, 3, 0)
	add([]string{"psM1"}, "pair-setup", tlvGeneric, 3, 0)
	add([]string{"psM3"}, "pair-setup", tlvGeneric, 3, 0)
	add([]string{"pv0"}, "pair-verify", tlvGeneric, 3, 0)
	add([]string{"pvM1"}, "pair-verify", tlvGeneric, 3, 0)
	add([]string{"verified"}, "pairings", tlvGeneric, 3, 0)
	add([]string{"psM3"}, "pair-setup", tlvEncrypted, 4, 0)
	add([]string{"pvM1"}, "pair-verify", tlvEncrypted, 4, 0)
	fs = append(fs,
		family{[]string{"psM1"}, "pair-setup", "srp-A", 10, 3},
		family{[]string{"psM1"}, "pair-setup", "srp-proof", 7, 3},
		family{[]string{"pv0"}, "pair-verify", "curve-key", 8, 3},
		family{[]string{"verified", "psM1"}, "pair-verify", "curve-key", 4, 1},
	)
	// the other endpoints in each state (cross abuse)
	add([]string{"verified"}, "pair-setup", tlvGeneric, 1, 1)
	add([]string{"verified"}, "pair-verify", tlvGeneric, 1, 1)
	add([]string{"ps0", "psM1", "psM3"}, "pair-verify", tlvGeneric, 1, 1)
	add([]string{"pv0", "pvM1"}, "pair-setup", tlvGeneric, 1, 1)
	add([]string{"ps0", "pv0"}, "pairings", tlvGeneric[:4], 1, 1)
	// encrypted items at the wrong step
	add([]string{"ps0", "psM1", "verified"}, "pair-setup", tlvEncrypted[:3], 1, 1)
	add([]string{"pv0", "verified"}, "pair-verify", tlvEncrypted[:3], 1, 1)
	// pairings specifics
	for _, x := range []cb{{"long-name", 7}, {"name-odd", 5}, {"key-odd", 6}, {"permissions-odd", 3}, {"remove-unknown", 1}, {"add-existing", 1}} {
		fs = append(fs, family{[]string{"verified"}, "pairings", x.c, x.n, 2})
	}
	// JSON endpoints on the verified session
	for _, x := range []cb{{"invalid-json", 8}, {"wrong-types", 22}, {"huge-numbers", 10}, {"deep-nesting", 12}, {"duplicate-keys", 4},
		{"huge-array", 3}, {"c12-values", len(c12Values) * 10}, {"composite-twice", 10}, {"big-body", 2}, {"ev-types", 7}, {"entry-mix", 216}, {"random-bytes", 4}} {
		fs = append(fs, family{[]string{"verified"}, "characteristics-put", x.c, x.n, 3})
	}
	for _, x := range []cb{{"invalid-json", 4}, {"wrong-types", 12}, {"huge-numbers", 4}, {"deep-nesting", 4}, {"valid", 2}, {"random-bytes", 3}} {
		fs = append(fs, family{[]string{"verified"}, "resource", x.c, x.n, 2})
	}
	fs = append(fs,
		family{[]string{"verified"}, "characteristics-get", "query-ids", 30, 3},
		family{[]string{"verified"}, "characteristics-get", "frame-size", 11, 2},
		family{[]string{"verified"}, "accessories", "frame-size", 11, 1},
		family{[]string{"verified"}, "characteristics-get", "empty-frames", 9, 2},
		family{[]string{"verified"}, "accessories", "empty-frames", 9, 1},
		family{[]string{"verified"}, "accessories", "get-oddities", 4, 1},
		family{[]string{"verified", "ps0", "pvM1"}, "identify", "identify-oddities", 4, 1},
	)
	// protected endpoints on connections which are not verified (answered 470)
	for _, ep := range []string{"characteristics-put", "characteristics-get", "accessories", "resource", "pairings"} {
		fs = append(fs, family{plaintextStates, ep, "unverified-request", 3, 1})
	}
	// a reconnect from the same address and port while the server still holds the older connection
	fs = append(fs, family{[]string{"pv0", "ps0", "verified"}, "pair-verify", "reuse-port", 2, 0})
	// HTTP level
	for _, ep := range []string{"characteristics-put", "accessories", "pairings", "resource", "pair-setup", "pair-verify", "identify"} {
		fs = append(fs, family{[]string{"verified"}, ep, "unknown-http-method", 5, 1})
		fs = append(fs, family{[]string{"ps0", "pv0"}, ep, "unknown-http-method", 2, 1})
	}
	for _, x := range httpOdd {
		fs = append(fs, family{[]string{"verified"}, "characteristics-put", x.c, x.n, 1})
		fs = append(fs, family{[]string{"ps0", "psM1"}, "pair-setup", x.c, x.n, 1})
		fs = append(fs, family{[]string{"pv0", "pvM1"}, "pair-verify", x.c, x.n, 1})
	}
	return fs
}

// buildCases returns the case list: a function of (seed, tier) only.
func buildCases(seed int64, n int, scale int) []caseDesc {
	rnd := rand.New(rand.NewSource(seed*7368787 + 13))
	fs := families()
	var out []caseDesc
	for _, f := range fs {
		for rep := 0; rep < scale; rep++ {
			for a := 0; a < f.Base; a++ {
				st := f.States[(a+rep)%len(f.States)]
				if len(f.States) > 1 && f.Base < len(f.States) {
					// enumerate every state at least once for multi-state families
					for _, s := range f.States {
						out = append(out, caseDesc{State: s, EP: f.EP, Class: f.Class, Arg: a + rep*f.Base})
					}
					continue
				}
				out = append(out, caseDesc{State: st, EP: f.EP, Class: f.Class, Arg: a + rep*f.Base})
			}
		}
	}
	if len(out) > n {
		// keep a deterministic subset that still touches every family
		rnd.Shuffle(len(out), func(i, j int) { out[i], out[j] = out[j], out[i] })
		sort.SliceStable(out, func(i, j int) bool { return out[i].Arg < out[j].Arg })
		out = out[:n]
	}
	tw := 0
	for _, f := range fs {
		tw += f.W
	}
	for len(out) < n {
		x := rnd.Intn(tw)
		var f family
		for _, g := range fs {
			if x < g.W {
				f = g
				break
			}
			x -= g.W
		}
		out = append(out, caseDesc{State: f.States[rnd.Intn(len(f.States))], EP: f.EP, Class: f.Class, Arg: 1000 + rnd.Intn(1<<20)})
	}
	rnd.Shuffle(len(out), func(i, j int) { out[i], out[j] = out[j], out[i] })
	for i := range out {
		out[i].ID = i
		out[i].Seed = seed*1000003 + int64(i)*7919 + 1
	}
	return out
}

package main

// Idle periods: "…or leave the accessory unable to serve".  Connections in several protocol states (verified and
// subscribed with a notification just delivered; verified; in the middle of pair-verify; in the middle of
// pair-setup; after a refused hostile message) are left alone for ninety seconds and then used again.  The ninety
// seconds are produced by moving every deadline armed on an accepted connection ninety seconds towards the past
// (harness/app/vtime.go): whatever a handler or the notification path armed and did not clear fires exactly as it
// would after that time.  Every request after the idle period must be answered (a refusal of a stale handshake
// step is an answer), and the accessory must still complete an honest handshake.

import (
	"fmt"
	"os"
	"time"

	"github.com/brutella/hc/accessory"

	"verif/harness/app"
	"verif/refctl"
	"verif/vf"
)

func idlePeriods(r *vf.Run) {
	app.EnableTimeJumps()
	dir := app.ScratchDir(r.WorkDir(), "idle")
	defer os.RemoveAll(dir)
	rnd := r.Rand("c13-idle")
	A := refctl.NewIdentity("c13-idle-a", rnd)
	B := refctl.NewIdentity("c13-idle-b", rnd)
	app.StoreController(dir, A)
	app.StoreController(dir, B)
	sw := accessory.NewSwitch(accessory.Info{Name: "C13 idle"})
	a, err := app.Start(dir, "00102003", sw.Accessory)
	if err != nil {
		r.Inconclusive("idle periods: transport: " + err.Error())
		return
	}
	defer a.Stop()
	acc, _ := app.AccessoryEntity(dir)
	aid, iid := sw.Accessory.ID, sw.Switch.On.ID
	rounds := r.Pick(6, 60)
	for round := 0; round < rounds; round++ {
		w := map[string]interface{}{"round": round}
		bad := func(sig, what string) { r.Violation("idle:"+sig, what, w) }
		ca, err1 := a.Verified(A, acc.PublicKey, acc.Name)
		cb, err2 := a.Verified(B, acc.PublicKey, acc.Name)
		if err1 != nil || err2 != nil {
			bad("handshake-fails", fmt.Sprintf("a correct pair-verify fails: %v %v", err1, err2))
			return
		}
		ca.Timeout, cb.Timeout = 8*time.Second, 8*time.Second
		t := true
		if m, err := cb.Do("PUT", "/characteristics", refctl.ContentJSON, refctl.PutBody(refctl.CharValue{AID: aid, IID: iid, Ev: &t})); err != nil || m.Status != 204 {
			r.Inconclusive(fmt.Sprintf("idle periods: subscribe failed: %v", err))
			return
		}
		// C: in the middle of pair-verify; D: in the middle of pair-setup; E: after a refused hostile message
		cc, _ := refctl.Dial(a.Addr)
		cd, _ := refctl.Dial(a.Addr)
		ce, _ := refctl.Dial(a.Addr)
		if cc == nil || cd == nil || ce == nil {
			r.Inconclusive("idle periods: dial failed")
			return
		}
		cc.Timeout, cd.Timeout, ce.Timeout = 8*time.Second, 8*time.Second, 8*time.Second
		vc, err := cc.StartVerify(A, acc.PublicKey, acc.Name, nil)
		if err != nil {
			bad("handshake-fails", "pair-verify start fails: "+err.Error())
			return
		}
		cd.PostTLV("/pair-verify", refctl.VerifyM1(make([]byte, 32))) // something D has to recover from
		ce.PostTLV("/pair-verify", []byte{0x06, 0x01, 0x03, 0x05, 0xff})
		// a notification goes out (B is subscribed), by a controller and by the application, in alternation
		nv := round%2 == 0
		if round%4 < 2 {
			if m, err := ca.Do("PUT", "/characteristics", refctl.ContentJSON, refctl.PutBody(refctl.CharValue{AID: aid, IID: iid, Value: refctl.RawJSON(nv)})); err != nil || m.Status != 204 {
				bad("write-fails", fmt.Sprintf("a PUT by a verified controller fails: %v", err))
				return
			}
		} else {
			sw.Switch.On.SetValue(nv)
		}
		// ---- ninety seconds pass
		nc, ar, aw := app.JumpRW(90 * time.Second)
		r.Eval()
		r.Count("idle_periods", 1)
		r.Count("idle_connections_alive", nc)
		r.Count("idle_read_deadlines_found_armed", ar)
		r.Count("idle_write_deadlines_found_armed", aw)
		r.Nontrivial(fmt.Sprintf("idle/%d", round))
		// ---- everything is used again
		for name, c := range map[string]*refctl.Conn{"subscribed connection that had just received an EVENT": cb, "verified connection": ca} {
			m, err := c.Do("GET", "/characteristics?id=1.3", "", nil)
			if err != nil || m.Status != 200 {
				w["connection"] = name
				bad("verified-connection-dead-after-idle", fmt.Sprintf("the %s was served before; after ninety seconds without traffic its next request gets no answer: %v", name, err))
				return
			}
		}
		if err := cc.FinishVerify(vc); err != nil {
			if se, ok := err.(*refctl.StageError); !ok || se.Transport != nil {
				bad("handshake-connection-dead-after-idle", fmt.Sprintf("a pair-verify finish message sent ninety seconds after its start gets no answer: %v", err))
				return
			}
			r.Count("idle_stale_exchange_refused_with_an_answer", 1)
		} else {
			r.Count("idle_stale_exchange_completed", 1)
		}
		for name, c := range map[string]*refctl.Conn{"connection that had sent an odd pair-verify start": cd, "connection that had sent a refused hostile message": ce} {
			// at most one rejected start, then a correct handshake
			_, err := c.PairVerify(A, acc.PublicKey, acc.Name, nil)
			if err != nil {
				if se, ok := err.(*refctl.StageError); ok && se.Transport == nil {
					_, err = c.PairVerify(A, acc.PublicKey, acc.Name, nil)
				}
			}
			if err != nil {
				w["connection"] = name
				bad("plaintext-connection-dead-after-idle", fmt.Sprintf("the %s cannot complete a correct pair-verify after ninety seconds without traffic: %v", name, err))
				return
			}
		}
		// the subscription survived the idle period
		cb.TakeEvents()
		sw.Switch.On.SetValue(!sw.Switch.On.GetValue())
		if m, err := cb.Do("GET", "/characteristics?id=1.3", "", nil); err != nil || m.Status != 200 {
			bad("verified-connection-dead-after-idle", fmt.Sprintf("the subscribed connection gets no answer after a notification that followed the idle period: %v", err))
			return
		}
		if n := len(cb.TakeEvents()); n != 1 {
			r.Count("idle_observation_events_after_idle_not_exactly_one(C10)", 1)
		}
		for _, c := range []*refctl.Conn{ca, cb, cc, cd, ce} {
			c.Close()
		}
		r.Count("idle_rounds_ok", 1)
	}
	r.Floor("idle_periods", int(r.Counter("idle_periods")), rounds)
}

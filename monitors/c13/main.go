// C13 — no remote input panics or wedges the accessory.
//
// Full stack.  The workload runs in CHILD processes (a fatal error in hc would otherwise end the monitor): the
// parent re-executes itself with `-child <batch file>`; every child starts its own hc IP transport (one pre-stored
// controller identity), brings a fresh connection into a protocol state by an honest prefix played with refctl
// (pair-setup step 0 / after M1 / after M3 with the right proof, pair-verify step 0 / after M1, verified session),
// logs the hostile message BEFORE sending it, sends it, and judges
//
//	(1) net/http's `http: panic serving <addr>` lines (std logger, captured in-process) whose address is the
//	    client address of this case's connection,
//	(2) the answer: a parseable HTTP response (plaintext) or well-formed frames decrypting to one (verified); a
//	    connection closed without a response is a violation; an unprocessable message must be answered with an error,
//	(3) health: the state-appropriate honest continuation on the SAME connection (plaintext: a complete correct
//	    handshake, at most one rejected start request before it; verified: GET /accessories) and, periodically, a
//	    correct pair-verify + GET /accessories on a NEW connection.
//
// "No answer" is decided by the bounded-progress rule, never by a timeout.
package main

import (
	"bufio"
	"encoding/json"
	"fmt"
	"os"
	"os/exec"
	"path/filepath"
	"sort"
	"strings"
	"sync"
	"time"

	"verif/vf"
)

func main() {
	for i, a := range os.Args {
		if a == "-child" && i+1 < len(os.Args) {
			os.Exit(childMain(os.Args[i+1]))
		}
		if a == "-storm" && i+2 < len(os.Args) {
			os.Exit(stormChild(os.Args[i+1], os.Args[i+2]))
		}
	}
	parent()
}

type batchRun struct {
	b        batch
	results  []result
	died     []map[string]interface{}
	incon    []string
	restarts int
}

func parent() {
	r := vf.Start("C13", "exploration")
	r.SetRule("a case = (protocol state reached by an honest prefix on a fresh connection, endpoint, class of hostile input, class parameter, PRNG seed); " +
		"classes: random bytes; structural mutations of the correct next message (truncation at and inside every item, over-long lengths, duplicated / missing / reordered items, endless 255-byte fragments, zero-length items, wrong tags); " +
		"encrypted data of 0..15 bytes / wrong tag / tampered / wrong key / genuine seal of damaged sub-TLVs; SRP and curve key oddities; unknown steps and methods; JSON with wrong types, huge numbers, nesting depth 10..100000, duplicate keys, 10^4 entries, the C12 value set, composites written twice; " +
		"query-string oddities; HTTP-level oddities (unknown method, missing / wrong Content-Length, chunked, Expect, HTTP/1.0, huge header, unknown path, garbage request line). " +
		"non-trivial = distinct (state, endpoint, class, materialised variant); per case: panic log by client address, well-formed answer (error where the message cannot be valid), honest continuation on the same connection with at most one rejected start, periodic handshake + GET on a new connection")
	r.Assume("a connection closed after a well-formed response that carries `Connection: close` (or after net/http's own 400/431 answer to malformed HTTP) is HTTP's doing, not a dropped connection")
	r.Assume("frames that do not authenticate are not sent on a verified session (the session layer closes such connections by design, C05); what is sent are well-formed frames with hostile contents and correctly sealed frames of more than the 1024 bytes the specification allows (class frame-size: the accessory may serve them or close the connection, it may not panic, die or stop serving)")
	r.Assume("panics whose site is in package characteristic are C12's root cause; they are reported with the prefix c12-root:")
	r.Watchdog(time.Duration(r.Pick(30, 120)) * time.Minute)

	bin := os.Getenv("VERIF_BIN")
	if bin == "" {
		bin, _ = os.Executable()
	}
	n := r.Pick(2700, 30000)
	cases := buildCases(r.Seed, n, r.Pick(1, 4))
	runDir := filepath.Join(r.WorkDir(), fmt.Sprintf("run-%s-s%d-%s", r.Tier, r.Seed, filepath.Base(bin)))
	os.RemoveAll(runDir)
	os.MkdirAll(runDir, 0o755)
	per := r.Pick(125, 500)
	var runs []*batchRun
	for i := 0; i*per < len(cases); i++ {
		end := (i + 1) * per
		if end > len(cases) {
			end = len(cases)
		}
		runs = append(runs, &batchRun{b: batch{No: i, Seed: r.Seed, Tier: r.Tier, Work: runDir, Cases: cases[i*per : end]}})
	}
	var wg sync.WaitGroup
	sem := make(chan struct{}, 12)
	for _, br := range runs {
		wg.Add(1)
		sem <- struct{}{}
		go func(br *batchRun) {
			defer wg.Done()
			defer func() { <-sem }()
			runBatch(br, bin, runDir, r.Pick(900, 2400))
		}(br)
	}
	wg.Wait()
	storms(r, bin, runDir)

	// ---- aggregate
	byID := map[int]caseDesc{}
	for _, c := range cases {
		byID[c.ID] = c
	}
	executed := 0
	for _, br := range runs {
		for _, s := range br.incon {
			r.Inconclusive(s)
		}
		for _, d := range br.died {
			desc, _ := d["desc"].(caseDesc)
			r.Violation(fmt.Sprintf("process:died:%s:%s", desc.EP, stateNames[desc.State]),
				fmt.Sprintf("the accessory process died while handling a hostile message (%s, %s, class %s): %v", desc.EP, stateNames[desc.State], desc.Class, d["fatal"]), d)
		}
		if br.restarts > 0 {
			r.Count("child_restarts", br.restarts)
		}
		for _, res := range br.results {
			if res.Incon != "" {
				r.Inconclusive(res.Incon)
			}
			if res.ID < 0 {
				for _, v := range res.Viols {
					r.Violation(v.Sig, v.What, v.Detail)
				}
				for k, v := range res.Counts {
					r.Count(k, v)
				}
				continue
			}
			executed++
			r.Eval()
			d := res.Desc
			st := stateNames[d.State]
			r.Count("hostile_messages", 1)
			r.Count("outcome:"+res.Outcome, 1)
			r.Count("state:"+st, 1)
			if res.Outcome == "answered" {
				if res.IsErr {
					r.Count("answered_with_error", 1)
				} else {
					r.Count("answered_without_error", 1)
				}
				r.Distinct("(endpoint,status)", fmt.Sprintf("%s/%d", d.EP, res.Status))
			}
			if res.MustErr {
				r.Count("messages_that_must_be_refused", 1)
			}
			r.Count("same_connection:"+res.SameConn, 1)
			r.Count("new_connection:"+res.NewConn, 1)
			for k, v := range res.Counts {
				r.Count(k, v)
			}
			r.Distinct("(state,endpoint)", st+"/"+d.EP)
			r.Distinct("(state,endpoint,class)", st+"/"+d.EP+"/"+d.Class)
			r.Distinct("class", d.Class)
			if d.Class == "extra-item" && (st == "step0" || st == "verify-step0") {
				r.Distinct("extra item at a start message", d.EP+"|"+res.Variant)
			}
			if d.Class == "c12-values" && d.Arg < 1000 {
				r.Distinct("hostile (value, target) pair", res.Variant)
			}
			r.Nontrivial(st + "|" + d.EP + "|" + d.Class + "|" + res.Variant)
			r.SampleAt(d.ID, func() interface{} {
				return map[string]interface{}{"state": st, "endpoint": d.EP, "class": d.Class, "variant": res.Variant, "request_bytes": res.ReqLen, "request_head": trunc(res.ReqHead, 200),
					"outcome": res.Outcome, "response": res.RespHead, "same_connection": res.SameConn, "new_connection": res.NewConn}
			})
			for _, v := range res.Viols {
				wit := v.Detail
				if wit == nil {
					wit = map[string]interface{}{"case": d, "variant": res.Variant, "request_head": res.ReqHead}
				}
				r.Violation(v.Sig, v.What, wit)
			}
		}
	}
	// ---- what an accepted hostile message leaves behind (in this process: a handler panic is recovered by net/http)
	r.Guard("stored oddities", func() { storedOddities(r) })
	r.Guard("idle periods", func() { idlePeriods(r) })

	if r.Counter("cases_not_run_after_a_confirmed_missing_answer") == 0 {
		r.Floor("hostile_messages_executed", executed, n*95/100)
		for _, s := range allStates {
			r.Floor("messages_in_state_"+stateNames[s], int(r.Counter("state:"+stateNames[s])), n/40)
		}
		r.Floor("distinct_(state,endpoint,class)", r.DistinctN("(state,endpoint,class)"), 250)
		r.Floor("extra items (tag, length) at the start messages", r.DistinctN("extra item at a start message"), 2*len(extraTags)*len(extraLens)*95/100)
		r.Floor("hostile (value, target) pairs", r.DistinctN("hostile (value, target) pair"), len(c12Values)*10*95/100)
	}
	if r.ViolationCount() == 0 {
		// on a tree without defects every continuation and health check must have run and passed
		r.Floor("same_connection_continuations_ok", int(r.Counter("same_connection:ok")), n/2)
		r.Floor("same_connection_pair_setup_ok", int(r.Counter("same_connection_pair_setup_ok")), n/5)
		r.Floor("new_connection_checks_ok", int(r.Counter("new_connection:ok")), n/4)
	}
	if r.ViolationCount() == 0 && len(allIncon(runs)) == 0 {
		os.RemoveAll(runDir)
	} else {
		// keep logs, drop the storage directories
		ents, _ := os.ReadDir(runDir)
		for _, e := range ents {
			if e.IsDir() {
				os.RemoveAll(filepath.Join(runDir, e.Name()))
			}
		}
	}
	r.Finish()
}

func allIncon(runs []*batchRun) []string {
	var out []string
	for _, br := range runs {
		out = append(out, br.incon...)
		for _, res := range br.results {
			if res.Incon != "" {
				out = append(out, res.Incon)
			}
		}
	}
	return out
}

// runChild runs one child process over the given cases and returns its results, whether it finished, its exit
// status and the head and tail of its output.
func runChild(br *batchRun, bin, stem string, cases []caseDesc, timeoutS int) (results []result, done bool, code int, tail []string, err error) {
	b := br.b
	b.Cases = cases
	raw, _ := json.Marshal(b)
	if err = os.WriteFile(stem+".json", raw, 0o644); err != nil {
		return nil, false, -1, nil, fmt.Errorf("cannot write batch file: %v", err)
	}
	out, err := os.Create(stem + ".out")
	if err != nil {
		return nil, false, -1, nil, fmt.Errorf("cannot create child output file: %v", err)
	}
	cmd := exec.Command("timeout", "-s", "QUIT", fmt.Sprint(timeoutS), bin, "-child", stem+".json")
	cmd.Stdout, cmd.Stderr = out, out
	runErr := cmd.Run()
	out.Close()
	results, done = readResults(stem + ".res.jsonl")
	code = 0
	if ee, ok := runErr.(*exec.ExitError); ok {
		code = ee.ExitCode()
	} else if runErr != nil {
		code = -1
	}
	return results, done, code, fileTail(stem+".out", 60), nil
}

func fatalLine(tail []string) string {
	for _, l := range tail {
		if strings.HasPrefix(l, "fatal error:") || strings.HasPrefix(l, "panic:") || strings.HasPrefix(l, "runtime:") {
			return l
		}
	}
	return ""
}

// runBatch runs the cases of a batch in child processes.  When a child dies, every case that was logged (sent or about
// to be sent) but has no result is run again ALONE in a fresh child: the one that kills its child again is the fatal
// input; the others get their results; the rest of the batch continues in a new child.
func runBatch(br *batchRun, bin, runDir string, timeoutS int) {
	remaining := br.b.Cases
	for attempt := 0; len(remaining) > 0; attempt++ {
		if attempt > 8 {
			br.incon = append(br.incon, fmt.Sprintf("batch %d: more than 8 child restarts", br.b.No))
			return
		}
		stem := filepath.Join(runDir, fmt.Sprintf("batch-%03d-%d", br.b.No, attempt))
		results, done, code, tail, err := runChild(br, bin, stem, remaining, timeoutS)
		if err != nil {
			br.incon = append(br.incon, err.Error())
			return
		}
		br.results = append(br.results, results...)
		if done {
			return
		}
		if code == 124 || code == 137 {
			br.incon = append(br.incon, fmt.Sprintf("batch %d: child watchdog (timeout %d s) fired", br.b.No, timeoutS))
			return
		}
		finished := map[int]bool{}
		for _, res := range results {
			finished[res.ID] = true
		}
		logged := loggedCases(stem + ".log.jsonl")
		fatal := fatalLine(tail)
		var inflight []map[string]interface{}
		for _, l := range logged {
			if f, ok := l["id"].(float64); ok && !finished[int(f)] {
				inflight = append(inflight, l)
			}
		}
		if len(inflight) == 0 || fatal == "" {
			br.incon = append(br.incon, fmt.Sprintf("batch %d: child exited with status %d without finishing and without an identifiable fatal input (see %s.out)", br.b.No, code, stem))
			return
		}
		br.restarts++
		byID := map[int]caseDesc{}
		for _, c := range remaining {
			byID[c.ID] = c
		}
		touched := map[int]bool{}
		reproduced := false
		for _, l := range inflight {
			id := int(l["id"].(float64))
			touched[id] = true
			desc := byID[id]
			sstem := filepath.Join(runDir, fmt.Sprintf("batch-%03d-%d-solo-%d", br.b.No, attempt, id))
			sres, sdone, scode, stail, serr := runChild(br, bin, sstem, []caseDesc{desc}, timeoutS)
			if serr != nil {
				br.incon = append(br.incon, serr.Error())
				return
			}
			if sdone {
				br.results = append(br.results, sres...)
				continue
			}
			if sf := fatalLine(stail); sf != "" {
				reproduced = true
				if sl := loggedCases(sstem + ".log.jsonl"); len(sl) > 0 {
					l = sl[len(sl)-1]
				}
				l["desc"], l["fatal"], l["child_exit_status"], l["child_output_tail"], l["reproduced_alone"] = desc, sf, scode, stail, true
				br.died = append(br.died, l)
			} else {
				br.incon = append(br.incon, fmt.Sprintf("batch %d: the solo run of case %d ended with status %d without result (see %s.out)", br.b.No, id, scode, sstem))
			}
		}
		if !reproduced {
			// the death needed more than one of the messages in flight: it is reported with the last logged input
			l := inflight[len(inflight)-1]
			l["desc"], l["fatal"], l["child_exit_status"], l["child_output_tail"], l["reproduced_alone"] = byID[int(l["id"].(float64))], fatal, code, tail, false
			br.died = append(br.died, l)
		}
		var rest []caseDesc
		for _, c := range remaining {
			if !finished[c.ID] && !touched[c.ID] {
				rest = append(rest, c)
			}
		}
		remaining = rest
	}
}

func readResults(path string) ([]result, bool) {
	f, err := os.Open(path)
	if err != nil {
		return nil, false
	}
	defer f.Close()
	var out []result
	done := false
	sc := bufio.NewScanner(f)
	sc.Buffer(make([]byte, 1<<20), 64<<20)
	for sc.Scan() {
		var res result
		if json.Unmarshal(sc.Bytes(), &res) != nil {
			continue
		}
		if res.Done {
			done = true
			continue
		}
		out = append(out, res)
	}
	sort.SliceStable(out, func(i, j int) bool { return out[i].ID < out[j].ID })
	return out, done
}

func loggedCases(path string) []map[string]interface{} {
	f, err := os.Open(path)
	if err != nil {
		return nil
	}
	defer f.Close()
	var out []map[string]interface{}
	sc := bufio.NewScanner(f)
	sc.Buffer(make([]byte, 1<<20), 64<<20)
	for sc.Scan() {
		var m map[string]interface{}
		if json.Unmarshal(sc.Bytes(), &m) == nil {
			out = append(out, m)
		}
	}
	return out
}

func fileTail(path string, n int) []string {
	b, err := os.ReadFile(path)
	if err != nil {
		return nil
	}
	lines := strings.Split(string(b), "\n")
	// the head of a Go crash report names the fatal error; keep head and tail
	if len(lines) > 2*n {
		lines = append(append([]string{}, lines[:n]...), lines[len(lines)-n:]...)
	}
	return lines
}

package main

import (
	"bytes"
	"fmt"
	"math/big"
	"math/rand"
	"strings"

	"verif/refctl"
)

// request is one hostile message, ready to be sent.
type request struct {
	Method, Target, CType string
	Body                  []byte
	Raw                   []byte // when set: the complete HTTP message, sent verbatim
	Tail                  []byte // second write (completes a body announced longer than first sent)
	First                 []byte // an identical-in-kind request that is sent (and must be answered) before the judged one
	MustErr               bool   // the message cannot be valid under any reading: the answer must be an error
	Desync                bool   // HTTP itself makes the connection unusable / answers more than once afterwards
	Variant               string
	Kind                  string // kind of the correct message the mutation started from
	OneFrame              bool   // on a verified session: the whole message travels as ONE frame, whatever its length
	MayClose              bool   // the session layer may answer a framing violation by closing (no panic, still serving)
	EmptyFrames           int    // on a verified session: that many correctly sealed frames without content travel in front of the message
}

func (r *request) bytes() []byte {
	if r.Raw != nil {
		return r.Raw
	}
	return refctl.BuildRequest(r.Method, r.Target, r.CType, r.Body)
}

func rbytes(rnd *rand.Rand, n int) []byte {
	b := make([]byte, n)
	rnd.Read(b)
	return b
}

var pathOf = map[string]string{
	"pair-setup": "/pair-setup", "pair-verify": "/pair-verify", "pairings": "/pairings", "characteristics-put": "/characteristics",
	"characteristics-get": "/characteristics", "accessories": "/accessories", "resource": "/resource", "identify": "/identify",
}

// ---------------------------------------------------------------- correct next messages

type correct struct {
	kind  string
	body  []byte
	inner []byte   // plaintext sub-TLV of an encrypted item
	key   [32]byte // key the encrypted item is sealed under
	nonce string
	state byte
}

func (cs *connState) correctNext(w *world, ep string, arg int, rnd *rand.Rand) correct {
	switch ep {
	case "pair-setup":
		switch {
		case cs.state == "psM1" && cs.setup != nil && cs.setup.Srp != nil:
			return correct{kind: "setupM3", body: refctl.SetupM3(cs.setup.Srp.Abytes, cs.setup.Srp.M1), state: 3}
		case cs.state == "psM3" && cs.setup != nil && cs.setup.Srp != nil:
			sub := refctl.SetupM5Plain(cs.setup.Srp.K, cs.scratch.ID, cs.scratch.LTPK, cs.scratch.LTSK)
			return correct{kind: "setupM5", body: refctl.SetupM5(cs.setup.EncKey, sub), inner: sub, key: cs.setup.EncKey, nonce: "PS-Msg05", state: 5}
		}
		return correct{kind: "setupM1", body: refctl.SetupM1(), state: 1}
	case "pair-verify":
		if cs.state == "pvM1" && cs.verify != nil {
			v := cs.verify
			sub := refctl.VerifyM3Plain(v.Me.ID, v.Me.LTSK, v.Pub[:], v.AccPub)
			return correct{kind: "verifyM3", body: refctl.VerifyM3(v.EncKey, sub), inner: sub, key: v.EncKey, nonce: "PV-Msg03", state: 3}
		}
		_, pub := refctl.NewEphemeral(rnd)
		return correct{kind: "verifyM1", body: refctl.VerifyM1(pub[:]), state: 1}
	case "pairings":
		if arg%2 == 1 {
			return correct{kind: "pairingsRemove", body: refctl.PairingsRemove(cs.scratch.ID), state: 1}
		}
		return correct{kind: "pairingsAdd", body: refctl.PairingsAdd(cs.scratch.ID, cs.scratch.LTPK, arg%4 == 0), state: 1}
	}
	return correct{kind: "none"}
}

// encrypted message of the kind the endpoint expects, sealed under a made-up key (for states that hold no key)
func (cs *connState) encryptedTemplate(w *world, ep string, rnd *rand.Rand) correct {
	c := cs.correctNext(w, ep, 0, rnd)
	if c.inner != nil {
		return c
	}
	var key [32]byte
	rnd.Read(key[:])
	if ep == "pair-setup" {
		sub := refctl.SetupM5Plain(rbytes(rnd, 64), cs.scratch.ID, cs.scratch.LTPK, cs.scratch.LTSK)
		return correct{kind: "setupM5", body: refctl.SetupM5(key, sub), inner: sub, key: key, nonce: "PS-Msg05", state: 5}
	}
	_, p1 := refctl.NewEphemeral(rnd)
	_, p2 := refctl.NewEphemeral(rnd)
	sub := refctl.VerifyM3Plain(w.L.ID, w.L.LTSK, p1[:], p2[:])
	return correct{kind: "verifyM3", body: refctl.VerifyM3(key, sub), inner: sub, key: key, nonce: "PV-Msg03", state: 3}
}

func wrapEncrypted(state byte, data []byte) []byte {
	e := &refctl.Enc{}
	return e.Byte(refctl.TagState, state).Bytes(refctl.TagEncryptedData, data).B
}

func encodeItems(items []refctl.Item) []byte {
	var b []byte
	for _, it := range items {
		b = append(b, it.Tag, byte(len(it.Val)))
		b = append(b, it.Val...)
	}
	return b
}

var mandatory = map[string][]byte{
	"setupM1": {refctl.TagState}, "setupM3": {refctl.TagState, refctl.TagPublicKey, refctl.TagProof}, "setupM5": {refctl.TagState, refctl.TagEncryptedData},
	"verifyM1": {refctl.TagState, refctl.TagPublicKey}, "verifyM3": {refctl.TagState, refctl.TagEncryptedData},
	"pairingsAdd": {refctl.TagMethod}, "pairingsRemove": {refctl.TagMethod},
}

func isMandatory(kind string, tag byte) bool {
	for _, t := range mandatory[kind] {
		if t == tag {
			return true
		}
	}
	return false
}

// ---------------------------------------------------------------- TLV endpoints

func (cs *connState) buildTLV(w *world, d caseDesc, rnd *rand.Rand) *request {
	ep, arg := d.EP, d.Arg
	rq := &request{Method: "POST", Target: pathOf[ep], CType: refctl.ContentTLV8}
	cor := cs.correctNext(w, ep, arg, rnd)
	rq.Kind = cor.kind
	items, _ := refctl.ParseItems(cor.body)
	handshake := ep == "pair-setup" || ep == "pair-verify"
	pick := func(n int) int {
		if n <= 0 {
			return 0
		}
		return arg % n
	}
	switch d.Class {
	case "random-bytes":
		lens := []int{1, 2, 3, 16, 100, 255, 256, 257, 600}
		n := rnd.Intn(601)
		if arg < len(lens) {
			n = lens[arg]
		}
		rq.Body = rbytes(rnd, n)
		rq.Variant = fmt.Sprintf("len=%d", n)
	case "empty-body":
		rq.Body = []byte{}
		rq.MustErr = true
		rq.Variant = "empty"
	case "truncate":
		var cands []int
		inside := map[int]bool{}
		off := 0
		for _, it := range items {
			l := len(it.Val)
			for _, p := range []int{off, off + 1, off + 2, off + 2 + l/2, off + 2 + l - 1} {
				if p >= 0 && p < len(cor.body) {
					cands = append(cands, p)
					if p != off {
						inside[p] = true
					}
				}
			}
			off += 2 + l
		}
		if len(cands) == 0 {
			cands = []int{0}
		}
		p := cands[pick(len(cands))]
		if arg >= 1000 {
			p = rnd.Intn(len(cor.body))
			inside[p] = false
			o := 0
			for _, it := range items {
				if p > o && p < o+2+len(it.Val) {
					inside[p] = true
				}
				o += 2 + len(it.Val)
			}
		}
		rq.Body = append([]byte{}, cor.body[:p]...)
		// a cut inside an item leaves a TLV that cannot be parsed; (a cut inside a zero-length-free value with p==off+2+l-1
		// for l==1 equals off+2, i.e. header without value)
		rq.MustErr = inside[p] || p == 0
		rq.Variant = fmt.Sprintf("%s cut@%d/%d inside-item=%v", cor.kind, p, len(cor.body), inside[p])
	case "overlong-length":
		i := pick(len(items))
		b := append([]byte{}, cor.body...)
		off := 0
		for k := 0; k < i; k++ {
			off += 2 + len(items[k].Val)
		}
		rest := len(b) - (off + 2 + len(items[i].Val))
		cur := len(items[i].Val)
		beyond := (arg/len(items))%2 == 0 || rest == 0 || cur == 255
		nl := cur
		if beyond {
			if cur+rest < 255 {
				nl = 255
				b[off+1] = 255
			} else {
				// one length byte cannot overrun what follows: append an item that overruns instead
				b = append(b, items[i].Tag, 200, 1, 2, 3)
				nl = 200
			}
			rq.MustErr = true
		} else {
			room := rest
			if room > 255-cur {
				room = 255 - cur
			}
			nl = cur + 1 + rnd.Intn(room)
			b[off+1] = byte(nl)
			// the item swallows following bytes; what remains may or may not parse
		}
		rq.Body = b
		rq.Variant = fmt.Sprintf("%s item %d (tag %d) length %d->%d, %d bytes follow", cor.kind, i, items[i].Tag, cur, nl, rest)
	case "duplicate-item":
		i := pick(len(items))
		var out []refctl.Item
		if (arg/len(items))%2 == 0 {
			for k, it := range items {
				out = append(out, it)
				if k == i {
					out = append(out, it)
				}
			}
			rq.Variant = fmt.Sprintf("%s item %d (tag %d) twice, adjacent", cor.kind, i, items[i].Tag)
		} else {
			out = append(append(out, items...), items[i])
			rq.Variant = fmt.Sprintf("%s item %d (tag %d) repeated at the end", cor.kind, i, items[i].Tag)
		}
		rq.Body = encodeItems(out)
	case "missing-item":
		var tags []byte
		seen := map[byte]bool{}
		for _, it := range items {
			if !seen[it.Tag] {
				seen[it.Tag] = true
				tags = append(tags, it.Tag)
			}
		}
		t := tags[pick(len(tags))]
		var out []refctl.Item
		for _, it := range items {
			if it.Tag != t {
				out = append(out, it)
			}
		}
		rq.Body = encodeItems(out)
		rq.MustErr = isMandatory(cor.kind, t) && (handshake || t == refctl.TagMethod)
		rq.Variant = fmt.Sprintf("%s without tag %d", cor.kind, t)
	case "reorder-items":
		out := append([]refctl.Item{}, items...)
		if arg%2 == 0 {
			for i, j := 0, len(out)-1; i < j; i, j = i+1, j-1 {
				out[i], out[j] = out[j], out[i]
			}
			rq.Variant = cor.kind + " items reversed"
		} else {
			rnd.Shuffle(len(out), func(i, j int) { out[i], out[j] = out[j], out[i] })
			rq.Variant = cor.kind + " items shuffled"
		}
		rq.Body = encodeItems(out)
	case "fragment-endless":
		ks := []int{2, 5, 40, 200, 700, 3}
		k := ks[pick(len(ks))]
		t := items[rnd.Intn(len(items))].Tag
		if arg%3 == 0 {
			t = 0x42
		}
		var out []refctl.Item
		frag := bytes.Repeat([]byte{0xAA}, 255)
		if arg%2 == 0 {
			out = append(out, items...)
		}
		for i := 0; i < k; i++ {
			out = append(out, refctl.Item{Tag: t, Val: frag})
		}
		if arg%2 == 1 {
			out = append(out, items...)
		}
		rq.Body = encodeItems(out)
		rq.Variant = fmt.Sprintf("%s with %d 255-byte fragments of tag %d", cor.kind, k, t)
	case "zero-length-items":
		switch arg % 3 {
		case 0:
			var out []refctl.Item
			for _, it := range items {
				out = append(out, refctl.Item{Tag: it.Tag})
			}
			rq.Body = encodeItems(out)
			rq.MustErr = handshake || strings.HasPrefix(cor.kind, "pairings")
			rq.Variant = cor.kind + " every item with length zero"
		case 1:
			var out []refctl.Item
			for _, it := range items {
				out = append(out, refctl.Item{Tag: it.Tag}, it, refctl.Item{Tag: it.Tag})
			}
			rq.Body = encodeItems(out)
			rq.Variant = cor.kind + " zero-length items around every item"
		default:
			out := append([]refctl.Item{}, items...)
			for i := 0; i < 1000; i++ {
				out = append(out, refctl.Item{Tag: 0x42})
			}
			rq.Body = encodeItems(out)
			rq.Variant = cor.kind + " followed by 1000 zero-length items of an unknown tag"
		}
	case "extra-item":
		// the correct next message plus ONE more item: every tag the specification defines (0x00..0x13, also those this
		// library never reads: flags, permissions, retry delay, fragments) and a few it does not, with values of 0..9, 16 and 255 bytes
		ti, li := arg%len(extraTags), (arg/len(extraTags))%len(extraLens)
		val := make([]byte, extraLens[li])
		for k := range val {
			val[k] = byte(0x10 + k)
		}
		out := append([]refctl.Item{}, items...)
		extra := refctl.Item{Tag: extraTags[ti], Val: val}
		if (arg/(len(extraTags)*len(extraLens)))%2 == 0 {
			out = append(out, extra)
		} else {
			out = append([]refctl.Item{extra}, out...)
		}
		rq.Body = encodeItems(out)
		rq.Variant = fmt.Sprintf("%s plus an item with tag 0x%02x and %d bytes", cor.kind, extra.Tag, len(val))
	case "wrong-tags":
		i := pick(len(items))
		out := append([]refctl.Item{}, items...)
		nt := []byte{0x42, 0xFF, refctl.TagError, refctl.TagFragmentData, refctl.TagSeparator}[(arg/len(items))%5]
		out[i].Tag = nt
		rq.Body = encodeItems(out)
		rq.Variant = fmt.Sprintf("%s item %d tag %d->%d", cor.kind, i, items[i].Tag, nt)
	case "unknown-step":
		steps := []byte{0, 7, 8, 9, 0x7f, 0xff, 2, 4, 6, 5, 3}
		st := steps[pick(len(steps))]
		if ep == "pair-setup" && (st == 5 || st == 3) {
			st = 0x55
		}
		if ep == "pair-verify" && st == 3 {
			st = 0xAA
		}
		out := append([]refctl.Item{}, items...)
		found := false
		for i := range out {
			if out[i].Tag == refctl.TagState {
				out[i].Val = []byte{st}
				found = true
			}
		}
		if !found {
			out = append(out, refctl.Item{Tag: refctl.TagState, Val: []byte{st}})
		}
		rq.Body = encodeItems(out)
		rq.MustErr = handshake
		rq.Variant = fmt.Sprintf("%s with state %d", cor.kind, st)
	case "unknown-method":
		ms := []byte{1, 2, 5, 6, 9, 255}
		if ep == "pairings" {
			ms = []byte{0, 1, 2, 6, 9, 255}
		}
		m := ms[pick(len(ms))]
		var out []refctl.Item
		for _, it := range items {
			if it.Tag != refctl.TagMethod {
				out = append(out, it)
			}
		}
		out = append(out, refctl.Item{Tag: refctl.TagMethod, Val: []byte{m}})
		rq.Body = encodeItems(out)
		rq.MustErr = true
		rq.Variant = fmt.Sprintf("%s with method %d", cor.kind, m)
	case "state-odd-length":
		out := append([]refctl.Item{}, items...)
		for i := range out {
			if out[i].Tag == refctl.TagState {
				switch arg % 3 {
				case 0:
					out[i].Val = nil
				case 1:
					out[i].Val = []byte{cor.state, cor.state}
				default:
					out[i].Val = bytes.Repeat([]byte{cor.state}, 255)
				}
			}
		}
		rq.Body = encodeItems(out)
		rq.Variant = fmt.Sprintf("%s state item of %d bytes", cor.kind, []int{0, 2, 255}[arg%3])
	case "random-tlv":
		var out []refctl.Item
		if arg%2 == 0 {
			out = append(out, refctl.Item{Tag: refctl.TagState, Val: []byte{cor.state}})
		}
		n := 1 + rnd.Intn(8)
		for i := 0; i < n; i++ {
			t := byte(rnd.Intn(16))
			if rnd.Intn(5) == 0 {
				t = byte(rnd.Intn(256))
			}
			out = append(out, refctl.Item{Tag: t, Val: rbytes(rnd, []int{0, 1, 2, 15, 16, 17, 32, 64, 255}[rnd.Intn(9)])})
		}
		rq.Body = encodeItems(out)
		rq.Variant = fmt.Sprintf("%d random items, right state item=%v", n, arg%2 == 0)

	// ---- the encrypted item
	case "short-encrypted-data", "wrong-tag", "tampered-ciphertext", "tag-only", "sealed-wrong-key", "inner-truncated",
		"inner-garbage", "inner-missing-item", "inner-long-name", "encrypted-huge":
		t := cs.encryptedTemplate(w, ep, rnd)
		rq.Kind = t.kind
		genuine := refctl.Seal(t.key, []byte(t.nonce), t.inner, nil)
		rq.MustErr = true
		var data []byte
		switch d.Class {
		case "short-encrypted-data":
			n := arg % 16
			data = rbytes(rnd, n)
			if n > 0 && arg%32 >= 16 {
				data = genuine[:n]
			}
			rq.Variant = fmt.Sprintf("%s with %d bytes of encrypted data", t.kind, n)
		case "wrong-tag":
			data = append([]byte{}, genuine...)
			pos := len(data) - 1 - (arg % 16)
			data[pos] ^= 1 << uint(rnd.Intn(8))
			rq.Variant = t.kind + " genuine ciphertext, one bit of the tag flipped"
		case "tampered-ciphertext":
			data = append([]byte{}, genuine...)
			data[rnd.Intn(len(data)-16)] ^= 1 << uint(rnd.Intn(8))
			rq.Variant = t.kind + " one bit of the ciphertext flipped"
		case "tag-only":
			data = rbytes(rnd, 16)
			rq.Variant = t.kind + " 16 random bytes (tag only)"
		case "sealed-wrong-key":
			var k [32]byte
			if arg%2 == 1 {
				rnd.Read(k[:])
			}
			data = refctl.Seal(k, []byte(t.nonce), t.inner, nil)
			rq.Variant = fmt.Sprintf("%s sealed under %s key", t.kind, []string{"the all-zero", "a random"}[arg%2])
		case "inner-truncated":
			its, _ := refctl.ParseItems(t.inner)
			var cands []int
			off := 0
			for _, it := range its {
				cands = append(cands, off, off+1, off+2+len(it.Val)/2)
				off += 2 + len(it.Val)
			}
			p := cands[pick(len(cands))]
			data = refctl.Seal(t.key, []byte(t.nonce), t.inner[:p], nil)
			rq.Variant = fmt.Sprintf("%s genuine seal of the sub-TLV cut at %d/%d", t.kind, p, len(t.inner))
		case "inner-garbage":
			n := []int{1, 7, 300}[arg%3]
			data = refctl.Seal(t.key, []byte(t.nonce), rbytes(rnd, n), nil)
			rq.Variant = fmt.Sprintf("%s genuine seal of %d random bytes", t.kind, n)
		case "inner-missing-item":
			its, _ := refctl.ParseItems(t.inner)
			var tags []byte
			seen := map[byte]bool{}
			for _, it := range its {
				if !seen[it.Tag] {
					seen[it.Tag] = true
					tags = append(tags, it.Tag)
				}
			}
			drop := tags[pick(len(tags))]
			var out []refctl.Item
			for _, it := range its {
				if it.Tag != drop {
					out = append(out, it)
				}
			}
			data = refctl.Seal(t.key, []byte(t.nonce), encodeItems(out), nil)
			rq.Variant = fmt.Sprintf("%s genuine seal of the sub-TLV without tag %d", t.kind, drop)
		case "inner-long-name":
			n := []int{125, 255, 600}[arg%3]
			name := strings.Repeat("n", n)
			var sub []byte
			if t.kind == "setupM5" && cs.setup != nil && cs.setup.Srp != nil && cs.state == "psM3" {
				sub = refctl.SetupM5Plain(cs.setup.Srp.K, name, cs.scratch.LTPK, cs.scratch.LTSK)
				rq.MustErr = false // a genuine message of a controller with a long identifier
			} else if t.kind == "verifyM3" && cs.verify != nil {
				sub = refctl.VerifyM3Plain(name, cs.verify.Me.LTSK, cs.verify.Pub[:], cs.verify.AccPub)
			} else {
				e := &refctl.Enc{}
				sub = e.Bytes(refctl.TagIdentifier, []byte(name)).Bytes(refctl.TagSignature, rbytes(rnd, 64)).B
			}
			data = refctl.Seal(t.key, []byte(t.nonce), sub, nil)
			rq.Variant = fmt.Sprintf("%s genuine seal, identifier of %d bytes", t.kind, n)
		case "encrypted-huge":
			data = rbytes(rnd, 60000)
			rq.Variant = t.kind + " 60000 random bytes of encrypted data"
		}
		rq.Body = wrapEncrypted(t.state, data)

	case "srp-A":
		N := refctl.SRPPrime()
		var A []byte
		names := []string{"missing", "empty", "0", "1", "N", "2N", "1-byte", "383-bytes", "385-bytes", "1000-bytes"}
		v := pick(len(names))
		proof := rbytes(rnd, 64)
		if cs.setup != nil && cs.setup.Srp != nil {
			proof = cs.setup.Srp.M1
		}
		e := &refctl.Enc{}
		e.Byte(refctl.TagState, 3)
		switch v {
		case 1:
			A = []byte{}
		case 2:
			A = []byte{0}
		case 3:
			A = []byte{1}
		case 4:
			A = N.Bytes()
		case 5:
			A = new(big.Int).Lsh(N, 1).Bytes()
		case 6:
			A = rbytes(rnd, 1)
		case 7:
			A = rbytes(rnd, 383)
		case 8:
			A = append([]byte{1}, rbytes(rnd, 384)...)
		case 9:
			A = rbytes(rnd, 1000)
		}
		if v != 0 {
			e.Bytes(refctl.TagPublicKey, A)
		}
		e.Bytes(refctl.TagProof, proof)
		rq.Body = e.B
		rq.MustErr = true
		rq.Kind = "setupM3"
		rq.Variant = "setupM3 with A " + names[v]
	case "srp-proof":
		names := []string{"missing", "empty", "1-byte", "63-bytes", "65-bytes", "1000-bytes", "wrong"}
		v := pick(len(names))
		A := rbytes(rnd, 384)
		if cs.setup != nil && cs.setup.Srp != nil {
			A = cs.setup.Srp.Abytes
		}
		e := &refctl.Enc{}
		e.Byte(refctl.TagState, 3).Bytes(refctl.TagPublicKey, A)
		switch v {
		case 1:
			e.Bytes(refctl.TagProof, nil)
		case 2:
			e.Bytes(refctl.TagProof, rbytes(rnd, 1))
		case 3:
			e.Bytes(refctl.TagProof, rbytes(rnd, 63))
		case 4:
			e.Bytes(refctl.TagProof, rbytes(rnd, 65))
		case 5:
			e.Bytes(refctl.TagProof, rbytes(rnd, 1000))
		case 6:
			e.Bytes(refctl.TagProof, rbytes(rnd, 64))
		}
		rq.Body = e.B
		rq.MustErr = true
		rq.Kind = "setupM3"
		rq.Variant = "setupM3 with proof " + names[v]
	case "curve-key":
		names := []string{"missing", "empty", "1-byte", "31-bytes", "33-bytes", "64-bytes", "1000-bytes", "all-zero"}
		v := pick(len(names))
		e := &refctl.Enc{}
		e.Byte(refctl.TagState, 1)
		sizes := []int{-1, 0, 1, 31, 33, 64, 1000}
		switch {
		case v == 0:
		case v == 7:
			e.Bytes(refctl.TagPublicKey, make([]byte, 32))
		default:
			e.Bytes(refctl.TagPublicKey, rbytes(rnd, sizes[v]))
		}
		rq.Body = e.B
		rq.MustErr = v != 7
		rq.Kind = "verifyM1"
		rq.Variant = "verifyM1 with curve key " + names[v]

	// ---- pairings
	case "long-name":
		n := []int{125, 126, 200, 255, 256, 300, 600}[pick(7)]
		rq.Body = refctl.PairingsAdd(strings.Repeat("x", n), cs.scratch.LTPK, false)
		rq.Variant = fmt.Sprintf("add pairing, identifier of %d bytes", n)
		rq.Kind = "pairingsAdd"
	case "name-odd":
		names := []string{"", "\x00", "../../../../tmp/c13-escape", strings.Repeat("y", 124), "a/b\\c\x00d\xff\xfe"}
		v := pick(len(names))
		rq.Body = refctl.PairingsAdd(names[v], cs.scratch.LTPK, false)
		rq.Variant = fmt.Sprintf("add pairing, identifier %q", trunc(names[v], 30))
		rq.Kind = "pairingsAdd"
	case "key-odd":
		sizes := []int{-1, 0, 1, 31, 33, 1000}
		v := pick(len(sizes))
		e := &refctl.Enc{}
		e.Byte(refctl.TagState, 1).Byte(refctl.TagMethod, 3).Bytes(refctl.TagIdentifier, []byte(cs.scratch.ID))
		if sizes[v] >= 0 {
			e.Bytes(refctl.TagPublicKey, rbytes(rnd, sizes[v]))
		}
		e.Byte(refctl.TagPermissions, 0)
		rq.Body = e.B
		rq.Variant = fmt.Sprintf("add pairing, public key of %d bytes", sizes[v])
		rq.Kind = "pairingsAdd"
	case "permissions-odd":
		e := &refctl.Enc{}
		e.Byte(refctl.TagState, 1).Byte(refctl.TagMethod, 3).Bytes(refctl.TagIdentifier, []byte(cs.scratch.ID)).Bytes(refctl.TagPublicKey, cs.scratch.LTPK)
		switch arg % 3 {
		case 0:
		case 1:
			e.Bytes(refctl.TagPermissions, []byte{0xff})
		default:
			e.Bytes(refctl.TagPermissions, rbytes(rnd, 300))
		}
		rq.Body = e.B
		rq.Variant = fmt.Sprintf("add pairing, permissions variant %d", arg%3)
		rq.Kind = "pairingsAdd"
	case "remove-unknown":
		rq.Body = refctl.PairingsRemove("nobody-" + fmt.Sprint(rnd.Intn(1e6)))
		rq.Variant = "remove a pairing that does not exist"
		rq.Kind = "pairingsRemove"
	case "add-existing":
		rq.Body = refctl.PairingsAdd(w.L.ID, cs.scratch.LTPK, true)
		rq.Variant = "add a pairing under the name of an existing controller"
		rq.Kind = "pairingsAdd"
	default:
		return nil
	}
	return rq
}

func trunc(s string, n int) string {
	if len(s) > n {
		return s[:n] + "..."
	}
	return s
}

// ---------------------------------------------------------------- JSON endpoints

var extraTags = []byte{0x00, 0x01, 0x02, 0x03, 0x04, 0x05, 0x07, 0x08, 0x09, 0x0a, 0x0b, 0x0c, 0x0d, 0x0e, 0x0f, 0x10, 0x11, 0x12, 0x13, 0x14, 0x7f, 0xfe}
var extraLens = []int{0, 1, 2, 3, 4, 5, 7, 8, 9, 16, 255}

var c12Values = []string{
	"0", "-1", "0.5", "255", "256", "65536", "2147483648", "4294967296", "9007199254740992", "9223372036854775808",
	"18446744073709551616", "1e19", "1e300", "-1e300", "5e-324",
	`""`, `"abc"`, `"12"`, `"-3"`, `"1e5"`, `"NaN"`, `"Inf"`, `"-Infinity"`, `"true"`, "BIGSTRING",
	"1.7976931348623157e308", "-1.7976931348623157e308", `"1.7976931348623157e308"`, `"-1.7976931348623159e308"`,
	`"-Inf"`, `"+Inf"`, `"1e999"`, `"-1e999"`, `"-nan"`, `"0x1p-2"`, `"1_0"`, "-0.0", "1e-400", `"9223372036854775808"`, `"-9223372036854775809"`,
	"true", "false", "null", "[]", "[1,2]", "{}", `{"a":1}`, "[[1],[2]]", `{"a":{"b":[1]}}`,
}

var composites = []string{"[]", "[1,2]", "{}", `{"a":1}`, "[[1],[2]]", `{"a":{"b":[1]}}`, `[{"a":[]}]`, `{"":null}`, `[null]`, `[[[[[[]]]]]]`}

func nest(open, close string, depth int, leaf string, closed bool) string {
	var b strings.Builder
	b.Grow(depth*(len(open)+len(close)) + len(leaf))
	for i := 0; i < depth; i++ {
		b.WriteString(open)
	}
	b.WriteString(leaf)
	if closed {
		for i := 0; i < depth; i++ {
			b.WriteString(close)
		}
	}
	return b.String()
}

func (w *world) target(i int) target {
	return w.targets[((i%len(w.targets))+len(w.targets))%len(w.targets)]
}

func (cs *connState) buildPut(w *world, d caseDesc, rnd *rand.Rand) *request {
	rq := &request{Method: "PUT", Target: "/characteristics", CType: refctl.ContentJSON, Kind: "put"}
	arg := d.Arg
	t := w.target(arg)
	one := func(val string) string {
		return fmt.Sprintf(`{"characteristics":[{"aid":%d,"iid":%d,"value":%s}]}`, t.AID, t.IID, val)
	}
	valid := one("true")
	switch d.Class {
	case "random-bytes":
		rq.Body = rbytes(rnd, rnd.Intn(601))
		rq.Variant = fmt.Sprintf("%d random bytes", len(rq.Body))
	case "invalid-json":
		bodies := []string{"", "{", valid[:len(valid)/2], valid[:len(valid)-1], `{"characteristics":[{"aid":1,"iid":,}]}`, `{'characteristics':[]}`, "\x00\x01\x02", `{"characteristics":[{"aid":1,"iid":9,"value":"\ud800\u"}]}`}
		v := arg % len(bodies)
		if arg >= 1000 {
			rq.Body = []byte(valid[:rnd.Intn(len(valid))])
			rq.Variant = fmt.Sprintf("valid body cut at %d", len(rq.Body))
		} else {
			rq.Body = []byte(bodies[v])
			rq.Variant = fmt.Sprintf("unparsable body %d: %q", v, trunc(bodies[v], 40))
		}
		rq.MustErr = true
	case "wrong-types":
		a, i := t.AID, t.IID
		bodies := []string{
			fmt.Sprintf(`{"characteristics":[{"aid":"%d","iid":%d,"value":true}]}`, a, i),
			fmt.Sprintf(`{"characteristics":[{"aid":%d,"iid":-%d,"value":true}]}`, a, i),
			fmt.Sprintf(`{"characteristics":[{"aid":%d,"iid":%d.5,"value":true}]}`, a, i),
			fmt.Sprintf(`{"characteristics":[{"aid":%d,"iid":%d,"value":{"a":1}}]}`, a, i),
			`{"characteristics":5}`, `{"characteristics":"abc"}`, `{"characteristics":{"aid":1}}`, `{"characteristics":null}`,
			`{"characteristics":[1,2,3]}`, `{"characteristics":["a"]}`, `{"characteristics":[null]}`, `{"characteristics":[[]]}`,
			fmt.Sprintf(`{"characteristics":[{"aid":null,"iid":%d,"value":true}]}`, i),
			fmt.Sprintf(`{"characteristics":[{"aid":true,"iid":%d,"value":true}]}`, i),
			fmt.Sprintf(`{"characteristics":[{"aid":[%d],"iid":%d,"value":true}]}`, a, i),
			fmt.Sprintf(`{"characteristics":[{"aid":%d,"iid":{"x":%d},"value":true}]}`, a, i),
			`[]`, `5`, `"characteristics"`, `null`, `true`,
			fmt.Sprintf(`{"CHARACTERISTICS":[{"AID":%d,"IID":%d,"VALUE":[1]}]}`, a, i),
		}
		v := arg % len(bodies)
		rq.Body = []byte(bodies[v])
		rq.Variant = fmt.Sprintf("wrong types %d: %s", v, trunc(bodies[v], 60))
	case "entry-mix":
		// several entries in one request: entries that ask for nothing (neither value nor ev, or a null value), entries that
		// cannot be applied (unknown ids, ev on the target whatever it permits) and good ones, in every order of three
		none := fmt.Sprintf(`{"aid":%d,"iid":%d}`, t.AID, t.IID)
		null := fmt.Sprintf(`{"aid":%d,"iid":%d,"value":null}`, t.AID, t.IID)
		bad := fmt.Sprintf(`{"aid":%d,"iid":999999,"value":true}`, t.AID)
		badAcc := fmt.Sprintf(`{"aid":88888,"iid":%d,"ev":true}`, t.IID)
		ev := fmt.Sprintf(`{"aid":%d,"iid":%d,"ev":true}`, t.AID, t.IID)
		good := fmt.Sprintf(`{"aid":%d,"iid":%d,"value":true}`, t.AID, t.IID)
		parts := []string{none, null, bad, badAcc, ev, good}
		a, b, c := parts[arg%6], parts[arg/6%6], parts[arg/36%6]
		rq.Body = []byte(`{"characteristics":[` + a + `,` + b + `,` + c + `]}`)
		rq.Variant = fmt.Sprintf("three entries: kinds %d, %d, %d of (nothing, null value, unknown iid, unknown aid, ev, value)", arg%6, arg/6%6, arg/36%6)
	case "ev-types":
		evs := []string{"1", "0", `"true"`, "null", "{}", "[true]", "1e300"}
		v := arg % len(evs)
		rq.Body = []byte(fmt.Sprintf(`{"characteristics":[{"aid":%d,"iid":%d,"ev":%s}]}`, t.AID, t.IID, evs[v]))
		rq.Variant = "ev as " + evs[v]
	case "huge-numbers":
		nums := []string{"1e300", "99999999999999999999", "-0", "1e-400", "1e400", "18446744073709551616", "-9223372036854775809", "1E+5", "0.0000000000000000000000000001", "123456789012345678901234567890123456789012345678901234567890"}
		v := arg % len(nums)
		switch (arg / len(nums)) % 3 {
		case 0:
			rq.Body = []byte(fmt.Sprintf(`{"characteristics":[{"aid":%s,"iid":%d,"value":true}]}`, nums[v], t.IID))
			rq.Variant = "aid " + nums[v]
		case 1:
			rq.Body = []byte(fmt.Sprintf(`{"characteristics":[{"aid":%d,"iid":%s,"value":true}]}`, t.AID, nums[v]))
			rq.Variant = "iid " + nums[v]
		default:
			rq.Body = []byte(one(nums[v]))
			rq.Variant = fmt.Sprintf("value %s for %s", nums[v], t.Name)
		}
	case "deep-nesting":
		depths := []int{10, 100, 1000, 9999, 10000, 10001, 100000}
		dp := depths[arg%len(depths)]
		var body string
		switch (arg / len(depths)) % 4 {
		case 0:
			body = one(nest("[", "]", dp, "", true))
			rq.Variant = fmt.Sprintf("value = arrays nested %d deep, for %s", dp, t.Name)
		case 1:
			body = nest("[", "]", dp, "", false)
			rq.Variant = fmt.Sprintf("body = %d unclosed arrays", dp)
			rq.MustErr = true
		case 2:
			body = nest(`{"characteristics":`, "}", dp, "[]", true)
			rq.Variant = fmt.Sprintf("body = objects nested %d deep", dp)
		default:
			body = one(nest(`{"a":`, "}", dp, "1", true))
			rq.Variant = fmt.Sprintf("value = objects nested %d deep, for %s", dp, t.Name)
		}
		rq.Body = []byte(body)
	case "duplicate-keys":
		a, i := t.AID, t.IID
		bodies := []string{
			fmt.Sprintf(`{"characteristics":[{"aid":%d,"iid":%d,"value":true}],"characteristics":[{"aid":%d,"iid":%d,"value":false}]}`, a, i, a, i),
			fmt.Sprintf(`{"characteristics":[{"aid":%d,"aid":99,"iid":%d,"iid":98,"value":1,"value":[2]}]}`, a, i),
			fmt.Sprintf(`{"characteristics":[{"aid":%d,"iid":%d,"value":[1],"value":[1],"ev":true,"ev":5}]}`, a, i),
			fmt.Sprintf(`{"characteristics":[],"characteristics":5,"characteristics":[{"aid":%d,"iid":%d,"value":{}}]}`, a, i),
		}
		v := arg % len(bodies)
		rq.Body = []byte(bodies[v])
		rq.Variant = fmt.Sprintf("duplicate keys %d", v)
	case "huge-array":
		var b strings.Builder
		b.WriteString(`{"characteristics":[`)
		for k := 0; k < 10000; k++ {
			if k > 0 {
				b.WriteByte(',')
			}
			switch arg % 3 {
			case 0:
				fmt.Fprintf(&b, `{"aid":%d,"iid":%d,"value":%d}`, t.AID, t.IID, k%2)
			case 1:
				fmt.Fprintf(&b, `{"aid":%d,"iid":%d,"value":1}`, 1000+k, k)
			default:
				tt := w.target(k)
				fmt.Fprintf(&b, `{"aid":%d,"iid":%d,"ev":true}`, tt.AID, tt.IID)
			}
		}
		b.WriteString(`]}`)
		rq.Body = []byte(b.String())
		rq.Variant = fmt.Sprintf("10000 entries, variant %d", arg%3)
	case "c12-values":
		// arg enumerates (value, target) pairs: the value index runs fastest, the target shifts by one per round, so that
		// len(c12Values)*len(targets) consecutive args are all pairs and any shorter prefix still uses every value
		vi := arg % len(c12Values)
		t = w.target(arg%len(c12Values) + arg/len(c12Values))
		val := c12Values[vi]
		if val == "BIGSTRING" {
			val = `"` + strings.Repeat("s", 10240) + `"`
		}
		rq.Body = []byte(one(val))
		rq.Variant = fmt.Sprintf("value %s for %s (%s)", trunc(val, 24), t.Name, t.Format)
	case "composite-twice":
		val := composites[(arg/len(w.targets))%len(composites)]
		if (arg/(len(w.targets)*len(composites)))%2 == 0 {
			rq.First = refctl.BuildRequest("PUT", "/characteristics", refctl.ContentJSON, []byte(one(val)))
			rq.Body = []byte(one(val))
			rq.Variant = fmt.Sprintf("value %s for %s (%s), written by two requests", val, t.Name, t.Format)
		} else {
			rq.Body = []byte(fmt.Sprintf(`{"characteristics":[{"aid":%d,"iid":%d,"value":%s},{"aid":%d,"iid":%d,"value":%s}]}`, t.AID, t.IID, val, t.AID, t.IID, val))
			rq.Variant = fmt.Sprintf("value %s for %s (%s), twice in one request", val, t.Name, t.Format)
		}
	case "big-body":
		rq.Body = []byte(one(`"` + strings.Repeat("b", 1<<20) + `"`))
		rq.Variant = "1 MiB string value for " + t.Name
	case "unverified-request":
		rq.Body = []byte(valid)
		rq.Variant = "valid write on an unverified connection"
		rq.MustErr = true
	default:
		return nil
	}
	return rq
}

func (cs *connState) buildResource(w *world, d caseDesc, rnd *rand.Rand) *request {
	rq := &request{Method: "POST", Target: "/resource", CType: refctl.ContentJSON, Kind: "resource"}
	arg := d.Arg
	valid := `{"resource-type":"image","image-width":4,"image-height":4}`
	switch d.Class {
	case "random-bytes":
		rq.Body = rbytes(rnd, rnd.Intn(601))
		rq.Variant = fmt.Sprintf("%d random bytes", len(rq.Body))
	case "invalid-json":
		bodies := []string{"", "{", valid[:len(valid)-1], `{"resource-type":image}`}
		rq.Body = []byte(bodies[arg%len(bodies)])
		if arg >= 1000 {
			rq.Body = []byte(valid[:rnd.Intn(len(valid))])
		}
		rq.MustErr = true
		rq.Variant = fmt.Sprintf("unparsable body %q", trunc(string(rq.Body), 40))
	case "wrong-types":
		bodies := []string{
			`{"resource-type":5,"image-width":4,"image-height":4}`, `{"resource-type":"image","image-width":-1,"image-height":4}`,
			`{"resource-type":"image","image-width":"4","image-height":4}`, `{"resource-type":"image","image-width":null,"image-height":null}`,
			`{"resource-type":"image","image-width":4.5,"image-height":4}`, `{"resource-type":"image","image-width":[4],"image-height":{"h":4}}`,
			`{"resource-type":["image"]}`, `{"resource-type":"video","image-width":4,"image-height":4}`, `{}`, `[]`, `null`,
			`{"resource-type":"image","resource-type":"image","image-width":4,"image-width":5}`,
		}
		v := arg % len(bodies)
		rq.Body = []byte(bodies[v])
		rq.Variant = fmt.Sprintf("wrong types %d: %s", v, trunc(bodies[v], 60))
	case "huge-numbers":
		nums := []string{"1e300", "99999999999999999999", "4294967295", "18446744073709551615"}
		v := arg % len(nums)
		rq.Body = []byte(fmt.Sprintf(`{"resource-type":"image","image-width":%s,"image-height":%s}`, nums[v], nums[v]))
		rq.Variant = "image size " + nums[v]
	case "deep-nesting":
		depths := []int{100, 9999, 10001, 100000}
		dp := depths[arg%len(depths)]
		rq.Body = []byte(`{"resource-type":"image","image-width":` + nest("[", "]", dp, "", true) + `}`)
		rq.Variant = fmt.Sprintf("image-width = arrays nested %d deep", dp)
	case "valid":
		rq.Body = []byte(valid)
		rq.Variant = "valid snapshot request"
	case "unverified-request":
		rq.Body = []byte(valid)
		rq.Variant = "valid snapshot request on an unverified connection"
		rq.MustErr = true
	default:
		return nil
	}
	return rq
}

func (cs *connState) buildGet(w *world, d caseDesc, rnd *rand.Rand) *request {
	arg := d.Arg
	t := w.target(arg)
	rq := &request{Method: "GET", Kind: "get"}
	if d.Class == "empty-frames" {
		// correctly sealed frames without content (length 0, valid tag, consecutive counters) in front of a valid request:
		// they carry no byte of the stream, the request behind them is complete and correct and has to be answered
		counts := []int{1, 2, 50, 99, 100, 101, 150, 500, 2000}
		rq.EmptyFrames = counts[arg%len(counts)]
		rq.Target = fmt.Sprintf("/characteristics?id=%d.%d", t.AID, t.IID)
		if d.EP == "accessories" {
			rq.Target = "/accessories"
		}
		rq.Variant = fmt.Sprintf("a valid GET behind %d sealed frames without content", rq.EmptyFrames)
		return rq
	}
	if d.Class == "frame-size" {
		// a correctly sealed frame that is longer than the 1024 bytes the specification allows: a valid request padded
		// with a header, travelling as ONE frame.  The accessory may serve it or close the connection; it may not
		// panic, die or stop serving.
		sizes := []int{1025, 1026, 1500, 2047, 2048, 2066, 2067, 2100, 4096, 16384, 65535}
		n := sizes[arg%len(sizes)]
		target := fmt.Sprintf("/characteristics?id=%d.%d", t.AID, t.IID)
		if d.EP == "accessories" {
			target = "/accessories"
		}
		head := fmt.Sprintf("GET %s HTTP/1.1\r\nHost: accessory.local\r\nX-Pad: ", target)
		pad := n - len(head) - 4
		rq.Raw = []byte(head + strings.Repeat("p", pad) + "\r\n\r\n")
		rq.OneFrame, rq.MayClose = true, true
		rq.Variant = fmt.Sprintf("a valid GET sealed as one frame of %d plaintext bytes", n)
		return rq
	}
	switch d.EP {
	case "characteristics-get":
		if d.Class == "unverified-request" {
			rq.Target = fmt.Sprintf("/characteristics?id=%d.%d", t.AID, t.IID)
			rq.MustErr = true
			rq.Variant = "valid read on an unverified connection"
			return rq
		}
		good := fmt.Sprintf("%d.%d", t.AID, t.IID)
		var long strings.Builder
		for k := 0; k < 10000; k++ {
			if k > 0 {
				long.WriteByte(',')
			}
			tt := w.target(k)
			fmt.Fprintf(&long, "%d.%d", tt.AID, tt.IID)
		}
		qs := []struct {
			q   string
			err bool
		}{
			{"?id=", true}, {"", true}, {"?id=1", true}, {"?id=a.b", true}, {"?id=1.2.3", true}, {"?id=18446744073709551616.1", true},
			{"?id=-1.-1", true}, {"?id=" + good + ",", false}, {"?id=,", false}, {"?id=" + good + "&id=1.3", false}, {"?id=" + long.String(), false},
			{"?id=%zz", true}, {"?id=" + good + ";meta=1", false}, {"?id=" + good + "&meta=1&perms=1&type=1&ev=1", false}, {"?id=%00.%00", true},
			{"?id=1e3.2", false}, {"?id=0x1.0x2", false}, {"?id=.", false}, {"?id=" + good + ".", false}, {"?ID=" + good, true}, {"?id=+1.+9", false},
			// the optional parameters of a read together with ids the accessory does not have (alone, first, last)
			{"?id=1.99999&meta=1&perms=1&type=1&ev=1", false}, {"?id=99.1&type=1", false}, {"?id=" + good + ",1.99999&perms=1", false}, {"?id=1.99999," + good + "&type=1&meta=1", false},
			{"?id=" + good + ",77.77&ev=1", false}, {"?type=1&perms=1&id=0.0", false},
			{"?id=" + strings.Repeat("9", 400) + ".1", true}, {"?id=1.9999999999999999999999", true}, {"?" + strings.Repeat("a=b&", 2000) + "id=" + good, false},
		}
		v := arg % len(qs)
		rq.Target = "/characteristics" + qs[v].q
		rq.MustErr = qs[v].err
		rq.Variant = "query " + trunc(qs[v].q, 50)
	case "accessories":
		if d.Class == "unverified-request" {
			rq.Target = "/accessories"
			rq.MustErr = true
			rq.Variant = "GET /accessories on an unverified connection"
			return rq
		}
		switch arg % 4 {
		case 0:
			rq.Target = "/accessories?x=" + strings.Repeat("q", 3000)
			rq.Variant = "long query string"
		case 1:
			rq.Target = "/accessories"
			rq.Body = rbytes(rnd, 300)
			rq.Variant = "GET with a body of 300 random bytes"
		case 2:
			rq.Target = "/accessories?%zz=%"
			rq.Variant = "malformed query escapes"
		default:
			rq.Target = "/accessories"
			rq.Raw = []byte("GET /accessories HTTP/1.1\r\nHost: a\r\nAccept: " + strings.Repeat("x", 60000) + "\r\nX-Odd\x7f: 1\r\n\r\n")
			rq.Desync = true
			rq.Variant = "odd header name and a 60 KB header value"
		}
	case "identify":
		rq.Target = "/identify"
		switch arg % 4 {
		case 0:
			rq.Method = "POST"
			rq.Body = rbytes(rnd, rnd.Intn(600))
			rq.Variant = "POST with random body"
		case 1:
			rq.Variant = "GET"
		case 2:
			rq.Method = "POST"
			rq.Body = []byte(nest("[", "]", 20000, "", true))
			rq.Variant = "POST with deep JSON"
		default:
			rq.Method = "POST"
			rq.Target = "/identify?" + strings.Repeat("z", 5000)
			rq.Body = []byte{}
			rq.Variant = "POST with long query"
		}
	}
	return rq
}

// ---------------------------------------------------------------- HTTP level

// honest returns an honest request (method, target, type, body) for the endpoint in this state.
func (cs *connState) honest(w *world, ep string, arg int, rnd *rand.Rand) (string, string, string, []byte) {
	t := w.target(arg)
	switch ep {
	case "pair-setup", "pair-verify", "pairings":
		c := cs.correctNext(w, ep, arg, rnd)
		return "POST", pathOf[ep], refctl.ContentTLV8, c.body
	case "characteristics-put":
		return "PUT", "/characteristics", refctl.ContentJSON, []byte(fmt.Sprintf(`{"characteristics":[{"aid":%d,"iid":%d,"ev":true}]}`, t.AID, t.IID))
	case "characteristics-get":
		return "GET", fmt.Sprintf("/characteristics?id=%d.%d", t.AID, t.IID), "", nil
	case "accessories":
		return "GET", "/accessories", "", nil
	case "resource":
		return "POST", "/resource", refctl.ContentJSON, []byte(`{"resource-type":"image","image-width":4,"image-height":4}`)
	case "identify":
		return "POST", "/identify", "", []byte{}
	}
	return "GET", "/", "", nil
}

func (cs *connState) buildHTTP(w *world, d caseDesc, rnd *rand.Rand) *request {
	arg := d.Arg
	method, target, ctype, body := cs.honest(w, d.EP, arg, rnd)
	rq := &request{Kind: "http"}
	hdr := func(m, tg string, extra ...string) string {
		s := fmt.Sprintf("%s %s HTTP/1.1\r\nHost: accessory.local\r\n", m, tg)
		if ctype != "" {
			s += "Content-Type: " + ctype + "\r\n"
		}
		for _, e := range extra {
			s += e + "\r\n"
		}
		return s + "\r\n"
	}
	switch d.Class {
	case "unknown-http-method":
		ms := []string{"PATCH", "DELETE", "OPTIONS", "FOO", "get"}
		m := ms[arg%len(ms)]
		if m == method {
			m = "PATCH"
		}
		var b []byte
		if arg%2 == 1 {
			b = body
		}
		rq.Raw = refctl.BuildRequest(m, target, ctype, b)
		// the TLV endpoints and /identify do not look at the method (the body decides); the JSON endpoints dispatch on it
		rq.MustErr = d.EP == "characteristics-put" || d.EP == "accessories" || d.EP == "resource"
		rq.Variant = fmt.Sprintf("%s %s with %d body bytes", m, target, len(b))
		rq.Kind = "http-honest"
	case "no-content-length":
		if len(body) == 0 {
			body = []byte("0123456789")
		}
		rq.Raw = append([]byte(hdr(method, target)), body...)
		rq.Desync = true
		rq.Variant = fmt.Sprintf("%s %s with %d body bytes and no Content-Length", method, target, len(body))
	case "content-length-larger":
		k := []int{1, 300}[arg%2]
		rq.Raw = append([]byte(hdr(method, target, fmt.Sprintf("Content-Length: %d", len(body)+k))), body...)
		rq.Tail = rbytes(rnd, k)
		rq.Variant = fmt.Sprintf("%s %s Content-Length %d, body %d (+%d bytes later)", method, target, len(body)+k, len(body), k)
	case "content-length-smaller":
		if len(body) < 2 {
			body = []byte("0123456789")
		}
		k := 1 + (arg % 2 * (len(body) - 2))
		rq.Raw = append([]byte(hdr(method, target, fmt.Sprintf("Content-Length: %d", len(body)-k))), body...)
		rq.Desync = true
		rq.Variant = fmt.Sprintf("%s %s Content-Length %d, body %d", method, target, len(body)-k, len(body))
	case "content-length-invalid":
		vals := []string{"Content-Length: -1", "Content-Length: abc", "Content-Length: 18446744073709551616", fmt.Sprintf("Content-Length: %d\r\nContent-Length: %d", len(body), len(body)+1)}
		v := vals[arg%len(vals)]
		rq.Raw = append([]byte(hdr(method, target, v)), body...)
		rq.Desync = true
		rq.MustErr = true
		rq.Variant = fmt.Sprintf("%s %s with %q", method, target, v)
	case "chunked":
		var b bytes.Buffer
		b.WriteString(hdr(method, target, "Transfer-Encoding: chunked"))
		rest := body
		for len(rest) > 0 {
			n := 1 + rnd.Intn(len(rest))
			if arg%2 == 0 {
				n = len(rest)
			}
			fmt.Fprintf(&b, "%x\r\n", n)
			b.Write(rest[:n])
			b.WriteString("\r\n")
			rest = rest[n:]
		}
		b.WriteString("0\r\n\r\n")
		rq.Raw = b.Bytes()
		rq.Variant = fmt.Sprintf("%s %s honest body in chunked encoding", method, target)
		rq.Kind = "http-honest"
	case "chunked-malformed":
		var b bytes.Buffer
		b.WriteString(hdr(method, target, "Transfer-Encoding: chunked"))
		if arg%2 == 0 {
			b.WriteString("zz\r\n")
			b.Write(body)
			b.WriteString("\r\n0\r\n\r\n")
		} else {
			fmt.Fprintf(&b, "%x\r\n", len(body)+5)
			b.Write(body)
			b.WriteString("XXXXXxx0\r\n\r\n")
		}
		rq.Raw = b.Bytes()
		rq.Desync = true
		rq.Variant = fmt.Sprintf("%s %s malformed chunked body %d", method, target, arg%2)
	case "expect-continue":
		rq.Raw = append([]byte(hdr(method, target, "Expect: 100-continue", fmt.Sprintf("Content-Length: %d", len(body)))), body...)
		rq.Variant = fmt.Sprintf("%s %s with Expect: 100-continue", method, target)
		rq.Kind = "http-honest"
	case "http10":
		s := fmt.Sprintf("%s %s HTTP/1.0\r\nContent-Length: %d\r\n\r\n", method, target, len(body))
		rq.Raw = append([]byte(s), body...)
		rq.Desync = true
		rq.Variant = fmt.Sprintf("%s %s as HTTP/1.0", method, target)
	case "connection-close":
		rq.Raw = append([]byte(hdr(method, target, "Connection: close", fmt.Sprintf("Content-Length: %d", len(body)))), body...)
		rq.Desync = true
		rq.Variant = fmt.Sprintf("%s %s with Connection: close", method, target)
	case "huge-header":
		rq.Raw = []byte(fmt.Sprintf("%s %s HTTP/1.1\r\nHost: a\r\nX-Big: %s\r\n\r\n", method, target, strings.Repeat("h", 1100000)))
		rq.Desync = true
		rq.MustErr = true
		rq.Variant = "1.1 MB header"
	case "unknown-path":
		paths := []string{"/foo", pathOf[d.EP] + "/", "/" + pathOf[d.EP], pathOf[d.EP] + "/../pair-setup", "/%2e%2e/accessories", "/" + strings.Repeat("p", 9000)}
		p := paths[arg%len(paths)]
		rq.Raw = refctl.BuildRequest(method, p, ctype, body)
		rq.Variant = fmt.Sprintf("%s %s", method, trunc(p, 40))
		rq.Kind = "http-path"
	case "garbage-request-line":
		lines := []string{"\x16\x03\x01\x02\x00\x01\x00\x01\xfc\x03\x03", "GET", "GET / HTTP/9.9", "POST /pair-setup"}
		l := lines[arg%len(lines)]
		if arg >= 1000 {
			b := rbytes(rnd, 1+rnd.Intn(100))
			for i := range b {
				if b[i] == '\n' || b[i] == '\r' {
					b[i] = 'x'
				}
			}
			l = string(b)
		}
		rq.Raw = []byte(l + "\r\n\r\n")
		rq.Desync = true
		rq.MustErr = true
		rq.Variant = fmt.Sprintf("request line %q", trunc(l, 30))
	case "no-host":
		s := fmt.Sprintf("%s %s HTTP/1.1\r\nContent-Length: %d\r\n\r\n", method, target, len(body))
		rq.Raw = append([]byte(s), body...)
		rq.Desync = true
		rq.MustErr = true
		rq.Variant = fmt.Sprintf("%s %s without Host header", method, target)
	default:
		return nil
	}
	return rq
}

func (cs *connState) build(w *world, d caseDesc, rnd *rand.Rand) *request {
	switch d.Class {
	case "unknown-http-method", "no-content-length", "content-length-larger", "content-length-smaller", "content-length-invalid", "chunked",
		"chunked-malformed", "expect-continue", "http10", "connection-close", "huge-header", "unknown-path", "garbage-request-line", "no-host":
		return cs.buildHTTP(w, d, rnd)
	}
	switch d.EP {
	case "pair-setup", "pair-verify":
		return cs.buildTLV(w, d, rnd)
	case "pairings":
		if d.Class == "unverified-request" {
			return &request{Method: "POST", Target: "/pairings", CType: refctl.ContentTLV8, Body: refctl.PairingsAdd(cs.scratch.ID, cs.scratch.LTPK, true),
				MustErr: true, Variant: "add pairing on an unverified connection", Kind: "pairingsAdd"}
		}
		return cs.buildTLV(w, d, rnd)
	case "characteristics-put":
		return cs.buildPut(w, d, rnd)
	case "resource":
		return cs.buildResource(w, d, rnd)
	case "characteristics-get", "accessories", "identify":
		return cs.buildGet(w, d, rnd)
	}
	return nil
}

package main

import (
	"crypto/ed25519"
	"crypto/sha256"
	"encoding/base64"
	"encoding/hex"
	"encoding/json"
	"errors"
	"fmt"
	"image"
	"io"
	"math/rand"
	"net"
	"net/textproto"
	"os"
	"path/filepath"
	"reflect"
	"regexp"
	"runtime/debug"
	"strconv"
	"strings"
	"syscall"
	"time"

	"github.com/brutella/hc"
	"github.com/brutella/hc/accessory"
	"github.com/brutella/hc/characteristic"
	"github.com/brutella/hc/service"

	"verif/harness/app"
	"verif/refctl"
	"verif/vf"
)

type batch struct {
	No    int        `json:"batch"`
	Seed  int64      `json:"seed"`
	Tier  string     `json:"tier"`
	Work  string     `json:"work"`
	Cases []caseDesc `json:"cases"`
}

type target struct {
	AID, IID     uint64
	Name, Format string
}

type world struct {
	nAcc      int
	a         *app.App
	dir       string
	L         *refctl.Identity
	accID     string
	accLTPK   []byte
	targets   []target
	chars     []*characteristic.Characteristic
	orig      []interface{}
	pristine  map[string][]byte
	snapshots int
}

type connState struct {
	state   string
	c       *refctl.Conn
	addr    string
	setup   *refctl.Setup
	verify  *refctl.Verify
	scratch *refctl.Identity
	secure  bool
}

type viol struct {
	Sig    string                 `json:"sig"`
	What   string                 `json:"what"`
	Detail map[string]interface{} `json:"detail,omitempty"`
	Closed bool                   `json:"-"` // the failure is a connection closed without an answer (a claimed panic explains it)
	Incon  string                 `json:"-"` // set instead of a verdict when "no answer" could not be decided
	Wedged bool                   `json:"-"` // the bounded-progress rule confirmed a missing answer
}

// failure builds the violation for an honest request / handshake step that failed with err on c.  A watchdog
// expiry alone decides nothing: the bounded-progress rule (50 round trips on other connections) must confirm it.
func (w *world) failure(c *refctl.Conn, sigPrefix, what string, err error) *viol {
	kind := "failed"
	var se *refctl.StageError
	stage := ""
	terr := err
	if errors.As(err, &se) {
		stage = se.Stage
		terr = se.Transport
	}
	v := &viol{What: what + ": " + err.Error()}
	if terr != nil && c == nil {
		kind = "connect-failed"
	} else if terr != nil {
		kind = classifyErr(c, terr)
		if errors.Is(terr, refctl.ErrTimeout) || kind == "timeout" {
			un, _, perr := w.a.Unanswered(c)
			switch {
			case perr != nil:
				v.Incon = "bounded-progress probe failed: " + perr.Error()
			case un:
				kind, v.Wedged = "unanswered", true
			default:
				v.Incon = "an answer to an honest request arrived only after the read watchdog (" + what + ")"
			}
		}
	}
	v.Sig = sigPrefix
	if stage != "" {
		v.Sig += ":" + stage
	}
	if terr != nil {
		v.Sig += ":" + kind
		v.Closed = kind == "closed"
	}
	return v
}

type result struct {
	ID       int            `json:"id"`
	Desc     caseDesc       `json:"desc"`
	Variant  string         `json:"variant"`
	ReqLen   int            `json:"request_bytes"`
	ReqHead  string         `json:"request_head"`
	MustErr  bool           `json:"must_be_error"`
	Outcome  string         `json:"outcome"` // answered closed malformed unanswered not-sent
	Status   int            `json:"status"`
	Statuses []int          `json:"statuses,omitempty"`
	IsErr    bool           `json:"answer_is_error"`
	RespHead string         `json:"response_head"`
	SameConn string         `json:"same_connection"`
	NewConn  string         `json:"new_connection"`
	Viols    []viol         `json:"violations,omitempty"`
	Incon    string         `json:"inconclusive,omitempty"`
	Counts   map[string]int `json:"counts,omitempty"`
	Done     bool           `json:"done,omitempty"`
	Ms       int64          `json:"ms"`
}

// worldExtra is the number of additional outlet accessories of the next world (storms use a large attribute database:
// its /accessories response is far larger than net/http's buffers, so that a peer can leave while it is being written).
var worldExtra int

func newWorld(base string, seed int64) (*world, error) {
	rnd := rand.New(rand.NewSource(seed))
	w := &world{}
	w.dir = app.ScratchDir(base, "store")
	w.L = refctl.NewIdentity("c13-legit-controller", rnd)
	if err := app.StoreController(w.dir, w.L); err != nil {
		return nil, err
	}
	bridge := accessory.NewBridge(accessory.Info{Name: "C13 Bridge", SerialNumber: "c13", Manufacturer: "verif", Model: "m", FirmwareRevision: "1.0"})
	sw := accessory.NewSwitch(accessory.Info{Name: "Switch"})
	bulb := accessory.NewColoredLightbulb(accessory.Info{Name: "Bulb"})
	th := accessory.NewThermostat(accessory.Info{Name: "Thermo"}, 21, 10, 30, 0.5)
	note := characteristic.NewString("F0000001-0000-1000-8000-0026BB765291")
	note.Perms = characteristic.PermsAll()
	note.SetValue("note")
	blob := characteristic.NewBytes("F0000002-0000-1000-8000-0026BB765291")
	blob.Perms = characteristic.PermsAll()
	blob.SetValue([]byte{1, 2, 3})
	// formats WITHOUT bounds (of the library's own types only the zoom characteristics have none): nothing clamps a value
	ufloat := characteristic.NewFloat("F0000003-0000-1000-8000-0026BB765291")
	ufloat.Perms = characteristic.PermsAll()
	ufloat.SetValue(1.5)
	uint32c := characteristic.NewInt("F0000004-0000-1000-8000-0026BB765291")
	uint32c.Format = characteristic.FormatInt32
	uint32c.Perms = characteristic.PermsAll()
	uint32c.SetValue(7)
	zoom := characteristic.NewDigitalZoom()
	zoom.Perms = characteristic.PermsAll()
	sv := service.New("F0000000-0000-1000-8000-0026BB765291")
	sv.AddCharacteristic(note.Characteristic)
	sv.AddCharacteristic(blob.Characteristic)
	sv.AddCharacteristic(ufloat.Characteristic)
	sv.AddCharacteristic(uint32c.Characteristic)
	sv.AddCharacteristic(zoom.Characteristic)
	sw.AddService(sv)
	// an application registers typed callbacks
	sw.Switch.On.OnValueRemoteUpdate(func(bool) {})
	bulb.Lightbulb.Brightness.OnValueRemoteUpdate(func(int) {})
	bulb.Lightbulb.Hue.OnValueRemoteUpdate(func(float64) {})
	th.Thermostat.TargetTemperature.OnValueRemoteUpdate(func(float64) {})
	th.Thermostat.TargetHeatingCoolingState.OnValueRemoteUpdate(func(int) {})
	note.OnValueRemoteUpdate(func(string) {})
	accs := []*accessory.Accessory{bridge.Accessory, sw.Accessory, bulb.Accessory, th.Accessory}
	for i := 0; i < worldExtra; i++ {
		accs = append(accs, accessory.NewOutlet(accessory.Info{Name: fmt.Sprintf("Outlet %d", i), SerialNumber: fmt.Sprintf("o-%d", i), Manufacturer: "verif", Model: "outlet"}).Accessory)
	}
	w.nAcc = len(accs)
	a, err := app.StartWith(hc.Config{StoragePath: w.dir, Pin: "00102003"}, func(t interface{}) {
		f := reflect.ValueOf(t).Elem().FieldByName("CameraSnapshotReq")
		fn := func(width, height uint) (*image.Image, error) {
			w.snapshots++
			var img image.Image = image.NewGray(image.Rect(0, 0, 4, 4))
			return &img, nil
		}
		f.Set(reflect.ValueOf(fn))
	}, accs[0], accs[1:]...)
	if err != nil {
		return nil, err
	}
	w.a = a
	acc, ok := app.AccessoryEntity(w.dir)
	if !ok {
		return nil, errors.New("no accessory entity in the storage directory")
	}
	w.accID, w.accLTPK = acc.Name, acc.PublicKey
	add := func(ac *accessory.Accessory, c *characteristic.Characteristic, name string) {
		w.targets = append(w.targets, target{AID: ac.ID, IID: c.ID, Name: name, Format: c.Format})
	}
	add(sw.Accessory, sw.Switch.On.Characteristic, "switch.on")
	add(bulb.Accessory, bulb.Lightbulb.Brightness.Characteristic, "bulb.brightness")
	add(bulb.Accessory, bulb.Lightbulb.Hue.Characteristic, "bulb.hue")
	add(th.Accessory, th.Thermostat.TargetHeatingCoolingState.Characteristic, "thermostat.target-state")
	add(sw.Accessory, note.Characteristic, "custom.string")
	add(sw.Accessory, blob.Characteristic, "custom.tlv8")
	add(th.Accessory, th.Thermostat.TargetTemperature.Characteristic, "thermostat.target-temperature")
	add(sw.Accessory, ufloat.Characteristic, "custom.float-without-bounds")
	add(sw.Accessory, uint32c.Characteristic, "custom.int32-without-bounds")
	add(sw.Accessory, zoom.Characteristic, "digital-zoom")
	for _, ac := range accs {
		for _, s := range ac.Services {
			for _, c := range s.Characteristics {
				w.chars = append(w.chars, c)
				w.orig = append(w.orig, c.Value)
			}
		}
	}
	w.pristine = readAll(w.dir)
	return w, nil
}

func readAll(dir string) map[string][]byte {
	out := map[string][]byte{}
	ents, _ := os.ReadDir(dir)
	for _, e := range ents {
		if b, err := os.ReadFile(filepath.Join(dir, e.Name())); err == nil {
			out[e.Name()] = b
		}
	}
	return out
}

// restore puts the accessory back as it was: stored pairings and characteristic values.
func (w *world) restore() {
	ents, _ := os.ReadDir(w.dir)
	for _, e := range ents {
		if _, ok := w.pristine[e.Name()]; !ok {
			os.Remove(filepath.Join(w.dir, e.Name()))
		}
	}
	for n, b := range w.pristine {
		if cur, err := os.ReadFile(filepath.Join(w.dir, n)); err != nil || string(cur) != string(b) {
			os.WriteFile(filepath.Join(w.dir, n), b, 0o666)
		}
	}
	for i, c := range w.chars {
		c.Value = w.orig[i] // direct assignment: hc's update path compares values and may panic on composites
	}
}

// ---------------------------------------------------------------- reading answers

type answer struct {
	kind           string // answered closed malformed timeout
	m              *refctl.Message
	err            error
	closeDelimited bool
}

func classifyErr(c *refctl.Conn, err error) string {
	if err == refctl.ErrTimeout {
		return "timeout"
	}
	var me *refctl.MalformedError
	var bf *refctl.ErrBadFrame
	if errors.As(err, &me) || errors.As(err, &bf) {
		return "malformed"
	}
	s := err.Error()
	closed := err == io.EOF || strings.Contains(s, "reset by peer") || strings.Contains(s, "broken pipe") || strings.Contains(s, "closed")
	if closed && (len(c.LastRaw()) == 0 || err == io.EOF) {
		return "closed"
	}
	if err == io.ErrUnexpectedEOF || closed {
		return "malformed" // the connection ended inside a response
	}
	return "malformed"
}

// readFinal reads the next final (non-1xx) response.
func readFinal(c *refctl.Conn) answer {
	for {
		m, err := c.ReadResponse()
		if err != nil {
			return answer{kind: classifyErr(c, err), err: err}
		}
		if m.Status < 200 {
			continue
		}
		return answer{kind: "answered", m: m}
	}
}

var reNoLength = regexp.MustCompile(`status (\d+) without Content-Length or chunked encoding`)

// readAnswer is readFinal plus the one legal HTTP/1.1 framing refctl's strict reader refuses: a response without
// Content-Length whose body is delimited by the end of the connection (RFC 7230 3.3.3 (7); net/http answers
// malformed HTTP that way: `400 Bad Request`, `Connection: close`, then it closes).  The response is accepted
// only if the connection does end; the synthetic message then carries Connection: close.
func readAnswer(c *refctl.Conn) answer {
	a := readFinal(c)
	if a.kind != "malformed" || a.err == nil {
		return a
	}
	mm := reNoLength.FindStringSubmatch(a.err.Error())
	if mm == nil {
		return a
	}
	st, _ := strconv.Atoi(mm[1])
	hdr := textproto.MIMEHeader{}
	hdr.Set("Connection", "close")
	synth := &refctl.Message{Proto: "HTTP/1.1", Status: st, Header: hdr}
	for i := 0; i < 64; i++ {
		_, err := c.ReadMessage()
		if err == nil {
			continue
		}
		var me *refctl.MalformedError
		if errors.As(err, &me) {
			continue // body bytes, read as if they were a status line
		}
		if err == refctl.ErrTimeout {
			return answer{kind: "undelimited", m: synth, err: fmt.Errorf("%v, and the connection stays open", a.err)}
		}
		break // the connection ended: the body was delimited by it
	}
	return answer{kind: "answered", m: synth, closeDelimited: true}
}

func isErrorAnswer(ep string, m *refctl.Message) bool {
	if m.Status >= 400 || m.Status == 207 {
		return true
	}
	if ep == "pair-setup" || ep == "pair-verify" || ep == "pairings" {
		if t, err := refctl.ParseTLV(m.Body); err == nil {
			if _, ok := t.Get(refctl.TagError); ok {
				return true
			}
		}
	}
	return false
}

func head(b []byte, n int) string {
	if len(b) > n {
		return fmt.Sprintf("%q...(%d bytes)", b[:n], len(b))
	}
	return fmt.Sprintf("%q", b)
}

func respHead(m *refctl.Message) string {
	if m == nil {
		return ""
	}
	return fmt.Sprintf("%s %d %s body=%s", m.Proto, m.Status, m.Header.Get("Content-Type"), head(m.Body, 60))
}

// ---------------------------------------------------------------- child

// A case whose honest pair-setup continuation has sent M5 waits for M6 while later cases run: hc announces the
// changed pairing state over mDNS before it answers M6, and that announcement sleeps for one second.
type pending struct {
	res     result
	d       caseDesc
	cs      *connState
	rq      *request
	a       answer
	addrs   map[string]string
	rnd     *rand.Rand
	setup   *refctl.Setup
	rejects int
	t0      time.Time
	spent   time.Duration

	closedViols []viol
	awaiting    bool // the answer to the hostile message itself is outstanding
}

type child struct {
	w      *world
	b      batch
	logf   *os.File
	resf   *os.File
	n      int
	hcLog  []string
	parked []*pending
	panics []app.HTTPPanic // panic lines of net/http not yet claimed by a case
	wedged bool            // a missing answer was confirmed by the bounded-progress rule: the rest of the batch is not run
}

func (ch *child) writeJSON(f *os.File, v interface{}) {
	b, err := json.Marshal(v)
	if err != nil {
		b, _ = json.Marshal(map[string]string{"unencodable": err.Error()})
	}
	f.Write(append(b, '\n'))
}

func childMain(batchFile string) int {
	raw, err := os.ReadFile(batchFile)
	if err != nil {
		fmt.Println("child: cannot read batch:", err)
		return 3
	}
	var b batch
	if err := json.Unmarshal(raw, &b); err != nil {
		fmt.Println("child: cannot parse batch:", err)
		return 3
	}
	ch := &child{b: b}
	stem := strings.TrimSuffix(batchFile, ".json")
	ch.logf, _ = os.OpenFile(stem+".log.jsonl", os.O_CREATE|os.O_WRONLY|os.O_APPEND, 0o644)
	ch.resf, _ = os.OpenFile(stem+".res.jsonl", os.O_CREATE|os.O_WRONLY|os.O_APPEND, 0o644)
	if ch.logf == nil || ch.resf == nil {
		fmt.Println("child: cannot open log files")
		return 3
	}
	w, err := newWorld(b.Work, b.Seed*977+int64(b.No))
	if err != nil {
		ch.writeJSON(ch.resf, result{ID: -1, Incon: "transport did not start: " + err.Error()})
		return 0
	}
	ch.w = w
	defer os.RemoveAll(w.dir)
	skipped := 0
	for _, d := range b.Cases {
		if ch.wedged {
			skipped++
			continue
		}
		for len(ch.parked) > 8 {
			ch.finishOldest()
		}
		ch.runCase(d)
	}
	if skipped > 0 {
		ch.writeJSON(ch.resf, result{ID: -4, Counts: map[string]int{"cases_not_run_after_a_confirmed_missing_answer": skipped}})
	}
	for len(ch.parked) > 0 {
		ch.finishOldest()
	}
	// panic lines nobody claimed
	ch.pullPanics()
	if len(ch.panics) > 0 {
		res := result{ID: -3, Counts: map[string]int{}}
		for _, p := range ch.panics {
			site := vf.PanicSite(p.Stack, "brutella/hc")
			res.Viols = append(res.Viols, viol{Sig: fmt.Sprintf("panic:unattributed:%s:%s", panicKind(p), site), What: "handler panic on a connection of no case: " + p.Text,
				Detail: map[string]interface{}{"panic": p.Text, "remote": p.Remote, "stack": firstLines(p.Stack, 24)}})
		}
		ch.writeJSON(ch.resf, res)
	}
	ch.writeJSON(ch.resf, result{ID: -2, Done: true})
	w.a.Stop()
	return 0
}

func (ch *child) emit(p *pending) {
	p.res.Ms = p.spent.Milliseconds()
	ch.writeJSON(ch.resf, p.res)
}

func (w *world) dial() (*refctl.Conn, error) {
	c, err := refctl.Dial(w.a.Addr)
	if err != nil {
		return nil, err
	}
	c.Timeout = 20 * time.Second // watchdog only: a missing answer is decided by the bounded-progress rule
	return c, nil
}

// reach opens a new connection and performs the honest prefix of the state.
func (w *world) reach(state string, scratch *refctl.Identity, rnd *rand.Rand) (*connState, error) {
	c, err := w.dial()
	if err != nil {
		return nil, &refctl.StageError{Stage: "dial", Why: "connect failed", Transport: err}
	}
	cs := &connState{state: state, c: c, addr: c.LocalAddr(), scratch: scratch}
	switch state {
	case "psM1", "psM3":
		cs.setup, err = c.StartSetup(scratch, w.a.Code(), rnd)
		if err == nil && state == "psM3" {
			err = c.SetupVerify(cs.setup)
		}
	case "pvM1":
		cs.verify, err = c.StartVerify(w.L, w.accLTPK, w.accID, rnd)
	case "verified":
		cs.verify, err = c.PairVerify(w.L, w.accLTPK, w.accID, rnd)
		cs.secure = err == nil
	}
	return cs, err
}

func stageOf(err error) string {
	var se *refctl.StageError
	if errors.As(err, &se) {
		if se.Transport != nil {
			return se.Stage + ":no-answer"
		}
		return se.Stage
	}
	return "transport"
}

func refused(err error) bool {
	var se *refctl.StageError
	if errors.As(err, &se) && se.Transport == nil {
		switch se.Stage {
		case "setup.M2", "setup.M2.error", "verify.M2", "verify.M2.error":
			return true
		}
	}
	return false
}

// health: a correct pair-verify and GET /accessories on a new connection.
func (w *world) health(rnd *rand.Rand) (string, string, *viol) {
	cs, err := w.reach("verified", nil, rnd)
	addr := ""
	if cs != nil {
		addr = cs.addr
		defer cs.c.Close()
	}
	if err != nil {
		var c *refctl.Conn
		if cs != nil {
			c = cs.c
		}
		return addr, "failed", w.failure(c, "wedged:new-connection", "a correct pair-verify on a new connection failed", err)
	}
	m, err := cs.c.Do("GET", "/accessories", "", nil)
	if err != nil {
		return addr, "failed", w.failure(cs.c, "wedged:new-connection:accessories", "GET /accessories on a new verified connection was not answered", &refctl.StageError{Stage: "get", Why: "no answer", Transport: err})
	}
	if v := w.checkAccessories(m, "wedged:new-connection"); v != nil {
		return addr, "failed", v
	}
	return addr, "ok", nil
}

func (w *world) checkAccessories(m *refctl.Message, prefix string) *viol {
	if m.Status != 200 {
		sig := fmt.Sprintf("%s:accessories:status-%d", prefix, m.Status)
		if strings.Contains(string(m.Body), "json: unsupported value") || strings.Contains(string(m.Body), "json: error calling") {
			sig = "c12-root:" + sig + ":unencodable-value"
		}
		return &viol{Sig: sig, What: fmt.Sprintf("GET /accessories answered %d %s", m.Status, head(m.Body, 100))}
	}
	db, err := refctl.ParseAttrDB(m.Body)
	if err != nil || db == nil {
		return &viol{Sig: prefix + ":accessories:body", What: fmt.Sprintf("the body of GET /accessories does not parse: %v", err)}
	}
	if len(db.Accessories) != w.nAcc {
		return &viol{Sig: prefix + ":accessories:body", What: fmt.Sprintf("GET /accessories lists %d accessories, %d were added", len(db.Accessories), w.nAcc)}
	}
	return nil
}

// continueVerify: honest pair-verify M1..M4 and an encrypted GET on the same connection, at most one rejected start.
func (w *world) continueVerify(cs *connState, rnd *rand.Rand) (rejected int, v *viol) {
	c := cs.c
	ver, err := c.StartVerify(w.L, w.accLTPK, w.accID, rnd)
	if err != nil && refused(err) {
		rejected = 1
		ver, err = c.StartVerify(w.L, w.accLTPK, w.accID, rnd)
	}
	if err == nil {
		err = c.FinishVerify(ver)
	}
	if err != nil {
		return rejected, w.failure(c, "wedged:pair-verify:same-connection",
			fmt.Sprintf("after the hostile message a correct pair-verify on the same connection failed (%d rejected start(s) before)", rejected), err)
	}
	cs.secure = true
	m, err := c.Do("GET", "/accessories", "", nil)
	if err != nil {
		return rejected, w.failure(c, "wedged:pair-verify:same-connection:accessories", "encrypted GET /accessories after the handshake on the same connection",
			&refctl.StageError{Stage: "get", Why: "no answer", Transport: err})
	}
	return rejected, w.checkAccessories(m, "wedged:pair-verify:same-connection")
}

// startSetupContinuation: honest pair-setup M1..M4 on the same connection (at most one rejected start), then M5 is SENT.
func (w *world) startSetupContinuation(cs *connState, rnd *rand.Rand) (s *refctl.Setup, rejected int, v *viol) {
	c := cs.c
	s, err := c.StartSetup(cs.scratch, w.a.Code(), rnd)
	if err != nil && refused(err) {
		rejected = 1
		s, err = c.StartSetup(cs.scratch, w.a.Code(), rnd)
	}
	if err == nil {
		err = c.SetupVerify(s)
	}
	if err == nil {
		sub := refctl.SetupM5Plain(s.Srp.K, cs.scratch.ID, cs.scratch.LTPK, cs.scratch.LTSK)
		if e := c.Send(refctl.BuildRequest("POST", "/pair-setup", refctl.ContentTLV8, refctl.SetupM5(s.EncKey, sub))); e != nil {
			err = &refctl.StageError{Stage: "setup.M6", Why: "M5 could not be sent", Transport: e}
		}
	}
	if err != nil {
		return s, rejected, w.failure(c, "wedged:pair-setup:same-connection",
			fmt.Sprintf("after the hostile message a correct pair-setup with the right code on the same connection failed (%d rejected start(s) before)", rejected), err)
	}
	return s, rejected, nil
}

// finishSetupContinuation reads M6 and verifies it completely (decryption, accessory signature, identity).
func (w *world) finishSetupContinuation(cs *connState, s *refctl.Setup, rejected int) *viol {
	fail := func(stage, format string, a ...interface{}) *viol {
		return &viol{Sig: "wedged:pair-setup:same-connection:" + stage,
			What: fmt.Sprintf("after the hostile message a correct pair-setup with the right code on the same connection failed at M6 (%d rejected start(s) before): ", rejected) + fmt.Sprintf(format, a...)}
	}
	a := readAnswer(cs.c)
	if a.kind == "timeout" {
		// the watchdog alone decides nothing; an answer that arrives while the rule is applied is used
		if un, late, perr := w.a.Unanswered(cs.c); perr == nil && !un && late != nil && late.Status >= 200 {
			a = answer{kind: "answered", m: late}
		} else if perr == nil && un {
			v := &viol{Sig: "wedged:pair-setup:same-connection:setup.M6:unanswered", Wedged: true,
				What: fmt.Sprintf("after the hostile message a correct pair-setup on the same connection got no answer to M5 while 50 round trips on other connections completed (%d rejected start(s) before)", rejected)}
			return v
		} else if perr != nil {
			return &viol{Incon: "bounded-progress probe failed: " + perr.Error()}
		} else {
			a = answer{kind: "closed", err: io.EOF}
		}
	}
	if a.kind != "answered" {
		return w.failure(cs.c, "wedged:pair-setup:same-connection", fmt.Sprintf("after the hostile message a correct pair-setup on the same connection got no well-formed answer to M5 (%d rejected start(s) before)", rejected),
			&refctl.StageError{Stage: "setup.M6", Why: "no answer", Transport: a.err})
	}
	m := a.m
	if m.Status != 200 {
		return fail("setup.M6", "HTTP status %d", m.Status)
	}
	t, err := refctl.ParseTLV(m.Body)
	if err != nil {
		return fail("setup.M6.tlv", "%v", err)
	}
	if e, ok := t.Byte(refctl.TagError); ok {
		return fail("setup.M6.error", "error %d", e)
	}
	if st, _ := t.Byte(refctl.TagState); st != 6 {
		return fail("setup.M6", "state %d, want 6", st)
	}
	data, _ := t.Get(refctl.TagEncryptedData)
	plain, err := refctl.Open(s.EncKey, []byte("PS-Msg06"), data, nil)
	if err != nil {
		return fail("setup.M6.decrypt", "encrypted data (%d bytes) does not open under the session key: %v", len(data), err)
	}
	sub, err := refctl.ParseTLV(plain)
	if err != nil {
		return fail("setup.M6.tlv", "%v", err)
	}
	id, _ := sub.Get(refctl.TagIdentifier)
	pk, _ := sub.Get(refctl.TagPublicKey)
	sig, _ := sub.Get(refctl.TagSignature)
	x := refctl.HKDF512(s.Srp.K, "Pair-Setup-Accessory-Sign-Salt", "Pair-Setup-Accessory-Sign-Info")
	info := append(append(append([]byte{}, x[:]...), id...), pk...)
	if len(pk) != 32 || len(sig) != 64 || !ed25519.Verify(ed25519.PublicKey(pk), info, sig) {
		return fail("setup.M6.signature", "accessory signature does not verify")
	}
	if string(id) != w.accID || string(pk) != string(w.accLTPK) {
		return fail("setup.M6.identity", "M6 names %q, the accessory is %q", id, w.accID)
	}
	return nil
}

func panicKind(p app.HTTPPanic) string {
	t := p.Text
	switch {
	case strings.Contains(t, "slice bounds out of range"):
		return "slice-bounds"
	case strings.Contains(t, "index out of range"):
		return "index-out-of-range"
	case strings.Contains(t, "comparing uncomparable"):
		return "uncomparable"
	case strings.Contains(t, "interface conversion"):
		return "type-assertion"
	case strings.Contains(t, "nil pointer"):
		return "nil-dereference"
	case strings.Contains(p.Stack, "log.(*Logger).Panic"):
		return "log-panic"
	}
	return "other"
}

func (p *pending) addViol(sig, what string, detail map[string]interface{}) {
	p.res.Viols = append(p.res.Viols, viol{Sig: sig, What: what, Detail: detail})
}

// addV records a violation built by failure / checkAccessories (or its inconclusive replacement).
func (ch *child) addV(p *pending, v *viol, prefix string) {
	if v == nil {
		return
	}
	if v.Incon != "" {
		p.res.Incon = v.Incon
		return
	}
	if v.Wedged {
		ch.wedged = true
	}
	var wit map[string]interface{}
	if p.rq != nil {
		wit = ch.witness(p)
	}
	if v.Closed {
		// reported only if no panic line explains the closed connection (decided when the panics are claimed)
		p.closedViols = append(p.closedViols, viol{Sig: v.Sig, What: prefix + v.What, Detail: wit})
		return
	}
	p.addViol(v.Sig, prefix+v.What, wit)
}

func (ch *child) witness(p *pending) map[string]interface{} {
	msg := p.rq.bytes()
	return map[string]interface{}{"case": p.d, "state": stateNames[p.d.State], "variant": p.rq.Variant, "request_len": len(msg), "request_head": head(msg, 400),
		"request_hex_first_512": vf.Hex(firstN(msg, 512)), "response": p.res.RespHead, "outcome": p.res.Outcome, "hc_log": ch.hcLog}
}

func (ch *child) runCase(d caseDesc) {
	w := ch.w
	p := &pending{d: d, t0: time.Now(), addrs: map[string]string{}}
	p.res = result{ID: d.ID, Desc: d, Counts: map[string]int{}, SameConn: "skipped", NewConn: "skipped"}
	p.rnd = rand.New(rand.NewSource(d.Seed))
	ch.n++
	parkedNow := false
	defer func() {
		if e := recover(); e != nil {
			p.res.Incon = fmt.Sprintf("monitor panic in case %d (%s/%s/%s): %v\n%s", d.ID, d.State, d.EP, d.Class, e, debug.Stack())
			parkedNow = false
		}
		p.spent += time.Since(p.t0)
		if !parkedNow {
			if p.cs != nil {
				p.cs.c.Close()
			}
			ch.emit(p)
		}
	}()
	app.TakeHCLog()
	scratch := refctl.NewIdentity(fmt.Sprintf("c13-scratch-%d-%d", ch.b.No, d.ID), p.rnd)
	if d.Class == "reuse-port" {
		ch.runReusePort(p)
		return
	}
	cs, err := w.reach(d.State, scratch, p.rnd)
	p.cs = cs
	if cs != nil {
		p.addrs[cs.addr] = "case"
	}
	if err != nil {
		// the honest prefix on a NEW connection failed: the accessory does not serve correct peers any more
		ch.writeJSON(ch.logf, map[string]interface{}{"id": d.ID, "desc": d, "phase": "honest-prefix-failed", "error": err.Error()})
		var c0 *refctl.Conn
		if cs != nil {
			c0 = cs.c
		}
		ch.addV(p, w.failure(c0, "wedged:new-connection", fmt.Sprintf("the honest prefix (%s) on a new connection failed", stateNames[d.State]), err), "")
		p.res.Outcome = "not-sent"
		ch.claimPanics(p, "closed")
		w.restore()
		return
	}
	rq := cs.build(w, d, p.rnd)
	if rq == nil {
		p.res.Incon = fmt.Sprintf("no generator for %s/%s/%s", d.State, d.EP, d.Class)
		return
	}
	p.rq = rq
	msg := rq.bytes()
	p.res.Variant, p.res.ReqLen, p.res.ReqHead, p.res.MustErr = rq.Variant, len(msg)+len(rq.Tail), head(msg, 160), rq.MustErr
	h := sha256.Sum256(msg)
	// the input is logged before it is sent
	ch.writeJSON(ch.logf, map[string]interface{}{"id": d.ID, "desc": d, "variant": rq.Variant, "request_len": len(msg), "request_sha256": hex.EncodeToString(h[:]),
		"request_b64_first_8k": base64.StdEncoding.EncodeToString(firstN(msg, 8192)), "first_request_len": len(rq.First), "tail_len": len(rq.Tail), "conn": cs.addr})
	c := cs.c

	// ---- send
	if rq.First != nil {
		c.Send(rq.First)
		a0 := readAnswer(c)
		if a0.kind != "answered" {
			// the first of the two identical writes already failed: judge it as the hostile message
			rq.Variant += " (already the first request failed)"
			p.res.Variant = rq.Variant
			p.a = a0
			parkedNow = ch.judge(p)
			return
		}
	}
	if rq.EmptyFrames > 0 && cs.secure {
		var many []byte
		for i := 0; i < rq.EmptyFrames; i++ {
			many = append(many, c.SealEmptyFrame()...)
		}
		c.WriteRaw(many)
	}
	if rq.OneFrame && cs.secure {
		c.SendOneFrame(msg)
	} else {
		c.Send(msg) // a failed write shows up as a missing answer below
	}
	if rq.Tail != nil {
		time.Sleep(2 * time.Millisecond)
		c.Send(rq.Tail)
	}
	// hc announces a changed pairing state over mDNS (one second) before it answers an accepted /pairings request or
	// pair-setup M5: the answer to such a message is awaited while later cases run
	if rq.First == nil && rq.Tail == nil && !rq.Desync && rq.Raw == nil &&
		((d.EP == "pairings" && cs.secure && d.Class != "add-existing") || (d.EP == "pair-setup" && d.State == "psM3")) {
		p.awaiting = true
		ch.parked = append(ch.parked, p)
		parkedNow = true
		return
	}
	p.a = readAnswer(c)
	parkedNow = ch.judge(p)
}

func firstN(b []byte, n int) []byte {
	if len(b) > n {
		return b[:n]
	}
	return b
}

func lastN(l []string, n int) []string {
	if len(l) > n {
		return l[len(l)-n:]
	}
	return l
}

// judge evaluates the answer and starts the honest continuation.  It returns true when the case was parked
// (pair-setup M5 of the continuation sent, M6 outstanding).
func (ch *child) judge(p *pending) bool {
	w := ch.w
	d, cs, rq, res := p.d, p.cs, p.rq, &p.res
	c := cs.c
	a := p.a

	// ---- bounded progress decides "no answer"
	if a.kind == "timeout" {
		un, late, perr := w.a.Unanswered(c)
		switch {
		case perr != nil:
			res.Incon = "bounded-progress probe failed: " + perr.Error()
			a.kind = "unknown"
		case un:
			a.kind = "unanswered"
			ch.wedged = true
		case late != nil:
			a = answer{kind: "answered", m: late}
		default:
			a.kind = "closed"
		}
	}
	if a.kind == "undelimited" {
		// a response without length on a connection that is still open: malformed if it really stays open
		un, _, perr := w.a.Unanswered(c)
		switch {
		case perr != nil:
			res.Incon = "bounded-progress probe failed: " + perr.Error()
			a.kind = "unknown"
		case un:
			a = answer{kind: "malformed", err: a.err}
		default:
			a = answer{kind: "answered", m: a.m, closeDelimited: true}
		}
	}
	res.Outcome = a.kind
	ch.hcLog = lastN(app.TakeHCLog(), 6)
	if a.m != nil {
		res.Status = a.m.Status
		res.Statuses = append(res.Statuses, a.m.Status)
		res.RespHead = respHead(a.m)
		res.IsErr = isErrorAnswer(d.EP, a.m)
	}
	usable := a.kind == "answered" && !rq.Desync && !strings.EqualFold(a.m.Header.Get("Connection"), "close")

	// a message that happens to be (equivalent to) the correct pair-verify finish turns the connection into a verified one
	if a.kind == "answered" && d.EP == "pair-verify" && d.State == "pvM1" && !cs.secure && a.m.Status == 200 && cs.verify != nil {
		if t, err := refctl.ParseTLV(a.m.Body); err == nil {
			st, _ := t.Byte(refctl.TagState)
			if _, isErr := t.Get(refctl.TagError); st == 4 && !isErr {
				c.Secure(cs.verify.Shared)
				cs.secure = true
				res.Counts["hostile_variant_completed_pair_verify"]++
			}
		}
	}

	// ---- after HTTP-level desynchronisation: everything else the server sends must be well-formed too
	if rq.Desync && a.kind == "answered" {
		old := c.Timeout
		c.Timeout = 1500 * time.Millisecond // not a verdict: only how long further answers are collected
		for i := 0; i < 4 && !a.closeDelimited; i++ {
			more := readAnswer(c)
			if more.kind == "undelimited" {
				break // collected under a short read deadline: no verdict from it
			}
			if more.kind == "malformed" {
				res.Outcome = "malformed"
				a = more
			}
			if more.kind != "answered" {
				break
			}
			res.Statuses = append(res.Statuses, more.m.Status)
			if more.closeDelimited {
				break
			}
		}
		c.Timeout = old
	}
	p.a = a

	// ---- same connection: the state-appropriate honest continuation
	if usable && !cs.secure {
		doSetup := strings.HasPrefix(d.State, "ps") || d.EP == "pair-setup" || d.ID%4 == 0
		if doSetup {
			s, rej, v := w.startSetupContinuation(cs, p.rnd)
			if v != nil {
				res.SameConn = "failed"
				ch.addV(p, v, "")
				ch.conclude(p, false)
				return false
			}
			p.setup, p.rejects = s, rej
			ch.parked = append(ch.parked, p)
			return true
		}
	}
	ch.conclude(p, usable)
	return false
}

func (ch *child) finishOldest() {
	p := ch.parked[0]
	ch.parked = ch.parked[1:]
	p.t0 = time.Now()
	again := false
	defer func() {
		if e := recover(); e != nil {
			p.res.Incon = fmt.Sprintf("monitor panic while finishing case %d: %v\n%s", p.d.ID, e, debug.Stack())
			again = false
		}
		p.spent += time.Since(p.t0)
		if !again {
			p.cs.c.Close()
			ch.emit(p)
		}
	}()
	if p.awaiting {
		p.awaiting = false
		p.a = readAnswer(p.cs.c)
		again = ch.judge(p) // may park the case once more (pair-setup continuation)
		return
	}
	if ch.wedged {
		// a missing answer was confirmed meanwhile: the accessory is wedged, nothing more is learnt from waiting here
		p.res.SameConn = "not-finished-after-wedge"
		ch.claimPanics(p, p.a.kind)
		return
	}
	if v := ch.w.finishSetupContinuation(p.cs, p.setup, p.rejects); v != nil {
		p.res.SameConn = "failed"
		ch.addV(p, v, "")
		ch.conclude(p, false)
		return
	}
	p.res.Counts["same_connection_pair_setup_ok"]++
	p.res.Counts[fmt.Sprintf("same_connection_pair_setup_rejected_starts_%d", p.rejects)]++
	ch.conclude(p, true)
}

// conclude runs the rest of the continuation (when the connection is still usable), attributes panics,
// judges the answer and checks a new connection.
func (ch *child) conclude(p *pending, usable bool) {
	w := ch.w
	d, cs, rq, res, a := p.d, p.cs, p.rq, &p.res, p.a
	c := cs.c
	where := d.EP + ":" + stateNames[d.State]
	if usable {
		if cs.secure {
			m, err := c.Do("GET", "/accessories", "", nil)
			if err != nil {
				res.SameConn = "failed"
				ch.addV(p, w.failure(c, "wedged:verified:same-connection", "after the hostile message GET /accessories on the same verified connection was not answered",
					&refctl.StageError{Stage: "get", Why: "no answer", Transport: err}), "")
			} else if v := w.checkAccessories(m, "wedged:verified:same-connection"); v != nil {
				res.SameConn = "failed"
				ch.addV(p, v, "after the hostile message on the same verified connection: ")
			} else {
				res.SameConn = "ok"
				res.Counts["same_connection_verified_get_ok"]++
			}
		} else {
			rej, v := w.continueVerify(cs, p.rnd)
			if v != nil {
				res.SameConn = "failed"
				ch.addV(p, v, "")
			} else {
				res.SameConn = "ok"
				res.Counts["same_connection_pair_verify_ok"]++
				res.Counts[fmt.Sprintf("same_connection_pair_verify_rejected_starts_%d", rej)]++
			}
		}
	}
	c.Close()
	w.restore()

	// ---- panics attributable to this case
	panicked := ch.claimPanics(p, a.kind)

	// ---- the answer itself
	switch a.kind {
	case "closed":
		if !panicked && rq.MayClose {
			res.Counts["framing_violations_answered_by_closing"]++
		} else if !panicked {
			p.addViol("dropped:"+where+":"+d.Class, fmt.Sprintf("the connection was closed without a response (%s, %s)", where, rq.Variant), ch.witness(p))
		}
	case "malformed":
		p.addViol("malformed-response:"+where, fmt.Sprintf("the answer is not a well-formed HTTP response: %v", a.err), ch.witness(p))
	case "unanswered":
		p.addViol("unanswered:"+where+":"+d.Class, "no answer while 50 round trips on other connections completed", ch.witness(p))
	case "answered":
		res.Counts["answered"]++
		if rq.MustErr && !res.IsErr {
			group := "body"
			if d.Class == "unknown-http-method" {
				group = d.Class
			}
			p.addViol(fmt.Sprintf("not-an-error:%s:%s:status-%d", d.EP, group, a.m.Status), fmt.Sprintf("a message that cannot be processed (%s) was answered %d without an error indication", rq.Variant, a.m.Status), ch.witness(p))
		}
	}

	// ---- a new connection still works
	if !ch.wedged {
		addr, st, v := w.health(p.rnd)
		res.NewConn = st
		ch.addV(p, v, "after the hostile message: ")
		if addr != "" {
			p.addrs[addr] = "health"
			ch.claimPanics(p, "closed")
		}
		w.restore()
	}
}

// pullPanics moves net/http's new panic lines into the pool.
func (ch *child) pullPanics() {
	lines := app.TakeStdLog()
	ch.panics = append(ch.panics, app.HTTPPanics(lines)...)
}

// claimPanics attributes pooled panic lines to the case by remote address (= the client address of its connections).
func (ch *child) claimPanics(p *pending, outcome string) bool {
	ch.pullPanics()
	found, foundAny := false, false
	var rest []app.HTTPPanic
	d, res := p.d, &p.res
	for _, pn := range ch.panics {
		role, ok := p.addrs[pn.Remote]
		if !ok {
			rest = append(rest, pn)
			continue
		}
		site := vf.PanicSite(pn.Stack, "brutella/hc")
		kind := panicKind(pn)
		ep, st := d.EP, stateNames[d.State]
		switch {
		case role == "health":
			ep, st = "health-check", "new-connection"
		case role == "case" && outcome != "closed":
			// the hostile message was answered: the panic belongs to the honest continuation
			st += ":continuation"
		}
		sig := fmt.Sprintf("panic:%s:%s:%s:%s", ep, st, kind, site)
		if strings.HasPrefix(site, "characteristic.") {
			sig = "c12-root:" + sig
		}
		if strings.Contains(pn.Text, "interface is nil, not hap.Session") {
			// the session of the connection is gone although the connection is open: sessions are stored by remote address and the
			// (late) server-side close of an older connection from the same address and port removed it
			sig = "panic:session-missing:type-assertion"
		}
		found = found || role == "case"
		foundAny = true
		res.Counts["handler_panics"]++
		res.Viols = append(res.Viols, viol{Sig: sig, What: fmt.Sprintf("handler panic (%s) serving %s: %s", role, pn.Remote, pn.Text),
			Detail: map[string]interface{}{"case": d, "variant": res.Variant, "request_head": res.ReqHead, "panic": pn.Text, "site": site, "stack": firstLines(pn.Stack, 24)}})
	}
	ch.panics = rest
	if !foundAny {
		p.res.Viols = append(p.res.Viols, p.closedViols...)
	}
	p.closedViols = nil
	return found
}

func firstLines(s string, n int) []string {
	l := strings.Split(s, "\n")
	if len(l) > n {
		l = l[:n]
	}
	return l
}

// ---------------------------------------------------------------- a reconnect from the same address and port

func dialFrom(addr string, port int) (*refctl.Conn, error) {
	d := net.Dialer{Timeout: 10 * time.Second, LocalAddr: &net.TCPAddr{IP: net.IPv4(127, 0, 0, 1), Port: port},
		Control: func(network, address string, rc syscall.RawConn) error {
			var e error
			rc.Control(func(fd uintptr) { e = syscall.SetsockoptInt(int(fd), syscall.SOL_SOCKET, syscall.SO_REUSEADDR, 1) })
			return e
		}}
	c, err := d.Dial("tcp", addr)
	if err != nil {
		return nil, err
	}
	cn := refctl.NewConn(c)
	cn.Timeout = 10 * time.Second
	return cn, nil
}

// runReusePort: connection A sends malformed HTTP (net/http answers 400 and closes half a second later) and is reset by
// the peer; the peer reconnects at once from the same address and port (connection B), reaches the state honestly and
// keeps sending honest requests while the server gets around to closing A.  Every request on B must be answered.
func (ch *child) runReusePort(p *pending) {
	w := ch.w
	d, res := p.d, &p.res
	a1, err := w.dial()
	if err != nil {
		res.Incon = "dial: " + err.Error()
		return
	}
	port := a1.C.LocalAddr().(*net.TCPAddr).Port
	// net/http answers a header above its limit with 431 and closes the connection half a second later
	garbage := []byte("GET / HTTP/1.1\r\nHost: a\r\nX-Big: " + strings.Repeat("h", 1100000) + "\r\n\r\n")
	p.rq = &request{Raw: garbage, Variant: "over-long header (431, closed by the server 0.5 s later) on a connection that the peer resets, then a new connection from the same address and port", Kind: "reuse-port"}
	res.Variant, res.ReqLen, res.ReqHead = p.rq.Variant, len(garbage), head(garbage, 40)
	ch.writeJSON(ch.logf, map[string]interface{}{"id": d.ID, "desc": d, "variant": p.rq.Variant, "conn": a1.LocalAddr()})
	a1.Send(garbage)
	first := make([]byte, 12)
	a1.C.SetReadDeadline(time.Now().Add(10 * time.Second))
	if _, err := io.ReadFull(a1.C, first); err != nil || !strings.HasPrefix(string(first), "HTTP/1.1 4") {
		a1.Close()
		res.Outcome = "not-sent"
		res.Counts["reuse_port_not_possible"]++
		return
	}
	a1.Close() // SO_LINGER 0: reset, the port is free at once
	var b *refctl.Conn
	for i := 0; i < 20 && b == nil; i++ {
		if b, err = dialFrom(w.a.Addr, port); err != nil {
			time.Sleep(5 * time.Millisecond)
		}
	}
	if b == nil {
		res.Outcome = "not-sent"
		res.Counts["reuse_port_not_possible"]++
		return
	}
	defer b.Close()
	p.addrs[b.LocalAddr()] = "case"
	cs := &connState{state: d.State, c: b, addr: b.LocalAddr(), scratch: refctl.NewIdentity("c13-scratch-reuse", p.rnd)}
	p.cs = cs
	report := func(what string) {
		res.Outcome = "closed"
		ch.claimPanicsQuietly(p)
		p.addViol("session-lost:remote-address-reused", "a connection from an address and port that an older, not yet closed connection used stops being served: "+what, ch.witness(p))
	}
	if d.State == "verified" {
		if cs.verify, err = b.PairVerify(w.L, w.accLTPK, w.accID, p.rnd); err != nil {
			report("pair-verify failed: " + err.Error())
			return
		}
		cs.secure = true
	}
	for i := 0; i < 6; i++ {
		var m *refctl.Message
		var what string
		switch d.State {
		case "verified":
			what = "GET /accessories on the verified connection"
			m, err = b.Do("GET", "/accessories", "", nil)
		case "ps0":
			what = "POST /pair-setup M1"
			m, err = b.Do("POST", "/pair-setup", refctl.ContentTLV8, refctl.SetupM1())
		default:
			_, pub := refctl.NewEphemeral(p.rnd)
			what = "POST /pair-verify M1"
			m, err = b.Do("POST", "/pair-verify", refctl.ContentTLV8, refctl.VerifyM1(pub[:]))
		}
		if err != nil {
			if err == refctl.ErrTimeout {
				if un, _, perr := w.a.Unanswered(b); perr != nil || !un {
					res.Incon = "reuse-port: watchdog expired and the bounded-progress rule did not confirm a missing answer"
					return
				}
			}
			report(fmt.Sprintf("honest request %d (%s) was not answered: %v", i+1, what, err))
			return
		}
		if d.State == "verified" && m.Status != 200 {
			report(fmt.Sprintf("honest request %d (%s) answered %d", i+1, what, m.Status))
			return
		}
		res.Status = m.Status
		time.Sleep(150 * time.Millisecond) // schedule only: the server closes the old connection about 500 ms after its 400
	}
	res.Outcome = "answered"
	res.SameConn = "ok"
	res.Counts["reuse_port_connection_served"]++
	ch.claimPanics(p, "answered")
}

// claimPanicsQuietly removes the panic lines of this case's connections from the pool without reporting them separately.
func (ch *child) claimPanicsQuietly(p *pending) {
	ch.pullPanics()
	var rest []app.HTTPPanic
	for _, pn := range ch.panics {
		if _, ok := p.addrs[pn.Remote]; ok {
			p.res.Counts["handler_panics"]++
			p.res.RespHead = "panic: " + pn.Text
			continue
		}
		rest = append(rest, pn)
	}
	ch.panics = rest
}

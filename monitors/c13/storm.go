package main

import (
	"bytes"
	"encoding/json"
	"fmt"
	"math/rand"
	"os"
	"os/exec"
	"path/filepath"
	"strconv"
	"strings"
	"sync"
	"sync/atomic"
	"time"

	"verif/refctl"
	"verif/vf"
)

// Storm: what remote peers send AT THE SAME TIME.  The per-case fuzzing sends one hostile message at a time; a handler
// that is safe for every single message can still bring the accessory down when a peer connects or disconnects while
// another peer's write is being fanned out (the Go runtime ends the whole process on an unsynchronised map access: no
// recover, every controller loses the accessory).  One storm = one child process with a real transport:
//   - 3 verified controllers subscribe and write values in a loop (each write is notified to the others),
//   - 4 peers connect, send the start of a pair-verify or a complete one plus a subscription, and disconnect (FIN / RST),
//   - 2 peers send hostile messages of the case list on fresh connections,
//   - the application changes a value from its own goroutine.
// The storm is bounded by operation counts.  Afterwards a correct pair-verify and GET /accessories on a new connection
// must succeed.  A child that dies with a Go fatal error or panic whose stack is inside hc is a violation.

func stormChild(seedStr, base string) int {
	seed, _ := strconv.ParseInt(seedStr, 10, 64)
	worldExtra = 40
	w, err := newWorld(base, seed)
	if err != nil {
		fmt.Println("STORM-INCONCLUSIVE world:", err)
		return 2
	}
	defer os.RemoveAll(w.dir)
	var sw, br target
	for _, t := range w.targets {
		if t.Name == "switch.on" {
			sw = t
		}
		if t.Name == "bulb.brightness" {
			br = t
		}
	}
	var wg sync.WaitGroup
	var stop int32
	var writes, churns, hostile, problems int64
	note := func(format string, a ...interface{}) {
		if atomic.AddInt64(&problems, 1) <= 5 {
			fmt.Printf("STORM-NOTE "+format+"\n", a...)
		}
	}
	const writers, perWriter = 3, 250
	var writersWG sync.WaitGroup
	for i := 0; i < writers; i++ {
		wg.Add(1)
		writersWG.Add(1)
		go func(i int) {
			defer wg.Done()
			defer writersWG.Done()
			rnd := rand.New(rand.NewSource(seed*31 + int64(i)))
			cs, err := w.reach("verified", nil, rnd)
			if err != nil {
				note("writer %d: pair-verify: %v", i, err)
				return
			}
			defer cs.c.Close()
			cs.c.Timeout = 60 * time.Second
			cs.c.Do("PUT", "/characteristics", refctl.ContentJSON, []byte(fmt.Sprintf(`{"characteristics":[{"aid":%d,"iid":%d,"ev":true},{"aid":%d,"iid":%d,"ev":true}]}`, sw.AID, sw.IID, br.AID, br.IID)))
			for k := 0; k < perWriter; k++ {
				body := fmt.Sprintf(`{"characteristics":[{"aid":%d,"iid":%d,"value":%d}]}`, br.AID, br.IID, (k*7+i*13)%100)
				if k%2 == 0 {
					body = fmt.Sprintf(`{"characteristics":[{"aid":%d,"iid":%d,"value":%v}]}`, sw.AID, sw.IID, (k/2+i)%2 == 0)
				}
				if _, err := cs.c.Do("PUT", "/characteristics", refctl.ContentJSON, []byte(body)); err != nil {
					note("writer %d: PUT %d: %v", i, k, err)
					return
				}
				atomic.AddInt64(&writes, 1)
			}
		}(i)
	}
	for i := 0; i < 4; i++ {
		wg.Add(1)
		go func(i int) {
			defer wg.Done()
			rnd := rand.New(rand.NewSource(seed*37 + int64(i)))
			for atomic.LoadInt32(&stop) == 0 {
				switch rnd.Intn(3) {
				case 0:
					if c, err := w.dial(); err == nil {
						c.Close()
					}
				case 1:
					if cs, err := w.reach("pvM1", nil, rnd); cs != nil {
						_ = err
						if rnd.Intn(2) == 0 {
							cs.c.CloseGraceful()
						} else {
							cs.c.Close()
						}
					}
				default:
					if cs, err := w.reach("verified", nil, rnd); cs != nil {
						if err == nil {
							cs.c.Timeout = 20 * time.Second
							cs.c.Do("PUT", "/characteristics", refctl.ContentJSON, []byte(fmt.Sprintf(`{"characteristics":[{"aid":%d,"iid":%d,"ev":true}]}`, sw.AID, sw.IID)))
						}
						if rnd.Intn(2) == 0 {
							cs.c.CloseGraceful()
						} else {
							cs.c.Close()
						}
					}
				}
				atomic.AddInt64(&churns, 1)
			}
		}(i)
	}
	for i := 0; i < 2; i++ {
		wg.Add(1)
		go func(i int) {
			defer wg.Done()
			rnd := rand.New(rand.NewSource(seed*41 + int64(i)))
			bodies := [][]byte{{}, {0x06, 0x01, 0x01}, {0x06, 0x01, 0x03, 0x05, 0xff}, []byte(`{"characteristics":[{"aid":1,"iid":9,"value":true}]}`), rbytes(rnd, 300)}
			paths := []string{"/pair-setup", "/pair-verify", "/pairings", "/characteristics", "/accessories", "/identify"}
			for atomic.LoadInt32(&stop) == 0 {
				c, err := w.dial()
				if err != nil {
					continue
				}
				c.Timeout = 5 * time.Second
				for k := rnd.Intn(3); k >= 0; k-- {
					m := "POST"
					if rnd.Intn(3) == 0 {
						m = "PUT"
					}
					if _, err := c.Do(m, paths[rnd.Intn(len(paths))], refctl.ContentTLV8, bodies[rnd.Intn(len(bodies))]); err != nil {
						break
					}
				}
				c.Close()
				atomic.AddInt64(&hostile, 1)
			}
		}(i)
	}
	// impatient controllers: a verified controller asks for the whole attribute database and leaves (RST / FIN) while the
	// answer is being written
	var impatient, reads, badReads int64
	var firstBad atomic.Value
	for i := 0; i < 2; i++ {
		wg.Add(1)
		go func(i int) {
			defer wg.Done()
			rnd := rand.New(rand.NewSource(seed*43 + int64(i)))
			for atomic.LoadInt32(&stop) == 0 {
				cs, err := w.reach("verified", nil, rnd)
				if cs == nil {
					continue
				}
				if err == nil {
					cs.c.Send(refctl.BuildRequest("GET", "/accessories", "", nil))
					if rnd.Intn(3) == 0 {
						time.Sleep(time.Duration(rnd.Intn(400)) * time.Microsecond)
					}
					atomic.AddInt64(&impatient, 1)
				}
				if rnd.Intn(2) == 0 {
					cs.c.CloseGraceful()
				} else {
					cs.c.Close()
				}
			}
		}(i)
	}
	// patient controllers: they read the attribute database and the values again and again and check every answer
	for i := 0; i < 2; i++ {
		wg.Add(1)
		go func(i int) {
			defer wg.Done()
			rnd := rand.New(rand.NewSource(seed*47 + int64(i)))
			cs, err := w.reach("verified", nil, rnd)
			if err != nil {
				note("reader %d: pair-verify: %v", i, err)
				return
			}
			defer cs.c.Close()
			cs.c.Timeout = 60 * time.Second
			for k := 0; atomic.LoadInt32(&stop) == 0; k++ {
				m, err := cs.c.Do("GET", "/accessories", "", nil)
				if err != nil {
					note("reader %d: GET /accessories: %v", i, err)
					return
				}
				atomic.AddInt64(&reads, 1)
				if v := w.checkAccessories(m, "storm"); v != nil {
					atomic.AddInt64(&badReads, 1)
					firstBad.CompareAndSwap(nil, v.Sig+" :: "+v.What+" :: body starts "+head(m.Body, 160))
				}
				m, err = cs.c.Do("GET", fmt.Sprintf("/characteristics?id=%d.%d,%d.%d", sw.AID, sw.IID, br.AID, br.IID), "", nil)
				if err != nil {
					note("reader %d: GET /characteristics: %v", i, err)
					return
				}
				atomic.AddInt64(&reads, 1)
				var cl refctl.CharList
				if m.Status != 200 || json.Unmarshal(m.Body, &cl) != nil || len(cl.Characteristics) != 2 {
					atomic.AddInt64(&badReads, 1)
					firstBad.CompareAndSwap(nil, fmt.Sprintf("GET /characteristics answered %d with a body that is not the two requested entries: %s", m.Status, head(m.Body, 160)))
				}
			}
		}(i)
	}
	wg.Add(1)
	go func() {
		defer wg.Done()
		k := 0
		for atomic.LoadInt32(&stop) == 0 {
			k++
			if p, txt := vf.Recover(func() { w.chars[0].UpdateValue(fmt.Sprintf("name-%d", k)) }); p {
				note("application update panicked: %s", firstN([]byte(txt), 200))
			}
			for _, c := range w.chars {
				if c.Type == "8" { // brightness: the application moves it too
					c.UpdateValue(k % 100)
				}
			}
			time.Sleep(200 * time.Microsecond)
		}
	}()
	done := make(chan struct{})
	go func() { writersWG.Wait(); close(done) }()
	select {
	case <-done:
	case <-time.After(120 * time.Second):
		fmt.Println("STORM-INCONCLUSIVE writers did not finish within 120 s")
		atomic.StoreInt32(&stop, 1)
		return 2
	}
	atomic.StoreInt32(&stop, 1)
	wg.Wait()
	_, state, v := w.health(rand.New(rand.NewSource(seed)))
	if v != nil {
		fmt.Printf("STORM-UNHEALTHY %s :: %s\n", v.Sig, v.What)
		return 1
	}
	if b := atomic.LoadInt64(&badReads); b > 0 {
		fmt.Printf("STORM-BADRESPONSE %d of %d answers to a verified controller that kept reading were not well-formed: %v\n", b, reads, firstBad.Load())
		return 1
	}
	fmt.Printf("STORM-OK health=%s writes=%d churn=%d hostile_connections=%d notes=%d impatient=%d reads=%d\n", state, writes, churns, hostile, problems, impatient, reads)
	w.a.Stop()
	return 0
}

func storms(r *vf.Run, bin, runDir string) {
	n := r.Pick(4, 40)
	for i := 0; i < n; i++ {
		r.Eval()
		base := filepath.Join(runDir, fmt.Sprintf("storm-%d", i))
		os.MkdirAll(base, 0o755)
		cmd := exec.Command("timeout", "-s", "KILL", "300", bin, "-storm", fmt.Sprint(r.Seed*1000+int64(i)), base)
		var out bytes.Buffer
		cmd.Stdout, cmd.Stderr = &out, &out
		err := cmd.Run()
		os.RemoveAll(base)
		text := out.String()
		var fatal string
		for _, l := range strings.Split(text, "\n") {
			if strings.HasPrefix(l, "fatal error:") || strings.HasPrefix(l, "panic:") {
				fatal = l
				break
			}
		}
		switch {
		case fatal != "" && strings.Contains(text, "github.com/brutella/hc"):
			site := vf.PanicSite(text, "brutella/hc")
			r.Violation("storm:process-crash:"+site, "the accessory process died while several peers were connecting, disconnecting, writing and sending hostile messages at the same time: "+fatal,
				map[string]interface{}{"storm": i, "seed": r.Seed*1000 + int64(i), "output_tail": lastN(strings.Split(text, "\n"), 60)})
		case strings.Contains(text, "STORM-UNHEALTHY"):
			l := text[strings.Index(text, "STORM-UNHEALTHY"):]
			r.Violation("storm:unable-to-serve-afterwards", "after the storm a correct pair-verify and GET /accessories on a new connection fail: "+firstLineOf(l), map[string]interface{}{"storm": i, "output_tail": lastN(strings.Split(text, "\n"), 40)})
		case strings.Contains(text, "STORM-BADRESPONSE"):
			l := text[strings.Index(text, "STORM-BADRESPONSE"):]
			r.Violation("storm:malformed-answer-to-another-controller", "while other peers connected, left in the middle of answers and sent hostile messages, a verified controller that only read got answers that are not well-formed: "+firstLineOf(l),
				map[string]interface{}{"storm": i, "output_tail": lastN(strings.Split(text, "\n"), 40)})
		case strings.Contains(text, "STORM-OK"):
			r.Count("storms_survived", 1)
			l := text[strings.Index(text, "STORM-OK"):]
			var h string
			var w, c, hs, notes, imp, rds int
			fmt.Sscanf(firstLineOf(l), "STORM-OK health=%s writes=%d churn=%d hostile_connections=%d notes=%d impatient=%d reads=%d", &h, &w, &c, &hs, &notes, &imp, &rds)
			r.Count("storm_controllers_that_left_during_the_answer", imp)
			r.Count("storm_answers_checked_on_reading_controllers", rds)
			r.Count("storm_writes_notified", w)
			r.Count("storm_connections_churned", c)
			r.Count("storm_hostile_connections", hs)
			if notes > 0 {
				r.Count("storm_notes(see child output)", notes)
			}
		default:
			r.Inconclusive(fmt.Sprintf("storm %d: child ended without a verdict (%v): %s", i, err, strings.Join(lastN(strings.Split(text, "\n"), 6), " | ")))
		}
	}
	r.Floor("storms_survived+violations", int(r.Counter("storms_survived"))+r.ViolationCount(), n)
	r.Floor("storm_writes_notified", int(r.Counter("storm_writes_notified"))+1000*r.ViolationCount(), n*500)
	r.Floor("storm_controllers_that_left_during_the_answer", int(r.Counter("storm_controllers_that_left_during_the_answer"))+1000*r.ViolationCount(), n*20)
	r.Floor("storm_answers_checked_on_reading_controllers", int(r.Counter("storm_answers_checked_on_reading_controllers"))+1000*r.ViolationCount(), n*20)
	r.Floor("storm_connections_churned", int(r.Counter("storm_connections_churned"))+1000*r.ViolationCount(), n*100)
}

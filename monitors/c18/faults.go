package main

import (
	"bytes"
	"encoding/json"
	"fmt"
	"os"
	"os/exec"
	"os/signal"
	"path/filepath"
	"strings"
	"syscall"

	"github.com/brutella/hc/db"
	"github.com/brutella/hc/util"

	"verif/vf"
)

// Write faults: the file system refuses part of a write (no space left, quota, file size limit).  The fault is produced
// by the kernel, not by a mock: a child process lowers its RLIMIT_FSIZE to L bytes (SIGXFSZ ignored), so that a write(2)
// beyond offset L of any regular file stops short / fails with EFBIG while open, close and rename keep working.  The
// child performs Set / SaveEntity calls on a prepared directory and reports what each call returned; the parent (no
// limit) reads everything back through fresh objects.
//
// The map property under a failing write: a call that returned nil has set the value (Get returns exactly it); a call
// that returned an error has not replaced the value by anything else than the complete new one (Get returns the previous
// value, or the new one in full).  A truncated, empty or mixed value after either outcome is a violation, and so is an
// entity listing that no longer loads.

type faultOp struct {
	Kind string `json:"kind"` // set | save
	Key  string `json:"key"`
	Val  []byte `json:"val"` // set: the value; save: the public key (private key = the same bytes reversed)
}

type faultPlan struct {
	Dir   string `json:"dir"`
	Limit uint64 `json:"limit"` // RLIMIT_FSIZE of the child; 0: none
	// Inject, when set, names the system calls that fail with EIO in the child for as long as it runs (strace -e inject):
	// "rename,renameat,renameat2" (the new file cannot be moved into place)
	Inject string    `json:"inject,omitempty"`
	Ops    []faultOp `json:"ops"`
}

type faultRes struct {
	Err   string `json:"err,omitempty"`
	Panic string `json:"panic,omitempty"`
}

func reverse(b []byte) []byte {
	o := make([]byte, len(b))
	for i := range b {
		o[len(b)-1-i] = b[i]
	}
	return o
}

func faultChildMain(planFile string) {
	raw, err := os.ReadFile(planFile)
	var plan faultPlan
	if err != nil || json.Unmarshal(raw, &plan) != nil {
		fmt.Fprintln(os.Stderr, "fault child: cannot read plan")
		os.Exit(3)
	}
	st, err := util.NewFileStorage(plan.Dir)
	if err != nil {
		fmt.Fprintln(os.Stderr, "fault child: NewFileStorage:", err)
		os.Exit(3)
	}
	d := db.NewDatabaseWithStorage(st)
	if plan.Limit > 0 {
		signal.Ignore(syscall.SIGXFSZ)
		if err := syscall.Setrlimit(syscall.RLIMIT_FSIZE, &syscall.Rlimit{Cur: plan.Limit, Max: plan.Limit}); err != nil {
			fmt.Fprintln(os.Stderr, "fault child: setrlimit:", err)
			os.Exit(4)
		}
	}
	out := make([]faultRes, len(plan.Ops))
	for i, op := range plan.Ops {
		var e error
		p, txt := vf.Recover(func() {
			if op.Kind == "set" {
				e = st.Set(op.Key, op.Val)
			} else {
				e = d.SaveEntity(db.Entity{Name: op.Key, PublicKey: op.Val, PrivateKey: reverse(op.Val)})
			}
		})
		if p {
			out[i].Panic = txt
		}
		if e != nil {
			out[i].Err = e.Error()
		}
	}
	json.NewEncoder(os.Stdout).Encode(out) // a pipe: not subject to the file size limit
}

func writeFaults(r *vf.Run, base string) {
	n := r.Pick(120, 2000)
	exe, err := os.Executable()
	if err != nil {
		exe = os.Args[0]
	}
	limits := []uint64{1, 16, 100, 512, 1000, 4096}
	for i := 0; i < n; i++ {
		r.Eval()
		rnd := r.RandN("c18-faults", i)
		dir := filepath.Join(base, fmt.Sprintf("fault%d", i))
		L := limits[i%len(limits)]
		inject := ""
		if i%3 == 2 {
			inject = "rename,renameat,renameat2" // (close cannot be injected from the start: the dynamic loader of the child fails on it)
			r.Distinct("fault_injected_syscalls", inject)
		}
		// prepare old values without any limit, through hc
		st, err := util.NewFileStorage(dir)
		if err != nil {
			r.Inconclusive("fault case: NewFileStorage: " + err.Error())
			return
		}
		d := db.NewDatabaseWithStorage(st)
		type slot struct {
			op      faultOp
			old     []byte // nil: absent before
			hadOld  bool
			oldPriv []byte
		}
		var slots []slot
		sizes := []int{0, 1, int(L) - 1, int(L), int(L) + 1, 2 * int(L), int(L) + 37, 5000}
		k := 3 + rnd.Intn(4)
		for j := 0; j < k; j++ {
			kind := "set"
			if rnd.Intn(3) == 0 {
				kind = "save"
			}
			sz := sizes[rnd.Intn(len(sizes))]
			if sz < 0 {
				sz = 0
			}
			if kind == "save" && sz > 2000 {
				sz = 2000
			}
			val := make([]byte, sz)
			rnd.Read(val)
			s := slot{op: faultOp{Kind: kind, Key: fmt.Sprintf("%s%d", map[string]string{"set": "key", "save": "controller-"}[kind], j), Val: val}}
			if rnd.Intn(3) > 0 { // the key / entity exists already
				osz := []int{1, 8, int(L) / 2, int(L) + 5, 300}[rnd.Intn(5)]
				if osz < 1 {
					osz = 1
				}
				s.old = make([]byte, osz)
				rnd.Read(s.old)
				s.hadOld = true
				if kind == "set" {
					err = st.Set(s.op.Key, s.old)
				} else {
					err = d.SaveEntity(db.Entity{Name: s.op.Key, PublicKey: s.old, PrivateKey: reverse(s.old)})
				}
				if err != nil {
					r.Inconclusive("fault case: preparation failed: " + err.Error())
					return
				}
			}
			slots = append(slots, s)
		}
		plan := faultPlan{Dir: dir, Limit: L, Inject: inject}
		if inject != "" {
			plan.Limit = 0
		}
		for _, s := range slots {
			plan.Ops = append(plan.Ops, s.op)
		}
		pf := dir + ".plan.json"
		b, _ := json.Marshal(plan)
		os.WriteFile(pf, b, 0o644)
		cmd := exec.Command(exe, "-fault-child", pf)
		if inject != "" {
			cmd = exec.Command("strace", "-f", "-qq", "-o", "/dev/null", "-e", "trace="+inject, "-e", "inject="+inject+":error=EIO", exe, "-fault-child", pf)
			r.Count("fault_cases_with_failing_"+strings.Split(inject, ",")[0], 1)
		}
		var stdout, stderr bytes.Buffer
		cmd.Stdout, cmd.Stderr = &stdout, &stderr
		runErr := cmd.Run()
		var res []faultRes
		if runErr != nil || json.Unmarshal(stdout.Bytes(), &res) != nil || len(res) != len(slots) {
			txt := stderr.String()
			if bytes.Contains(stderr.Bytes(), []byte("brutella/hc")) && (bytes.Contains(stderr.Bytes(), []byte("panic:")) || bytes.Contains(stderr.Bytes(), []byte("fatal error:"))) {
				r.Violation("fault:process-crash", "the process died inside hc when a write was refused by the file system: "+txt[:min(len(txt), 600)], plan)
			} else {
				r.Inconclusive(fmt.Sprintf("fault case %d: child failed: %v %s", i, runErr, txt[:min(len(txt), 300)]))
			}
			os.RemoveAll(dir)
			os.Remove(pf)
			continue
		}
		// read back with fresh objects and no limit
		st2, err := util.NewFileStorage(dir)
		if err != nil {
			r.Inconclusive("fault case: reopen: " + err.Error())
			return
		}
		d2 := db.NewDatabaseWithStorage(st2)
		refusedHere := 0
		for j, s := range slots {
			wit := map[string]interface{}{"fault": faultName(L, inject), "operation": fmt.Sprintf("%s(%q, %d bytes)", s.op.Kind, s.op.Key, len(s.op.Val)), "returned_error": res[j].Err,
				"had_previous_value_of_bytes": len(s.old), "previous_value_existed": s.hadOld, "position_in_case": j}
			if res[j].Panic != "" {
				r.Violation("fault:panic:"+s.op.Kind, "the call panicked when the file system refused the write: "+res[j].Panic[:min(len(res[j].Panic), 300)], wit)
				continue
			}
			var got []byte
			present := false
			if s.op.Kind == "set" {
				if v, err := st2.Get(s.op.Key); err == nil {
					got, present = v, true
				}
			} else {
				e, err := d2.EntityWithName(s.op.Key)
				if err == nil {
					got, present = e.PublicKey, true
					if !bytes.Equal(e.PrivateKey, reverse(e.PublicKey)) || e.Name != s.op.Key {
						r.Violation("fault:entity-mixed", fmt.Sprintf("after a refused write the entity %q loads with fields that do not belong together", s.op.Key), wit)
						continue
					}
				} else if _, gerr := st2.Get(hexKey(s.op.Key)); gerr == nil {
					// the entity's file is there but does not load
					r.Violation("fault:"+classOutcome(res[j].Err)+":entity-unloadable", fmt.Sprintf("after the write the stored entity %q no longer loads: %v", s.op.Key, err), wit)
					continue
				}
			}
			wit["read_back_bytes"], wit["read_back_present"] = len(got), present
			isNew := present && bytes.Equal(got, s.op.Val)
			isOld := (present && s.hadOld && bytes.Equal(got, s.old)) || (!present && !s.hadOld)
			if res[j].Err == "" {
				r.Count("fault_calls_that_returned_nil", 1)
				if !isNew {
					r.Violation("fault:returned-nil:value-not-stored:"+s.op.Kind, fmt.Sprintf("%s of %d bytes returned nil under %s, reading back gives %s", s.op.Kind, len(s.op.Val), faultName(L, inject), describeGot(present, got, s.op.Val)), wit)
				}
				continue
			}
			refusedHere++
			r.Count("fault_calls_that_returned_an_error", 1)
			if !isNew && !isOld {
				r.Violation("fault:returned-error:value-damaged:"+s.op.Kind, fmt.Sprintf("%s of %d bytes returned an error under %s, reading back gives %s, which is neither the previous value nor the complete new one", s.op.Kind, len(s.op.Val), faultName(L, inject), describeGot(present, got, s.op.Val)), wit)
			}
		}
		if _, err := d2.Entities(); err != nil {
			r.Violation("fault:entities-unloadable", "after refused writes Entities() fails: "+err.Error(), plan)
		}
		if refusedHere > 0 {
			r.Count("fault_cases_with_a_refused_write", 1)
		}
		r.Count("fault_cases", 1)
		os.RemoveAll(dir)
		os.Remove(pf)
	}
}

func classOutcome(err string) string {
	if err == "" {
		return "returned-nil"
	}
	return "returned-error"
}

func hexKey(name string) string { return fmt.Sprintf("%x.entity", name) }

func describeGot(present bool, got, want []byte) string {
	if !present {
		return "nothing (the key is absent)"
	}
	if len(got) < len(want) && bytes.Equal(got, want[:len(got)]) {
		return fmt.Sprintf("%d bytes: a truncated copy of the new value", len(got))
	}
	return fmt.Sprintf("%d bytes", len(got))
}

func faultName(limit uint64, inject string) string {
	if inject != "" {
		return "the system calls " + inject + " failing with EIO"
	}
	return fmt.Sprintf("a file size limit of %d bytes", limit)
}

package main

import (
	"bytes"
	"encoding/binary"
	"fmt"
	"os"
	"path/filepath"
	"sync"
	"sync/atomic"
	"time"

	"github.com/brutella/hc/db"
	"github.com/brutella/hc/util"

	"verif/vf"
)

// Readers during writes: "a get returns exactly the last value set" while another goroutine (another connection's
// handler) is setting the key.  One writer overwrites one key with values of alternating lengths (7, 4096, 300, 33
// bytes ...), each value recognisable and self-checking (a counter, the length, a fill derived from the counter); two
// readers get the key all the time, one of them through a store it opens anew every few reads.  Every value read
// must be one of the values written IN FULL, and not older than the last write that had returned when the read began.
// The same through the database (SaveEntity / EntityWithName).

func mkValue(i uint64) []byte {
	n := []int{7, 4096, 300, 33, 1024, 9}[i%6]
	if n < 9 {
		n = 9
	}
	b := make([]byte, n)
	binary.BigEndian.PutUint64(b, i)
	for k := 8; k < n; k++ {
		b[k] = byte(i*31 + uint64(k)*7)
	}
	return b
}

func checkValue(b []byte) (uint64, bool) {
	if len(b) < 9 {
		return 0, false
	}
	i := binary.BigEndian.Uint64(b)
	return i, bytes.Equal(b, mkValue(i))
}

func readersDuringWrites(r *vf.Run, base string) {
	for _, mode := range []string{"storage", "database"} {
		dir := filepath.Join(base, "conc-"+mode)
		os.MkdirAll(dir, 0o755)
		st, err := util.NewFileStorage(dir)
		if err != nil {
			r.Inconclusive("readers during writes: " + err.Error())
			return
		}
		d := db.NewDatabaseWithStorage(st)
		set := func(i uint64) error {
			if mode == "storage" {
				return st.Set("contended", mkValue(i))
			}
			return d.SaveEntity(db.Entity{Name: "contended", PublicKey: mkValue(i), PrivateKey: nil})
		}
		if err := set(1); err != nil {
			r.Inconclusive("readers during writes: first set: " + err.Error())
			return
		}
		writes := uint64(r.Pick(4000, 60000))
		var completed uint64 = 1
		var stop int32
		var reads, bad int64
		var first atomic.Value
		var wg sync.WaitGroup
		for k := 0; k < 2; k++ {
			wg.Add(1)
			go func(k int) {
				defer wg.Done()
				rs, rd := st, d
				for n := 0; atomic.LoadInt32(&stop) == 0; n++ {
					if k == 1 && n%16 == 0 {
						if s2, err := util.NewFileStorage(dir); err == nil {
							rs, rd = s2, db.NewDatabaseWithStorage(s2)
						}
					}
					floor := atomic.LoadUint64(&completed)
					var got []byte
					var err error
					if mode == "storage" {
						got, err = rs.Get("contended")
					} else {
						var e db.Entity
						e, err = rd.EntityWithName("contended")
						got = e.PublicKey
					}
					atomic.AddInt64(&reads, 1)
					i, ok := checkValue(got)
					switch {
					case err != nil:
						atomic.AddInt64(&bad, 1)
						first.CompareAndSwap(nil, fmt.Sprintf("error:a read of the key, which exists throughout, fails while another goroutine overwrites it: %v", err))
					case !ok:
						atomic.AddInt64(&bad, 1)
						first.CompareAndSwap(nil, fmt.Sprintf("mixed-or-truncated:a read returns %d bytes (starting %x) that are none of the values ever set in full", len(got), got[:min(len(got), 12)]))
					case i < floor:
						atomic.AddInt64(&bad, 1)
						first.CompareAndSwap(nil, fmt.Sprintf("stale:a read that began after write %d had returned gives the value of write %d", floor, i))
					}
				}
			}(k)
		}
		deadline := time.Now().Add(120 * time.Second)
		var werr error
		for i := uint64(2); i <= writes && time.Now().Before(deadline); i++ {
			if werr = set(i); werr != nil {
				break
			}
			atomic.StoreUint64(&completed, i)
		}
		atomic.StoreInt32(&stop, 1)
		wg.Wait()
		r.Evals(int(reads))
		r.Count("reads_during_writes_"+mode, int(reads))
		r.Count("writes_under_readers_"+mode, int(atomic.LoadUint64(&completed)))
		if werr != nil {
			r.Violation("concurrent:"+mode+":set-fails", "a Set / SaveEntity fails while other goroutines read the key: "+werr.Error(), nil)
		}
		if b := atomic.LoadInt64(&bad); b > 0 {
			f, _ := first.Load().(string)
			kind, what := f, f
			if j := bytes.IndexByte([]byte(f), ':'); j > 0 {
				kind, what = f[:j], f[j+1:]
			}
			r.Violation("concurrent:"+mode+":read-"+kind, fmt.Sprintf("%d of %d reads made while another goroutine overwrote the key were wrong; the first: %s", b, reads, what), map[string]interface{}{"mode": mode, "writes": atomic.LoadUint64(&completed), "reads": reads})
		}
		os.RemoveAll(dir)
	}
	r.Floor("reads_during_writes_storage", int(r.Counter("reads_during_writes_storage"))+100000*r.ViolationCount(), 2000)
	r.Floor("reads_during_writes_database", int(r.Counter("reads_during_writes_database"))+100000*r.ViolationCount(), 2000)
}

// parallelReaders: several goroutines read DIFFERENT keys through ONE storage / database object at the same time (the
// pair-verify handlers of several connections look up different controllers through the accessory's one database).
// Nobody writes.  Every read must return exactly the value of the key it asked for: whatever the object keeps between
// calls (a buffer, a decoded record) must not travel from one call into another that runs at the same time.
func parallelReaders(r *vf.Run, base string) {
	dir := filepath.Join(base, "parallel-readers")
	os.MkdirAll(dir, 0o755)
	defer os.RemoveAll(dir)
	st, err := util.NewFileStorage(dir)
	if err != nil {
		r.Inconclusive("parallel readers: " + err.Error())
		return
	}
	d := db.NewDatabaseWithStorage(st)
	const keys = 8
	sizes := []int{512, 700, 1024, 31, 32, 33, 4096, 5000}
	vals := make([][]byte, keys)
	for k := 0; k < keys; k++ {
		vals[k] = bytes.Repeat([]byte{byte('A' + k)}, sizes[k])
		if err := st.Set(fmt.Sprintf("key%d", k), vals[k]); err != nil {
			r.Inconclusive("parallel readers: set: " + err.Error())
			return
		}
		if err := d.SaveEntity(db.Entity{Name: fmt.Sprintf("controller %d", k), PublicKey: vals[k], PrivateKey: []byte{byte(k)}}); err != nil {
			r.Inconclusive("parallel readers: save: " + err.Error())
			return
		}
	}
	per := r.Pick(4000, 60000)
	var reads, bad int64
	var first atomic.Value
	var wg sync.WaitGroup
	for k := 0; k < keys; k++ {
		wg.Add(1)
		go func(k int) {
			defer wg.Done()
			for n := 0; n < per && atomic.LoadInt64(&bad) < 20; n++ {
				var got []byte
				var err error
				what := "Get"
				if n%3 == 2 {
					what = "EntityWithName"
					var e db.Entity
					e, err = d.EntityWithName(fmt.Sprintf("controller %d", k))
					got = e.PublicKey
					if err == nil && (len(e.PrivateKey) != 1 || e.PrivateKey[0] != byte(k)) {
						got = nil
					}
				} else {
					got, err = st.Get(fmt.Sprintf("key%d", k))
				}
				atomic.AddInt64(&reads, 1)
				if err != nil || !bytes.Equal(got, vals[k]) {
					atomic.AddInt64(&bad, 1)
					first.CompareAndSwap(nil, fmt.Sprintf("%s of key %d (%d bytes of %q) returned %d bytes starting %q, error %v, while %d other goroutines read other keys through the same object", what, k, len(vals[k]), vals[k][:1], len(got), got[:min(len(got), 8)], err, keys-1))
				}
			}
		}(k)
	}
	wg.Wait()
	r.Evals(int(reads))
	r.Count("parallel_reads_of_different_keys_through_one_object", int(reads))
	if b := atomic.LoadInt64(&bad); b > 0 {
		f, _ := first.Load().(string)
		r.Violation("concurrent:parallel-readers:wrong-value", fmt.Sprintf("%d of %d reads were wrong although nobody writes; the first: %s", b, reads, f), map[string]interface{}{"reads": reads, "wrong": b})
	}
	r.Floor("parallel_reads_of_different_keys_through_one_object", int(reads)+1000000*r.ViolationCount(), keys*per*9/10)
}

package main

import (
	"bytes"
	"encoding/binary"
	"fmt"
	"os"
	"path/filepath"
	"sync"
	"sync/atomic"
	"time"

	"github.com/brutella/hc/db"
	"github.com/brutella/hc/util"

	"verif/vf"
)

// Readers during writes: "a get returns exactly the last value set" while another goroutine (another connection's
// handler) is setting the key.  One writer overwrites one key with values of alternating lengths (7, 4096, 300, 33
// bytes ...), each value recognisable and self-checking (a counter, the length, a fill derived from the counter); two
// readers get the key all the time, one of them through a store it opens anew every few reads.  Every value read
// must be one of the values written IN FULL, and not older than the last write that had returned when the read began.
// The same through the database (SaveEntity / EntityWithName).

func mkValue(i uint64) []byte {
	n := []int{7, 4096, 300, 33, 1024, 9}[i%6]
	if n < 9 {
		n = 9
	}
	b := make([]byte, n)
	binary.BigEndian.PutUint64(b, i)
	for k := 8; k < n; k++ {
		b[k] = byte(i*31 + uint64(k)*7)
	}
	return b
}

func checkValue(b []byte) (uint64, bool) {
	if len(b) < 9 {
		return 0, false
	}
	i := binary.BigEndian.Uint64(b)
	return i, bytes.Equal(b, mkValue(i))
}

func readersDuringWrites(r *vf.Run, base string) {
	for _, mode := range []string{"storage", "database"} {
		dir := filepath.Join(base, "conc-"+mode)
		os.MkdirAll(dir, 0o755)
		st, err := util.NewFileStorage(dir)
		if err != nil {
			r.Inconclusive("readers during writes: " + err.Error())
			return
		}
		d := db.NewDatabaseWithStorage(st)
		set := func(i uint64) error {
			if mode == "storage" {
				return st.Set("contended", mkValue(i))
			}
			return d.SaveEntity(db.Entity{Name: "contended", PublicKey: mkValue(i), PrivateKey: nil})
		}
		if err := set(1); err != nil {
			r.Inconclusive("readers during writes: first set: " + err.Error())
			return
		}
		writes := uint64(r.Pick(4000, 60000))
		var completed uint64 = 1
		var stop int32
		var reads, bad int64
		var first atomic.Value
		var wg sync.WaitGroup
		for k := 0; k < 2; k++ {
			wg.Add(1)
			go func(k int) {
				defer wg.Done()
				rs, rd := st, d
				for n := 0; atomic.LoadInt32(&stop) == 0; n++ {
					if k == 1 && n%16 == 0 {
						if s2, err := util.NewFileStorage(dir); err == nil {
							rs, rd = s2, db.NewDatabaseWithStorage(s2)
						}
					}
					floor := atomic.LoadUint64(&completed)
					var got []byte
					var err error
					if mode == "storage" {
						got, err = rs.Get("contended")
					} else {
						var e db.Entity
						e, err = rd.EntityWithName("contended")
						got = e.PublicKey
					}
					atomic.AddInt64(&reads, 1)
					i, ok := checkValue(got)
					switch {
					case err != nil:
						atomic.AddInt64(&bad, 1)
						first.CompareAndSwap(nil, fmt.Sprintf("error:a read of the key, which exists throughout, fails while another goroutine overwrites it: %v", err))
					case !ok:
						atomic.AddInt64(&bad, 1)
						first.CompareAndSwap(nil, fmt.Sprintf("mixed-or-truncated:a read returns %d bytes (starting %x) that are none of the values ever set in full", len(got), got[:min(len(got), 12)]))
					case i < floor:
						atomic.AddInt64(&bad, 1)
						first.CompareAndSwap(nil, fmt.Sprintf("stale:a read that began after write %d had returned gives the value of write %d", floor, i))
					}
				}
			}(k)
		}
		deadline := time.Now().Add(120 * time.Second)
		var werr error
		for i := uint64(2); i <= writes && time.Now().Before(deadline); i++ {
			if werr = set(i); werr != nil {
				break
			}
			atomic.StoreUint64(&completed, i)
		}
		atomic.StoreInt32(&stop, 1)
		wg.Wait()
		r.Evals(int(reads))
		r.Count("reads_during_writes_"+mode, int(reads))
		r.Count("writes_under_readers_"+mode, int(atomic.LoadUint64(&completed)))
		if werr != nil {
			r.Violation("concurrent:"+mode+":set-fails", "a Set / SaveEntity fails while other goroutines read the key: "+werr.Error(), nil)
		}
		if b := atomic.LoadInt64(&bad); b > 0 {
			f, _ := first.Load().(string)
			kind, what := f, f
			if j := bytes.IndexByte([]byte(f), ':'); j > 0 {
				kind, what = f[:j], f[j+1:]
			}
			r.Violation("concurrent:"+mode+":read-"+kind, fmt.Sprintf("%d of %d reads made while another goroutine overwrote the key were wrong; the first: %s", b, reads, what), map[string]interface{}{"mode": mode, "writes": atomic.LoadUint64(&completed), "reads": reads})
		}
		os.RemoveAll(dir)
	}
	r.Floor("reads_during_writes_storage", int(r.Counter("reads_during_writes_storage"))+100000*r.ViolationCount(), 2000)
	r.Floor("reads_during_writes_database", int(r.Counter("reads_during_writes_database"))+100000*r.ViolationCount(), 2000)
}

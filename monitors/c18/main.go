// C18 — the key-value store and the pairing database behave like a map that survives restarts.
//
// Model-based: generated histories of at most 40 operations over at most 5 keys
// (Set / Get / Delete / KeysWithSuffix on util.Storage, SaveEntity / EntityWithName /
// DeleteEntity / Entities on db.Database), values of 0..4096 bytes biased to overwriting with
// shorter and longer values, interleaved with re-opening the store on the same directory
// (a new util.NewFileStorage / db.NewDatabaseWithStorage object; for a part of the histories a
// real child process per segment: this binary re-executed with -child).
//
// Oracle (independent of hc): a Go map.  Get = last value set, an error after a delete or when
// never set; KeysWithSuffix / Entities = exactly the live entries (compared as sets); entities
// come back field by field (nil and empty slices are equal).
//
// A violation's signature is  <store>:<history shape of the key>:<symptom>  or, when the entity
// name is what matters,  db:name-<class>:...  .  The first witness of every signature is shrunk
// (operations removed, values and names shortened) by replaying candidates on fresh directories.
package main

import (
	"bufio"
	"bytes"
	"encoding/hex"
	"encoding/json"
	"errors"
	"fmt"
	"io"
	"math/rand"
	"os"
	"os/exec"
	"path/filepath"
	"sort"
	"strconv"
	"strings"
	"time"
	"unicode/utf8"

	"github.com/brutella/hc/db"
	"github.com/brutella/hc/util"

	"verif/vf"
)

// ---------------------------------------------------------------------------------------------
// histories

// Op is one operation of a history.  Keys and names are bytes (entity names are arbitrary).
type Op struct {
	Kind   string `json:"op"` // set get del keys | save ent delent ents | reopen
	Key    []byte `json:"key,omitempty"`
	Val    []byte `json:"val"`  // set
	Pub    []byte `json:"pub"`  // save (nil and empty are different inputs)
	Priv   []byte `json:"priv"` // save
	Suffix string `json:"suffix,omitempty"`
	Via    string `json:"via,omitempty"` // reopen: "storage" (NewFileStorage + NewDatabaseWithStorage) | "database" (NewDatabase, separate NewFileStorage)
}

type History struct {
	Mode string `json:"mode"` // storage | db | mixed
	Exec string `json:"exec"` // inproc | child
	Ops  []Op   `json:"ops"`
}

type EntityR struct {
	Name []byte `json:"name"`
	Pub  []byte `json:"pub"`
	Priv []byte `json:"priv"`
}

// Result is what the API returned for one Op.
type Result struct {
	Failed  bool      `json:"failed,omitempty"`   // the call returned a non-nil error
	Err     string    `json:"err,omitempty"`      // its text
	ErrKind string    `json:"err_kind,omitempty"` // not-found | unparsable | error (classification only)
	Panic   string    `json:"panic,omitempty"`
	Val     []byte    `json:"val,omitempty"`
	Keys    [][]byte  `json:"keys,omitempty"`
	Ent     *EntityR  `json:"ent,omitempty"`
	Ents    []EntityR `json:"ents,omitempty"`
	Broken  string    `json:"broken,omitempty"` // harness problem (child died, ...)
	// Changed: an EARLIER Get result that the caller still holds is no longer what it was when it was returned
	Changed string `json:"changed,omitempty"`
}

// ---------------------------------------------------------------------------------------------
// executors: the code under test is only touched here

type executor interface {
	Reopen(via string) Result
	Do(op Op) Result
	Close()
}

func errKind(err error) string {
	if err == nil {
		return ""
	}
	if errors.Is(err, os.ErrNotExist) {
		return "not-found"
	}
	var se *json.SyntaxError
	var te *json.UnmarshalTypeError
	if errors.As(err, &se) || errors.As(err, &te) {
		return "unparsable"
	}
	return "error"
}

type local struct {
	held []heldRead
	nget int
	dir  string
	st   util.Storage
	d    db.Database
}

func (l *local) Reopen(via string) (res Result) {
	p, txt := vf.Recover(func() {
		var err error
		if via == "database" {
			l.d, err = db.NewDatabase(l.dir)
			if err == nil {
				l.st, err = util.NewFileStorage(l.dir)
			}
		} else {
			l.st, err = util.NewFileStorage(l.dir)
			if err == nil {
				l.d = db.NewDatabaseWithStorage(l.st)
			}
		}
		if err != nil {
			res.Failed, res.Err, res.ErrKind = true, err.Error(), errKind(err)
		}
	})
	if p {
		res.Panic = txt
	}
	return
}

func (l *local) Close() {}

var oddDirNames = []string{"Lamp [1]", "a*b", "what?", "back\\slash", "Küche 居間", "{curly}", "dot.dir", " leading blank", "per%cent", "[", "]x[", "tilde~1"}

func scribble(b []byte) {
	for i := range b {
		b[i] ^= 0xA5
	}
}

func cloneBytes(b []byte) []byte {
	if b == nil {
		return nil
	}
	return append([]byte{}, b...)
}

// held: results of earlier Get calls the caller keeps (the slice exactly as returned, and what it contained then)
type heldRead struct {
	key       string
	got, copy []byte
	age       int
}

func (l *local) Do(op Op) (res Result) {
	defer func() {
		// whatever the operation was: what earlier reads returned is the caller's and must not have changed
		keep := l.held[:0]
		for _, h := range l.held {
			if !bytes.Equal(h.got, h.copy) && res.Changed == "" {
				res.Changed = fmt.Sprintf("the %d bytes returned by Get(%q) %d operations ago have changed under the caller while it performed %s", len(h.copy), h.key, h.age+1, op.Kind)
				continue
			}
			if h.age++; h.age < 3 {
				keep = append(keep, h)
			}
		}
		l.held = keep
	}()
	fail := func(err error) {
		if err != nil {
			res.Failed, res.Err, res.ErrKind = true, err.Error(), errKind(err)
		}
	}
	p, txt := vf.Recover(func() {
		switch op.Kind {
		case "set":
			// the caller owns its buffers: the value is handed over as a private copy that is overwritten as soon
			// as Set has returned, and what Get returns is copied out and then scribbled over
			arg := append([]byte{}, op.Val...)
			fail(l.st.Set(string(op.Key), arg))
			scribble(arg)
		case "get":
			v, err := l.st.Get(string(op.Key))
			fail(err)
			if err == nil {
				res.Val = append([]byte{}, v...)
				if v == nil {
					res.Val = nil
				}
				if l.nget++; l.nget%2 == 0 {
					scribble(v) // what was returned is the caller's to overwrite
				} else if len(v) > 0 {
					l.held = append(l.held, heldRead{key: string(op.Key), got: v, copy: res.Val}) // or to keep
				}
			}
		case "del":
			fail(l.st.Delete(string(op.Key)))
		case "keys":
			ks, err := l.st.KeysWithSuffix(op.Suffix)
			fail(err)
			for _, k := range ks {
				res.Keys = append(res.Keys, []byte(k))
			}
		case "save":
			pub, priv := cloneBytes(op.Pub), cloneBytes(op.Priv)
			fail(l.d.SaveEntity(db.Entity{Name: string(op.Key), PublicKey: pub, PrivateKey: priv}))
			scribble(pub)
			scribble(priv)
		case "ent":
			e, err := l.d.EntityWithName(string(op.Key))
			fail(err)
			if err == nil {
				res.Ent = &EntityR{[]byte(e.Name), cloneBytes(e.PublicKey), cloneBytes(e.PrivateKey)}
				scribble(e.PublicKey)
				scribble(e.PrivateKey)
			}
		case "delent":
			l.d.DeleteEntity(db.Entity{Name: string(op.Key)})
		case "ents":
			es, err := l.d.Entities()
			fail(err)
			for _, e := range es {
				res.Ents = append(res.Ents, EntityR{[]byte(e.Name), cloneBytes(e.PublicKey), cloneBytes(e.PrivateKey)})
				scribble(e.PublicKey)
				scribble(e.PrivateKey)
			}
		default:
			res.Broken = "unknown op " + op.Kind
		}
	})
	if p {
		res.Panic = txt
	}
	return
}

// childMain is the -child mode: open the directory, then answer one JSON Op per line.
func childMain(dir, via string) {
	l := &local{dir: dir}
	out := json.NewEncoder(os.Stdout)
	out.Encode(l.Reopen(via))
	in := bufio.NewReaderSize(os.Stdin, 1<<20)
	for {
		line, err := in.ReadBytes('\n')
		if len(bytes.TrimSpace(line)) > 0 {
			var op Op
			if e := json.Unmarshal(line, &op); e != nil {
				out.Encode(Result{Broken: "child cannot decode op: " + e.Error()})
			} else {
				out.Encode(l.Do(op))
			}
		}
		if err != nil {
			return
		}
	}
}

type remote struct {
	dir      string
	segments *int
	cmd      *exec.Cmd
	in       io.WriteCloser
	enc      *json.Encoder
	dec      *json.Decoder
	stderr   *bytes.Buffer
}

func (c *remote) stop() {
	if c.cmd == nil {
		return
	}
	c.in.Close()
	c.cmd.Wait()
	c.cmd = nil
}

func (c *remote) Close() { c.stop() }

func (c *remote) Reopen(via string) Result {
	c.stop()
	exe, err := os.Executable()
	if err != nil {
		exe = os.Args[0]
	}
	cmd := exec.Command(exe, "-child", c.dir, via)
	c.stderr = &bytes.Buffer{}
	cmd.Stderr = c.stderr
	in, err1 := cmd.StdinPipe()
	out, err2 := cmd.StdoutPipe()
	if err1 != nil || err2 != nil {
		return Result{Broken: fmt.Sprintf("pipes: %v %v", err1, err2)}
	}
	if err := cmd.Start(); err != nil {
		return Result{Broken: "cannot start child: " + err.Error()}
	}
	c.cmd, c.in, c.enc, c.dec = cmd, in, json.NewEncoder(in), json.NewDecoder(out)
	if c.segments != nil {
		*c.segments++
	}
	return c.read()
}

func (c *remote) read() Result {
	var res Result
	if err := c.dec.Decode(&res); err != nil {
		c.in.Close()
		c.cmd.Wait()
		c.cmd = nil
		return Result{Broken: "child process gave no result: " + err.Error() + " stderr: " + c.stderr.String()}
	}
	return res
}

func (c *remote) Do(op Op) Result {
	if c.cmd == nil {
		return Result{Broken: "no child process"}
	}
	if err := c.enc.Encode(op); err != nil {
		return Result{Broken: "cannot send op to child: " + err.Error()}
	}
	return c.read()
}

// ---------------------------------------------------------------------------------------------
// the model and the oracle

type kstate struct {
	everSet     bool
	live        bool
	val         []byte // storage value
	ent         EntityR
	size        int // len(val) or the encoded size estimate of the entity
	lifeMax     int // largest size since the key was (re)created
	overwrites  int // writes onto a live key in this life
	lastEqual   bool
	afterDelete bool
	reopened    bool // a reopen happened since the last write
	writes      int
}

// shape names the history of one key as far as it matters for reading it back.
func (k *kstate) shape() string {
	switch {
	case k == nil || !k.everSet:
		return "never-set"
	case !k.live:
		return "deleted"
	case k.size < k.lifeMax:
		return "overwrite-shorter" // the key has held a longer value since it was created
	case k.overwrites > 0 && k.lastEqual:
		return "overwrite-equal"
	case k.overwrites > 0:
		return "overwrite-longer"
	case k.afterDelete:
		return "set-after-delete"
	}
	return "fresh"
}

func (k *kstate) write(size int) {
	if k.live {
		k.overwrites++
		k.lastEqual = size == k.size
		if size > k.lifeMax {
			k.lifeMax = size
		}
	} else {
		k.afterDelete = k.everSet
		k.overwrites = 0
		k.lastEqual = false
		k.lifeMax = size
	}
	k.everSet, k.live, k.size, k.reopened = true, true, size, false
	k.writes++
}

func (k *kstate) remove() {
	k.live = false
	k.reopened = false
}

// encSize orders entity encodings by size (base64 of the two keys; the name is constant per key).
func encSize(b []byte) int {
	if b == nil {
		return 4
	}
	return 2 + (len(b)+2)/3*4
}

func canon(key []byte) string { return strings.Replace(string(key), ":", "", -1) }

func nameClass(n []byte) string {
	s := string(n)
	switch {
	case len(n) == 0:
		return "empty"
	case !utf8.Valid(n):
		return "not-utf8"
	case bytes.IndexByte(n, 0) >= 0:
		return "nul"
	case strings.Contains(s, "/"):
		return "slash"
	case s == "." || strings.Contains(s, ".."):
		return "dots"
	}
	ctrl, high := false, false
	for _, c := range n {
		if c < 0x20 || c == 0x7f {
			ctrl = true
		}
		if c >= 0x80 {
			high = true
		}
	}
	switch {
	case ctrl:
		return "control"
	case high:
		return "utf8-multibyte"
	case strings.ContainsAny(s, "\"\\<>&'"):
		return "json-special"
	case strings.Contains(s, ":"):
		return "colon"
	case len(n) >= 64:
		return "long"
	}
	return "plain"
}

func lenClass(n int) string {
	switch {
	case n == 0:
		return "0"
	case n < 32:
		return "1..31"
	case n == 32:
		return "32"
	case n <= 64:
		return "33..64"
	case n < 1024:
		return "65..1023"
	case n < 4096:
		return "1024..4095"
	}
	return "4096"
}

type finding struct {
	Sig     string // given literally for findings that are not about one key; otherwise derived (see signature)
	What    string
	OpIndex int
	Soft    bool // the store is still in step with the model: the history goes on
	Detail  map[string]interface{}
	// findings about one key / entity
	Store   string // storage | db
	Class   string // class of the entity name
	Shape   string // history shape of the key when it failed
	Symptom string
	Key     []byte
}

// rawSig is the most specific signature; main generalises it with control runs.
func (f *finding) rawSig(withClass, withShape bool) string {
	s := f.Store
	if withClass && f.Class != "" {
		s += ":name-" + f.Class
	}
	if withShape {
		s += ":" + f.Shape
	}
	return s + ":" + f.Symptom
}

type stats interface {
	Count(string, int)
	Distinct(string, string)
	Nontrivial(string)
}

type checker struct {
	h        *History
	ex       executor
	st       stats
	tag      string
	keys     map[string]*kstate // storage keys by canonical name
	ents     map[string]*kstate // entities by name
	findings []finding
	stopped  bool
	soft     map[string]bool
	broken   string
}

func (c *checker) add(f finding) {
	if f.Sig == "" {
		f.Sig = f.rawSig(true, true)
	}
	if f.Soft { // once per history
		key := f.Sig
		if f.Store != "" {
			key = f.rawSig(true, false)
		}
		if c.soft[key] {
			return
		}
		c.soft[key] = true
	} else {
		c.stopped = true
	}
	c.findings = append(c.findings, f)
}

func (c *checker) count(k string, n int) {
	if c.st != nil {
		c.st.Count(k, n)
	}
}
func (c *checker) distinct(class, k string) {
	if c.st != nil {
		c.st.Distinct(class, k)
	}
}

func q(b []byte) string { return strconv.QuoteToASCII(string(b)) }

func short(b []byte) string {
	if len(b) > 24 {
		return fmt.Sprintf("%x...(%d bytes)", b[:24], len(b))
	}
	return fmt.Sprintf("%x", b)
}

func (c *checker) panicked(i int, store, call string, res Result) bool {
	if res.Panic == "" {
		return false
	}
	c.add(finding{Sig: store + ":" + call + ":panic:" + vf.PanicSite(res.Panic, "brutella/hc"), OpIndex: i,
		What: call + " panicked: " + strings.SplitN(res.Panic, "\n", 2)[0], Detail: map[string]interface{}{"stack": res.Panic}})
	return true
}

func (c *checker) readStats(i int, store string, k *kstate, class string) {
	sh := k.shape()
	c.distinct("shape_at_read", store+":"+sh)
	c.count("reads_"+store+"_"+sh, 1)
	if k != nil && k.reopened {
		c.count("reads_after_reopen", 1)
	}
	if k != nil && (k.writes >= 2 || k.reopened) && c.st != nil {
		c.st.Nontrivial(c.tag + "/" + strconv.Itoa(i))
	}
}

// ---- storage

func (c *checker) checkGet(i int, key []byte, res Result) {
	if c.panicked(i, "storage", "Get", res) {
		return
	}
	k := c.keys[canon(key)]
	sh := k.shape()
	c.readStats(i, "storage", k, "")
	c.count("gets_checked", 1)
	det := map[string]interface{}{"key": q(key), "key_shape": sh, "read_after_reopen": k != nil && k.reopened}
	if k == nil || !k.live {
		if !res.Failed {
			c.add(finding{Store: "storage", Shape: sh, Symptom: "found", Key: key, OpIndex: i, Detail: det,
				What: fmt.Sprintf("Get(%s) of a %s key returns a value (%d bytes) instead of an error", q(key), sh, len(res.Val))})
		}
		return
	}
	det["expected_len"], det["expected"] = len(k.val), vf.Hex(k.val)
	if res.Failed {
		c.add(finding{Store: "storage", Shape: sh, Symptom: "get-" + res.ErrKind, Key: key, OpIndex: i, Detail: det,
			What: fmt.Sprintf("Get(%s) of a live key (%s, %d bytes) returns the error %q", q(key), sh, len(k.val), res.Err)})
		return
	}
	if bytes.Equal(res.Val, k.val) {
		return
	}
	det["got_len"], det["got"] = len(res.Val), vf.Hex(res.Val)
	sym := "wrong-value"
	switch {
	case len(res.Val) > len(k.val) && bytes.HasPrefix(res.Val, k.val):
		sym = "tail-kept"
	case len(res.Val) < len(k.val) && bytes.HasPrefix(k.val, res.Val):
		sym = "value-cut"
	}
	c.add(finding{Store: "storage", Shape: sh, Symptom: sym, Key: key, OpIndex: i, Detail: det,
		What: fmt.Sprintf("Get(%s) returns %d bytes (%s) but the last Set wrote %d bytes (%s); key history: %s", q(key), len(res.Val), short(res.Val), len(k.val), short(k.val), sh)})
}

func (c *checker) checkKeys(i int, suffix string, res Result) {
	if c.panicked(i, "storage", "KeysWithSuffix", res) {
		return
	}
	c.count("listings_checked", 1)
	c.distinct("suffix", suffix)
	det := map[string]interface{}{"suffix": suffix}
	if res.Failed {
		c.add(finding{Sig: "storage:keys:error", OpIndex: i, Detail: det, What: fmt.Sprintf("KeysWithSuffix(%q) returns the error %q", suffix, res.Err)})
		return
	}
	want := map[string]bool{}
	for ck, k := range c.keys {
		if k.live && strings.HasSuffix(ck, suffix) {
			want[ck] = true
		}
	}
	got := map[string]bool{}
	for _, g := range res.Keys {
		name := canon(g)
		if c.h.Mode == "mixed" && strings.HasSuffix(name, ".entity") {
			continue // belongs to the database sharing the directory
		}
		got[name] = true
	}
	var wl, gl []string
	for k := range want {
		wl = append(wl, k)
	}
	for k := range got {
		gl = append(gl, k)
	}
	sort.Strings(wl)
	sort.Strings(gl)
	det["expected"], det["got"] = wl, gl
	if len(wl) > 0 {
		c.count("listings_nonempty", 1)
	}
	for _, w := range wl {
		if !got[w] {
			c.add(finding{Sig: "storage:keys:missing-live", OpIndex: i, Detail: det,
				What: fmt.Sprintf("KeysWithSuffix(%q) does not list the live key %q (%s); got %q", suffix, w, c.keys[w].shape(), gl)})
			return
		}
	}
	for _, g := range gl {
		if want[g] {
			continue
		}
		k := c.keys[g]
		sym := "lists-unknown-name"
		switch {
		case k != nil && k.live:
			sym = "lists-nonmatching-suffix"
		case k != nil && k.everSet:
			sym = "lists-deleted"
		case !strings.HasSuffix(g, suffix):
			sym = "lists-nonmatching-suffix"
		}
		c.add(finding{Sig: "storage:keys:" + sym, OpIndex: i, Detail: det,
			What: fmt.Sprintf("KeysWithSuffix(%q) lists %q which is not a live key with that suffix (expected %q)", suffix, g, wl)})
		return
	}
}

// ---- database

func sameBytes(a, b []byte) bool { return bytes.Equal(a, b) } // nil and empty are equal

func sameEntity(a, b EntityR) bool {
	return string(a.Name) == string(b.Name) && sameBytes(a.Pub, b.Pub) && sameBytes(a.Priv, b.Priv)
}

// checkEnt compares one EntityWithName result with the model; it returns true if it matched.
func (c *checker) checkEnt(i int, name []byte, res Result, ctx string) bool {
	if c.panicked(i, "db", "EntityWithName", res) {
		return false
	}
	k := c.ents[string(name)]
	sh := k.shape()
	class := nameClass(name)
	c.count("entity_reads_checked", 1)
	det := map[string]interface{}{"name": q(name), "name_hex": vf.Hex(name), "name_class": class, "key_shape": sh, "read_after_reopen": k != nil && k.reopened}
	if ctx != "" {
		det["context"] = ctx
	}
	if k == nil || !k.live {
		if !res.Failed {
			c.add(finding{Store: "db", Class: class, Shape: sh, Symptom: "found", Key: name, OpIndex: i, Detail: det,
				What: fmt.Sprintf("EntityWithName(%s) of a %s entity returns an entity (Name %s) instead of an error", q(name), sh, q(res.Ent.Name))})
			return false
		}
		return true
	}
	det["expected_publickey"], det["expected_privatekey"] = vf.Hex(k.ent.Pub), vf.Hex(k.ent.Priv)
	if res.Failed {
		c.add(finding{Store: "db", Class: class, Shape: sh, Symptom: res.ErrKind, Key: name, OpIndex: i, Detail: det,
			What: fmt.Sprintf("EntityWithName(%s) of a live entity (%s; name class %s) returns the error %q", q(name), sh, class, res.Err)})
		return false
	}
	e := *res.Ent
	if sameEntity(e, k.ent) {
		return true
	}
	det["got_name"], det["got_name_hex"], det["got_publickey"], det["got_privatekey"] = q(e.Name), vf.Hex(e.Name), vf.Hex(e.Pub), vf.Hex(e.Priv)
	if sameBytes(e.Pub, k.ent.Pub) && sameBytes(e.Priv, k.ent.Priv) {
		c.add(finding{Store: "db", Class: class, Shape: sh, Symptom: "name-altered", Key: name, OpIndex: i, Detail: det, Soft: true,
			What: fmt.Sprintf("EntityWithName(%s) finds the entity but its Name is %s (saved %x, returned %x); name class %s", q(name), q(e.Name), name, e.Name, class)})
		return false
	}
	sym := "privatekey-mismatch"
	if !sameBytes(e.Pub, k.ent.Pub) {
		sym = "publickey-mismatch"
	}
	c.add(finding{Store: "db", Class: class, Shape: sh, Symptom: sym, Key: name, OpIndex: i, Detail: det,
		What: fmt.Sprintf("EntityWithName(%s) returns keys that differ from the saved ones (%s; entity history: %s)", q(name), sym, sh)})
	return false
}

func (c *checker) liveNames() []string {
	var l []string
	for n, k := range c.ents {
		if k.live {
			l = append(l, n)
		}
	}
	sort.Strings(l)
	return l
}

func (c *checker) hard() int {
	n := 0
	for _, f := range c.findings {
		if !f.Soft {
			n++
		}
	}
	return n
}

func (c *checker) checkEnts(i int, res Result) {
	if c.panicked(i, "db", "Entities", res) {
		return
	}
	c.count("entity_listings_checked", 1)
	live := c.liveNames()
	if len(live) > 0 {
		c.count("entity_listings_nonempty", 1)
	}
	var liveQ []string
	for _, n := range live {
		liveQ = append(liveQ, q([]byte(n)))
	}
	det := map[string]interface{}{"expected_names": liveQ}
	if res.Failed {
		// which entity is to blame?  read every live one on its own
		before := c.hard()
		for _, n := range live {
			r := c.ex.Do(Op{Kind: "ent", Key: []byte(n)})
			if r.Broken != "" {
				c.broken = r.Broken
				return
			}
			c.checkEnt(i, []byte(n), r, "Entities() returned the error "+res.Err)
			if c.stopped {
				break
			}
		}
		if c.hard() == before {
			c.add(finding{Sig: "db:entities:" + res.ErrKind, OpIndex: i, Detail: det,
				What: fmt.Sprintf("Entities() returns the error %q although every one of the %d live entities can be read on its own", res.Err, len(live))})
		}
		return
	}
	var gotQ []string
	for _, e := range res.Ents {
		gotQ = append(gotQ, q(e.Name))
	}
	det["got_names"] = gotQ
	used := make([]bool, len(res.Ents))
	find := func(e EntityR) bool {
		hit := false
		for j := range res.Ents {
			if sameEntity(res.Ents[j], e) {
				used[j], hit = true, true // duplicates of a right entry are one entry (sets)
			}
		}
		return hit
	}
	for _, n := range live {
		k := c.ents[n]
		c.readStats(i, "db", k, "")
		if find(k.ent) {
			continue
		}
		// not listed as saved: is the single read wrong in the same way?
		r := c.ex.Do(Op{Kind: "ent", Key: []byte(n)})
		if r.Broken != "" {
			c.broken = r.Broken
			return
		}
		ok := c.checkEnt(i, []byte(n), r, "Entities() does not contain the entity as saved")
		if c.stopped {
			return
		}
		explained := !ok && r.Ent != nil && find(*r.Ent)
		if !explained {
			class := nameClass([]byte(n))
			c.add(finding{Store: "db", Class: class, Shape: k.shape(), Symptom: "not-listed", Key: []byte(n), OpIndex: i, Detail: det,
				What: fmt.Sprintf("Entities() does not list the live entity %s (%s; name class %s); listed names: %v", q([]byte(n)), k.shape(), class, gotQ)})
			return
		}
	}
	for j, e := range res.Ents {
		if used[j] {
			continue
		}
		k := c.ents[string(e.Name)]
		sym := "lists-unknown"
		switch {
		case k != nil && k.live:
			sym = "lists-stale-fields"
		case k != nil && k.everSet:
			sym = "lists-deleted"
		}
		c.add(finding{Sig: "db:entities:" + sym, OpIndex: i, Detail: det,
			What: fmt.Sprintf("Entities() lists an entity named %s that is not a live entity as saved (%s); expected names %v", q(e.Name), sym, liveQ)})
		return
	}
}

// run executes a history on a fresh directory and returns the findings.
func run(h *History, dir string, st stats, tag string, segments *int) (fs []finding, broken string) {
	os.RemoveAll(dir)
	defer os.RemoveAll(dir)
	var ex executor
	if h.Exec == "child" {
		ex = &remote{dir: dir, segments: segments}
	} else {
		ex = &local{dir: dir}
	}
	defer ex.Close()
	c := &checker{h: h, ex: ex, st: st, tag: tag, keys: map[string]*kstate{}, ents: map[string]*kstate{}, soft: map[string]bool{}}
	open := func(i int, via string) {
		res := ex.Reopen(via)
		if res.Broken != "" {
			c.broken = res.Broken
			return
		}
		if c.panicked(i, "open", "open", res) {
			return
		}
		if res.Failed {
			c.add(finding{Sig: "open:" + via + ":error", OpIndex: i, What: "opening the store on the directory failed: " + res.Err})
		}
	}
	open(-1, "storage")
	for i := 0; i < len(h.Ops) && !c.stopped && c.broken == ""; i++ {
		op := h.Ops[i]
		c.count("ops_"+op.Kind, 1)
		if op.Kind == "reopen" {
			open(i, op.Via)
			for _, k := range c.keys {
				k.reopened = true
			}
			for _, k := range c.ents {
				k.reopened = true
			}
			continue
		}
		res := ex.Do(op)
		if res.Broken != "" {
			c.broken = res.Broken
			break
		}
		if res.Changed != "" {
			c.add(finding{Sig: "storage:get-result-changed-later", OpIndex: i, What: res.Changed})
		}
		switch op.Kind {
		case "set":
			if c.panicked(i, "storage", "Set", res) {
				break
			}
			ck := canon(op.Key)
			k := c.keys[ck]
			if k == nil {
				k = &kstate{}
				c.keys[ck] = k
			}
			if res.Failed {
				c.add(finding{Store: "storage", Shape: k.shape(), Symptom: "set-error", Key: op.Key, OpIndex: i, Detail: map[string]interface{}{"key": q(op.Key)},
					What: fmt.Sprintf("Set(%s, %d bytes) returns the error %q", q(op.Key), len(op.Val), res.Err)})
				break
			}
			k.write(len(op.Val))
			k.val = append([]byte{}, op.Val...)
			c.distinct("value_len_class", lenClass(len(op.Val)))
			c.distinct("write_shape", "storage:"+k.shape())
		case "get":
			c.checkGet(i, op.Key, res)
		case "del":
			if c.panicked(i, "storage", "Delete", res) {
				break
			}
			k := c.keys[canon(op.Key)]
			if k != nil && k.live {
				if res.Failed {
					c.add(finding{Sig: "storage:delete-live:error", OpIndex: i, Detail: map[string]interface{}{"key": q(op.Key)},
						What: fmt.Sprintf("Delete(%s) of a live key returns the error %q", q(op.Key), res.Err)})
					break
				}
				k.remove()
				c.count("deletes_of_live", 1)
			} // deleting what is not there: either answer is fine
		case "keys":
			c.checkKeys(i, op.Suffix, res)
		case "save":
			if c.panicked(i, "db", "SaveEntity", res) {
				break
			}
			n := string(op.Key)
			k := c.ents[n]
			if k == nil {
				k = &kstate{}
				c.ents[n] = k
			}
			class := nameClass(op.Key)
			c.distinct("name_class", class)
			if res.Failed {
				c.add(finding{Store: "db", Class: class, Shape: k.shape(), Symptom: "save-error", Key: op.Key, OpIndex: i, Detail: map[string]interface{}{"name": q(op.Key), "name_hex": vf.Hex(op.Key), "name_class": class},
					What: fmt.Sprintf("SaveEntity(Name %s, class %s) returns the error %q", q(op.Key), class, res.Err)})
				break
			}
			k.write(encSize(op.Pub) + encSize(op.Priv))
			k.ent = EntityR{append([]byte{}, op.Key...), op.Pub, op.Priv}
			c.distinct("write_shape", "db:"+k.shape())
			c.distinct("name_len", strconv.Itoa(len(op.Key)))
		case "ent":
			c.readStats(i, "db", c.ents[string(op.Key)], "")
			c.checkEnt(i, op.Key, res, "")
		case "delent":
			if c.panicked(i, "db", "DeleteEntity", res) {
				break
			}
			if k := c.ents[string(op.Key)]; k != nil && k.live {
				k.remove()
				c.count("deletes_of_live", 1)
			}
		case "ents":
			c.checkEnts(i, res)
		}
	}
	return c.findings, c.broken
}

// ---------------------------------------------------------------------------------------------
// generators

const keyAlphabet = "abcdefghijklmnopqrstuvwxyzABCDEFGHIJKLMNOPQRSTUVWXYZ0123456789._-"

func genKey(rnd *rand.Rand, mode string) []byte {
	if mode == "mixed" && rnd.Intn(2) == 0 {
		return []byte([]string{"uuid", "version", "configHash", "schema", "keypair"}[rnd.Intn(5)])
	}
	n := 1 + rnd.Intn(12)
	switch rnd.Intn(12) {
	case 0:
		n = 1
	case 1:
		n = 60 + rnd.Intn(140)
	}
	b := make([]byte, n)
	for i := range b {
		b[i] = keyAlphabet[rnd.Intn(len(keyAlphabet))]
	}
	if rnd.Intn(6) == 0 { // dot files are ordinary keys (only the ".tmp-" prefix of Set's own temp files is reserved)
		b[0] = '.'
		if bytes.HasPrefix(b, []byte(".tmp-")) {
			b[1] = 'T'
		}
	}
	if rnd.Intn(10) == 0 && n > 1 { // the documented ':' (stripped from the file name)
		b[1+rnd.Intn(n-1)] = ':'
	}
	if mode == "storage" && rnd.Intn(4) == 0 {
		b = append(b, ".entity"...)
	}
	return b
}

func keyOK(k []byte, mode string, taken map[string]bool) bool {
	c := canon(k)
	if c == "" || c == "." || c == ".." || taken[strings.ToLower(c)] {
		return false
	}
	if mode == "mixed" && strings.HasSuffix(c, ".entity") {
		return false
	}
	return true
}

var nameSeeds = map[string][]string{
	"empty":          {""},
	"plain":          {"a", "E2A4F0B2-7C55-4E0A-9C2F-0B6A5D6E1F11", "controller", "Bridge1", "x-1_2"},
	"colon":          {"3A:F1:2C:9D:00:7B", "a:b", ":"},
	"slash":          {"a/b", "/", "/etc/passwd", "../x", "dir/", "a/../b"},
	"dots":           {".", "..", "...", "a..b"},
	"nul":            {"\x00", "a\x00b", "name\x00"},
	"control":        {"\n", "a\tb", "line1\r\nline2", "\x7f", "\x1b[0m"},
	"json-special":   {"\"", "\\", "a\"b\\c", "<script>&amp;</script>", "{\"Name\":\"x\"}", "'"},
	"utf8-multibyte": {"Küche", "寝室", "\U0001F4A1 lamp", "�", "a b", "é"},
	"not-utf8":       {"\xff", "\x80", "a\xffb", "\xc0\x80", "\xe2\x82", "\xed\xa0\x80", "K\xfcche", "\xf8\x88\x80\x80\x80", "\xfe\xfe\xff\xff"},
}
var nameClasses = []string{"empty", "plain", "colon", "slash", "dots", "nul", "control", "json-special", "utf8-multibyte", "not-utf8"}

func genName(rnd *rand.Rand) []byte {
	switch x := rnd.Intn(100); {
	case x < 12: // arbitrary bytes, 1..100
		n := 1 + rnd.Intn(100)
		if rnd.Intn(4) == 0 {
			n = 100
		}
		b := make([]byte, n)
		rnd.Read(b)
		return b
	case x < 20: // long
		n := 64 + rnd.Intn(37)
		if rnd.Intn(2) == 0 {
			n = 100
		}
		b := make([]byte, n)
		fill := []byte{'a', 0xff, '/', '.', 0}[rnd.Intn(5)]
		if rnd.Intn(2) == 0 {
			fill = keyAlphabet[rnd.Intn(len(keyAlphabet))]
		}
		for i := range b {
			b[i] = fill
		}
		return b
	case x < 40: // plain
		n := 1 + rnd.Intn(40)
		b := make([]byte, n)
		for i := range b {
			b[i] = keyAlphabet[rnd.Intn(62)]
		}
		return b
	}
	cl := nameClasses[rnd.Intn(len(nameClasses))]
	s := nameSeeds[cl][rnd.Intn(len(nameSeeds[cl]))]
	b := []byte(s)
	if rnd.Intn(3) == 0 { // embed the special piece into ordinary text
		pre := make([]byte, rnd.Intn(8))
		for i := range pre {
			pre[i] = keyAlphabet[rnd.Intn(62)]
		}
		post := make([]byte, rnd.Intn(8))
		for i := range post {
			post[i] = keyAlphabet[rnd.Intn(62)]
		}
		b = append(append(pre, b...), post...)
	}
	if len(b) > 100 {
		b = b[:100]
	}
	return b
}

var lenBounds = []int{0, 0, 1, 2, 31, 32, 33, 63, 64, 65, 100, 255, 256, 1000, 1024, 4095, 4096}

func pickLen(rnd *rand.Rand, cur int, live bool) int {
	if live {
		x := rnd.Intn(100)
		switch {
		case x < 45 && cur > 0: // shorter
			switch rnd.Intn(5) {
			case 0:
				return cur - 1
			case 1:
				return cur / 2
			case 2:
				return 0
			case 3: // a multiple of the 32-byte buffer hc reads files with
				if n := (rnd.Intn(cur) / 32) * 32; n > 0 {
					return n
				}
			}
			return rnd.Intn(cur)
		case x < 75 && cur < 4096: // longer
			switch rnd.Intn(4) {
			case 0:
				return cur + 1
			case 1:
				return 4096
			}
			return cur + 1 + rnd.Intn(4096-cur)
		case x < 85:
			return cur
		}
	}
	switch rnd.Intn(4) {
	case 0, 1:
		return lenBounds[rnd.Intn(len(lenBounds))]
	case 2:
		return rnd.Intn(130)
	}
	return rnd.Intn(4097)
}

func genVal(rnd *rand.Rand, n int, old []byte) []byte {
	b := make([]byte, n)
	sel := rnd.Intn(8)
	if n > 0 && n < len(old) && rnd.Intn(3) == 0 {
		sel = 0 // a proper prefix of the value it replaces
	}
	switch sel {
	case 0: // shares its beginning with the old value
		rnd.Read(b)
		copy(b, old)
	case 1:
		for i := range b {
			b[i] = 'x'
		}
	case 2: // text
		for i := range b {
			b[i] = keyAlphabet[rnd.Intn(len(keyAlphabet))]
		}
	default:
		rnd.Read(b)
	}
	return b
}

func genKeyBytes(rnd *rand.Rand) []byte {
	switch rnd.Intn(10) {
	case 0:
		return nil
	case 1:
		return []byte{}
	case 2:
		return []byte{byte(rnd.Intn(256))}
	case 3, 4, 5:
		b := make([]byte, 32)
		rnd.Read(b)
		return b
	case 6, 7:
		b := make([]byte, 64)
		rnd.Read(b)
		return b
	}
	b := make([]byte, 1+rnd.Intn(1400))
	rnd.Read(b)
	return b
}

func gen(rnd *rand.Rand, mode, execMode string) *History {
	h := &History{Mode: mode, Exec: execMode}
	var keys, names [][]byte
	nk := 1 + rnd.Intn(5)
	taken := map[string]bool{}
	if mode != "db" {
		n := nk
		if mode == "mixed" {
			n = 1 + rnd.Intn(3)
		}
		for len(keys) < n {
			k := genKey(rnd, mode)
			if len(keys) > 0 && rnd.Intn(10) < 3 { // a sibling of another key: one is a suffix / prefix of the other
				o := keys[rnd.Intn(len(keys))]
				switch rnd.Intn(4) {
				case 0:
					k = append([]byte{keyAlphabet[rnd.Intn(len(keyAlphabet))]}, o...)
				case 1:
					k = append(append([]byte{}, o...), keyAlphabet[rnd.Intn(len(keyAlphabet))])
				case 2:
					k = append([]byte{}, o[len(o)/2:]...)
				default:
					k = append([]byte{}, o[:(len(o)+1)/2]...)
				}
			}
			if keyOK(k, mode, taken) {
				taken[strings.ToLower(canon(k))] = true
				keys = append(keys, k)
			}
		}
	}
	if mode != "storage" {
		n := nk
		if mode == "mixed" {
			n = 1 + rnd.Intn(5-len(keys))
		}
		seen := map[string]bool{}
		for len(names) < n {
			nm := genName(rnd)
			if len(names) > 0 && rnd.Intn(10) < 3 { // a sibling of another name
				o := names[rnd.Intn(len(names))]
				nm = append([]byte{}, o...)
				switch rnd.Intn(10) {
				case 6:
					// the name IS the file-name form of the other name (what a database that also looks for files of an
					// older naming scheme would find), in both directions and both cases
					nm = []byte(hex.EncodeToString(o))
				case 7:
					nm = []byte(strings.ToUpper(hex.EncodeToString(o)))
				case 8:
					if d, err := hex.DecodeString(string(o)); err == nil && len(d) > 0 {
						nm = d
					} else {
						nm = append([]byte(hex.EncodeToString(o)), ".entity"...)
					}
				case 9:
					nm = append(nm, ".entity"...)
				case 0:
					nm = append(nm, byte(rnd.Intn(256)))
				case 1:
					nm = nm[:len(nm)-1]
				case 2:
					nm[len(nm)-1] ^= 1 << uint(rnd.Intn(8))
				case 3:
					nm = append(nm, 0)
				case 4:
					nm = append([]byte{' '}, nm...)
				default:
					for j, c := range nm {
						if (c|0x20) >= 'a' && (c|0x20) <= 'z' {
							nm[j] = c ^ 0x20
							break
						}
					}
				}
			}
			if len(nm) >= 1 && len(nm) <= 100 && !seen[string(nm)] {
				seen[string(nm)] = true
				names = append(names, nm)
			}
		}
	}
	total := len(keys) + len(names)
	audit := total + 3
	nops := 3 + rnd.Intn(40-audit-2)
	// generator-side view of what is live, to bias the sizes
	curVal := map[string][]byte{}
	liveK := map[string]bool{}
	curEnt := map[string]int{}
	liveE := map[string]bool{}
	suffixes := func() string {
		switch rnd.Intn(8) {
		case 0:
			return ""
		case 1:
			return ".entity"
		case 2:
			return "entity"
		case 3:
			return "y"
		case 4:
			return "zz-nomatch"
		}
		ck := canon(keys[rnd.Intn(len(keys))])
		switch rnd.Intn(3) {
		case 0:
			return ck
		case 1:
			return ck[len(ck)-1:]
		}
		return ck[len(ck)/2:]
	}
	storageOp := func() {
		k := keys[rnd.Intn(len(keys))]
		ck := canon(k)
		switch x := rnd.Intn(100); {
		case x < 45:
			n := pickLen(rnd, len(curVal[ck]), liveK[ck])
			v := genVal(rnd, n, curVal[ck])
			curVal[ck], liveK[ck] = v, true
			h.Ops = append(h.Ops, Op{Kind: "set", Key: k, Val: v})
		case x < 72:
			h.Ops = append(h.Ops, Op{Kind: "get", Key: k})
		case x < 82:
			liveK[ck] = false
			delete(curVal, ck)
			h.Ops = append(h.Ops, Op{Kind: "del", Key: k})
		default:
			h.Ops = append(h.Ops, Op{Kind: "keys", Suffix: suffixes()})
		}
	}
	dbOp := func() {
		nm := names[rnd.Intn(len(names))]
		s := string(nm)
		switch x := rnd.Intn(100); {
		case x < 45:
			var pub, priv []byte
			want := rnd.Intn(100)
			for try := 0; try < 6; try++ {
				pub, priv = genKeyBytes(rnd), genKeyBytes(rnd)
				sz := encSize(pub) + encSize(priv)
				if !liveE[s] || (want < 45 && sz < curEnt[s]) || (want >= 45 && want < 75 && sz > curEnt[s]) || want >= 75 {
					break
				}
			}
			curEnt[s], liveE[s] = encSize(pub)+encSize(priv), true
			h.Ops = append(h.Ops, Op{Kind: "save", Key: nm, Pub: pub, Priv: priv})
		case x < 72:
			h.Ops = append(h.Ops, Op{Kind: "ent", Key: nm})
		case x < 82:
			liveE[s] = false
			h.Ops = append(h.Ops, Op{Kind: "delent", Key: nm})
		default:
			h.Ops = append(h.Ops, Op{Kind: "ents"})
		}
	}
	reopen := func() {
		via := "storage"
		if rnd.Intn(3) == 0 {
			via = "database"
		}
		h.Ops = append(h.Ops, Op{Kind: "reopen", Via: via})
	}
	for len(h.Ops) < nops {
		if rnd.Intn(100) < 14 {
			reopen()
			continue
		}
		switch {
		case mode == "storage":
			storageOp()
		case mode == "db":
			dbOp()
		case rnd.Intn(len(keys)+len(names)) < len(keys):
			storageOp()
		default:
			dbOp()
		}
	}
	// audit: everything that was written is read back, half of the time through a reopened store
	if rnd.Intn(2) == 0 {
		reopen()
	}
	for _, k := range keys {
		h.Ops = append(h.Ops, Op{Kind: "get", Key: k})
	}
	if len(keys) > 0 {
		h.Ops = append(h.Ops, Op{Kind: "keys", Suffix: []string{"", ".entity"}[rnd.Intn(2)]})
	}
	for _, n := range names {
		h.Ops = append(h.Ops, Op{Kind: "ent", Key: n})
	}
	if len(names) > 0 {
		h.Ops = append(h.Ops, Op{Kind: "ents"})
	}
	return h
}

// ---------------------------------------------------------------------------------------------
// shrinking a witness

func cloneH(h *History) *History {
	n := &History{Mode: h.Mode, Exec: h.Exec, Ops: make([]Op, len(h.Ops))}
	copy(n.Ops, h.Ops)
	return n
}

// general is a generalised signature: which parts of a key-level finding belong to it.
type general struct {
	sig       string
	ref       finding
	withClass bool
	withShape bool
}

func (g *general) matches(f *finding) bool {
	if g.ref.Store == "" || f.Store == "" {
		return f.Sig == g.ref.Sig
	}
	return f.Store == g.ref.Store && f.Symptom == g.ref.Symptom && (!g.withClass || f.Class == g.ref.Class) && (!g.withShape || f.Shape == g.ref.Shape)
}

func (g *general) in(fs []finding) *finding {
	for i := range fs {
		if g.matches(&fs[i]) {
			return &fs[i]
		}
	}
	return nil
}

// generalise decides by two control runs which parts of the most specific signature
// (store : name class : history shape : symptom) are needed:
//   - the same history with every entity name replaced by a plain one: does the symptom stay?
//     then the name class is not part of the signature;
//   - only the last write of the key followed by the failing operation (the simplest shape):
//     does the symptom stay?  then the history shape is not part of the signature.
//
// Reads of deleted / never-set keys keep their shape: it is the symptom's meaning.
func generalise(h *History, f finding, dir string) *general {
	g := &general{ref: f, sig: f.Sig}
	if f.Store == "" {
		return g
	}
	any := &general{ref: f}
	// control 1: plain names
	if f.Class != "" && f.Class != "plain" {
		c := cloneH(h)
		ren := map[string][]byte{}
		for i, op := range c.Ops {
			switch op.Kind {
			case "save", "ent", "delent":
				if ren[string(op.Key)] == nil {
					ren[string(op.Key)] = []byte(fmt.Sprintf("plain%d", len(ren)))
				}
				c.Ops[i].Key = ren[string(op.Key)]
			}
		}
		fs, broken := run(c, dir, nil, "", nil)
		g.withClass = broken != "" || any.in(fs) == nil
	}
	// control 2: simplest shape
	switch {
	case f.Shape == "deleted" || (f.Shape == "never-set" && f.Symptom == "found"):
		g.withShape = true
	case f.Shape == "fresh" || f.Shape == "never-set":
		g.withShape = false
	default:
		c := &History{Mode: h.Mode, Exec: h.Exec}
		if f.OpIndex >= 0 && f.OpIndex < len(h.Ops) {
			wk := "set"
			if f.Store == "db" {
				wk = "save"
			}
			for i := f.OpIndex; i >= 0; i-- {
				if op := h.Ops[i]; op.Kind == wk && string(op.Key) == string(f.Key) {
					c.Ops = append(c.Ops, op)
					break
				}
			}
			if k := h.Ops[f.OpIndex].Kind; k != "set" && k != "save" {
				c.Ops = append(c.Ops, h.Ops[f.OpIndex])
			}
		}
		fs, broken := run(c, dir, nil, "", nil)
		g.withShape = broken != "" || len(c.Ops) == 0 || any.in(fs) == nil
	}
	g.sig = f.rawSig(g.withClass, g.withShape)
	return g
}

type shrinker struct {
	g      *general
	dir    string
	budget int
	runs   int
}

func (s *shrinker) still(h *History) (bool, *finding) {
	if s.runs >= s.budget {
		return false, nil
	}
	s.runs++
	fs, broken := run(h, s.dir, nil, "", nil)
	if broken != "" {
		return false, nil
	}
	if f := s.g.in(fs); f != nil {
		return true, f
	}
	return false, nil
}

func isKeyOp(k string) bool { return k != "reopen" && k != "keys" && k != "ents" }

func (s *shrinker) shrink(h *History, f finding) (*History, finding) {
	best, bf := cloneH(h), f
	try := func(cand *History) bool {
		if ok, nf := s.still(cand); ok {
			best, bf = cand, *nf
			return true
		}
		return false
	}
	cut := func() {
		if bf.OpIndex+1 < len(best.Ops) && bf.OpIndex >= 0 {
			best.Ops = best.Ops[:bf.OpIndex+1]
		}
	}
	cut()
	if best.Exec == "child" { // does it need a real process?
		cand := cloneH(best)
		cand.Exec = "inproc"
		try(cand)
	}
	for changed := true; changed; {
		changed = false
		// drop operations
		for i := len(best.Ops) - 1; i >= 0; i-- {
			if i >= len(best.Ops) {
				continue
			}
			cand := cloneH(best)
			cand.Ops = append(cand.Ops[:i], cand.Ops[i+1:]...)
			if try(cand) {
				cut()
				changed = true
			}
		}
		// shorten values
		for i := range best.Ops {
			op := best.Ops[i]
			fillv := func(n int) []byte { return bytes.Repeat([]byte{'A' + byte(i%26)}, n) }
			switch op.Kind {
			case "set":
				for _, n := range []int{0, 1, 2, 3, len(op.Val) / 2, len(op.Val) - 1} {
					if n < 0 || n >= len(best.Ops[i].Val) {
						continue
					}
					cand := cloneH(best)
					cand.Ops[i].Val = fillv(n)
					if try(cand) {
						changed = true
						break
					}
				}
			case "save":
				for _, which := range []int{0, 1} {
					cur := best.Ops[i].Pub
					if which == 1 {
						cur = best.Ops[i].Priv
					}
					for _, v := range [][]byte{nil, fillv(1), fillv(len(cur) / 2)} {
						if cur == nil || (v != nil && len(v) >= len(cur)) {
							continue
						}
						cand := cloneH(best)
						if which == 0 {
							cand.Ops[i].Pub = v
						} else {
							cand.Ops[i].Priv = v
						}
						if try(cand) {
							changed = true
							break
						}
					}
				}
			}
		}
		// shorten keys and names (consistently in every operation that uses them)
		seen := map[string]bool{}
		var all [][]byte
		for _, op := range best.Ops {
			if isKeyOp(op.Kind) && !seen[op.Kind[:1]+string(op.Key)] {
				seen[op.Kind[:1]+string(op.Key)] = true
				all = append(all, op.Key)
			}
		}
		inUse := func(k []byte) bool {
			for _, op := range best.Ops {
				if isKeyOp(op.Kind) && canon(op.Key) == canon(k) {
					return true
				}
			}
			return false
		}
		for _, k := range all {
			if len(k) <= 1 {
				continue
			}
			var cands [][]byte
			dup := map[string]bool{}
			for _, b := range k {
				if !dup[string([]byte{b})] {
					dup[string([]byte{b})] = true
					cands = append(cands, []byte{b})
				}
			}
			cands = append(cands, []byte("a"), []byte("k"), k[:len(k)/2], k[len(k)/2:], k[1:], k[:len(k)-1])
			if len(cands) > 14 {
				cands = append(cands[:8], cands[len(cands)-6:]...)
			}
			for _, nk := range cands {
				if len(nk) == 0 || len(nk) >= len(k) || inUse(nk) || canon(nk) == "" || canon(nk) == "." || canon(nk) == ".." {
					continue
				}
				cand := cloneH(best)
				for j := range cand.Ops {
					if isKeyOp(cand.Ops[j].Kind) && string(cand.Ops[j].Key) == string(k) {
						cand.Ops[j].Key = nk
					}
				}
				if try(cand) {
					changed = true
					break
				}
			}
		}
	}
	return best, bf
}

// ---------------------------------------------------------------------------------------------
// presentation

func describe(op Op) string {
	switch op.Kind {
	case "set":
		return fmt.Sprintf("Set(%s, %d bytes %s)", q(op.Key), len(op.Val), short(op.Val))
	case "get":
		return fmt.Sprintf("Get(%s)", q(op.Key))
	case "del":
		return fmt.Sprintf("Delete(%s)", q(op.Key))
	case "keys":
		return fmt.Sprintf("KeysWithSuffix(%q)", op.Suffix)
	case "save":
		d := func(b []byte) string {
			if b == nil {
				return "nil"
			}
			return fmt.Sprintf("%d bytes %s", len(b), short(b))
		}
		return fmt.Sprintf("SaveEntity{Name: %s, PublicKey: %s, PrivateKey: %s}", q(op.Key), d(op.Pub), d(op.Priv))
	case "ent":
		return fmt.Sprintf("EntityWithName(%s)", q(op.Key))
	case "delent":
		return fmt.Sprintf("DeleteEntity{Name: %s}", q(op.Key))
	case "ents":
		return "Entities()"
	case "reopen":
		if op.Via == "database" {
			return "reopen: db.NewDatabase(dir) + util.NewFileStorage(dir)"
		}
		return "reopen: util.NewFileStorage(dir) + db.NewDatabaseWithStorage"
	}
	return op.Kind
}

func witness(orig, min *History, f finding, index int, shrinkRuns int) map[string]interface{} {
	var steps []string
	for i, op := range min.Ops {
		steps = append(steps, fmt.Sprintf("%d: %s", i, describe(op)))
	}
	return map[string]interface{}{
		"history_index":       index,
		"original_operations": len(orig.Ops),
		"mode":                min.Mode,
		"exec":                min.Exec,
		"minimal_history":     steps,
		"failing_operation":   f.OpIndex,
		"observation":         f.What,
		"detail":              f.Detail,
		"machine_readable":    min,
		"shrink_replays":      shrinkRuns,
	}
}

// ---------------------------------------------------------------------------------------------

func main() {
	if len(os.Args) >= 4 && os.Args[1] == "-child" {
		childMain(os.Args[2], os.Args[3])
		return
	}
	if len(os.Args) >= 3 && os.Args[1] == "-fault-child" {
		faultChildMain(os.Args[2])
		return
	}
	r := vf.Start("C18", "exploration")
	r.Watchdog(time.Duration(r.Pick(15, 60)) * time.Minute)
	r.SetRule("a case = one generated history (<= 40 operations over <= 5 keys / entity names, storage-only, database-only or both in one directory) run on a fresh directory " +
		"against a map model; every Get / EntityWithName / KeysWithSuffix / Entities result is compared with the model; non-trivial = a checked read of a key that was written " +
		"at least twice or is read through a re-opened store (distinct by history and position)")
	r.Assume("the directory is on a case-sensitive POSIX file system and nobody else writes into it")
	r.Assume("storage keys: file-name-safe alphabet [A-Za-z0-9._-] plus the documented ':' (stripped by design; two keys of a history never alias, listings are compared after stripping ':'); no '/', NUL, empty, '.', '..'")
	r.Assume("entity names: arbitrary bytes of length 0..100 (the empty name included); raw storage keys: file-name-safe, may start with a dot, but the prefix \".tmp-\" is reserved for Set's own temporary files")
	r.Assume("Delete of a key that is not there may return an error or nil; the order of listings and duplicates in them are not judged")
	r.Assume("in mixed histories raw storage keys never end in '.entity' and file names ending in '.entity' are ignored in KeysWithSuffix results (they belong to the database in the same directory)")

	base := filepath.Join(r.WorkDir(), fmt.Sprintf("run-%d", os.Getpid()))
	// leftovers of killed runs
	if old, _ := filepath.Glob(filepath.Join(r.WorkDir(), "run-*")); len(old) > 0 {
		for _, o := range old {
			if st, err := os.Stat(o); err == nil && time.Since(st.ModTime()) > 2*time.Hour {
				os.RemoveAll(o)
			}
		}
	}
	if err := os.MkdirAll(base, 0o755); err != nil {
		r.Inconclusive("cannot create scratch directory: " + err.Error())
		r.Finish()
	}
	cleanup := func() { os.RemoveAll(base) }

	n := r.Pick(300, 10000)
	childEvery := r.Pick(25, 10)
	segments := 0
	seenSig := map[string]bool{}
	type sample struct {
		Mode string   `json:"mode"`
		Exec string   `json:"exec"`
		Ops  []string `json:"operations"`
	}
	for i := 0; i < n; i++ {
		rnd := r.RandN("history", i)
		mode := []string{"storage", "db", "storage", "db", "mixed"}[i%5]
		execMode := "inproc"
		if i%childEvery == childEvery-1 {
			execMode = "child"
			// rotate the modes of the child histories
			mode = []string{"storage", "db", "mixed"}[(i/childEvery)%3]
		}
		h := gen(rnd, mode, execMode)
		if len(h.Ops) > 40 {
			r.Inconclusive(fmt.Sprintf("generator produced %d operations", len(h.Ops)))
			break
		}
		r.Evals(len(h.Ops)) // a case = one operation of a history checked against the model
		r.Count("histories", 1)
		r.Count("histories_"+mode, 1)
		r.Count("histories_exec_"+execMode, 1)
		r.Count("operations", len(h.Ops))
		// the storage directory is wherever the application puts it (by default a directory named after the accessory):
		// names with blanks, brackets, wildcards, a backslash, non-ASCII letters
		dir := filepath.Join(base, fmt.Sprintf("h%d", i))
		if odd := oddDirNames[i%(2*len(oddDirNames))%len(oddDirNames)]; i%2 == 1 {
			dir = filepath.Join(base, fmt.Sprintf("h%d", i), odd)
			os.MkdirAll(filepath.Dir(dir), 0o755)
			r.Distinct("storage_directory_name", odd)
		}
		fs, broken := run(h, dir, r, strconv.Itoa(i), &segments)
		os.RemoveAll(filepath.Join(base, fmt.Sprintf("h%d", i)))
		if broken != "" {
			if strings.Contains(broken, "brutella/hc") && (strings.Contains(broken, "panic:") || strings.Contains(broken, "fatal error:")) {
				r.Violation("child:process-crash", "the child process died inside hc: "+broken, h)
			} else {
				r.Inconclusive("history " + strconv.Itoa(i) + ": " + broken)
			}
			continue
		}
		if len(fs) == 0 {
			r.Count("histories_in_step_with_model", 1)
		}
		for _, f := range fs {
			g := generalise(h, f, filepath.Join(base, fmt.Sprintf("control%d", i)))
			r.Count("findings_classified_by_control_runs", 1)
			if seenSig[g.sig] {
				r.Violation(g.sig, f.What, nil)
				continue
			}
			seenSig[g.sig] = true
			s := &shrinker{g: g, dir: filepath.Join(base, fmt.Sprintf("shrink%d", i)), budget: r.Pick(400, 800)}
			mh, mf := s.shrink(h, f)
			w := witness(h, mh, mf, i, s.runs)
			w["most_specific_signature"] = f.Sig
			w["signature_needs_name_class"], w["signature_needs_history_shape"] = g.withClass, g.withShape
			r.Violation(g.sig, mf.What, w)
		}
		r.SampleAt(i, func() interface{} {
			var steps []string
			for _, op := range h.Ops {
				steps = append(steps, describe(op))
			}
			return sample{mode, execMode, steps}
		})
	}
	r.Count("child_process_segments", segments)
	r.Guard("write faults", func() { writeFaults(r, base) })
	r.Guard("readers during writes", func() { readersDuringWrites(r, base) })
	r.Guard("parallel readers", func() { parallelReaders(r, base) })
	cleanup()

	// coverage floors
	sh := int(r.Counter("reads_storage_overwrite-shorter"))
	r.Floor("reads of a storage key overwritten with a shorter value", sh, r.Pick(40, 1500))
	r.Floor("reads of an entity overwritten with a shorter encoding", int(r.Counter("reads_db_overwrite-shorter")), r.Pick(30, 1000))
	r.Floor("reads of a storage key overwritten with a longer value", int(r.Counter("reads_storage_overwrite-longer")), r.Pick(30, 1000))
	r.Floor("reads after deletion", int(r.Counter("reads_storage_deleted")+r.Counter("reads_db_deleted")), r.Pick(30, 1000))
	r.Floor("reads through a reopened store", int(r.Counter("reads_after_reopen")), r.Pick(100, 4000))
	r.Floor("storage listings with live keys", int(r.Counter("listings_nonempty")), r.Pick(50, 2000))
	r.Floor("entity listings with live entities", int(r.Counter("entity_listings_nonempty")), r.Pick(40, 1500))
	r.Floor("entity name classes", r.DistinctN("name_class"), 10)
	r.Floor("child process segments", segments, r.Pick(20, 2000))
	r.Floor("write-fault cases", int(r.Counter("fault_cases")), r.Pick(120, 2000)*9/10)
	r.Floor("write-fault calls refused by the file system", int(r.Counter("fault_calls_that_returned_an_error")), r.Pick(100, 1500))
	r.Floor("write-fault calls that succeeded under the limit", int(r.Counter("fault_calls_that_returned_nil")), r.Pick(50, 800))
	r.Finish()
}

package main

// Freshness under concurrency.  "The value the application sets is exactly the value a verified controller reads"
// leaves a read that overlaps the set free to return the old or the new value, but a read that STARTS after the
// set has returned (or after the write of another controller was answered) must return the new one, through
// /characteristics and in /accessories alike.  A round lets one change (by the application, or by a PUT on a
// second connection) land at a random moment inside a GET /accessories of a large bridge (the encoding takes a
// while), waits for both, and then reads again through both endpoints.  Anything derived from the values and
// kept for later (an encoded database, a value cache) shows as a stale second read.

import (
	"encoding/json"
	"fmt"
	"os"
	"strings"
	"sync"
	"time"

	"github.com/brutella/hc/accessory"

	"verif/harness/app"
	"verif/refctl"
	"verif/vf"
)

func freshness(r *vf.Run) {
	rounds := r.Pick(250, 4000)
	dir := app.ScratchDir(r.WorkDir(), "fresh")
	defer os.RemoveAll(dir)
	rnd := r.Rand("c09-fresh")
	me := refctl.NewIdentity("c09-fresh-a", rnd)
	other := refctl.NewIdentity("c09-fresh-b", rnd)
	app.StoreController(dir, me)
	app.StoreController(dir, other)
	bridge := accessory.NewBridge(accessory.Info{Name: "Fresh"})
	var bulbs []*accessory.ColoredLightbulb
	var rest []*accessory.Accessory
	for i := 0; i < 40; i++ {
		b := accessory.NewColoredLightbulb(accessory.Info{Name: fmt.Sprintf("bulb %d", i), SerialNumber: "123456789", Model: "a model name of some length"})
		bulbs = append(bulbs, b)
		rest = append(rest, b.Accessory)
	}
	a, err := app.Start(dir, "00102003", bridge.Accessory, rest...)
	if err != nil {
		r.Inconclusive("freshness: transport: " + err.Error())
		return
	}
	defer a.Stop()
	acc, _ := app.AccessoryEntity(dir)
	ca, err := a.Verified(me, acc.PublicKey, acc.Name)
	if err != nil {
		r.Inconclusive("freshness: pair-verify: " + err.Error())
		return
	}
	defer ca.Close()
	cb, err := a.Verified(other, acc.PublicKey, acc.Name)
	if err != nil {
		r.Inconclusive("freshness: pair-verify: " + err.Error())
		return
	}
	defer cb.Close()
	ca.Timeout, cb.Timeout = 20*time.Second, 20*time.Second

	valueIn := func(body []byte, aid, iid uint64) (string, bool) {
		db, err := refctl.ParseAttrDB(body)
		if err != nil {
			return "", false
		}
		for _, ac := range db.Accessories {
			if ac.AID != aid {
				continue
			}
			for _, s := range ac.Services {
				for _, c := range s.Characteristics {
					if c.IID == iid {
						return string(c.Value), true
					}
				}
			}
		}
		return "", false
	}
	// how long does one GET /accessories take? (only to spread the moment of the change over it)
	t0 := time.Now()
	if m, err := ca.Do("GET", "/accessories", "", nil); err != nil || m.Status != 200 {
		r.Inconclusive(fmt.Sprintf("freshness: GET /accessories: %v", err))
		return
	}
	span := time.Since(t0)
	cur := map[int]int{}
	for round := 0; round < rounds; round++ {
		k := rnd.Intn(len(bulbs))
		b := bulbs[k]
		nv := (cur[k] + 1 + rnd.Intn(99)) % 101 // brightness 0..100, always different from the current one
		if nv == b.Lightbulb.Brightness.GetValue() {
			nv = (nv + 1) % 101
		}
		old := b.Lightbulb.Brightness.GetValue()
		aid, iid := b.Accessory.ID, b.Lightbulb.Brightness.ID
		remote := round%3 == 2
		w := map[string]interface{}{"round": round, "characteristic": fmt.Sprintf("%d.%d (brightness of bulb %d of 40)", aid, iid, k), "old": old, "new": nv,
			"changed_by": map[bool]string{false: "application SetValue", true: "PUT on a second verified connection"}[remote]}
		// some other value has changed since the last read (whatever is kept from that read is out of date)
		bulbs[(k+7)%len(bulbs)].Lightbulb.Hue.SetValue(float64(rnd.Intn(360)))
		var wg sync.WaitGroup
		var first *refctl.Message
		var ferr error
		wg.Add(1)
		go func() {
			defer wg.Done()
			first, ferr = ca.Do("GET", "/accessories", "", nil)
		}()
		// (the request travels, is decrypted and dispatched, then the database is encoded, then encrypted and sent: the
		// moment of the change is spread over all of it, with more weight on the early part where the encoding is)
		u := rnd.Float64()
		time.Sleep(time.Duration(float64(span) * u * u * u))
		if remote {
			m, err := cb.Do("PUT", "/characteristics", refctl.ContentJSON, refctl.PutBody(refctl.CharValue{AID: aid, IID: iid, Value: refctl.RawJSON(nv)}))
			if err != nil || m.Status != 204 {
				wg.Wait()
				r.Inconclusive(fmt.Sprintf("freshness: PUT failed: %v", err))
				return
			}
		} else {
			b.Lightbulb.Brightness.SetValue(nv)
		}
		wg.Wait()
		cur[k] = nv
		r.Eval()
		r.Count("freshness_rounds", 1)
		if ferr != nil || first.Status != 200 {
			r.Violation("fresh:overlapping-read-fails", fmt.Sprintf("GET /accessories overlapping a value change failed: %v", ferr), w)
			return
		}
		if v, ok := valueIn(first.Body, aid, iid); !ok || (v != fmt.Sprint(old) && v != fmt.Sprint(nv)) {
			w["read"] = v
			r.Violation("fresh:overlapping-read-neither-old-nor-new", fmt.Sprintf("a GET /accessories overlapping the change shows %s, neither the old value %d nor the new value %d", v, old, nv), w)
		} else if v == fmt.Sprint(old) {
			r.Count("freshness_overlapping_reads_that_saw_the_old_value", 1)
			r.Nontrivial(fmt.Sprintf("fresh/old/%d", round))
		} else {
			r.Count("freshness_overlapping_reads_that_saw_the_new_value", 1)
			r.Nontrivial(fmt.Sprintf("fresh/new/%d", round))
		}
		// reads that start after the change has returned
		m2, err := ca.Do("GET", "/accessories", "", nil)
		if err != nil || m2.Status != 200 {
			r.Violation("fresh:later-read-fails", fmt.Sprintf("GET /accessories after a value change failed: %v", err), w)
			return
		}
		if v, ok := valueIn(m2.Body, aid, iid); !ok || v != fmt.Sprint(nv) {
			w["read"] = v
			r.Violation("fresh:accessories-stale", fmt.Sprintf("GET /accessories started after the change had returned still shows %s instead of %d (the change had landed inside an earlier GET /accessories)", v, nv), w)
		}
		m3, err := ca.Do("GET", "/characteristics?id="+refctl.IDList([2]uint64{aid, iid}), "", nil)
		var cl refctl.CharList
		if err != nil || m3.Status != 200 || json.Unmarshal(m3.Body, &cl) != nil || len(cl.Characteristics) != 1 || cl.Characteristics[0].Value == nil {
			r.Violation("fresh:later-read-fails", fmt.Sprintf("GET /characteristics after a value change failed: %v", err), w)
			return
		}
		if v := string(*cl.Characteristics[0].Value); v != fmt.Sprint(nv) {
			w["read"] = v
			r.Violation("fresh:characteristics-stale", fmt.Sprintf("GET /characteristics started after the change had returned still shows %s instead of %d", v, nv), w)
		}
	}
	r.Floor("freshness_rounds", int(r.Counter("freshness_rounds")), rounds*9/10)
	r.Floor("freshness_overlapping_reads_that_saw_the_old_value", int(r.Counter("freshness_overlapping_reads_that_saw_the_old_value")), 5)
	r.Floor("freshness_overlapping_reads_that_saw_the_new_value", int(r.Counter("freshness_overlapping_reads_that_saw_the_new_value")), 5)
}

// Getter phase.  An application may provide a value at read time (OnValueRemoteGet: the sensor is asked when a
// controller asks) instead of setting it beforehand: that value is "what the application sets" just the same, for
// characteristics a controller may write and for those it may only read.  Per round the value behind every getter
// changes, a controller reads all of them through /characteristics and must get exactly the getter's values; the
// /accessories document read afterwards must agree.
func getters(r *vf.Run) {
	rounds := r.Pick(60, 1500)
	dir := app.ScratchDir(r.WorkDir(), "getter")
	defer os.RemoveAll(dir)
	rnd := r.Rand("c09-getter")
	me := refctl.NewIdentity("c09-getter", rnd)
	app.StoreController(dir, me)
	th := accessory.NewTemperatureSensor(accessory.Info{Name: "sensor"}, 20, -50, 150, 0.1)
	bulb := accessory.NewColoredLightbulb(accessory.Info{Name: "bulb"})
	sw := accessory.NewSwitch(accessory.Info{Name: "switch"})
	var mu sync.Mutex
	temp, bright, on, name := 20.0, 50, false, "n0"
	th.TempSensor.CurrentTemperature.OnValueRemoteGet(func() float64 { mu.Lock(); defer mu.Unlock(); return temp }) // pr ev
	bulb.Lightbulb.Brightness.OnValueRemoteGet(func() int { mu.Lock(); defer mu.Unlock(); return bright })          // pr pw ev
	sw.Switch.On.OnValueRemoteGet(func() bool { mu.Lock(); defer mu.Unlock(); return on })                          // pr pw ev
	sw.Info.SerialNumber.OnValueRemoteGet(func() string { mu.Lock(); defer mu.Unlock(); return name })              // pr
	a, err := app.Start(dir, "00102003", th.Accessory, bulb.Accessory, sw.Accessory)
	if err != nil {
		r.Inconclusive("getters: transport: " + err.Error())
		return
	}
	defer a.Stop()
	acc, _ := app.AccessoryEntity(dir)
	c, err := a.Verified(me, acc.PublicKey, acc.Name)
	if err != nil {
		r.Inconclusive("getters: pair-verify: " + err.Error())
		return
	}
	defer c.Close()
	c.Timeout = 20 * time.Second
	type tgt struct {
		aid, iid uint64
		what     string
		want     func() string
	}
	js := func(v interface{}) string { b, _ := json.Marshal(v); return string(b) }
	ts := []tgt{
		{th.Accessory.ID, th.TempSensor.CurrentTemperature.ID, "CurrentTemperature (perms pr ev)", func() string { return js(temp) }},
		{bulb.Accessory.ID, bulb.Lightbulb.Brightness.ID, "Brightness (perms pr pw ev)", func() string { return js(bright) }},
		{sw.Accessory.ID, sw.Switch.On.ID, "On (perms pr pw ev)", func() string { return js(on) }},
		{sw.Accessory.ID, sw.Info.SerialNumber.ID, "SerialNumber (perms pr)", func() string { return js(name) }},
	}
	var ids [][2]uint64
	for _, t := range ts {
		ids = append(ids, [2]uint64{t.aid, t.iid})
	}
	for round := 0; round < rounds; round++ {
		mu.Lock()
		temp = float64(rnd.Intn(2000)-500) / 10
		bright = rnd.Intn(101)
		on = !on
		name = fmt.Sprintf("n%d", rnd.Intn(1e6))
		mu.Unlock()
		m, err := c.Do("GET", "/characteristics?id="+refctl.IDList(ids...), "", nil)
		var cl refctl.CharList
		if err != nil || m.Status != 200 || json.Unmarshal(m.Body, &cl) != nil || len(cl.Characteristics) != len(ts) {
			r.Violation("getter:read-fails", fmt.Sprintf("GET /characteristics of four characteristics with read callbacks fails: %v", err), nil)
			return
		}
		r.Eval()
		r.Count("getter_rounds", 1)
		for i, t := range ts {
			got := "<none>"
			if cl.Characteristics[i].Value != nil {
				got = string(*cl.Characteristics[i].Value)
			}
			mu.Lock()
			want := t.want()
			mu.Unlock()
			if !sameNumber(got, want) {
				r.Violation("getter:value-not-the-callbacks:"+strings.Fields(t.what)[0], fmt.Sprintf("%s: the application's read callback returns %s, the controller reads %s", t.what, want, got),
					map[string]interface{}{"round": round, "characteristic": t.what, "callback_returns": want, "controller_reads": got})
			} else {
				r.Nontrivial(fmt.Sprintf("getter/%d/%d", i, round))
			}
		}
		if round%5 == 0 {
			m2, err := c.Do("GET", "/accessories", "", nil)
			if err != nil || m2.Status != 200 {
				r.Violation("getter:read-fails", fmt.Sprintf("GET /accessories fails: %v", err), nil)
				return
			}
			db, perr := refctl.ParseAttrDB(m2.Body)
			if perr != nil {
				continue // reported by the main phase
			}
			for _, t := range ts {
				for _, ac := range db.Accessories {
					if ac.AID != t.aid {
						continue
					}
					for _, s := range ac.Services {
						for _, ch := range s.Characteristics {
							mu.Lock()
							want := t.want()
							mu.Unlock()
							if ch.IID == t.iid && !sameNumber(string(ch.Value), want) {
								r.Violation("getter:accessories-differs:"+strings.Fields(t.what)[0], fmt.Sprintf("%s: the controller has just read %s through /characteristics, /accessories shows %s", t.what, want, string(ch.Value)), nil)
							}
						}
					}
				}
			}
		}
	}
	r.Floor("getter_rounds", int(r.Counter("getter_rounds")), rounds*9/10)
}

// sameNumber compares two JSON scalars (numbers by value: 20 and 20.0 are the same reading).
func sameNumber(a, b string) bool {
	if a == b {
		return true
	}
	var x, y float64
	if json.Unmarshal([]byte(a), &x) == nil && json.Unmarshal([]byte(b), &y) == nil {
		return x == y
	}
	return false
}

package main

// The application answers a write with a value of its own.  A controller writes v; the application's remote-update
// callback decides otherwise (it caps the value, rounds it, refuses it) and calls SetValue(w) from INSIDE the callback,
// or another goroutine of the application sets w while the callback has not returned yet.  "What the application sets is
// what a controller reads, and what a controller writes reaches the application" holds for these updates like for any
// other: once everything has returned, the last update in program order is what the typed getter returns and what
// /characteristics and /accessories show, and every write that was answered with success has reached the remote-update
// callback.

import (
	"encoding/json"
	"fmt"
	"os"
	"sync/atomic"
	"time"

	"github.com/brutella/hc/accessory"

	"verif/harness/app"
	"verif/refctl"
	"verif/vf"
)

func nestedUpdates(r *vf.Run) {
	rounds := r.Pick(150, 2000)
	dir := app.ScratchDir(r.WorkDir(), "nested")
	defer os.RemoveAll(dir)
	rnd := r.Rand("c09-nested")
	me := refctl.NewIdentity("c09-nested", rnd)
	app.StoreController(dir, me)
	bulb := accessory.NewColoredLightbulb(accessory.Info{Name: "Nested"})
	br := bulb.Lightbulb.Brightness
	// what the application does when a controller writes: decided per round
	var mode int32 // 0 nothing, 1 SetValue(cap) inside the callback, 2 another goroutine sets cap before the callback returns
	var capTo int64
	var remoteCalls int64
	var lastRemote int64
	br.OnValueRemoteUpdate(func(v int) {
		atomic.AddInt64(&remoteCalls, 1)
		atomic.StoreInt64(&lastRemote, int64(v))
		switch atomic.LoadInt32(&mode) {
		case 1:
			br.SetValue(int(atomic.LoadInt64(&capTo)))
		case 2:
			done := make(chan struct{})
			go func() { br.SetValue(int(atomic.LoadInt64(&capTo))); close(done) }()
			<-done
		}
	})
	a, err := app.Start(dir, "00102003", bulb.Accessory)
	if err != nil {
		r.Inconclusive("nested updates: transport: " + err.Error())
		return
	}
	defer a.Stop()
	acc, _ := app.AccessoryEntity(dir)
	c, err := a.Verified(me, acc.PublicKey, acc.Name)
	if err != nil {
		r.Inconclusive("nested updates: pair-verify: " + err.Error())
		return
	}
	defer c.Close()
	c.Timeout = 20 * time.Second
	aid, iid := bulb.Accessory.ID, br.ID
	read := func() (string, bool) {
		m, err := c.Do("GET", "/characteristics?id="+refctl.IDList([2]uint64{aid, iid}), "", nil)
		var cl refctl.CharList
		if err != nil || m.Status != 200 || json.Unmarshal(m.Body, &cl) != nil || len(cl.Characteristics) != 1 || cl.Characteristics[0].Value == nil {
			return "", false
		}
		return string(*cl.Characteristics[0].Value), true
	}
	for round := 0; round < rounds; round++ {
		r.Eval()
		cur := br.GetValue()
		v := (cur + 1 + rnd.Intn(90)) % 101
		w := (v + 1 + rnd.Intn(90)) % 101
		if w == cur {
			w = (w + 1) % 101
			if w == v {
				w = (w + 1) % 101
			}
		}
		md := int32(round % 3)
		atomic.StoreInt32(&mode, md)
		atomic.StoreInt64(&capTo, int64(w))
		calls0 := atomic.LoadInt64(&remoteCalls)
		m, err := c.Do("PUT", "/characteristics", refctl.ContentJSON, refctl.PutBody(refctl.CharValue{AID: aid, IID: iid, Value: refctl.RawJSON(v)}))
		if err != nil || m.Status != 204 {
			r.Violation("nested:write-not-answered", fmt.Sprintf("PUT brightness %d (current %d): %v status %d", v, cur, err, statusOf(m)), nil)
			return
		}
		atomic.StoreInt32(&mode, 0)
		want := v
		how := "the application only takes note of the write"
		switch md {
		case 1:
			want, how = w, fmt.Sprintf("the application's remote-update callback calls SetValue(%d) before it returns", w)
		case 2:
			want, how = w, fmt.Sprintf("another goroutine of the application calls SetValue(%d) while the remote-update callback has not returned", w)
		}
		wit := map[string]interface{}{"round": round, "value_before": cur, "controller_wrote": v, "application_set": w, "application": how}
		r.Count("nested_rounds", 1)
		r.Count(fmt.Sprintf("nested_rounds_mode_%d", md), 1)
		r.Nontrivial(fmt.Sprintf("nested/%d/%d", md, round))
		if n := atomic.LoadInt64(&remoteCalls) - calls0; n != 1 || atomic.LoadInt64(&lastRemote) != int64(v) {
			r.Violation("nested:callback", fmt.Sprintf("a write of %d answered 204 invoked the remote-update callback %d times (last value %d); %s", v, n, atomic.LoadInt64(&lastRemote), how), wit)
			return
		}
		if got := br.GetValue(); got != want {
			wit["getter"] = got
			r.Violation("nested:getter-differs", fmt.Sprintf("a controller wrote %d, %s: the typed getter returns %d afterwards, expected %d", v, how, got, want), wit)
			return
		}
		if got, ok := read(); !ok || got != fmt.Sprint(want) {
			wit["read"] = got
			r.Violation("nested:read-differs", fmt.Sprintf("a controller wrote %d, %s: GET /characteristics shows %s afterwards, expected %d", v, how, got, want), wit)
			return
		}
	}
	r.Floor("nested_rounds", int(r.Counter("nested_rounds"))+10000*r.ViolationCount(), rounds)
}

func statusOf(m *refctl.Message) int {
	if m == nil {
		return 0
	}
	return m.Status
}

// C09 — what the application sets is what a controller reads, and vice versa.
//
// Full stack.  Per accessory database ("shape", from one accessory holding every catalog characteristic
// up to a bridge of 150 accessories) a real hc IP transport is started on a scratch storage directory;
// two independent reference controllers (verif/refctl: own pair-verify, own session framing, own HTTP
// and chunk parser; identities pre-stored) talk to it over encrypted connections, one sending
// maximum-size frames, the other arbitrary frame splits.
//
// The database is built from the generated catalog: every exported characteristic constructor of the
// tree under test is called and its object is put, with its declared permissions and bounds, into
// synthetic services (service.New + AddCharacteristic) of synthetic accessories (accessory.New).  The
// typed wrapper (characteristic.Int / Float / String / Bool / Bytes) is rebuilt around the shared
// *Characteristic by format so that the application side uses the typed setters, getters and
// OnValueRemoteUpdate callbacks a user of the library uses.
//
// Oracle (a model kept by this monitor; JSON is decoded with this monitor's own comparison rules):
//
//	app -> controller  typed SetValue(v), then GET /characteristics?id=<list> and GET /accessories must
//	                   carry a JSON value that decodes to exactly v (integers exactly, floats as
//	                   float64 ==, strings byte-equal, tlv8 as the base64 of exactly the bytes).
//	controller -> app  PUT w on a writable characteristic, answered 204 (or a body whose entry has
//	                   status 0): the typed getter returns exactly w; the typed remote-update callback
//	                   fired exactly once with w when w differs from the previous value, never when it
//	                   is equal (a write-only characteristic keeps no value: every write is delivered
//	                   exactly once).
//	answer shape       the entries of a GET answer are the requested ids, each once, in request order;
//	                   an existing readable id has a value, any other id (not existing, or existing
//	                   without read permission) an error status; an answer that is multi-status (HTTP
//	                   207 or any entry with a status) has a status in every entry.
//	PUT, unknown id    a PUT naming an id that does not exist must not be answered as if every write
//	                   had been applied (204, or a body without an error status for that id).  This is
//	                   the weak reading of "each requested id is answered ... with a value or an error
//	                   status" for PUT: nothing is demanded about the entries of writes that succeeded.
//
// Not demanded here (other properties): that a write to a characteristic without write permission is
// refused (C11), what happens to values outside format or bounds (C12), malformed id lists (C13),
// the structure of the database (C14/C15).  A value on a write-only characteristic in a GET answer is
// counted, not judged (C11).
package main

import (
	"bytes"
	"encoding/base64"
	"encoding/json"
	"fmt"
	"math"
	"math/big"
	"math/rand"
	"os"
	"runtime"
	"sort"
	"strconv"
	"strings"
	"sync"
	"sync/atomic"
	"time"
	"unicode/utf8"

	"github.com/brutella/hc/accessory"
	"github.com/brutella/hc/characteristic"
	"github.com/brutella/hc/service"

	"verif/harness/app"
	"verif/harness/catalog"
	"verif/refctl"
	"verif/vf"
)

var run *vf.Run

// ---------------------------------------------------------------------------------------- cells

type kind int

const (
	kBool kind = iota
	kInt
	kFloat
	kString
	kBytes
	kUnknown
)

func kindOf(format string) kind {
	switch format {
	case "bool":
		return kBool
	case "uint8", "uint16", "uint32", "uint64", "int32", "int":
		return kInt
	case "float":
		return kFloat
	case "string":
		return kString
	case "tlv8", "data":
		return kBytes
	}
	return kUnknown
}

// cell is one characteristic of a database together with the application's typed view of it and the
// monitor's model of its value.
type cell struct {
	ctor   string // catalog constructor, e.g. NewBrightness
	format string
	k      kind
	ch     *characteristic.Characteristic
	acc    *accessory.Accessory
	idx    int

	readable, writable bool

	// bounds of the valid values (declared, else the format's)
	ilo, ihi, istep int64
	flo, fhi, fstep float64
	hasStep         bool

	ti *characteristic.Int
	tf *characteristic.Float
	ts *characteristic.String
	tb *characteristic.Bool
	ty *characteristic.Bytes

	mu  sync.Mutex
	cbs []interface{} // values the typed remote-update callback received

	cur   interface{} // model: bool / int / float64 / string / []byte
	known bool        // whether cur is meaningful (false for write-only characteristics)

	nRead, nWritten int
}

func (c *cell) aid() uint64 { return c.acc.ID }
func (c *cell) iid() uint64 { return c.ch.ID }
func (c *cell) id() string  { return fmt.Sprintf("%d.%d", c.aid(), c.iid()) }

func has(perms []string, p string) bool {
	for _, x := range perms {
		if x == p {
			return true
		}
	}
	return false
}

func asInt64(v interface{}) (int64, bool) {
	switch x := v.(type) {
	case int:
		return int64(x), true
	case int64:
		return x, true
	case int32:
		return int64(x), true
	case uint8:
		return int64(x), true
	case uint16:
		return int64(x), true
	case uint32:
		return int64(x), true
	case float64:
		if x == math.Trunc(x) && math.Abs(x) < 1e15 {
			return int64(x), true
		}
	}
	return 0, false
}

func asFloat(v interface{}) (float64, bool) {
	switch x := v.(type) {
	case float64:
		return x, true
	case float32:
		return float64(x), true
	case int:
		return float64(x), true
	}
	return 0, false
}

func newCell(ctor string, ch *characteristic.Characteristic, acc *accessory.Accessory, idx int) *cell {
	c := &cell{ctor: ctor, format: ch.Format, k: kindOf(ch.Format), ch: ch, acc: acc, idx: idx}
	c.readable = has(ch.Perms, "pr")
	c.writable = has(ch.Perms, "pw")
	switch c.k {
	case kInt:
		switch ch.Format {
		case "uint8":
			c.ilo, c.ihi = 0, 255
		case "uint16":
			c.ilo, c.ihi = 0, 65535
		case "uint32":
			c.ilo, c.ihi = 0, 4294967295
		case "int32", "int":
			c.ilo, c.ihi = math.MinInt32, math.MaxInt32
		default: // uint64: stay inside what a JSON number carries exactly
			c.ilo, c.ihi = 0, 1<<53
		}
		c.istep = 1
		if v, ok := asInt64(ch.MinValue); ok && v > c.ilo {
			c.ilo = v
		}
		if v, ok := asInt64(ch.MaxValue); ok && v < c.ihi {
			c.ihi = v
		}
		if v, ok := asInt64(ch.StepValue); ok && v > 0 {
			c.istep = v
		}
		c.ti = &characteristic.Int{Characteristic: ch}
		c.ti.OnValueRemoteUpdate(func(v int) { c.record(v) })
	case kFloat:
		c.flo, c.fhi = -1e30, 1e30
		if v, ok := asFloat(ch.MinValue); ok {
			c.flo = v
		}
		if v, ok := asFloat(ch.MaxValue); ok {
			c.fhi = v
		}
		if v, ok := asFloat(ch.StepValue); ok && v > 0 {
			c.fstep, c.hasStep = v, true
		}
		c.tf = &characteristic.Float{Characteristic: ch}
		c.tf.OnValueRemoteUpdate(func(v float64) { c.record(v) })
	case kString:
		c.ts = &characteristic.String{Characteristic: ch}
		c.ts.OnValueRemoteUpdate(func(v string) { c.record(v) })
	case kBool:
		c.tb = &characteristic.Bool{Characteristic: ch}
		c.tb.OnValueRemoteUpdate(func(v bool) { c.record(v) })
	case kBytes:
		c.ty = &characteristic.Bytes{String: &characteristic.String{Characteristic: ch}}
		c.ty.OnValueRemoteUpdate(func(v []byte) { c.record(append([]byte(nil), v...)) })
	}
	return c
}

func (c *cell) record(v interface{}) {
	c.mu.Lock()
	c.cbs = append(c.cbs, v)
	c.mu.Unlock()
}

func (c *cell) takeCallbacks() []interface{} {
	c.mu.Lock()
	defer c.mu.Unlock()
	o := c.cbs
	c.cbs = nil
	return o
}

// typed application getter (under recover: a panic of the typed getter is reported by the caller)
func (c *cell) appGet() (v interface{}, panicText string) {
	p, t := vf.Recover(func() {
		switch c.k {
		case kInt:
			v = c.ti.GetValue()
		case kFloat:
			v = c.tf.GetValue()
		case kString:
			v = c.ts.GetValue()
		case kBool:
			v = c.tb.GetValue()
		case kBytes:
			v = c.ty.GetValue()
		}
	})
	if p {
		return nil, t
	}
	return v, ""
}

// typed application setter
func (c *cell) appSet(v interface{}) (panicText string) {
	_, t := vf.Recover(func() {
		switch c.k {
		case kInt:
			c.ti.SetValue(v.(int))
		case kFloat:
			c.tf.SetValue(v.(float64))
		case kString:
			c.ts.SetValue(v.(string))
		case kBool:
			c.tb.SetValue(v.(bool))
		case kBytes:
			c.ty.SetValue(v.([]byte))
		}
	})
	return t
}

func sameValue(a, b interface{}) bool {
	switch x := a.(type) {
	case []byte:
		y, ok := b.([]byte)
		return ok && bytes.Equal(x, y)
	case float64:
		y, ok := b.(float64)
		return ok && x == y
	}
	return a == b
}

func show(v interface{}) string {
	switch x := v.(type) {
	case nil:
		return "<none>"
	case string:
		if len(x) > 80 {
			return fmt.Sprintf("string(%d bytes) %q...", len(x), x[:80])
		}
		return fmt.Sprintf("%q", x)
	case []byte:
		return fmt.Sprintf("bytes(%d) %s", len(x), vf.Hex(x[:minInt(len(x), 24)]))
	case float64:
		return strconv.FormatFloat(x, 'g', -1, 64)
	}
	return fmt.Sprintf("%v", v)
}

func minInt(a, b int) int {
	if a < b {
		return a
	}
	return b
}

// ---------------------------------------------------------------------------------------- values

var pieces = []string{
	"a", "Z", "0", " ", "abc def", `"`, `\`, `/`, "<", ">", "&", "'", "\u2028", "\u2029", "\n", "\r", "\t", "\b", "\f",
	"\x00", "\x01", "\x1f", "\x7f", "é", "ß", "日本", "Ω", "😀", "𝄞", "\U0010FFFF", "\uFFFD", "\uFEFF", `\u0041`, `\"`, `\\`, `\n`,
	"&lt;", "&amp;", "</script>", "<!--", "%20", "+", "null", "true", "{\"value\":1}", "[1,2]", ",", ":", "\u00A0", "\u0085",
	// the literal TEXT of what encoders write for special characters (six characters each, not the characters), and
	// tokens of the protocols the value travels in
	`\u003c`, `\u003e`, `\u0026`, `\u2028`, `\\u003c`, `\/`, `\u00e9`, "HTTP/1.0", "HTTP/1.1 200 OK\r\n", "EVENT/1.0 200 OK", "\r\n\r\n", "0\r\n\r\n", "Content-Length: 0",
	// what a formatting function would take for a verb
	"%", "50%", "%s", "%d", "%v", "%!", "%%", "%n", "%x",
}

const hostile = "he said \"hi\" \\ / <b>&amp;</b> '\u2028\u2029' 😀𝄞 \n\t\u0001\u0000\u007f é日本 \\u0041 </script>" + ` \u003c\u003e\u0026 \\u003c HTTP/1.0 EVENT/1.0 50% %s %d %!`

func genString(rnd *rand.Rand, k int, allowLong bool) string {
	switch {
	case k == 0:
		return hostile
	case k == 1 && allowLong:
		return compose(rnd, 2000+rnd.Intn(4500))
	case k == 2:
		switch rnd.Intn(4) {
		case 0:
			return ""
		case 1:
			return `\`
		case 2:
			return "<>&\u2028"
		}
		return "\U0001F3E0"
	}
	if allowLong && rnd.Intn(12) == 0 {
		return compose(rnd, 1500+rnd.Intn(5000))
	}
	return compose(rnd, rnd.Intn(160))
}

func compose(rnd *rand.Rand, n int) string {
	var b strings.Builder
	for b.Len() < n {
		b.WriteString(pieces[rnd.Intn(len(pieces))])
	}
	return b.String()
}

var byteLens = []int{0, 1, 2, 3, 4, 5, 255, 256, 765, 766, 767, 768, 1023, 1024, 1025, 1536, 2047, 2048, 2049, 3000, 4999, 5000}

func genBytes(rnd *rand.Rand, k int, allowLong bool) []byte {
	var n int
	switch {
	case k == 0:
		n = 0
	case k == 1 && allowLong:
		n = 5000
	case k == 2:
		n = 1 + rnd.Intn(3)
	default:
		if rnd.Intn(2) == 0 {
			n = byteLens[rnd.Intn(len(byteLens))]
		} else {
			n = rnd.Intn(5001)
		}
		if !allowLong && n > 300 && rnd.Intn(12) != 0 {
			n = rnd.Intn(300)
		}
	}
	b := make([]byte, n)
	rnd.Read(b)
	return b
}

func (c *cell) genInt(rnd *rand.Rand, k int) int {
	n := (c.ihi - c.ilo) / c.istep // number of steps
	var v int64
	switch k {
	case 0:
		v = c.ilo
	case 1:
		v = c.ihi
	case 2:
		if c.ilo <= 0 && c.ihi >= 0 && c.ilo != 0 {
			v = 0
		} else {
			v = c.ilo + (n/2)*c.istep
		}
	case 3:
		v = c.ilo + minI64(1, n)*c.istep
	case 4:
		v = c.ihi - minI64(1, n)*c.istep
		if (v-c.ilo)%c.istep != 0 {
			v = c.ilo + n*c.istep
		}
	default:
		v = c.ilo + rnd.Int63n(n+1)*c.istep
	}
	return int(v)
}

func minI64(a, b int64) int64 {
	if a < b {
		return a
	}
	return b
}

var floatSpecials = []float64{0, 0.1, 1.0 / 3, 1e-7, 1e21, 1e20, 5e-324, 123456789.125, 0.000001, 0.0000009, 999999999999999900000, 2.2250738585072014e-308,
	1.7976931348623157e29, 16777217, 0.30000000000000004, 100000, 99.99999999999999, 1e-5, 3.141592653589793, -0.1, -1.0 / 3, -1e21, -273.15, 1, 2, 0.5}

func (c *cell) genFloat(rnd *rand.Rand, k int) float64 {
	if c.hasStep {
		// strictly valid values: min + j*step (as float64 arithmetic yields them), never above max
		n := int64(math.Floor((c.fhi - c.flo) / c.fstep))
		if n < 0 {
			n = 0
		}
		var j int64
		switch k {
		case 0:
			j = 0
		case 1:
			return c.fhi
		case 2:
			j = minI64(3, n)
		case 3:
			j = minI64(1, n)
		case 4:
			j = minI64(7, n)
		default:
			j = rnd.Int63n(n + 1)
		}
		v := c.flo + float64(j)*c.fstep
		if v > c.fhi {
			v = c.fhi
		}
		return v
	}
	in := func(v float64) bool { return v >= c.flo && v <= c.fhi }
	switch k {
	case 0:
		return c.flo
	case 1:
		return c.fhi
	}
	// a near neighbour of the value the characteristic holds now (one unit in the last place, a relative 1e-12, 1e-9 and
	// 1e-6 away): a different valid value
	if cur, ok := c.ch.Value.(float64); ok && k >= 2 && k%3 == 2 && !math.IsNaN(cur) && !math.IsInf(cur, 0) {
		for _, v := range []float64{math.Nextafter(cur, math.Inf(1)), math.Nextafter(cur, math.Inf(-1)), cur * (1 + 1e-12), cur * (1 - 1e-9), cur + 1e-6*math.Abs(cur)} {
			if v != cur && in(v) && !math.IsInf(v, 0) && rnd.Intn(2) == 0 {
				floatNeighbours.Add(1)
				return v
			}
		}
	}
	for try := 0; try < 8; try++ {
		var v float64
		if k < 2+len(floatSpecials) && try == 0 {
			v = floatSpecials[(k-2+c.idx)%len(floatSpecials)]
		} else {
			switch rnd.Intn(4) {
			case 0:
				v = floatSpecials[rnd.Intn(len(floatSpecials))]
			case 1:
				span := c.fhi - c.flo
				if span > 1e6 {
					span = 1e6
				}
				v = c.flo + rnd.Float64()*span
			case 2:
				v = math.Float64frombits(rnd.Uint64())
			default:
				v = float64(rnd.Intn(2000)-1000) / float64(1+rnd.Intn(999))
			}
		}
		if !math.IsNaN(v) && !math.IsInf(v, 0) && in(v) && !(v == 0 && math.Signbit(v)) {
			return v
		}
	}
	return c.flo
}

// gen returns the k-th valid value of the cell's format inside its bounds.
func (c *cell) gen(rnd *rand.Rand, k int, allowLong bool) interface{} {
	switch c.k {
	case kBool:
		if k < 2 {
			return k == 1
		}
		return rnd.Intn(2) == 0
	case kInt:
		return c.genInt(rnd, k)
	case kFloat:
		return c.genFloat(rnd, k)
	case kString:
		return genString(rnd, k, allowLong)
	case kBytes:
		return genBytes(rnd, k, allowLong)
	}
	return nil
}

func valueClass(v interface{}) string {
	switch x := v.(type) {
	case bool:
		return fmt.Sprint(x)
	case int:
		switch {
		case x < 0:
			return "negative"
		case x == 0:
			return "zero"
		case x < 256:
			return "<2^8"
		case x < 65536:
			return "<2^16"
		}
		return ">=2^16"
	case float64:
		s := strconv.FormatFloat(x, 'g', -1, 64)
		switch {
		case x == 0:
			return "zero"
		case x == math.Trunc(x) && math.Abs(x) < 1e15:
			return "integral"
		case strings.Contains(s, "e"):
			return "exponent-form"
		case len(s) > 12:
			return "many-digits"
		}
		return "short-decimal"
	case string:
		cl := []string{}
		if x == "" {
			return "empty"
		}
		if strings.ContainsAny(x, `"\`) {
			cl = append(cl, "quote/backslash")
		}
		if strings.ContainsAny(x, "<>&") {
			cl = append(cl, "html")
		}
		if strings.ContainsAny(x, "\u2028\u2029") {
			cl = append(cl, "u2028")
		}
		for _, r := range x {
			if r < 0x20 {
				cl = append(cl, "control")
				break
			}
		}
		for _, r := range x {
			if r > 0xFFFF {
				cl = append(cl, "non-bmp")
				break
			}
		}
		if len(x) > 1024 {
			cl = append(cl, "KB")
		}
		return strings.Join(cl, "+")
	case []byte:
		switch {
		case len(x) == 0:
			return "empty"
		case len(x) < 256:
			return fmt.Sprintf("mod3=%d", len(x)%3)
		case len(x) < 1024:
			return "<1KB"
		case len(x) < 3000:
			return "1-3KB"
		}
		return ">=3KB"
	}
	return "?"
}

// ---------------------------------------------------------------------------------------- JSON on the controller side

// decodeValue interprets the raw JSON of a "value" member for a format; the comparison rules are the
// monitor's: integers exactly (any JSON spelling of the same integer is accepted), floats by float64
// value, strings by their decoded bytes, tlv8 by the decoded base64 payload.
func decodeValue(k kind, raw []byte) (interface{}, error) {
	s := strings.TrimSpace(string(raw))
	switch k {
	case kBool:
		switch s {
		case "true", "1":
			return true, nil
		case "false", "0":
			return false, nil
		}
		return nil, fmt.Errorf("not a boolean: %s", trunc(s, 40))
	case kInt:
		if s == "" || !(s[0] == '-' || (s[0] >= '0' && s[0] <= '9')) {
			return nil, fmt.Errorf("not a number: %s", trunc(s, 40))
		}
		r, ok := new(big.Rat).SetString(s)
		if !ok {
			return nil, fmt.Errorf("not a number: %s", trunc(s, 40))
		}
		if !r.IsInt() || !r.Num().IsInt64() {
			return nil, fmt.Errorf("not an integer: %s", trunc(s, 40))
		}
		return int(r.Num().Int64()), nil
	case kFloat:
		if s == "" || !(s[0] == '-' || (s[0] >= '0' && s[0] <= '9')) {
			return nil, fmt.Errorf("not a number: %s", trunc(s, 40))
		}
		f, err := strconv.ParseFloat(s, 64)
		if err != nil {
			return nil, fmt.Errorf("not a number: %s", trunc(s, 40))
		}
		return f, nil
	case kString, kBytes:
		var str string
		if len(s) == 0 || s[0] != '"' {
			return nil, fmt.Errorf("not a string: %s", trunc(s, 40))
		}
		if err := json.Unmarshal([]byte(s), &str); err != nil {
			return nil, fmt.Errorf("string does not decode: %v", err)
		}
		if k == kString {
			return str, nil
		}
		b, err := base64.StdEncoding.DecodeString(str)
		if err != nil {
			return nil, fmt.Errorf("not base64: %v (%s)", err, trunc(str, 40))
		}
		if b == nil {
			b = []byte{}
		}
		return b, nil
	}
	return nil, fmt.Errorf("unknown format")
}

// encodeString renders a JSON string the way a controller may: style 0 escapes only what JSON requires,
// style 1 escapes every non-ASCII rune (surrogate pairs for non-BMP) and '/' as well.
func encodeString(s string, style int) string {
	var b strings.Builder
	b.WriteByte('"')
	for _, r := range s {
		switch {
		case r == '"':
			b.WriteString(`\"`)
		case r == '\\':
			b.WriteString(`\\`)
		case r == '\n' && style == 0:
			b.WriteString(`\n`)
		case r == '\t' && style == 0:
			b.WriteString(`\t`)
		case r < 0x20:
			fmt.Fprintf(&b, `\u%04x`, r)
		case r == '/' && style == 1:
			b.WriteString(`\/`)
		case r >= 0x7f && style == 1:
			if r > 0xFFFF {
				r -= 0x10000
				fmt.Fprintf(&b, `\u%04X\u%04x`, 0xD800+(r>>10), 0xDC00+(r&0x3FF))
			} else {
				fmt.Fprintf(&b, `\u%04x`, r)
			}
		default:
			b.WriteRune(r)
		}
	}
	b.WriteByte('"')
	return b.String()
}

var intSpellings, floatNeighbours atomic.Int64

func encodeValue(v interface{}, rnd *rand.Rand) string {
	switch x := v.(type) {
	case bool:
		if rnd.Intn(4) == 0 { // HAP lets a controller write booleans as 0 / 1
			if x {
				return "1"
			}
			return "0"
		}
		return strconv.FormatBool(x)
	case int:
		// a controller may spell the same integer with a fraction or an exponent (printf("%g") style encoders do):
		// 1e+02, 3.7E1, 100.0.  JSON has one number type; only spellings float64 holds exactly are used.
		if x > -(1<<53) && x < 1<<53 {
			switch rnd.Intn(8) {
			case 0:
				intSpellings.Add(1)
				return strconv.FormatFloat(float64(x), 'e', -1, 64)
			case 1:
				intSpellings.Add(1)
				return strings.ToUpper(strings.Replace(strconv.FormatFloat(float64(x), 'e', -1, 64), "e+0", "e", 1))
			case 2:
				intSpellings.Add(1)
				return strconv.Itoa(x) + ".0"
			}
		}
		return strconv.Itoa(x)
	case float64:
		s := strconv.FormatFloat(x, 'g', -1, 64)
		if rnd.Intn(4) == 0 {
			s = strconv.FormatFloat(x, 'e', -1, 64) // 1.5e+00: another spelling of the same number
		}
		return s
	case string:
		return encodeString(x, rnd.Intn(2))
	case []byte:
		return encodeString(base64.StdEncoding.EncodeToString(x), 0)
	}
	return "null"
}

// ---------------------------------------------------------------------------------------- shapes

type shape struct {
	Name   string `json:"name"`
	NAcc   int    `json:"accessories"`
	PerAcc int    `json:"synthetic_characteristics_per_accessory"` // 0: the whole catalog spread over NAcc
	Rounds int    `json:"values_per_characteristic"`
}

type ctorInfo struct {
	name string
	new  func() *characteristic.Characteristic
}

var (
	ctors      []ctorInfo
	typeToCtor = map[string]string{}
)

type world struct {
	nreq   int
	sh     shape
	rnd    *rand.Rand
	accs   []*accessory.Accessory
	cells  []*cell
	byID   map[[2]uint64]*cell
	app    *app.App
	ids    [2]*refctl.Identity
	conns  [2]*refctl.Conn
	ltpk   []byte
	accID  string
	dead   bool
	maxAid uint64
}

func buildShape(sh shape, rnd *rand.Rand) *world {
	w := &world{sh: sh, rnd: rnd, byID: map[[2]uint64]*cell{}}
	total := len(ctors)
	if sh.PerAcc*sh.NAcc > total {
		total = sh.PerAcc * sh.NAcc
	}
	// order: every constructor once (shuffled), then random repeats
	order := rnd.Perm(len(ctors))
	for len(order) < total {
		order = append(order, rnd.Intn(len(ctors)))
	}
	per := make([][]int, sh.NAcc)
	for j, ci := range order {
		per[j%sh.NAcc] = append(per[j%sh.NAcc], ci)
	}
	type pending struct {
		ctor string
		ch   *characteristic.Characteristic
		acc  *accessory.Accessory
	}
	// "explicit-ids" shapes: the application gives most accessories ids of its own (a bridge keeps the ids of the devices
	// behind it over restarts), in no particular order and with gaps; every fifth one is left to the container
	var explicitIDs []uint64
	if strings.Contains(sh.Name, "explicit-ids") {
		perm := rnd.Perm(sh.NAcc)
		explicitIDs = make([]uint64, sh.NAcc)
		for i := range explicitIDs {
			switch {
			case i == 0 || i%5 == 4: // (the container counts its own ids from 1: an explicit 1 would collide with them)
				explicitIDs[i] = 0
			default:
				explicitIDs[i] = uint64(1000 + 7*perm[i])
			}
		}
	}
	var pend []pending
	for i := 0; i < sh.NAcc; i++ {
		typ := accessory.TypeOther
		if i == 0 && sh.NAcc > 1 {
			typ = accessory.TypeBridge
		}
		info := accessory.Info{Name: fmt.Sprintf("c09 %s %d", sh.Name, i), SerialNumber: fmt.Sprintf("SN-%d", i), Manufacturer: "verif", Model: "c09", FirmwareRevision: "1.0"}
		if explicitIDs != nil {
			info.ID = explicitIDs[i] // 0: assigned by the container
		}
		acc := accessory.New(info, typ)
		for _, ch := range acc.Info.Service.Characteristics {
			name := typeToCtor[ch.Type]
			if name == "" {
				name = "type:" + ch.Type
			}
			pend = append(pend, pending{name, ch, acc})
		}
		list := per[i]
		for len(list) > 0 {
			n := 1 + rnd.Intn(10)
			if n > len(list) {
				n = len(list)
			}
			svc := service.New(fmt.Sprintf("%08X-0000-1000-8000-C09C09C09C09", 0xF0000000+rnd.Intn(0xFFFFF)))
			for _, ci := range list[:n] {
				ch := ctors[ci].new()
				svc.AddCharacteristic(ch)
				pend = append(pend, pending{ctors[ci].name, ch, acc})
			}
			list = list[n:]
			acc.AddService(svc)
		}
		w.accs = append(w.accs, acc)
	}
	for i, p := range pend {
		w.cells = append(w.cells, newCell(p.ctor, p.ch, p.acc, i))
	}
	return w
}

// ---------------------------------------------------------------------------------------- transport helpers

type witness struct {
	Shape    shape       `json:"database"`
	Request  string      `json:"request"`
	Body     string      `json:"request_body,omitempty"`
	Status   int         `json:"response_status,omitempty"`
	Response string      `json:"response_body,omitempty"`
	Chunks   int         `json:"response_chunks,omitempty"`
	Entry    interface{} `json:"entry,omitempty"`
	Ctor     string      `json:"constructor,omitempty"`
	Format   string      `json:"format,omitempty"`
	Perms    []string    `json:"perms,omitempty"`
	Expected string      `json:"expected,omitempty"`
	Got      string      `json:"got,omitempty"`
	Note     string      `json:"note,omitempty"`
}

func trunc(s string, n int) string {
	if len(s) > n {
		return s[:n] + fmt.Sprintf("...(%d bytes)", len(s))
	}
	return s
}

func errClass(err error) string {
	switch err.(type) {
	case *refctl.ErrBadFrame:
		return "bad-frame"
	case *refctl.MalformedError:
		return "malformed-response"
	}
	if err == refctl.ErrTimeout {
		return "unanswered"
	}
	if strings.Contains(err.Error(), "EOF") || strings.Contains(err.Error(), "reset") || strings.Contains(err.Error(), "broken pipe") {
		return "connection-closed"
	}
	return "error"
}

func (w *world) connect(i int) bool {
	c, err := w.app.Verified(w.ids[i], w.ltpk, w.accID)
	if err != nil {
		run.Inconclusive(fmt.Sprintf("shape %s: pair-verify of controller %d failed: %v", w.sh.Name, i, err))
		w.dead = true
		return false
	}
	c.Timeout = 30 * time.Second
	if i == 1 {
		rnd := rand.New(rand.NewSource(w.rnd.Int63()))
		c.SplitSizes = func(n int) []int {
			out := make([]int, 0, 64)
			for j := 0; j < 64; j++ {
				out = append(out, 1+rnd.Intn(1024))
			}
			return out
		}
	}
	w.conns[i] = c
	return true
}

// do sends one request on controller ci and returns the answer; transport failures are violations of
// class transport:<what> (an unanswered request is confirmed with the bounded-progress rule).
func (w *world) do(ci int, method, target string, body []byte) (*refctl.Message, int) {
	if w.dead {
		return nil, 0
	}
	c := w.conns[ci]
	f0 := c.FramesIn
	var m *refctl.Message
	var err error
	w.nreq++
	if method == "PUT" && len(body) > 0 && w.nreq%6 == 0 {
		// the same request without a Content-Length: the body in transfer-encoding chunks
		sizes := [][]int{{1 << 20}, {1}, {7, 1, 300}, {16, 16}}[w.nreq/6%4]
		run.Count("write_requests_sent_in_chunked_encoding", 1)
		if err = c.Send(refctl.BuildRequestChunked(method, target, refctl.ContentJSON, body, sizes)); err == nil {
			m, err = c.ReadResponse()
		}
	} else {
		m, err = c.Do(method, target, refctl.ContentJSON, body)
	}
	if err == refctl.ErrTimeout {
		un, late, perr := w.app.Unanswered(c)
		switch {
		case perr != nil:
			run.Inconclusive("bounded-progress probe failed: " + perr.Error())
			w.dead = true
			return nil, 0
		case un:
			run.Violation("transport:unanswered", fmt.Sprintf("%s %s was not answered while 50 round trips on other connections completed", method, trunc(target, 60)),
				witness{Shape: w.sh, Request: method + " " + trunc(target, 300), Body: trunc(string(body), 300)})
			c.Close()
			w.connect(ci)
			return nil, 0
		case late != nil:
			m, err = late, nil
		default:
			err = fmt.Errorf("connection closed while waiting (EOF)")
		}
	}
	if err != nil {
		run.Violation("transport:"+errClass(err), fmt.Sprintf("%s %s: %v", method, trunc(target, 60), err),
			witness{Shape: w.sh, Request: method + " " + trunc(target, 300), Body: trunc(string(body), 300), Note: err.Error()})
		c.Close()
		w.connect(ci)
		return nil, 0
	}
	frames := c.FramesIn - f0
	run.Count("responses", 1)
	noteSize(method+" "+strings.SplitN(target, "?", 2)[0], m.Chunks, frames, len(m.Body))
	return m, frames
}

var (
	sampleMu   sync.Mutex
	sampleDone = map[string]bool{}
)

// sampleOnce writes one observed case of a class into the evidence.
func sampleOnce(class string, f func() interface{}) {
	sampleMu.Lock()
	done := sampleDone[class]
	sampleDone[class] = true
	sampleMu.Unlock()
	if !done {
		run.Sample(f())
	}
}

var (
	sizeMu    sync.Mutex
	maxChunks = map[string]int{}
	maxFrames = map[string]int{}
	maxBytes  = map[string]int{}
)

func noteSize(what string, chunks, frames, n int) {
	sizeMu.Lock()
	if chunks > maxChunks[what] {
		maxChunks[what] = chunks
	}
	if frames > maxFrames[what] {
		maxFrames[what] = frames
	}
	if n > maxBytes[what] {
		maxBytes[what] = n
	}
	sizeMu.Unlock()
	run.Distinct("response_chunks_class", sizeClass(chunks))
	run.Distinct("response_frames_class", sizeClass(frames))
	if chunks >= 20 {
		run.Count("responses_spanning_20_or_more_chunks", 1)
	}
	if frames >= 40 {
		run.Count("responses_spanning_40_or_more_frames", 1)
	}
}

func sizeClass(n int) string {
	switch {
	case n <= 3:
		return strconv.Itoa(n)
	case n < 8:
		return "4-7"
	case n < 20:
		return "8-19"
	case n < 40:
		return "20-39"
	case n < 100:
		return "40-99"
	case n < 400:
		return "100-399"
	}
	return ">=400"
}

// ---------------------------------------------------------------------------------------- GET /characteristics

type ref struct {
	aid, iid uint64
	c        *cell  // nil: the id does not exist
	why      string // for non-existing ids: which kind
}

func (w *world) unknownRef() ref {
	rnd := w.rnd
	a := w.accs[rnd.Intn(len(w.accs))]
	last := uint64(0)
	for _, s := range a.Services {
		for _, ch := range s.Characteristics {
			if ch.ID > last {
				last = ch.ID
			}
		}
	}
	// an existing characteristic of a: ids that ALIAS it under a lossy id handling (truncation to 8/16/32 bits,
	// packing aid and iid into one word, swapping them) must still be unknown
	var some uint64
	for _, s := range a.Services {
		if len(s.Characteristics) > 0 {
			some = s.Characteristics[rnd.Intn(len(s.Characteristics))].ID
		}
	}
	switch rnd.Intn(12) {
	case 7:
		sh := []uint{8, 16, 32, 33, 48, 63}[rnd.Intn(6)]
		return ref{aid: a.ID + 1<<sh, iid: some, why: "aid-aliases-existing-modulo-2^k"}
	case 8:
		sh := []uint{8, 16, 32, 33, 48, 63}[rnd.Intn(6)]
		return ref{aid: a.ID, iid: some + 1<<sh, why: "iid-aliases-existing-modulo-2^k"}
	case 9:
		// iid + (m << 32) with m a subset of the aid's bits: collides when (aid<<32 | iid) is used as a key
		return ref{aid: a.ID, iid: some + a.ID<<32, why: "iid-carries-aid-bits"}
	case 10:
		if _, exists := w.byID[[2]uint64{some, a.ID}]; some != a.ID && !exists && !w.isServiceID(some, a.ID) {
			return ref{aid: some, iid: a.ID, why: "aid-iid-swapped"}
		}
		return ref{aid: a.ID + 1<<32, iid: some + 1<<32, why: "both-alias-modulo-2^32"}
	case 11:
		return ref{aid: a.ID + 1<<32, iid: some + 1<<32, why: "both-alias-modulo-2^32"}
	case 0:
		return ref{aid: w.maxAid + 1 + uint64(rnd.Intn(5)), iid: 1 + uint64(rnd.Intn(20)), why: "unknown-aid"}
	case 1:
		return ref{aid: a.ID, iid: last + 1 + uint64(rnd.Intn(50)), why: "unknown-iid"}
	case 2:
		return ref{aid: a.ID, iid: a.Services[rnd.Intn(len(a.Services))].ID, why: "iid-of-a-service"}
	case 3:
		return ref{aid: math.MaxUint64, iid: 2, why: "aid-2^64-1"}
	case 4:
		return ref{aid: a.ID, iid: math.MaxUint64, why: "iid-2^64-1"}
	case 5:
		return ref{aid: 0, iid: 2, why: "aid-0"}
	}
	return ref{aid: a.ID, iid: 0, why: "iid-0"}
}

func targetFor(list []ref) string { return target(list) }

func target(list []ref) string {
	var b strings.Builder
	b.WriteString("/characteristics?id=")
	for i, r := range list {
		if i > 0 {
			b.WriteByte(',')
		}
		fmt.Fprintf(&b, "%d.%d", r.aid, r.iid)
	}
	return b.String()
}

type readBack struct {
	val interface{}
	ok  bool
}

// get issues one GET /characteristics for the list and checks shape and values against the model.
// allowDup says that the list deliberately contains an id twice.
func (w *world) get(ci int, list []ref, allowDup bool, seen map[*cell]readBack) {
	tgt := target(list)
	if w.rnd.Intn(10) == 0 { // the options HAP defines for a read; values must be unaffected
		tgt += "&meta=1&perms=1&type=1&ev=1"
		run.Count("get_requests_with_meta_perms_type_ev_options", 1)
	}
	m, _ := w.do(ci, "GET", tgt, nil)
	if m == nil {
		return
	}
	run.Count("get_requests", 1)
	run.Distinct("id_list_length", strconv.Itoa(len(list)))
	wit := func() witness {
		return witness{Shape: w.sh, Request: "GET " + trunc(tgt, 400), Status: m.Status, Response: trunc(string(m.Body), 1200), Chunks: m.Chunks}
	}
	var cl refctl.CharList
	if err := json.Unmarshal(m.Body, &cl); err != nil {
		x := wit()
		x.Note = err.Error()
		run.Violation("transport:characteristics-body-unparsable", fmt.Sprintf("the body of a GET /characteristics answer (%d bytes, %d chunks, HTTP %d) is not the JSON object HAP defines: %v", len(m.Body), m.Chunks, m.Status, err), x)
		return
	}
	if m.Status != 200 && m.Status != 207 {
		run.Violation("get:http-status", fmt.Sprintf("GET /characteristics for %d well-formed ids answered HTTP %d", len(list), m.Status), wit())
		return
	}
	// --- each requested id exactly once, in order
	got := cl.Characteristics
	want := list
	if allowDup {
		// a server may answer a repeated id once or as often as requested: accept both
		if len(got) != len(list) {
			var dd []ref
			seenID := map[[2]uint64]bool{}
			for _, r := range list {
				if !seenID[[2]uint64{r.aid, r.iid}] {
					seenID[[2]uint64{r.aid, r.iid}] = true
					dd = append(dd, r)
				}
			}
			want = dd
		}
	}
	reqN := map[[2]uint64]int{}
	for _, r := range want {
		reqN[[2]uint64{r.aid, r.iid}]++
	}
	ansN := map[[2]uint64]int{}
	for _, e := range got {
		ansN[[2]uint64{e.AID, e.IID}]++
	}
	for _, r := range want {
		k := [2]uint64{r.aid, r.iid}
		if ansN[k] < reqN[k] {
			x := wit()
			x.Entry = fmt.Sprintf("%d.%d", r.aid, r.iid)
			run.Violation("get:entry-missing", fmt.Sprintf("requested id %d.%d is answered %d times instead of %d (answer has %d entries for %d requested ids)", r.aid, r.iid, ansN[k], reqN[k], len(got), len(want)), x)
			return
		}
	}
	for _, e := range got {
		k := [2]uint64{e.AID, e.IID}
		if ansN[k] > reqN[k] {
			x := wit()
			x.Entry = fmt.Sprintf("%d.%d", e.AID, e.IID)
			run.Violation("get:entry-duplicated", fmt.Sprintf("id %d.%d is answered %d times, requested %d times", e.AID, e.IID, ansN[k], reqN[k]), x)
			return
		}
	}
	for i := range want {
		if got[i].AID != want[i].aid || got[i].IID != want[i].iid {
			x := wit()
			x.Entry = fmt.Sprintf("position %d: requested %d.%d, answered %d.%d", i, want[i].aid, want[i].iid, got[i].AID, got[i].IID)
			run.Violation("get:order", fmt.Sprintf("the entries are not in request order: position %d holds %d.%d, requested was %d.%d", i, got[i].AID, got[i].IID, want[i].aid, want[i].iid), x)
			return
		}
	}
	// --- multi-status: every entry carries a status
	multi := m.Status == 207
	anyErr := false
	for _, e := range got {
		if e.Status != nil {
			multi = true
			if *e.Status != 0 {
				anyErr = true
			}
		}
	}
	if multi {
		run.Count("get_answers_multi_status", 1)
		for i, e := range got {
			if e.Status == nil {
				x := wit()
				x.Entry = e
				if want[i].c != nil {
					x.Ctor, x.Format, x.Perms = want[i].c.ctor, want[i].c.format, want[i].c.ch.Perms
				}
				run.Violation("get:multi-status:entry-without-status", fmt.Sprintf("HTTP %d multi-status answer: entry %d (%d.%d) of %d has no status member", m.Status, i, e.AID, e.IID, len(got)), x)
				break
			}
		}
	} else {
		run.Count("get_answers_all_ok", 1)
	}
	if anyErr && m.Status != 207 {
		run.Count("observation_get_error_entries_with_http_200", 1)
	}
	// --- per entry
	for i, e := range got {
		r := want[i]
		hasErr := e.Status != nil && *e.Status != 0
		x := func() witness {
			y := wit()
			y.Entry = e
			if r.c != nil {
				y.Ctor, y.Format, y.Perms = r.c.ctor, r.c.format, r.c.ch.Perms
			}
			return y
		}
		switch {
		case r.c == nil:
			run.Count("get_entries_for_non_existing_ids", 1)
			run.Distinct("non_existing_id_kind", r.why)
			if e.Value != nil {
				y := x()
				y.Note = r.why
				run.Violation("get:unknown-id:has-value", fmt.Sprintf("id %d.%d does not exist (%s) but is answered with a value", r.aid, r.iid, r.why), y)
			} else if !hasErr {
				y := x()
				y.Note = r.why
				run.Violation("get:unknown-id:neither-value-nor-status", fmt.Sprintf("id %d.%d does not exist (%s) and is answered with neither a value nor an error status", r.aid, r.iid, r.why), y)
			}
		case !r.c.readable:
			run.Count("get_entries_for_write_only_characteristics", 1)
			run.Distinct("write_only_constructor_read", r.c.ctor)
			if e.Value != nil {
				run.Count("observation_write_only_answered_with_value(C11)", 1)
			} else if !hasErr {
				run.Violation("get:write-only:neither-value-nor-status", fmt.Sprintf("%s (%s, perms %v) has no read permission; GET answers it with neither a value nor an error status", r.c.ctor, r.c.format, r.c.ch.Perms), x())
			}
		default:
			c := r.c
			run.Eval()
			run.Count("get_values_compared", 1)
			c.nRead++
			exp := show(c.cur)
			if e.Value != nil && hasErr {
				y := x()
				y.Expected = exp
				run.Violation("get:value-with-error-status", fmt.Sprintf("%s (%s, readable) is answered with a value AND the error status %d: a controller reads a non-zero status as a failed read", c.ctor, c.format, *e.Status), y)
				continue
			}
			if e.Value == nil {
				y := x()
				y.Expected = exp
				st := "no status"
				if e.Status != nil {
					st = fmt.Sprintf("status %d", *e.Status)
				}
				run.Violation("get:value-missing:"+c.format, fmt.Sprintf("%s (%s, readable) is answered without a value (%s); the application had set %s", c.ctor, c.format, st, exp), y)
				continue
			}
			v, err := decodeValue(c.k, *e.Value)
			if err != nil || !sameValue(v, c.cur) {
				y := x()
				y.Expected = exp
				if err != nil {
					y.Got = err.Error() + ": " + trunc(string(*e.Value), 200)
				} else {
					y.Got = show(v) + "  raw " + trunc(string(*e.Value), 200)
				}
				run.Violation("get:value-differs:"+c.format, fmt.Sprintf("%s (%s): the application's value is %s, GET /characteristics carries %s", c.ctor, c.format, exp, y.Got), y)
				continue
			}
			if seen != nil {
				seen[c] = readBack{v, true}
			}
			run.Distinct("constructor_read", c.ctor)
			run.Distinct("value_class_read", c.format+":"+valueClass(c.cur))
			if (c.k == kString || c.k == kFloat) && len(list) <= 3 {
				sampleOnce("read:"+c.format, func() interface{} {
					return map[string]interface{}{"direction": "application -> controller", "constructor": c.ctor, "format": c.format, "application_set": show(c.cur),
						"request": "GET " + tgt, "response_status": m.Status, "response_body": trunc(string(m.Body), 500), "decoded_equal": true}
				})
			}
		}
	}
}

// ---------------------------------------------------------------------------------------- GET /accessories

func (w *world) accessories(ci int, seen map[*cell]readBack) *refctl.AttrDB {
	m, _ := w.do(ci, "GET", "/accessories", nil)
	if m == nil {
		return nil
	}
	run.Count("accessories_requests", 1)
	wit := func() witness {
		return witness{Shape: w.sh, Request: "GET /accessories", Status: m.Status, Response: trunc(string(m.Body), 600), Chunks: m.Chunks}
	}
	if m.Status != 200 {
		run.Violation("accessories:http-status", fmt.Sprintf("GET /accessories answered HTTP %d", m.Status), wit())
		return nil
	}
	db, err := refctl.ParseAttrDB(m.Body)
	if err != nil {
		x := wit()
		x.Note = err.Error()
		if se, ok := err.(*json.SyntaxError); ok {
			lo := int(se.Offset) - 60
			if lo < 0 {
				lo = 0
			}
			hi := minInt(len(m.Body), int(se.Offset)+60)
			x.Note += fmt.Sprintf(" at offset %d: ...%s...", se.Offset, string(m.Body[lo:hi]))
		}
		run.Violation("transport:accessories-body-unparsable", fmt.Sprintf("the body of GET /accessories (%d bytes, %d chunks) is not the JSON document HAP defines: %v", len(m.Body), m.Chunks, err), x)
		return nil
	}
	if len(db.Accessories) != len(w.accs) {
		run.Violation("accessories:entry-missing", fmt.Sprintf("GET /accessories lists %d accessories, the application has %d", len(db.Accessories), len(w.accs)), wit())
		return nil
	}
	idx := map[[2]uint64]*refctl.AttrChar{}
	for i := range db.Accessories {
		a := &db.Accessories[i]
		for j := range a.Services {
			for k := range a.Services[j].Characteristics {
				ch := &a.Services[j].Characteristics[k]
				key := [2]uint64{a.AID, ch.IID}
				if idx[key] != nil {
					run.Count("observation_accessories_duplicate_id(C14)", 1)
				}
				idx[key] = ch
			}
		}
	}
	for _, c := range w.cells {
		e := idx[[2]uint64{c.aid(), c.iid()}]
		x := func() witness {
			y := wit()
			y.Response = ""
			y.Ctor, y.Format, y.Perms = c.ctor, c.format, c.ch.Perms
			y.Entry = e
			return y
		}
		if e == nil {
			run.Violation("accessories:entry-missing", fmt.Sprintf("characteristic %s of %s is not listed in GET /accessories", c.id(), c.ctor), x())
			return db
		}
		if !c.readable {
			if len(e.Value) > 0 {
				run.Count("observation_write_only_listed_with_value(C11)", 1)
			}
			continue
		}
		run.Eval()
		run.Count("accessories_values_compared", 1)
		exp := show(c.cur)
		if len(e.Value) == 0 {
			y := x()
			y.Expected = exp
			run.Violation("accessories:value-missing:"+c.format, fmt.Sprintf("%s (%s, readable) is listed without a value in GET /accessories; the application's value is %s", c.ctor, c.format, exp), y)
			continue
		}
		v, err := decodeValue(c.k, e.Value)
		if err != nil || !sameValue(v, c.cur) {
			y := x()
			y.Expected = exp
			if err != nil {
				y.Got = err.Error() + ": " + trunc(string(e.Value), 200)
			} else {
				y.Got = show(v) + "  raw " + trunc(string(e.Value), 200)
			}
			y.Entry = nil
			run.Violation("accessories:value-differs:"+c.format, fmt.Sprintf("%s (%s): the application's value is %s, GET /accessories carries %s", c.ctor, c.format, exp, y.Got), y)
			continue
		}
		run.Distinct("constructor_listed", c.ctor)
		if seen != nil {
			if rb, ok := seen[c]; ok && rb.ok {
				run.Count("accessories_values_equal_to_characteristics_values", 1)
				if !sameValue(rb.val, v) {
					y := x()
					y.Expected = show(rb.val)
					y.Got = show(v)
					run.Violation("accessories:differs-from-characteristics:"+c.format, fmt.Sprintf("%s: GET /characteristics carried %s, GET /accessories carries %s", c.ctor, show(rb.val), show(v)), y)
				}
			}
		}
	}
	return db
}

// ---------------------------------------------------------------------------------------- PUT

type write struct {
	r   ref
	val interface{}
	raw string
}

func putBody(ws []write) []byte {
	var b bytes.Buffer
	b.WriteString(`{"characteristics":[`)
	for i, x := range ws {
		if i > 0 {
			b.WriteByte(',')
		}
		// every third entry for a characteristic that notifies carries the subscription together with the value (both
		// members are optional and independent: the value is written AND the subscription changed)
		ev := ""
		if putEntries++; putEntries%3 == 0 && x.r.c != nil && x.r.c.ch.IsObservable() {
			ev = []string{`,"ev":true`, `,"ev":false`}[putEntries/3%2]
			run.Count("write_entries_that_also_carry_a_subscription", 1)
		}
		if ev != "" && putEntries%2 == 0 {
			fmt.Fprintf(&b, `{"aid":%d,"iid":%d%s,"value":%s}`, x.r.aid, x.r.iid, ev, x.raw)
		} else {
			fmt.Fprintf(&b, `{"aid":%d,"iid":%d,"value":%s%s}`, x.r.aid, x.r.iid, x.raw, ev)
		}
	}
	b.WriteString(`]}`)
	return b.Bytes()
}

var putEntries int

// put writes the entries in one request and checks getter, callback and answer.
func (w *world) put(ci int, ws []write) {
	body := putBody(ws)
	// callbacks that fired before (there should be none)
	for _, x := range ws {
		if x.r.c != nil {
			if pre := x.r.c.takeCallbacks(); len(pre) > 0 {
				run.Violation("put:callback-count", fmt.Sprintf("%s: the remote-update callback fired %d times without a write", x.r.c.ctor, len(pre)),
					witness{Shape: w.sh, Ctor: x.r.c.ctor, Format: x.r.c.format, Note: "stray callback"})
			}
		}
	}
	m, _ := w.do(ci, "PUT", "/characteristics", body)
	if m == nil {
		// state unknown: resynchronise the model from the application
		for _, x := range ws {
			if c := x.r.c; c != nil && c.readable {
				if v, p := c.appGet(); p == "" {
					c.cur = v
				}
				c.takeCallbacks()
			}
		}
		return
	}
	run.Count("put_requests", 1)
	run.Distinct("put_entries_per_request", strconv.Itoa(len(ws)))
	run.Distinct("put_body_frames", sizeClass((len(body)+200)/1024+1))
	wit := func() witness {
		return witness{Shape: w.sh, Request: "PUT /characteristics", Body: trunc(string(body), 600), Status: m.Status, Response: trunc(string(m.Body), 600)}
	}
	// what the answer says per entry
	type verdict struct {
		present bool
		status  int
		has     bool
	}
	said := make([]verdict, len(ws))
	if m.Status != 204 {
		if m.Status < 200 || m.Status > 299 {
			run.Violation("put:http-status", fmt.Sprintf("PUT of %d valid values answered HTTP %d", len(ws), m.Status), wit())
			for _, x := range ws {
				if c := x.r.c; c != nil {
					if c.readable {
						if v, p := c.appGet(); p == "" {
							c.cur = v
						}
					}
					c.takeCallbacks()
				}
			}
			return
		}
		var cl refctl.CharList
		if err := json.Unmarshal(m.Body, &cl); err != nil {
			x := wit()
			x.Note = err.Error()
			run.Violation("transport:characteristics-body-unparsable", fmt.Sprintf("the body of a PUT /characteristics answer (HTTP %d, %d bytes) is not JSON: %v", m.Status, len(m.Body), err), x)
		}
		// entries must name requested ids, in request order, each at most once, each with a status
		pos := 0
		for _, e := range cl.Characteristics {
			found := -1
			for j := pos; j < len(ws); j++ {
				if ws[j].r.aid == e.AID && ws[j].r.iid == e.IID {
					found = j
					break
				}
			}
			if found < 0 {
				x := wit()
				x.Entry = e
				run.Violation("put:answer-entry-not-requested-or-out-of-order", fmt.Sprintf("the PUT answer holds an entry %d.%d that was not requested, is repeated or is out of request order", e.AID, e.IID), x)
				continue
			}
			pos = found + 1
			said[found].present = true
			if e.Status != nil {
				said[found].has, said[found].status = true, *e.Status
			} else {
				x := wit()
				x.Entry = e
				run.Violation("put:multi-status:entry-without-status", fmt.Sprintf("the PUT answer (HTTP %d) holds an entry %d.%d without a status", m.Status, e.AID, e.IID), x)
			}
		}
	}
	for i, x := range ws {
		c := x.r.c
		if c == nil {
			run.Count("put_entries_for_non_existing_ids", 1)
			if m.Status == 204 || !said[i].present || (said[i].has && said[i].status == 0) {
				y := wit()
				y.Note = x.r.why
				y.Entry = fmt.Sprintf("%d.%d", x.r.aid, x.r.iid)
				run.Violation("put:unknown-id:silently-ignored", fmt.Sprintf("a PUT naming id %d.%d, which does not exist (%s), is answered HTTP %d without an error status for it, as if every write had been applied", x.r.aid, x.r.iid, x.r.why, m.Status), y)
			}
			continue
		}
		run.Eval()
		run.Count("put_values_written", 1)
		c.nWritten++
		refused := said[i].present && said[i].has && said[i].status != 0
		y := func() witness {
			z := wit()
			z.Ctor, z.Format, z.Perms = c.ctor, c.format, c.ch.Perms
			z.Expected = show(x.val)
			z.Entry = fmt.Sprintf("%d.%d value %s", x.r.aid, x.r.iid, trunc(x.raw, 200))
			return z
		}
		cbs := c.takeCallbacks()
		if refused {
			z := y()
			z.Note = fmt.Sprintf("status %d", said[i].status)
			run.Violation("put:refused:"+c.format, fmt.Sprintf("%s (%s, perms %v): the write of the valid value %s is answered with status %d", c.ctor, c.format, c.ch.Perms, show(x.val), said[i].status), z)
			if c.readable {
				if v, p := c.appGet(); p == "" {
					c.cur = v
				}
			}
			continue
		}
		changed := !c.known || !sameValue(c.cur, x.val)
		// getter
		if c.readable {
			v, p := c.appGet()
			if p != "" || !sameValue(v, x.val) {
				z := y()
				if p != "" {
					z.Got = "typed getter panics: " + trunc(p, 300)
				} else {
					z.Got = show(v)
				}
				run.Violation("put:getter-differs:"+c.format, fmt.Sprintf("%s (%s): the controller wrote %s (answered HTTP %d), the application's typed getter returns %s", c.ctor, c.format, show(x.val), m.Status, z.Got), z)
				if p == "" {
					c.cur = v
				}
			} else {
				c.cur, c.known = x.val, true
				run.Distinct("constructor_written", c.ctor)
				if (c.k == kString || c.k == kFloat) && len(ws) == 1 && len(x.raw) < 300 {
					sampleOnce("write:"+c.format, func() interface{} {
						return map[string]interface{}{"direction": "controller -> application", "constructor": c.ctor, "format": c.format, "request": "PUT /characteristics", "request_body": string(body),
							"response_status": m.Status, "typed_getter_returns": show(v), "callbacks": len(cbs), "previous_value_differs": changed}
					})
				}
				run.Distinct("value_class_written", c.format+":"+valueClass(x.val))
			}
		} else {
			run.Distinct("constructor_written", c.ctor)
			run.Distinct("write_only_constructor_written", c.ctor)
		}
		// callback
		wantN := 0
		if changed {
			wantN = 1
			run.Count("put_changing_writes", 1)
		} else {
			run.Count("put_same_value_writes", 1)
		}
		if len(cbs) != wantN {
			z := y()
			z.Got = fmt.Sprintf("%d callbacks", len(cbs))
			what := "differs from"
			if !changed {
				what = "equals"
			}
			run.Violation("put:callback-count", fmt.Sprintf("%s (%s): the written value %s the previous value, the typed remote-update callback fired %d times instead of %d", c.ctor, c.format, what, len(cbs), wantN), z)
		} else if wantN == 1 {
			run.Count("callbacks_checked", 1)
			if !sameValue(cbs[0], x.val) {
				z := y()
				z.Got = show(cbs[0])
				run.Violation("put:callback-value", fmt.Sprintf("%s (%s): the controller wrote %s, the typed remote-update callback received %s", c.ctor, c.format, show(x.val), show(cbs[0])), z)
			}
		}
	}
}

// ---------------------------------------------------------------------------------------- one database

// putWithBystanders: one PUT whose entries alternate between "write this value" and "only subscribe" ({"aid","iid","ev":true},
// no value): a controller that writes one characteristic and subscribes to others in the same request.  The entries
// without a value name writable characteristics; the application's value of those must be what it was, and their
// remote-update callbacks silent.  The written ones are checked as always by the reads that follow.
func (w *world) putWithBystanders(ci int, rnd *rand.Rand, writable []*cell, k int) {
	perm := rnd.Perm(len(writable))
	var b bytes.Buffer
	b.WriteString(`{"characteristics":[`)
	type by struct {
		c      *cell
		before interface{}
	}
	var bys []by
	var written []*cell
	var vals []interface{}
	n := 0
	for _, i := range perm {
		c := writable[i]
		if n >= 6 {
			break
		}
		if n > 0 {
			b.WriteByte(',')
		}
		if n%2 == 0 {
			v := c.gen(rnd, k+rnd.Intn(2)*5, false)
			fmt.Fprintf(&b, `{"aid":%d,"iid":%d,"value":%s}`, c.aid(), c.iid(), encodeValue(v, rnd))
			written, vals = append(written, c), append(vals, v)
		} else {
			if !c.readable {
				continue
			}
			v, p := c.appGet()
			if p != "" {
				continue
			}
			c.takeCallbacks()
			fmt.Fprintf(&b, `{"aid":%d,"iid":%d,"ev":true}`, c.aid(), c.iid())
			bys = append(bys, by{c, v})
		}
		n++
	}
	b.WriteString(`]}`)
	body := b.Bytes()
	if bytes.Contains(body, []byte(",,")) || bytes.Contains(body, []byte("[,")) || bytes.HasSuffix(body, []byte(",]}")) {
		return // (an entry was skipped after the comma was written)
	}
	m, _ := w.do(ci, "PUT", "/characteristics", body)
	run.Count("put_requests_mixing_values_and_subscriptions", 1)
	for i, c := range written {
		// resynchronise the model of the written ones from the application (their fidelity is judged by put / get)
		if c.readable {
			if v, p := c.appGet(); p == "" {
				if m != nil && m.Status/100 == 2 && !sameValue(v, vals[i]) && m.Status == 204 {
					run.Violation("put:getter-differs:"+c.format, fmt.Sprintf("%s (%s): the controller wrote %s in a request that also subscribes to other characteristics (answered HTTP 204), the application's typed getter returns %s", c.ctor, c.format, show(vals[i]), show(v)),
						witness{Shape: w.sh, Request: "PUT /characteristics", Body: trunc(string(body), 600), Ctor: c.ctor, Format: c.format, Expected: show(vals[i]), Got: show(v)})
				}
				c.cur, c.known = v, true
			}
		}
		c.takeCallbacks()
	}
	if m == nil {
		return
	}
	for _, x := range bys {
		run.Eval()
		run.Count("entries_without_a_value_checked", 1)
		v, p := x.c.appGet()
		cbs := x.c.takeCallbacks()
		if p != "" || !sameValue(v, x.before) || len(cbs) > 0 {
			got := show(v)
			if p != "" {
				got = "typed getter panics: " + trunc(p, 200)
			}
			run.Violation("put:entry-without-value:value-changed:"+x.c.format, fmt.Sprintf("%s (%s): a PUT entry that only subscribes (no value) changed the application's value from %s to %s (%d remote-update callbacks)", x.c.ctor, x.c.format, show(x.before), got, len(cbs)),
				witness{Shape: w.sh, Request: "PUT /characteristics", Body: trunc(string(body), 600), Status: m.Status, Response: trunc(string(m.Body), 300), Ctor: x.c.ctor, Format: x.c.format, Expected: show(x.before), Got: got})
			if p == "" {
				x.c.cur = v
			}
		}
	}
}

// abandonAnswer: a third connection of a verified controller asks for the whole database (or for many values) and leaves
// before or while the answer is written.  What that aborted answer leaves behind in the accessory must not show in the
// answers the other controllers get (they are compared value by value as always).
func (w *world) abandonAnswer(rnd *rand.Rand) {
	c, err := refctl.Dial(w.app.Addr)
	if err != nil {
		return
	}
	c.Timeout = 20 * time.Second
	if _, err := c.PairVerify(w.ids[rnd.Intn(2)], w.ltpk, w.accID, nil); err != nil {
		c.Close()
		return
	}
	target := "/accessories"
	if rnd.Intn(3) == 0 && len(w.cells) > 0 {
		var l []ref
		for i := 0; i < 40 && i < len(w.cells); i++ {
			cc := w.cells[rnd.Intn(len(w.cells))]
			l = append(l, ref{aid: cc.aid(), iid: cc.iid(), c: cc})
		}
		target = targetFor(l)
	}
	c.Send(refctl.BuildRequest("GET", target, "", nil))
	if rnd.Intn(3) > 0 {
		time.Sleep(time.Duration(rnd.Intn(500)) * time.Microsecond)
	}
	if rnd.Intn(4) == 0 {
		c.CloseGraceful()
	} else {
		c.Close()
	}
	run.Count("answers_abandoned_by_a_third_connection", 1)
}

func (w *world) allowLong() bool { return len(w.cells) < 600 }

func (w *world) start(base string) bool {
	dir := app.ScratchDir(base, "store")
	w.ids[0] = refctl.NewIdentity("c09-ctl-A-"+w.sh.Name, w.rnd)
	w.ids[1] = refctl.NewIdentity("c09-ctl-B-\U0001F3E0-"+w.sh.Name, w.rnd)
	app.StoreController(dir, w.ids[0])
	app.StoreController(dir, w.ids[1])
	a, err := app.Start(dir, "00102003", w.accs[0], w.accs[1:]...)
	if err != nil {
		run.Inconclusive(fmt.Sprintf("shape %s: transport did not start: %v", w.sh.Name, err))
		os.RemoveAll(dir)
		return false
	}
	w.app = a
	ae, ok := app.AccessoryEntity(dir)
	if !ok {
		run.Inconclusive("no accessory entity in the storage directory")
		return false
	}
	w.ltpk, w.accID = ae.PublicKey, ae.Name
	for _, acc := range w.accs {
		if acc.ID > w.maxAid {
			w.maxAid = acc.ID
		}
	}
	for _, c := range w.cells {
		w.byID[[2]uint64{c.aid(), c.iid()}] = c
		if c.readable {
			if v, p := c.appGet(); p == "" {
				c.cur, c.known = v, true
			}
		}
	}
	return w.connect(0) && w.connect(1)
}

func (w *world) stop() {
	for _, c := range w.conns {
		if c != nil {
			c.Close()
		}
	}
	if w.app != nil {
		w.app.Stop()
		os.RemoveAll(w.app.Dir)
	}
}

func cellRefs(cs []*cell) []ref {
	out := make([]ref, len(cs))
	for i, c := range cs {
		out[i] = ref{aid: c.aid(), iid: c.iid(), c: c}
	}
	return out
}

// minimalProbes issues the smallest requests of each answer-shape class first, so that the witness
// recorded for a shape defect is minimal.
func (w *world) minimalProbes() {
	var rd, wo, wr *cell
	for _, c := range w.cells {
		switch {
		case c.readable && c.k == kInt && rd == nil:
			rd = c
		case !c.readable && wo == nil:
			wo = c
		}
		if c.readable && c.writable && c.k == kInt && wr == nil && c != rd {
			wr = c
		}
	}
	unk := ref{aid: w.maxAid + 1, iid: 2, why: "unknown-aid"}
	unk2 := ref{aid: w.accs[0].ID, iid: 100000, why: "unknown-iid"}
	if rd != nil {
		w.get(0, []ref{{aid: rd.aid(), iid: rd.iid(), c: rd}}, false, nil)
		w.get(0, []ref{{aid: rd.aid(), iid: rd.iid(), c: rd}, unk}, false, nil)
		w.get(1, []ref{unk2, {aid: rd.aid(), iid: rd.iid(), c: rd}}, false, nil)
	}
	w.get(0, []ref{unk}, false, nil)
	if wo != nil {
		w.get(0, []ref{{aid: wo.aid(), iid: wo.iid(), c: wo}}, false, nil)
		if rd != nil {
			w.get(1, []ref{{aid: rd.aid(), iid: rd.iid(), c: rd}, {aid: wo.aid(), iid: wo.iid(), c: wo}}, false, nil)
		}
	}
	w.put(0, []write{{r: unk, val: 1, raw: "1"}})
	if wr != nil {
		v := wr.genInt(w.rnd, 1)
		w.put(1, []write{{r: ref{aid: wr.aid(), iid: wr.iid(), c: wr}, val: v, raw: strconv.Itoa(v)}, {r: unk2, val: true, raw: "true"}})
	}
}

func (w *world) runRounds() {
	rnd := w.rnd
	sh := w.sh
	run.Count("databases", 1)
	run.Count("accessories_served", len(w.accs))
	run.Count("characteristics_served", len(w.cells))
	run.Distinct("database_shape", fmt.Sprintf("%d accessories/%d characteristics", len(w.accs), len(w.cells)))
	if len(w.accs) >= 150 {
		run.Count("bridges_of_150_accessories", 1)
	}
	var readable, writable, writeOnly []*cell
	for _, c := range w.cells {
		if c.k == kUnknown {
			run.Distinct("constructor_with_unknown_format", c.ctor+":"+c.format)
			continue
		}
		if c.readable {
			readable = append(readable, c)
		} else {
			writeOnly = append(writeOnly, c)
		}
		if c.writable {
			writable = append(writable, c)
		}
	}
	// discovery like a controller does, and the initial values
	if db := w.accessories(0, nil); db == nil && !w.dead {
		// reported already
	}
	w.minimalProbes()

	sizes := rnd.Perm(60)
	sizeAt := 0
	nextSize := func() int {
		s := sizes[sizeAt%60] + 1
		sizeAt++
		return s
	}
	for round := 0; round < sh.Rounds && !w.dead; round++ {
		// ---- the application sets a value on every readable characteristic
		for _, c := range readable {
			v := c.gen(rnd, round, w.allowLong())
			if p := c.appSet(v); p != "" {
				run.Violation("app:setter-panics:"+c.format, fmt.Sprintf("%s: typed SetValue(%s) panics", c.ctor, show(v)), witness{Shape: sh, Ctor: c.ctor, Format: c.format, Note: trunc(p, 600)})
				continue
			}
			c.cur, c.known = v, true
			run.Count("values_set_by_application", 1)
			run.Nontrivial(fmt.Sprintf("set|%s|%s|%s", sh.Name, c.ctor, show(v)))
		}
		// ---- the controllers read everything in lists of 1..60 ids
		seen := map[*cell]readBack{}
		perm := rnd.Perm(len(readable))
		for at := 0; at < len(perm); {
			n := nextSize()
			var list []ref
			for len(list) < n && at < len(perm) {
				c := readable[perm[at]]
				at++
				list = append(list, ref{aid: c.aid(), iid: c.iid(), c: c})
			}
			dup := false
			switch rnd.Intn(10) {
			case 0, 1, 2: // non-existing ids mixed in
				for k := 1 + rnd.Intn(3); k > 0 && len(list) < 60; k-- {
					p := rnd.Intn(len(list) + 1)
					list = append(list[:p], append([]ref{w.unknownRef()}, list[p:]...)...)
				}
			case 3, 4: // a characteristic without read permission mixed in
				if len(writeOnly) > 0 && len(list) < 60 {
					c := writeOnly[rnd.Intn(len(writeOnly))]
					p := rnd.Intn(len(list) + 1)
					list = append(list[:p], append([]ref{{aid: c.aid(), iid: c.iid(), c: c}}, list[p:]...)...)
				}
			case 5:
				if round%3 == 2 && len(list) < 60 && len(list) > 0 { // an id twice
					list = append(list, list[rnd.Intn(len(list))])
					dup = true
					run.Count("get_requests_with_repeated_id", 1)
				}
			}
			if rnd.Intn(8) == 0 {
				w.abandonAnswer(rnd)
			}
			w.get(rnd.Intn(2), list, dup, seen)
			if w.dead {
				return
			}
		}
		// one heavy answer: every string / tlv8 characteristic (up to 60) in one request
		var heavy []ref
		for _, i := range rnd.Perm(len(readable)) {
			c := readable[i]
			if (c.k == kString || c.k == kBytes) && len(heavy) < 60 {
				heavy = append(heavy, ref{aid: c.aid(), iid: c.iid(), c: c})
			}
		}
		if len(heavy) > 0 {
			w.get(round%2, heavy, false, seen)
		}
		if round == 0 && len(writeOnly) > 0 {
			wl := cellRefs(writeOnly)
			if len(wl) > 60 {
				wl = wl[:60]
			}
			w.get(1, wl, false, nil)
		}
		// only non-existing ids
		if round < 3 {
			var ul []ref
			for k := 1 + rnd.Intn(5); k > 0; k-- {
				ul = append(ul, w.unknownRef())
			}
			w.get(0, ul, false, nil)
		}
		// ---- and the whole database
		w.accessories(round%2, seen)
		if w.dead {
			return
		}

		// ---- the controllers write every writable characteristic
		perm = rnd.Perm(len(writable))
		for at := 0; at < len(perm); {
			n := 1 + rnd.Intn(8)
			if rnd.Intn(3) == 0 {
				n = 1
			}
			var ws []write
			for len(ws) < n && at < len(perm) {
				c := writable[perm[at]]
				at++
				var v interface{}
				if c.known && rnd.Intn(5) == 0 {
					v = c.cur // same value: no callback expected
				} else {
					v = c.gen(rnd, (round+1)%maxInt(sh.Rounds, 3)+rnd.Intn(2)*5, w.allowLong())
				}
				ws = append(ws, write{r: ref{aid: c.aid(), iid: c.iid(), c: c}, val: v, raw: encodeValue(v, rnd)})
				run.Nontrivial(fmt.Sprintf("put|%s|%s|%s", sh.Name, c.ctor, show(v)))
			}
			if rnd.Intn(25) == 0 {
				u := w.unknownRef()
				p := rnd.Intn(len(ws) + 1)
				ws = append(ws[:p], append([]write{{r: u, val: 1, raw: "1"}}, ws[p:]...)...)
			}
			w.put(rnd.Intn(2), ws)
			if w.dead {
				return
			}
		}
		// ---- entries WITHOUT a value (a subscription) between entries with a value, in one request
		for k := 0; k < 3 && len(writable) >= 4; k++ {
			w.putWithBystanders(rnd.Intn(2), rnd, writable, (round+1)%maxInt(sh.Rounds, 3))
			if w.dead {
				return
			}
		}
		// ---- what was written is what the other reads
		var rw []*cell
		for _, c := range writable {
			if c.readable {
				rw = append(rw, c)
			}
		}
		seen = map[*cell]readBack{}
		perm = rnd.Perm(len(rw))
		for at := 0; at < len(perm); {
			n := nextSize()
			var list []ref
			for len(list) < n && at < len(perm) {
				c := rw[perm[at]]
				at++
				list = append(list, ref{aid: c.aid(), iid: c.iid(), c: c})
			}
			w.get(rnd.Intn(2), list, false, seen)
		}
		if round == sh.Rounds-1 || round%5 == 4 {
			w.accessories((round+1)%2, seen)
		}
	}
	// per constructor coverage of this database
	for _, c := range w.cells {
		if c.readable && c.nRead >= 3 {
			run.Distinct("constructor_read_3_values", c.ctor)
		}
		if c.writable && c.nWritten >= 3 {
			run.Distinct("constructor_written_3_values", c.ctor)
		}
	}
	run.Count("frames_received", w.conns[0].FramesIn+w.conns[1].FramesIn)
	run.Count("frames_sent", w.conns[0].FramesOut+w.conns[1].FramesOut)
	run.Count("databases_completed", 1)
}

func maxInt(a, b int) int {
	if a > b {
		return a
	}
	return b
}

// largeUint64Probe: counter only.  No catalog constructor has format uint64; a generic
// characteristic.NewInt with that format shows whether integers above 2^53 survive a PUT.
func largeUint64Probe(base string) {
	ch := characteristic.NewInt("F0000009-0000-1000-8000-C09C09C09C09")
	ch.Format = "uint64"
	ch.Perms = []string{"pr", "pw", "ev"}
	ch.SetValue(0)
	acc := accessory.New(accessory.Info{Name: "c09 uint64"}, accessory.TypeOther)
	svc := service.New("F0000008-0000-1000-8000-C09C09C09C09")
	svc.AddCharacteristic(ch.Characteristic)
	acc.AddService(svc)
	w := &world{sh: shape{Name: "uint64-probe", NAcc: 1}, rnd: run.Rand("uint64"), accs: []*accessory.Accessory{acc}, byID: map[[2]uint64]*cell{}}
	if !w.start(base) {
		return
	}
	defer w.stop()
	const big = 9007199254740993 // 2^53+1
	ch.SetValue(big)
	m, err := w.conns[0].Do("GET", fmt.Sprintf("/characteristics?id=%d.%d", acc.ID, ch.ID), "", nil)
	if err == nil && strings.Contains(string(m.Body), "9007199254740993") {
		run.Count("observation_uint64_2^53+1_read_exactly", 1)
	} else if err == nil {
		run.Count("observation_uint64_2^53+1_read_altered", 1)
	}
	// counter only: a value the application provides through OnValueRemoteGet instead of SetValue
	ch.SetValue(0)
	ch.OnValueRemoteGet(func() int { return 4242 })
	m, err = w.conns[0].Do("GET", fmt.Sprintf("/characteristics?id=%d.%d", acc.ID, ch.ID), "", nil)
	if err == nil && strings.Contains(string(m.Body), `"value":4242`) {
		run.Count("observation_remote_get_function_value_read_in_characteristics", 1)
	} else if err == nil {
		run.Count("observation_remote_get_function_value_not_read_in_characteristics", 1)
	}
	ch.SetValue(7)
	m, err = w.conns[0].Do("GET", "/accessories", "", nil)
	if err == nil && strings.Contains(string(m.Body), `"value":4242`) {
		run.Count("observation_remote_get_function_value_read_in_accessories", 1)
	} else if err == nil {
		run.Count("observation_remote_get_function_not_consulted_by_accessories", 1)
	}
	ch.OnValueGet(nil)
	ch.SetValue(0)
	m, err = w.conns[0].Do("PUT", "/characteristics", refctl.ContentJSON, []byte(fmt.Sprintf(`{"characteristics":[{"aid":%d,"iid":%d,"value":9007199254740993}]}`, acc.ID, ch.ID)))
	if err == nil {
		if ch.GetValue() == big {
			run.Count("observation_uint64_2^53+1_written_exactly", 1)
		} else {
			run.Count("observation_uint64_2^53+1_written_altered(no catalog constructor has this format)", 1)
			run.Extra("uint64_above_2^53_after_put", fmt.Sprintf("wrote 9007199254740993, getter returns %d", ch.GetValue()))
		}
	}
}

func main() {
	run = vf.Start("C09", "exploration")
	r := run
	base := r.WorkDir()
	r.SetRule("a case = (database shape, characteristic constructor, value, direction): the application sets the value with the typed setter and both controllers read it through GET /characteristics (id lists of 1..60 ids in which ids that do not exist and ids without read permission are mixed) and through GET /accessories, or a controller writes it with PUT and the application's typed getter and typed remote-update callback are read; " +
		"values per format inside the declared bounds: both bounds, 0, step multiples, floats whose shortest decimal form is long or uses an exponent, strings with quotes / backslashes / control characters / <>& / U+2028 / non-BMP runes / several KB, tlv8 payloads of 0..5000 bytes; non-trivial = distinct (shape, constructor, value, direction)")
	r.Assume("encoding/json (decoder), strconv, math/big and encoding/base64 of the standard library are the monitor's trusted base for reading the controller's side of a value")
	r.Assume("float characteristics with a declared minStep are only given values min + j*step (computed in float64, capped at max); other floats any finite float64 inside [min,max]; integers outside [-2^53,2^53] are not used (JSON numbers)")
	r.Assume("PUT naming a non-existing id: only 'must not be answered as if every write had been applied' is demanded (weak reading); nothing is demanded about entries of successful writes in a PUT answer")
	r.Assume("a repeated id in one GET may be answered once or as often as requested")
	r.Extra("platform", runtime.GOOS+"/"+runtime.GOARCH)
	r.Watchdog(time.Duration(r.Pick(15, 45)) * time.Minute)

	if len(catalog.Chars) == 0 {
		r.Inconclusive("the generated catalog is empty")
		r.Finish()
	}
	for _, cc := range catalog.Chars {
		cc := cc
		ch, p := catalog.SafeChar(cc)
		if ch == nil {
			r.Count("constructors_not_usable(C15)", 1)
			_ = p
			continue
		}
		if kindOf(ch.Format) == kUnknown {
			r.Distinct("constructor_with_unknown_format", cc.Name+":"+ch.Format)
			continue
		}
		ctors = append(ctors, ctorInfo{cc.Name, cc.New})
		if _, dup := typeToCtor[ch.Type]; !dup {
			typeToCtor[ch.Type] = cc.Name
		}
	}
	sort.Slice(ctors, func(i, j int) bool { return ctors[i].name < ctors[j].name })
	r.Count("catalog_characteristic_constructors", len(catalog.Chars))
	r.Count("catalog_constructors_used", len(ctors))

	var shapes []shape
	if r.Thorough() {
		shapes = []shape{
			{"bridge150x12", 150, 12, 120}, {"bridge150x20", 150, 20, 80}, {"bridge150x4", 150, 4, 160},
			{"single", 1, 0, 800}, {"pair", 2, 0, 800}, {"bridge3", 3, 0, 600}, {"bridge5", 5, 0, 600}, {"bridge10", 10, 0, 500},
			{"bridge25", 25, 8, 400}, {"bridge50", 50, 6, 250}, {"bridge100", 100, 4, 200},
			{"bridge12-explicit-ids", 12, 0, 300}, {"bridge40-explicit-ids", 40, 6, 150}, {"pair-explicit-ids", 2, 0, 200},
		}
	} else {
		shapes = []shape{{"bridge150x12", 150, 12, 8}, {"single", 1, 0, 40}, {"pair", 2, 0, 30}, {"bridge5", 5, 0, 30}, {"bridge25", 25, 8, 15}, {"bridge12-explicit-ids", 12, 0, 20}}
	}
	var wg sync.WaitGroup
	chq := make(chan shape)
	for k := 0; k < 8; k++ {
		wg.Add(1)
		go func() {
			defer wg.Done()
			for sh := range chq {
				r.Guard("shape "+sh.Name, func() {
					w := buildShape(sh, r.Rand("shape-"+sh.Name))
					if !w.start(base) {
						return
					}
					defer w.stop()
					w.runRounds()
				})
			}
		}()
	}
	for i, sh := range shapes {
		r.SampleAt(i, func() interface{} { return sh })
		chq <- sh
	}
	close(chq)
	wg.Wait()
	r.Guard("uint64 probe", func() { largeUint64Probe(base) })

	// handler panics reported by net/http
	for _, p := range app.HTTPPanics(app.TakeStdLog()) {
		site := vf.PanicSite(p.Stack, "brutella/hc")
		r.Violation("transport:handler-panic:"+site, "a request handler panicked: "+trunc(p.Text, 200), map[string]interface{}{"panic": p.Text, "stack": trunc(p.Stack, 1500)})
	}

	sizeMu.Lock()
	r.Extra("largest_response_chunks", maxChunks)
	r.Extra("largest_response_frames", maxFrames)
	r.Extra("largest_response_bytes", maxBytes)
	mc, mf := 0, 0
	for _, v := range maxChunks {
		if v > mc {
			mc = v
		}
	}
	for _, v := range maxFrames {
		if v > mf {
			mf = v
		}
	}
	gc, gf := maxChunks["GET /characteristics"], maxFrames["GET /characteristics"]
	sizeMu.Unlock()
	r.Count("largest_response_chunks", mc)
	r.Count("largest_response_frames", mf)

	// coverage floors
	r.Floor("databases_completed", int(r.Counter("databases_completed")), len(shapes))
	r.Floor("bridges_of_150_accessories", int(r.Counter("bridges_of_150_accessories")), 1)
	r.Floor("largest_response_chunks", mc, 20)
	r.Floor("largest_response_frames", mf, 40)
	r.Floor("largest_characteristics_response_chunks", gc, 20)
	r.Floor("largest_characteristics_response_frames", gf, 40)
	r.Floor("constructors_read_with_3_values", r.DistinctN("constructor_read_3_values"), countCtors(func(c *characteristic.Characteristic) bool { return has(c.Perms, "pr") }))
	r.Floor("constructors_written_with_3_values", r.DistinctN("constructor_written_3_values"), countCtors(func(c *characteristic.Characteristic) bool { return has(c.Perms, "pw") }))
	r.Floor("constructors_listed", r.DistinctN("constructor_listed"), countCtors(func(c *characteristic.Characteristic) bool { return has(c.Perms, "pr") }))
	r.Floor("id_list_lengths", r.DistinctN("id_list_length"), r.Pick(25, 60))
	r.Floor("get_entries_for_non_existing_ids", int(r.Counter("get_entries_for_non_existing_ids")), 10)
	r.Floor("get_entries_for_write_only_characteristics", int(r.Counter("get_entries_for_write_only_characteristics")), 10)
	r.Floor("get_answers_all_ok", int(r.Counter("get_answers_all_ok")), 20)
	r.Floor("put_same_value_writes", int(r.Counter("put_same_value_writes")), 20)
	r.Guard("freshness", func() { freshness(r) })
	r.Guard("nested updates", func() { nestedUpdates(r) })
	r.Guard("getters", func() { getters(r) })
	r.Floor("callbacks_checked", int(r.Counter("callbacks_checked")), 300)
	r.Floor("put_entries_for_non_existing_ids", int(r.Counter("put_entries_for_non_existing_ids")), 3)
	r.Floor("formats", len(formatsSeen()), 7)
	r.Floor("entries_without_a_value_checked", int(r.Counter("entries_without_a_value_checked")), 100)
	r.Floor("answers_abandoned_by_a_third_connection", int(r.Counter("answers_abandoned_by_a_third_connection")), 40)
	r.Floor("write_entries_that_also_carry_a_subscription", int(r.Counter("write_entries_that_also_carry_a_subscription")), 200)
	r.Floor("write_requests_sent_in_chunked_encoding", int(r.Counter("write_requests_sent_in_chunked_encoding")), 200)
	r.Count("float_values_next_to_the_current_value", int(floatNeighbours.Load()))
	r.Floor("float_values_next_to_the_current_value", int(floatNeighbours.Load()), 30)
	r.Count("integer_writes_spelled_with_exponent_or_fraction", int(intSpellings.Load()))
	r.Floor("integer_writes_spelled_with_exponent_or_fraction", int(intSpellings.Load()), 50)
	_ = utf8.RuneError
	r.Finish()
}

func countCtors(pred func(*characteristic.Characteristic) bool) int {
	n := 0
	for _, c := range ctors {
		if ch := c.new(); ch != nil && pred(ch) {
			n++
		}
	}
	return n
}

func formatsSeen() map[string]bool {
	m := map[string]bool{}
	for _, c := range ctors {
		if ch := c.new(); ch != nil {
			m[ch.Format] = true
		}
	}
	return m
}

// isServiceID reports whether (aid, iid) names a service (those are "iid-of-a-service" cases, a different kind).
func (w *world) isServiceID(aid, iid uint64) bool {
	for _, a := range w.accs {
		if a.ID == aid {
			for _, s := range a.Services {
				if s.ID == iid {
					return true
				}
			}
		}
	}
	return false
}

package main

import (
	"encoding/json"
	"fmt"
	"math"
	"math/big"
	"os"
	"strings"
	"sync"
	"time"

	"github.com/brutella/hc/accessory"
	"github.com/brutella/hc/characteristic"
	"github.com/brutella/hc/service"

	"verif/harness/app"
	"verif/harness/catalog"
	"verif/refctl"
	"verif/vf"
)

// ---------------------------------------------------------------- net/http panic lines (shared by the workers)

var (
	panicMu  sync.Mutex
	panicLog = map[string][]app.HTTPPanic{} // by the client's address
)

func panicsFor(remote string) []app.HTTPPanic {
	panicMu.Lock()
	defer panicMu.Unlock()
	for _, p := range app.HTTPPanics(app.TakeStdLog()) {
		panicLog[p.Remote] = append(panicLog[p.Remote], p)
	}
	out := panicLog[remote]
	delete(panicLog, remote)
	return out
}

// characteristicFrameAboveHandler: does the stack run through package characteristic before (above) the
// HTTP handler frame?
func characteristicFrameAboveHandler(stack string) bool {
	for _, l := range strings.Split(stack, "\n") {
		l = strings.TrimSpace(l)
		if strings.HasPrefix(l, "/") {
			continue
		}
		if strings.Contains(l, "brutella/hc/hap/http.") {
			return false
		}
		if strings.Contains(l, "brutella/hc/characteristic.") {
			return true
		}
	}
	return false
}

// ---------------------------------------------------------------- served values (what the controller sees)

func jsonKind(raw []byte) string {
	s := strings.TrimSpace(string(raw))
	if s == "" {
		return "absent"
	}
	switch s[0] {
	case '"':
		return "string"
	case 't', 'f':
		return "bool"
	case 'n':
		return "null"
	case '[':
		return "array"
	case '{':
		return "object"
	}
	return "number"
}

func rawNum(raw json.RawMessage) (*big.Float, bool) {
	s := strings.TrimSpace(string(raw))
	if s == "" || jsonKind(raw) != "number" {
		return nil, false
	}
	f, _, err := big.ParseFloat(s, 10, 200, big.ToNearestEven)
	if err != nil {
		return nil, false
	}
	return f, true
}

func trunc(s string, n int) string {
	if len(s) > n {
		return s[:n] + fmt.Sprintf("...(%d bytes)", len(s))
	}
	return s
}

// judgeServed judges one served value against the served declaration (format, perms, minValue, maxValue).
func judgeServed(decl *refctl.AttrChar, raw json.RawMessage, inputKind string) []finding {
	fi, known := formats[decl.Format]
	if !known {
		return nil
	}
	kind := jsonKind(raw)
	if kind == "absent" || kind == "null" {
		if decl.Has("pr") {
			return []finding{{"type:" + fi.Family + "-format-stores-nil", fmt.Sprintf("a readable characteristic of format %s is served without a value", decl.Format)}}
		}
		return nil
	}
	want := map[string]string{"string": "string", "bool": "bool", "float": "number", "int": "number"}[fi.Family]
	if kind != want {
		return []finding{{"type:" + fi.Family + "-format-stores-foreign-type:" + kind,
			fmt.Sprintf("a characteristic of format %s is served with the JSON %s %s", decl.Format, kind, trunc(string(raw), 60))}}
	}
	if want != "number" {
		return nil
	}
	v, ok := rawNum(raw)
	if !ok {
		return []finding{{"json:served-number-unparsable", "served number does not parse: " + trunc(string(raw), 60)}}
	}
	var out []finding
	if fi.Family == "int" {
		if !v.IsInt() {
			return []finding{{"range:" + decl.Format + ":not-integral", fmt.Sprintf("a %s characteristic is served as %s", decl.Format, trunc(string(raw), 60))}}
		}
		lo, hi := big.NewFloat(fi.Lo), big.NewFloat(fi.Hi)
		if v.Cmp(lo) < 0 || v.Cmp(hi) > 0 {
			if !fi.Signed && v.Sign() < 0 {
				return []finding{{"range:" + decl.Format + ":negative-stored", fmt.Sprintf("a %s characteristic is served as %s", decl.Format, string(raw))}}
			}
			return []finding{{"range:" + decl.Format + ":outside-format-range", fmt.Sprintf("a %s characteristic is served as %s", decl.Format, string(raw))}}
		}
	}
	if mn, ok := rawNum(decl.MinValue); ok && v.Cmp(mn) < 0 {
		out = append(out, finding{"range:below-declared-min", fmt.Sprintf("a %s characteristic with minValue %s is served as %s", decl.Format, string(decl.MinValue), string(raw))})
	}
	if mx, ok := rawNum(decl.MaxValue); ok && v.Cmp(mx) > 0 {
		out = append(out, finding{"range:above-declared-max", fmt.Sprintf("a %s characteristic with maxValue %s is served as %s", decl.Format, string(decl.MaxValue), string(raw))})
	}
	return out
}

// ---------------------------------------------------------------- one transport per worker

type httpChar struct {
	sub subject
	c   *characteristic.Characteristic
	acc *accessory.Accessory
}

type worker struct {
	r     *vf.Run
	id    int
	a     *app.App
	me    *refctl.Identity
	setup *refctl.Setup
	cn    *refctl.Conn
	chars []*httpChar
	decl  map[[2]uint64]*refctl.AttrChar
	dead  bool
}

func (w *worker) connect() bool {
	cn, err := w.a.Verified(w.me, w.setup.AccessoryLTPK, w.setup.AccessoryID)
	if err != nil {
		w.r.Inconclusive(fmt.Sprintf("http worker %d: pair-verify on a new connection failed: %v", w.id, err))
		w.dead = true
		return false
	}
	cn.Timeout = 30 * time.Second
	w.cn = cn
	w.r.Count("http_connections_verified", 1)
	return true
}

func closedErr(err error) bool {
	s := err.Error()
	return strings.Contains(s, "EOF") || strings.Contains(s, "reset") || strings.Contains(s, "closed") || strings.Contains(s, "broken pipe")
}

// do sends one request.  A closed connection is classified (C12 when net/http logged a panic for this
// connection whose stack runs through package characteristic above the handler, otherwise left to C13)
// and replaced by a new verified connection.
func (w *worker) do(method, target string, body []byte, witness func() map[string]interface{}) (*refctl.Message, bool) {
	if w.dead {
		return nil, false
	}
	local := w.cn.LocalAddr()
	m, err := w.cn.Do(method, target, refctl.ContentJSON, body)
	if err == nil {
		return m, true
	}
	if err == refctl.ErrTimeout {
		w.r.Inconclusive(fmt.Sprintf("http worker %d: %s %s not answered within the watchdog (wedges are C13's)", w.id, method, trunc(target, 40)))
		w.cn.Close()
		w.connect()
		return nil, false
	}
	if !closedErr(err) {
		w.r.Inconclusive(fmt.Sprintf("http worker %d: %s %s: %v", w.id, method, trunc(target, 40), err))
		w.cn.Close()
		w.connect()
		return nil, false
	}
	w.r.Count("http_connections_closed_without_response", 1)
	w.cn.Close()
	attributed := false
	for _, p := range panicsFor(local) {
		if !characteristicFrameAboveHandler(p.Stack) {
			continue
		}
		attributed = true
		site, _ := panicOrigin("panic-log\n" + p.Stack)
		wit := witness()
		wit["panic"] = p.Text
		wit["stack"] = p.Stack
		wit["request"] = method + " " + trunc(target, 60)
		sig := "update:panic:" + site
		switch {
		case strings.Contains(p.Text, "comparing uncomparable"):
			sig = "compare:uncomparable-composite:panic"
		case strings.Contains(site, "OnValueRemoteUpdate"):
			sig = "callback:panic:" + site
		}
		w.r.Distinct("http_violation_signature", sig)
		w.r.Violation(sig, fmt.Sprintf("the handler of %s panics in %s (%s); the controller's connection is dropped", method, site, firstLine(p.Text)), wit)
	}
	if attributed {
		w.r.Count("http_closed_connections_attributed_to_characteristic", 1)
	} else {
		w.r.Count("http_closed_connections_left_to_C13", 1)
	}
	w.connect()
	return nil, false
}

func (w *worker) loadDB() bool {
	m, ok := w.do("GET", "/accessories", nil, func() map[string]interface{} {
		return map[string]interface{}{"path": "http", "stage": "first GET /accessories"}
	})
	if !ok {
		return false
	}
	db, err := refctl.ParseAttrDB(m.Body)
	if m.Status != 200 || err != nil {
		w.r.Inconclusive(fmt.Sprintf("http worker %d: the initial GET /accessories answered %d / %v", w.id, m.Status, err))
		return false
	}
	w.decl = map[[2]uint64]*refctl.AttrChar{}
	for i := range db.Accessories {
		a := &db.Accessories[i]
		for j := range a.Services {
			for k := range a.Services[j].Characteristics {
				c := &a.Services[j].Characteristics[k]
				w.decl[[2]uint64{a.AID, c.IID}] = c
			}
		}
	}
	return true
}

// checkDB fetches the attribute database and judges every served value.
func (w *worker) checkDB(hist []string, hcName string, lastKind string, rootSeen bool) (findings []finding, ok bool) {
	m, ok := w.do("GET", "/accessories", nil, func() map[string]interface{} {
		return map[string]interface{}{"path": "http", "subject": hcName, "puts": hist}
	})
	if !ok {
		return nil, false
	}
	w.r.Count("http_get_accessories", 1)
	db, err := refctl.ParseAttrDB(m.Body)
	if m.Status != 200 || err != nil {
		if rootSeen {
			return nil, true // consequence of the root cause named for this PUT
		}
		sig := "json:attribute-database-does-not-encode"
		if strings.Contains(string(m.Body), "unsupported value") {
			sig = "float:non-finite-from-" + lastKind
		}
		return []finding{{sig, fmt.Sprintf("GET /accessories answers %d %s", m.Status, trunc(strings.TrimSpace(string(m.Body)), 80))}}, true
	}
	for i := range db.Accessories {
		a := &db.Accessories[i]
		for j := range a.Services {
			for k := range a.Services[j].Characteristics {
				c := &a.Services[j].Characteristics[k]
				w.r.Count("http_served_values_judged", 1)
				for _, f := range judgeServed(c, c.Value, lastKind) {
					f.What = fmt.Sprintf("GET /accessories, %d.%d: %s", a.AID, c.IID, f.What)
					findings = append(findings, f)
				}
			}
		}
	}
	return findings, true
}

// put writes one raw JSON value and judges what the controller and the application see afterwards.
// It returns false when the characteristic's state is wrong (the caller then repairs it).
func (w *worker) put(h *httpChar, hist []string, v *hval) bool {
	r := w.r
	aid, iid := h.acc.ID, h.c.ID
	decl := w.decl[[2]uint64{aid, iid}]
	if decl == nil {
		r.Inconclusive(fmt.Sprintf("http worker %d: %d.%d (%s) is not in the served database", w.id, aid, iid, h.sub.Name))
		return true
	}
	hist = append(append([]string{}, hist...), v.JSON)
	if len(hist[len(hist)-1]) > 80 {
		hist[len(hist)-1] = v.Label
	}
	witness := func() map[string]interface{} {
		return map[string]interface{}{"path": "http", "subject": h.sub.Name, "aid": aid, "iid": iid,
			"served_declaration": map[string]interface{}{"format": decl.Format, "perms": decl.Perms, "minValue": string(decl.MinValue), "maxValue": string(decl.MaxValue)},
			"puts":               hist}
	}
	r.Eval()
	r.Nontrivial(fmt.Sprintf("http|%s|%s", h.sub.Name, strings.Join(hist, ";")))
	r.Distinct("http_input_kind_x_format", v.Kind+"->"+decl.Format)
	body := []byte(fmt.Sprintf(`{"characteristics":[{"aid":%d,"iid":%d,"value":%s}]}`, aid, iid, v.JSON))
	m, ok := w.do("PUT", "/characteristics", body, witness)
	r.Count("http_puts", 1)
	if !ok {
		return false
	}
	r.Distinct("http_put_status", fmt.Sprint(m.Status))
	if w.id == 0 && (v.JSON == "-1" || v.JSON == `"NaN"`) && len(hist) == 1 && r.Counter("http_samples") < 2 {
		r.Count("http_samples", 1)
		r.Sample(map[string]interface{}{"path": "http", "subject": h.sub.Name, "served_format": decl.Format, "put": string(body), "put_status": m.Status,
			"go_object_after": show(h.c.Value)})
	}

	seen := map[string]bool{}
	report := func(fs []finding, view string) {
		for _, f := range fs {
			if seen[f.Sig] {
				continue
			}
			seen[f.Sig] = true
			wit := witness()
			wit["view"] = view
			r.Distinct("http_violation_signature", f.Sig)
			r.Violation(f.Sig, f.What+fmt.Sprintf(" after PUT %v on %s", hist, h.sub.Name), wit)
		}
	}

	// the application's view: the Go object (the connection is idle now, nothing else touches it)
	if hasPerm(h.c.Perms, "pr") {
		o := observe(r, h.c, v.Kind)
		report(o.Findings, "application (Go object after the PUT)")
	}
	// the controller's view: GET /characteristics
	m, ok = w.do("GET", fmt.Sprintf("/characteristics?id=%d.%d", aid, iid), nil, witness)
	if ok {
		r.Count("http_get_characteristics", 1)
		var cl refctl.CharList
		err := json.Unmarshal(m.Body, &cl)
		switch {
		case err != nil || len(cl.Characteristics) != 1:
			if len(seen) == 0 {
				sig := "json:attribute-database-does-not-encode"
				if strings.Contains(string(m.Body), "unsupported value") {
					sig = "float:non-finite-from-" + v.Kind
				}
				report([]finding{{sig, fmt.Sprintf("GET /characteristics answers %d %s", m.Status, trunc(strings.TrimSpace(string(m.Body)), 80))}}, "controller (GET /characteristics)")
			}
		case m.Status != 200:
			r.Distinct("http_get_status_other_than_200", fmt.Sprint(m.Status))
		default:
			var raw json.RawMessage
			if cl.Characteristics[0].Value != nil {
				raw = *cl.Characteristics[0].Value
			}
			report(judgeServed(decl, raw, v.Kind), "controller (GET /characteristics)")
		}
	}
	// the attribute database
	if fs, ok := w.checkDB(hist, h.sub.Name, v.Kind, len(seen) > 0); ok {
		report(fs, "controller (GET /accessories)")
	}
	return len(seen) == 0
}

// sane is a value of the format's own type inside every bound used here; it repairs a characteristic.
func sane(format string) *hval {
	switch formats[format].Family {
	case "bool":
		return &hval{Label: "json true", Kind: "bool", JSON: "true", V: true}
	case "string":
		return &hval{Label: `json "AQID"`, Kind: "string", JSON: `"AQID"`, V: "AQID"}
	case "float":
		return &hval{Label: "json 10", Kind: "number", JSON: "10", V: 10.0}
	}
	return &hval{Label: "json 10", Kind: "number", JSON: "10", V: 10.0}
}

// repair puts the characteristic back into a good state so that later checks of the database speak about
// later PUTs (direct assignment when a PUT cannot do it).
func (w *worker) repair(h *httpChar) {
	decl := w.decl[[2]uint64{h.acc.ID, h.c.ID}]
	if decl == nil || w.dead {
		return
	}
	s := sane(decl.Format)
	body := []byte(fmt.Sprintf(`{"characteristics":[{"aid":%d,"iid":%d,"value":%s}]}`, h.acc.ID, h.c.ID, s.JSON))
	w.do("PUT", "/characteristics", body, func() map[string]interface{} {
		return map[string]interface{}{"path": "http", "stage": "repair", "subject": h.sub.Name}
	})
	if hasPerm(h.c.Perms, "pr") {
		fi := formats[decl.Format]
		if h.c.Value == nil || fmt.Sprintf("%T", h.c.Value) != fi.GoType || (fi.Family == "float" && (math.IsNaN(h.c.Value.(float64)) || math.IsInf(h.c.Value.(float64), 0))) {
			switch fi.Family {
			case "bool":
				h.c.Value = true
			case "string":
				h.c.Value = "AQID"
			case "float":
				h.c.Value = 10.0
			case "int":
				h.c.Value = 10
			}
			w.r.Count("http_repairs_by_direct_assignment", 1)
		}
	}
}

func (w *worker) run(vals []*hval) {
	r := w.r
	rnd := r.RandN("c12-http", w.id)
	for _, h := range w.chars {
		if w.dead {
			return
		}
		decl := w.decl[[2]uint64{h.acc.ID, h.c.ID}]
		if decl == nil || !decl.Has("pw") {
			continue
		}
		r.Count("http_writable_characteristics_written", 1)
		for _, v := range vals {
			good := w.put(h, nil, v)
			if v.Kind == "array" || v.Kind == "object" || (good && r.Thorough()) {
				// the same value again (a composite always: the first PUT may already have been judged)
				good = w.put(h, []string{v.JSON}, v) && good
			}
			if !good {
				w.repair(h)
			}
		}
		// random PUT sequences on this characteristic
		for i := 0; i < r.Pick(3, 120); i++ {
			var hist []string
			k := 2 + rnd.Intn(5)
			var prev *hval
			for j := 0; j < k; j++ {
				v := vals[rnd.Intn(len(vals))]
				if prev != nil && rnd.Intn(4) == 0 {
					v = prev
				}
				if len(v.JSON) > 1000 && rnd.Intn(4) != 0 {
					v = vals[0]
				}
				prev = v
				if !w.put(h, hist, v) {
					w.repair(h)
					break
				}
				hist = append(hist, v.JSON)
			}
		}
		w.repair(h)
	}
}

// ---------------------------------------------------------------- harness

func runHTTP(r *vf.Run, vals []*hval, synth []subject) {
	const nWorkers = 8
	// every catalog characteristic (whatever its permissions: they stay as declared) and every synthetic one,
	// dealt round-robin to the workers
	var all []subject
	for _, cc := range catalog.Chars {
		cc := cc
		if ch, _ := catalog.SafeChar(cc); ch == nil {
			continue
		}
		all = append(all, subject{Name: "characteristic." + cc.Name, New: func() *characteristic.Characteristic {
			c, _ := catalog.SafeChar(cc)
			return c
		}})
	}
	r.Count("http_catalog_characteristics_served", len(all))
	all = append(all, synth...)

	base := r.WorkDir()
	var wg sync.WaitGroup
	for wi := 0; wi < nWorkers; wi++ {
		w := &worker{r: r, id: wi}
		// accessories of <= 3 services x 12 characteristics
		var accs []*accessory.Accessory
		var cur *accessory.Accessory
		var svc *service.Service
		n := 0
		for i, sub := range all {
			if i%nWorkers != wi {
				continue
			}
			c := sub.New()
			if c == nil {
				continue
			}
			if n%36 == 0 {
				cur = accessory.New(accessory.Info{Name: fmt.Sprintf("c12-%d-%d", wi, len(accs)), SerialNumber: fmt.Sprintf("C12-%d-%d", wi, len(accs)),
					Manufacturer: "verif", Model: "c12", FirmwareRevision: "1.0.0"}, accessory.TypeOther)
				accs = append(accs, cur)
			}
			if n%12 == 0 {
				svc = service.New(fmt.Sprintf("F12C%04X-0000-1000-8000-0026BB765291", n/12+1))
				cur.AddService(svc)
			}
			svc.AddCharacteristic(c)
			w.chars = append(w.chars, &httpChar{sub: sub, c: c, acc: cur})
			n++
		}
		dir := app.ScratchDir(base, "store")
		a, err := app.Start(dir, "00102003", accs[0], accs[1:]...)
		if err != nil {
			r.Inconclusive(fmt.Sprintf("http worker %d: transport did not start: %v", wi, err))
			os.RemoveAll(dir)
			continue
		}
		w.a = a
		r.Count("http_transports_started", 1)
		wg.Add(1)
		go func() {
			defer wg.Done()
			defer os.RemoveAll(dir)
			defer a.Stop()
			r.Guard(fmt.Sprintf("http worker %d", w.id), func() {
				w.me = refctl.NewIdentity(fmt.Sprintf("c12-controller-%d", w.id), r.RandN("c12-id", w.id))
				s, err := a.Pair(w.me)
				if err != nil {
					r.Inconclusive(fmt.Sprintf("http worker %d: pair-setup failed: %v", w.id, err))
					return
				}
				w.setup = s
				if !w.connect() {
					return
				}
				defer func() {
					if w.cn != nil {
						w.cn.Close()
					}
				}()
				if !w.loadDB() {
					return
				}
				if len(w.decl) < len(w.chars) {
					r.Inconclusive(fmt.Sprintf("http worker %d: %d characteristics served, %d added", w.id, len(w.decl), len(w.chars)))
					return
				}
				r.Count("http_characteristics_in_served_databases", len(w.decl))
				w.run(vals)
			})
		}()
	}
	wg.Wait()
	// whatever net/http logged for connections nobody asked about
	panicMu.Lock()
	for _, p := range app.HTTPPanics(app.TakeStdLog()) {
		panicLog[p.Remote] = append(panicLog[p.Remote], p)
	}
	left := 0
	for _, ps := range panicLog {
		left += len(ps)
	}
	panicMu.Unlock()
	r.Count("http_panic_lines_not_tied_to_a_closed_connection", left)
	r.Floor("http PUTs", int(r.Counter("http_puts")), 2000)
	r.Floor("http writable characteristics written", int(r.Counter("http_writable_characteristics_written")), 60)
	r.Floor("http GET /accessories judged", int(r.Counter("http_get_accessories")), 1500)
}

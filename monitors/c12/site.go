package main

import (
	"os"
	"regexp"
	"strings"
)

var closureSuffix = regexp.MustCompile(`(\.func\d+|\.\d+|\.gowrap\d+)+$`)

// panicOrigin finds the frame that panicked: the first frame below the (last) panic( line of a goroutine
// stack that is not a runtime frame.  inChar says whether that frame is code of package characteristic of
// the tree under test — by function name or, when the compiler inlined an hc function into a function of
// this monitor (the frame is then named after the monitor's function), by source file.  site is a
// line-number-free name for signatures, e.g. "characteristic.(*Characteristic).updateValue".
func panicOrigin(stack string) (site string, inChar bool) {
	repo := os.Getenv("VERIF_REPO")
	if repo == "" {
		repo = "/repo"
	}
	lines := strings.Split(stack, "\n")
	start := -1
	for i, l := range lines {
		if strings.HasPrefix(strings.TrimSpace(l), "panic(") {
			start = i
		}
	}
	if start < 0 {
		return "unknown", false
	}
	for i := start + 2; i+1 < len(lines); i += 2 {
		fn := strings.TrimSpace(lines[i])
		file := strings.TrimSpace(lines[i+1])
		if fn == "" || strings.HasPrefix(fn, "runtime.") {
			continue
		}
		if j := strings.LastIndex(fn, "("); j > 0 {
			fn = fn[:j]
		}
		byName := strings.Contains(fn, "brutella/hc/characteristic.")
		byFile := strings.HasPrefix(file, strings.TrimRight(repo, "/")+"/characteristic/")
		if j := strings.LastIndex(fn, "/"); j >= 0 {
			fn = fn[j+1:]
		}
		fn = closureSuffix.ReplaceAllString(fn, "")
		if !byName && byFile {
			// "main.registerTyped.(*String).OnValueRemoteUpdate" -> "characteristic.(*String).OnValueRemoteUpdate"
			if k := strings.Index(fn, ".("); k >= 0 {
				fn = "characteristic" + fn[k:]
			} else {
				fn = "characteristic." + fn
			}
		}
		return fn, byName || byFile
	}
	return "unknown", false
}

// C12 — a characteristic's value always has its declared type and range.
//
// In-process: every readable characteristic constructor of the generated catalog and synthetic
// characteristics of every HAP format (with no bounds, both bounds, only a minimum, only a maximum) receive
// sequences of <= 6 updates through the three ways a value reaches a characteristic:
//
//	local   c.UpdateValue(v)                          the application sets a value
//	remote  c.UpdateValueFromConnection(v, conn)      a controller writes a value (dummy net.Conn)
//	get     c.OnValueGet(func() interface{} { return v }); c.GetValueFromConnection(conn)
//	get-local  the same callback, read by the application itself: c.GetValue()
//	                                                  the application supplies a value when it is read
//
// with the hostile value set of values.go.  After EVERY update the oracle of this file (which knows nothing
// of hc's conversion code: a table format -> Go type / format range, the declared MinValue / MaxValue read
// as numbers) looks at the object the way an application does: dynamic type of Value, magnitude, the typed
// getter of the format's wrapper, json.Marshal of the characteristic.
//
// HTTP: the same values as raw JSON text through PUT /characteristics from the independent controller
// refctl on real transports that serve every catalog characteristic plus synthetic writable ones of every
// format (http.go); the oracle reads the value back with GET /characteristics and GET /accessories and
// judges the JSON the controller sees (and the Go object once more).
//
// A violation names its root cause; consequences of a root cause that was already named for the same state
// (typed getter panics because a string format holds a number, the database does not encode because a
// float holds NaN) are written into the witness of the root cause, not reported under a second signature.
package main

import (
	"encoding/json"
	"fmt"
	"math"
	"strconv"
	"net"
	"os"
	"path/filepath"
	"sort"
	"strings"
	"time"

	"github.com/brutella/hc/characteristic"

	"verif/harness/catalog"
	"verif/vf"
)

// ---------------------------------------------------------------- what a format demands (the model)

type formatInfo struct {
	Family string // string | bool | float | int
	GoType string // what the typed getter of the family asserts
	Lo, Hi float64
	Signed bool
	Ranged bool
}

// formats is this monitor's own statement of the HAP formats: the Go type hc documents for it (the type
// its typed wrapper asserts) and, for integers, the interval the format can represent.  A uint64 is held
// in a Go int, so everything a Go int can hold and that is >= 0 is accepted.
var formats = map[string]formatInfo{
	"bool":   {Family: "bool", GoType: "bool"},
	"float":  {Family: "float", GoType: "float64"},
	"string": {Family: "string", GoType: "string"},
	"tlv8":   {Family: "string", GoType: "string"},
	"data":   {Family: "string", GoType: "string"},
	"uint8":  {Family: "int", GoType: "int", Lo: 0, Hi: 255, Ranged: true},
	"uint16": {Family: "int", GoType: "int", Lo: 0, Hi: 65535, Ranged: true},
	"uint32": {Family: "int", GoType: "int", Lo: 0, Hi: 4294967295, Ranged: true},
	"uint64": {Family: "int", GoType: "int", Lo: 0, Hi: math.Inf(1), Ranged: true},
	"int32":  {Family: "int", GoType: "int", Lo: -2147483648, Hi: 2147483647, Ranged: true, Signed: true},
}

func num(v interface{}) (float64, bool) {
	switch x := v.(type) {
	case int:
		return float64(x), true
	case int8:
		return float64(x), true
	case int16:
		return float64(x), true
	case int32:
		return float64(x), true
	case int64:
		return float64(x), true
	case uint:
		return float64(x), true
	case uint8:
		return float64(x), true
	case uint16:
		return float64(x), true
	case uint32:
		return float64(x), true
	case uint64:
		return float64(x), true
	case float32:
		return float64(x), true
	case float64:
		return x, true
	}
	return 0, false
}

// kindOf is the JSON kind of a Go value (Go-native numbers are numbers).
func kindOf(v interface{}) string {
	if v == nil {
		return "null"
	}
	if _, ok := num(v); ok {
		return "number"
	}
	switch v.(type) {
	case string:
		return "string"
	case bool:
		return "bool"
	case []interface{}:
		return "array"
	case map[string]interface{}:
		return "object"
	}
	return "other"
}

func show(v interface{}) string {
	if v == nil {
		return "<nil>"
	}
	s := fmt.Sprintf("%T(%v)", v, v)
	if len(s) > 120 {
		s = s[:100] + fmt.Sprintf("...(%d bytes)", len(s))
	}
	return s
}

// ---------------------------------------------------------------- subjects

type subject struct {
	Name      string // "characteristic.NewBrightness" or "synthetic:uint8[1,100]"
	Synthetic bool
	New       func() *characteristic.Characteristic
}

const synthType = "F12C0000-0000-1000-8000-0026BB765291"

func synthInt(format string, min, max interface{}, init int) func() *characteristic.Characteristic {
	return func() *characteristic.Characteristic {
		c := characteristic.NewInt(synthType)
		c.Format = format
		c.Perms = characteristic.PermsAll()
		if min != nil {
			c.SetMinValue(min.(int))
		}
		if max != nil {
			c.SetMaxValue(max.(int))
		}
		c.Value = init
		return c.Characteristic
	}
}

func synthFloat(min, max interface{}, init float64) func() *characteristic.Characteristic {
	return func() *characteristic.Characteristic {
		c := characteristic.NewFloat(synthType)
		c.Format = characteristic.FormatFloat
		c.Perms = characteristic.PermsAll()
		if min != nil {
			c.SetMinValue(min.(float64))
		}
		if max != nil {
			c.SetMaxValue(max.(float64))
		}
		c.Value = init
		return c.Characteristic
	}
}

func syntheticSubjects() []subject {
	var out []subject
	add := func(name string, f func() *characteristic.Characteristic) {
		out = append(out, subject{Name: "synthetic:" + name, Synthetic: true, New: f})
	}
	add("bool", func() *characteristic.Characteristic {
		c := characteristic.NewBool(synthType)
		c.Format = characteristic.FormatBool // (set here like every catalog constructor does)
		c.Perms = characteristic.PermsAll()
		c.Value = false
		return c.Characteristic
	})
	add("string", func() *characteristic.Characteristic {
		c := characteristic.NewString(synthType)
		c.Format = characteristic.FormatString
		c.Perms = characteristic.PermsAll()
		c.Value = "initial"
		return c.Characteristic
	})
	add("tlv8", func() *characteristic.Characteristic {
		c := characteristic.NewBytes(synthType)
		c.Format = characteristic.FormatTLV8
		c.Perms = characteristic.PermsAll()
		c.Value = "AQID"
		return c.Characteristic
	})
	add("data", func() *characteristic.Characteristic {
		c := characteristic.NewString(synthType)
		c.Format = characteristic.FormatData
		c.Perms = characteristic.PermsAll()
		c.Value = "AQID"
		return c.Characteristic
	})
	add("float", synthFloat(nil, nil, 1.5))
	add("float[0,100]", synthFloat(0.0, 100.0, 1.5))
	add("float[-270.5,100.25]", synthFloat(-270.5, 100.25, 1.5))
	add("float[10,)", synthFloat(10.0, nil, 11.5))
	add("float(,10]", synthFloat(nil, 10.0, 1.5))
	for _, f := range []string{"uint8", "uint16", "uint32", "uint64", "int32"} {
		add(f, synthInt(f, nil, nil, 1))
		add(f+"[1,100]", synthInt(f, 1, 100, 1))
		add(f+"[5,)", synthInt(f, 5, nil, 7))
		add(f+"(,100]", synthInt(f, nil, 100, 7))
	}
	// declared steps (the bounds are what the property speaks about; a step may round, it may not leave them)
	withStep := func(f func() *characteristic.Characteristic, step interface{}) func() *characteristic.Characteristic {
		return func() *characteristic.Characteristic {
			c := f()
			c.StepValue = step
			return c
		}
	}
	add("uint8[0,100]step15", withStep(synthInt("uint8", 0, 100, 0), 15))
	add("uint8[0,255]step10", withStep(synthInt("uint8", 0, 255, 0), 10))
	add("uint8step7", withStep(synthInt("uint8", nil, nil, 0), 7))
	add("int32[-50,50]step7", withStep(synthInt("int32", -50, 50, 1), 7))
	add("uint16[1,1000]step300", withStep(synthInt("uint16", 1, 1000, 1), 300))
	add("uint32[0,4294967295]step1000000000", withStep(synthInt("uint32", 0, 4294967295, 0), 1000000000))
	add("float[0,1]step0.3", withStep(synthFloat(0.0, 1.0, 0.0), 0.3))
	add("float[-10,10]step3", withStep(synthFloat(-10.0, 10.0, 0.0), 3.0))
	// bounds beyond 2^53, where an int no longer survives a detour through float64
	add("uint64[1,9007199254740992]", synthInt("uint64", 1, 1<<53, 7))
	add("uint64[18014398509481988,)", synthInt("uint64", 1<<54+4, nil, 1<<54+9))
	add("uint64(,4611686018427387905]", synthInt("uint64", nil, 1<<62+1, 7))
	add("int32[-50,50]", synthInt("int32", -50, 50, 1))
	add("uint16[0,65535]", synthInt("uint16", 0, 65535, 1))
	add("uint32[0,4294967295]", synthInt("uint32", 0, 4294967295, 1))
	return out
}

func hasPerm(perms []string, p string) bool {
	for _, x := range perms {
		if x == p {
			return true
		}
	}
	return false
}

// ---------------------------------------------------------------- the oracle on a Go object

type finding struct {
	Sig  string
	What string
}

type observation struct {
	Findings     []finding
	Consequences []string
	Stored       string
}

type typedGetter struct {
	name string
	call func()
}

// typedGetters reconstructs the typed wrappers an application holds for a characteristic of this family.
func typedGetters(c *characteristic.Characteristic, fam, format string) []typedGetter {
	switch fam {
	case "bool":
		return []typedGetter{{"Bool.GetValue", func() { _ = (&characteristic.Bool{Characteristic: c}).GetValue() }}}
	case "float":
		return []typedGetter{{"Float.GetValue", func() { _ = (&characteristic.Float{Characteristic: c}).GetValue() }}}
	case "int":
		return []typedGetter{{"Int.GetValue", func() { _ = (&characteristic.Int{Characteristic: c}).GetValue() }}}
	case "string":
		g := []typedGetter{{"String.GetValue", func() { _ = (&characteristic.String{Characteristic: c}).GetValue() }}}
		if format != "string" {
			g = append(g, typedGetter{"Bytes.GetValue", func() {
				_ = (&characteristic.Bytes{String: &characteristic.String{Characteristic: c}}).GetValue()
			}})
		}
		return g
	}
	return nil
}

// observe judges the state of a readable characteristic.  inputKind is the JSON kind of the value that was
// supplied last ("" for the state a constructor returns).
func observe(r *vf.Run, c *characteristic.Characteristic, inputKind string) observation {
	var o observation
	fi, known := formats[c.Format]
	v := c.Value
	o.Stored = show(v)
	if !known {
		return o
	}
	r.Count("states_checked", 1)
	root := false
	add := func(sig, what string) {
		o.Findings = append(o.Findings, finding{sig, what})
		root = true
	}
	from := inputKind
	if from == "" {
		from = "constructor"
	}
	switch {
	case v == nil:
		add("type:"+fi.Family+"-format-stores-nil", fmt.Sprintf("a readable characteristic of format %s holds no value (nil)", c.Format))
	case fmt.Sprintf("%T", v) != fi.GoType:
		add("type:"+fi.Family+"-format-stores-foreign-type:"+kindOf(v),
			fmt.Sprintf("a characteristic of format %s holds %s; its typed getter asserts %s", c.Format, show(v), fi.GoType))
	default:
		switch fi.Family {
		case "float":
			f := v.(float64)
			if math.IsNaN(f) || math.IsInf(f, 0) {
				add("float:non-finite-from-"+from, fmt.Sprintf("a float characteristic holds %v", f))
				break
			}
			checkBounds(c, f, add)
		case "int":
			f := float64(v.(int))
			if fi.Ranged && (f < fi.Lo || f > fi.Hi) {
				if !fi.Signed && f < 0 {
					add("range:"+c.Format+":negative-stored", fmt.Sprintf("a %s characteristic holds %d", c.Format, v.(int)))
				} else {
					add("range:"+c.Format+":outside-format-range", fmt.Sprintf("a %s characteristic holds %d, outside [%v, %v]", c.Format, v.(int), fi.Lo, fi.Hi))
				}
				break
			}
			checkBounds(c, f, add)
		}
	}
	// the typed getters must return
	for _, g := range typedGetters(c, fi.Family, c.Format) {
		r.Count("typed_getter_calls", 1)
		if p, text := vf.Recover(g.call); p {
			site, _ := panicOrigin(text)
			if root {
				o.Consequences = append(o.Consequences, g.name+" panics: "+firstLine(text))
			} else {
				o.Findings = append(o.Findings, finding{"getter:panic:" + site, g.name + " panics: " + firstLine(text)})
			}
		}
	}
	// the characteristic must encode (it is an element of the attribute database)
	r.Count("json_encodings", 1)
	if p, text := vf.Recover(func() {
		if _, err := json.Marshal(c); err != nil {
			if root {
				o.Consequences = append(o.Consequences, "json.Marshal fails: "+err.Error())
			} else {
				o.Findings = append(o.Findings, finding{"json:attribute-database-does-not-encode", "json.Marshal of the characteristic fails: " + err.Error()})
			}
		}
	}); p {
		o.Findings = append(o.Findings, finding{"json:panic:" + firstOf(panicOrigin(text)), "json.Marshal of the characteristic panics: " + firstLine(text)})
	}
	return o
}

func checkBounds(c *characteristic.Characteristic, f float64, add func(sig, what string)) {
	if mn, ok := num(c.MinValue); ok && f < mn {
		add("range:below-declared-min", fmt.Sprintf("a %s characteristic with MinValue %v holds %v", c.Format, c.MinValue, c.Value))
	}
	if mx, ok := num(c.MaxValue); ok && f > mx {
		add("range:above-declared-max", fmt.Sprintf("a %s characteristic with MaxValue %v holds %v", c.Format, c.MaxValue, c.Value))
	}
}

func firstOf(s string, _ bool) string { return s }

func firstLine(s string) string {
	if i := strings.IndexByte(s, '\n'); i >= 0 {
		s = s[:i]
	}
	if len(s) > 200 {
		s = s[:200] + "..."
	}
	return s
}

// ---------------------------------------------------------------- sequences

type step struct {
	Mode string // local | remote | get
	Val  *hval
}

func (s step) String() string { return s.Mode + " " + s.Val.Label }

type dummyAddr struct{}

func (dummyAddr) Network() string { return "tcp" }
func (dummyAddr) String() string  { return "192.0.2.1:51826" }

// dummyConn is the connection a remote update is attributed to.
type dummyConn struct{}

func (dummyConn) Read(b []byte) (int, error)         { return 0, os.ErrDeadlineExceeded }
func (dummyConn) Write(b []byte) (int, error)        { return len(b), nil }
func (dummyConn) Close() error                       { return nil }
func (dummyConn) LocalAddr() net.Addr                { return dummyAddr{} }
func (dummyConn) RemoteAddr() net.Addr               { return dummyAddr{} }
func (dummyConn) SetDeadline(t time.Time) error      { return nil }
func (dummyConn) SetReadDeadline(t time.Time) error  { return nil }
func (dummyConn) SetWriteDeadline(t time.Time) error { return nil }

var theConn net.Conn = dummyConn{}

func describe(c *characteristic.Characteristic) map[string]interface{} {
	return map[string]interface{}{"format": c.Format, "perms": c.Perms, "min": show(c.MinValue), "max": show(c.MaxValue), "type": c.Type}
}

// registerTyped registers the typed remote-update callback an application would use for this family.
func registerTyped(c *characteristic.Characteristic, fam, format string, fired *int) {
	switch fam {
	case "bool":
		(&characteristic.Bool{Characteristic: c}).OnValueRemoteUpdate(func(bool) { *fired++ })
	case "float":
		(&characteristic.Float{Characteristic: c}).OnValueRemoteUpdate(func(float64) { *fired++ })
	case "int":
		(&characteristic.Int{Characteristic: c}).OnValueRemoteUpdate(func(int) { *fired++ })
	case "string":
		if format == "string" {
			(&characteristic.String{Characteristic: c}).OnValueRemoteUpdate(func(string) { *fired++ })
		} else {
			(&characteristic.Bytes{String: &characteristic.String{Characteristic: c}}).OnValueRemoteUpdate(func([]byte) { *fired++ })
		}
	}
}

// runSequence applies the steps to a fresh object and judges the state after every step.  It stops at the
// first step that produced a finding (the state is then wrong and every later step would repeat it), so the
// recorded history is a minimal prefix.  It returns false when the subject cannot be used.
func runSequence(r *vf.Run, sub subject, steps []step) bool {
	var c *characteristic.Characteristic
	if p, text := vf.Recover(func() { c = sub.New() }); p || c == nil {
		_ = text
		return false // constructor panics / nil objects are C15's
	}
	fi, known := formats[c.Format]
	if !known || !hasPerm(c.Perms, "pr") {
		return false
	}
	r.Eval()
	fired := 0
	c.OnValueUpdate(func(*characteristic.Characteristic, interface{}, interface{}) { fired++ })
	c.OnValueUpdateFromConn(func(net.Conn, *characteristic.Characteristic, interface{}, interface{}) { fired++ })
	registerTyped(c, fi.Family, c.Format, &fired)

	var history []string
	applied := false
	stateBad := false // a state finding was reported: later states of this object repeat it, only new panics count
	for _, st := range steps {
		history = append(history, st.String())
		before := fired
		v := st.Val.V
		var p bool
		var text string
		switch st.Mode {
		case "local":
			r.Count("updates_local", 1)
			p, text = vf.Recover(func() { c.UpdateValue(v) })
		case "remote":
			r.Count("updates_remote", 1)
			p, text = vf.Recover(func() { c.UpdateValueFromConnection(v, theConn) })
		case "get":
			r.Count("updates_via_get_callback", 1)
			c.OnValueGet(func() interface{} { return v })
			p, text = vf.Recover(func() { c.GetValueFromConnection(theConn) })
			c.OnValueGet(nil)
		case "nested-local", "nested-remote":
			// the update is made from INSIDE an update callback of the same characteristic (an application that corrects or
			// mirrors a value in its callback): an outer update with an ordinary value triggers the callback, the callback
			// passes on the hostile value
			r.Count("updates_nested_in_a_callback", 1)
			remote := st.Mode == "nested-remote"
			armed := true
			nest := func() {
				if armed {
					armed = false
					if remote {
						c.UpdateValueFromConnection(v, theConn)
					} else {
						c.UpdateValue(v)
					}
				}
			}
			c.OnValueUpdate(func(*characteristic.Characteristic, interface{}, interface{}) { nest() })
			p, text = vf.Recover(func() { c.UpdateValue(triggerValue(c)) })
			if armed {
				r.Count("nested_updates_whose_outer_update_changed_nothing", 1)
			}
			armed = false
		case "get-local":
			// the application's own read (typed getters and GetValue go through the same get callback)
			r.Count("updates_via_get_callback_read_locally", 1)
			c.OnValueGet(func() interface{} { return v })
			p, text = vf.Recover(func() { c.GetValue() })
			c.OnValueGet(nil)
		}
		r.Distinct("input_kind_x_format", st.Val.Kind+"->"+c.Format)
		r.Distinct("format_exercised", c.Format)
		r.Distinct("hostile_value", st.Val.Label)
		o := observe(r, c, st.Val.Kind)
		if fired != before || p {
			applied = true
		}
		witness := func() map[string]interface{} {
			w := map[string]interface{}{"path": "in-process", "subject": sub.Name, "characteristic": describe(c), "history": append([]string{}, history...),
				"stored_after_last_step": o.Stored}
			if len(o.Consequences) > 0 {
				w["consequences"] = o.Consequences
			}
			if p {
				w["panic"] = text
			}
			return w
		}
		if p {
			site, inChar := panicOrigin(text)
			r.Count("panics_during_update", 1)
			switch {
			case !inChar:
				// nothing but package characteristic and this file's callbacks runs here
				r.Inconclusive("panic outside package characteristic during an in-process update (monitor defect?): " + firstLine(text) + " at " + site)
				return true
			case strings.Contains(text, "comparing uncomparable"):
				r.Violation("compare:uncomparable-composite:panic",
					fmt.Sprintf("%s update with a composite value panics in %s: %s (history %q on %s)", st.Mode, site, firstLine(text), history, sub.Name), witness())
			case strings.Contains(site, "OnValueRemoteUpdate") && len(o.Findings) > 0:
				// the typed callback received the foreign value that is now stored: consequence of the type finding
				o.Consequences = append(o.Consequences, "typed OnValueRemoteUpdate callback panics: "+firstLine(text))
			case strings.Contains(site, "OnValueRemoteUpdate"):
				r.Violation("callback:panic:"+site, fmt.Sprintf("the typed remote-update callback panics: %s (history %q on %s)", firstLine(text), history, sub.Name), witness())
			default:
				r.Violation("update:panic:"+site, fmt.Sprintf("%s update panics in %s: %s (history %q on %s)", st.Mode, site, firstLine(text), history, sub.Name), witness())
			}
		}
		if !stateBad {
			for _, f := range o.Findings {
				r.Violation(f.Sig, f.What+fmt.Sprintf(" after %q on %s", history, sub.Name), witness())
				stateBad = true
			}
			if stateBad {
				r.Count("sequences_with_a_state_finding", 1)
			}
		}
	}
	if applied {
		r.Nontrivial(sub.Name + "|" + strings.Join(history, ";"))
	}
	return true
}

// ---------------------------------------------------------------- main

func main() {
	r := vf.Start("C12", "exploration")
	r.SetRule("a case = (characteristic subject, sequence of 1..6 updates, each local / remote / through the get callback, each with one value of the hostile set) " +
		"judged after every update, or one PUT /characteristics of a raw JSON value by the reference controller followed by GET /characteristics and GET /accessories; " +
		"non-trivial = distinct (subject, sequence) in which at least one update was applied (a callback fired or hc panicked), and distinct (characteristic, PUT history) over HTTP")
	r.Assume("hc documents one Go type per format through its typed wrappers: bool->bool, float->float64, uint8/uint16/uint32/uint64/int32->int, string/tlv8/data->string; " +
		"a uint64 is held in a Go int, so [0, MaxInt64] is what the format can hold here")
	r.Assume("declared bounds are MinValue / MaxValue read as numbers whatever their Go type; maxLen, minStep and valid-values are not part of the property")
	r.Assume("only finite numbers are supplied as numbers; \"NaN\", \"Inf\", \"1e400\" are supplied as strings")
	r.Watchdog(time.Duration(r.Pick(10, 40)) * time.Minute)

	repo := os.Getenv("VERIF_REPO")
	if repo == "" {
		repo = "/repo"
	}
	r.Extra("repo", repo)
	r.Guard("c12", func() { run(r, repo) })
	r.Finish()
}

func run(r *vf.Run, repo string) {
	if catalog.Source == "" {
		r.Inconclusive("harness/catalog/zz_generated.go is missing (run through ./check, which generates it)")
		return
	}
	if filepath.Clean(catalog.Source) != filepath.Clean(repo) {
		r.Inconclusive(fmt.Sprintf("catalog was generated from %s but VERIF_REPO is %s", catalog.Source, repo))
		return
	}
	for _, u := range catalog.Uncovered {
		if strings.HasPrefix(u, "characteristic.") {
			r.Inconclusive("constructor not covered by the catalog: " + u)
		}
	}

	// ---- subjects
	var subs []subject
	readableCatalog := 0
	for _, cc := range catalog.Chars {
		cc := cc
		ch, panicText := catalog.SafeChar(cc)
		if ch == nil {
			r.Count("catalog_constructors_unusable_left_to_C15", 1)
			_ = panicText
			continue
		}
		r.Count("catalog_constructors", 1)
		if _, known := formats[ch.Format]; !known {
			r.Distinct("catalog_format_outside_model_left_to_C15", ch.Format)
			continue
		}
		if !hasPerm(ch.Perms, "pr") {
			r.Count("catalog_characteristics_not_readable_left_to_C11", 1)
			continue
		}
		readableCatalog++
		sub := subject{Name: "characteristic." + cc.Name, New: func() *characteristic.Characteristic {
			c, _ := catalog.SafeChar(cc)
			return c
		}}
		subs = append(subs, sub)
		// the state a constructor returns is a state too
		if ch.Value == nil {
			r.Violation("default:readable-without-value:"+cc.Name, "characteristic."+cc.Name+"() is readable but has no value; its typed getter panics",
				map[string]interface{}{"subject": sub.Name, "characteristic": describe(ch)})
		} else if o := observe(r, ch, ""); len(o.Findings) > 0 {
			for _, f := range o.Findings {
				r.Violation("default:"+f.Sig+":"+cc.Name, "state returned by the constructor: "+f.What,
					map[string]interface{}{"subject": sub.Name, "characteristic": describe(ch), "stored": o.Stored, "consequences": o.Consequences})
			}
		}
	}
	synth := syntheticSubjects()
	subs = append(subs, synth...)
	r.Count("subjects_catalog_readable", readableCatalog)
	r.Count("subjects_synthetic", len(synth))
	r.Floor("readable catalog characteristics", readableCatalog, 100)

	vals := hostileValues(r)
	r.Count("hostile_values", len(vals))
	var jsonVals []*hval
	for _, v := range vals {
		if !v.Native {
			jsonVals = append(jsonVals, v)
		}
	}
	modesFor := func(v *hval) []string {
		if v.Native {
			return []string{"local", "get", "get-local", "nested-local"} // a controller cannot send a Go int8
		}
		return []string{"local", "remote", "get", "get-local", "nested-local", "nested-remote"}
	}

	// ---- 1. every subject x every value x every mode, once and twice in a row
	used := map[string]bool{}
	for _, sub := range subs {
		for _, v := range vals {
			for _, m := range modesFor(v) {
				if runSequence(r, sub, []step{{m, v}}) {
					used[sub.Name] = true
				}
				runSequence(r, sub, []step{{m, v}, {m, v}})
			}
		}
	}
	r.Count("subjects_exercised", len(used))
	r.Floor("subjects exercised", len(used), readableCatalog+len(synth))

	// ---- 1b. values placed relative to each subject's OWN declared bounds: the next representable number beyond a bound,
	// a bound plus / minus 1e-12 .. 1e-6 (what a tolerance for rounding noise would let through), the neighbouring integers
	for _, sub := range subs {
		var c *characteristic.Characteristic
		if p, _ := vf.Recover(func() { c = sub.New() }); p || c == nil {
			continue
		}
		var rel []*hval
		add := func(label string, x float64) {
			t := strconv.FormatFloat(x, 'g', -1, 64)
			rel = append(rel, &hval{Label: "json " + label + "=" + t, Kind: "number", V: x, JSON: t},
				&hval{Label: "json \"" + label + "=" + t + "\"", Kind: "string", V: t, JSON: `"` + t + `"`})
		}
		for which, b := range map[string]interface{}{"max": c.MaxValue, "min": c.MinValue} {
			var f float64
			switch x := b.(type) {
			case float64:
				f = x
			case int:
				f = float64(x)
			default:
				continue
			}
			out, in := math.Inf(1), math.Inf(-1)
			if which == "min" {
				out, in = in, out
			}
			add(which+"+ulp-outwards", math.Nextafter(f, out))
			add(which+"+ulp-inwards", math.Nextafter(f, in))
			sgn := 1.0
			if which == "min" {
				sgn = -1
			}
			for _, d := range []float64{1e-12, 1e-10, 5e-10, 1e-9, 2e-9, 1e-7, 1e-6, 0.49, 0.5, 1} {
				add(fmt.Sprintf("%s%+g", which, sgn*d), f+sgn*d)
			}
		}
		if len(rel) == 0 {
			continue
		}
		r.Count("subjects_probed_next_to_their_own_bounds", 1)
		for _, v := range rel {
			for _, m := range []string{"local", "remote", "nested-local"} {
				runSequence(r, sub, []step{{m, v}})
				r.Count("values_next_to_a_declared_bound", 1)
			}
		}
	}
	r.Floor("subjects probed next to their own bounds", int(r.Counter("subjects_probed_next_to_their_own_bounds")), 50)

	// ---- 2. every ordered pair of values on the synthetic subjects (all of them in thorough, local+remote)
	for _, sub := range synth {
		for _, a := range vals {
			for _, b := range vals {
				runSequence(r, sub, []step{{"local", a}, {"local", b}})
				if r.Thorough() && !a.Native && !b.Native {
					runSequence(r, sub, []step{{"remote", a}, {"remote", b}})
					runSequence(r, sub, []step{{"local", a}, {"remote", b}})
				}
			}
		}
	}

	// ---- 3. random sequences over all subjects
	rnd := r.Rand("c12-seq")
	nseq := r.Pick(30000, 1500000)
	for i := 0; i < nseq; i++ {
		sub := subs[rnd.Intn(len(subs))]
		if rnd.Intn(3) == 0 {
			sub = synth[rnd.Intn(len(synth))]
		}
		k := 2 + rnd.Intn(5)
		steps := make([]step, 0, k)
		for j := 0; j < k; j++ {
			var v *hval
			if j > 0 && rnd.Intn(4) == 0 {
				v = steps[j-1].Val // the same value again (composites included)
			} else {
				v = vals[rnd.Intn(len(vals))]
			}
			ms := modesFor(v)
			steps = append(steps, step{ms[rnd.Intn(len(ms))], v})
		}
		runSequence(r, sub, steps)
		if i == 0 || i == 101 || i == 5003 || i == 20011 {
			var h []string
			for _, s := range steps {
				h = append(h, s.String())
			}
			r.Sample(map[string]interface{}{"path": "in-process", "subject": sub.Name, "sequence": h})
		}
	}
	r.Floor("states checked in-process", int(r.Counter("states_checked")), 100000)
	r.Floor("hostile values used", r.DistinctN("hostile_value"), len(vals))
	r.Floor("formats exercised", r.DistinctN("format_exercised"), len(formats))
	var fm []string
	for f := range formats {
		fm = append(fm, f)
	}
	sort.Strings(fm)
	r.Extra("formats_in_model", fm)

	// ---- 4. the HTTP path
	runHTTP(r, jsonVals, synth)
}

// triggerValue returns an ordinary value of the characteristic's format, inside its bounds, that differs from what it holds.
func triggerValue(c *characteristic.Characteristic) interface{} {
	switch c.Format {
	case characteristic.FormatBool:
		b, _ := c.Value.(bool)
		return !b
	case characteristic.FormatFloat:
		lo := 0.0
		if m, ok := c.MinValue.(float64); ok {
			lo = m
		}
		if m, ok := c.MaxValue.(float64); ok && lo > m {
			lo = m
		}
		if cur, ok := c.Value.(float64); ok && cur == lo {
			if m, ok := c.MaxValue.(float64); !ok || lo+1 <= m {
				return lo + 1
			}
			return lo - 1
		}
		return lo
	case characteristic.FormatString, characteristic.FormatTLV8, characteristic.FormatData:
		if s, _ := c.Value.(string); s == "AQID" {
			return "BAUG"
		}
		return "AQID"
	}
	lo := 0
	if m, ok := c.MinValue.(int); ok {
		lo = m
	}
	if cur, ok := c.Value.(int); ok && cur == lo {
		if m, ok := c.MaxValue.(int); !ok || lo+1 <= m {
			return lo + 1
		}
	}
	return lo
}

package main

import (
	"encoding/json"
	"math"
	"strings"

	"verif/vf"
)

// hval is one hostile value.  JSON values are produced by encoding/json from their text, exactly as the
// PUT handler of an accessory receives them (float64, string, bool, nil, []interface{},
// map[string]interface{}); Go-native numbers are what an application may pass to UpdateValue.
type hval struct {
	Label  string      // stable name used in histories and evidence
	Kind   string      // number | string | bool | null | array | object
	V      interface{} // the same Go object is supplied every time the value is used
	JSON   string      // raw JSON text ("" for Go-native values)
	Native bool
}

var jsonTexts = []string{
	// finite numbers of any magnitude or sign
	"0", "-1", "0.5", "1", "2", "-40", "100", "255", "256", "360.5", "65535", "65536",
	"2147483647", "2147483648", "-2147483648", "-2147483649", "4294967295", "4294967296",
	"9007199254740992", "9007199254740993", "9007199254740994", "18014398509481987", "18014398509481988", "4611686018427387906", "4611686018427387904", "9223372036854775807", "9223372036854775808", "-9223372036854775809",
	"18446744073709551615", "18446744073709551616", "1e19", "1e300", "-1e300", "5e-324", "-0.0", "1e-5",
	// the largest finite magnitudes (anything that re-parses or rounds a float may turn them into an infinity), float32's, the smallest normal
	"1.7976931348623157e308", "-1.7976931348623157e308", "1.7976931348623155e308", "3.4028234663852886e38", "3.4028235677973366e38", "2.2250738585072014e-308", "0.1", "0.30000000000000004",
	// strings
	`""`, `"abc"`, `"12"`, `"-3"`, `"1e5"`, `"12.7"`, `" 5"`, `"0x10"`, `"NaN"`, `"Inf"`, `"-Infinity"`, `"+Inf"`, `"infinity"`, `"1e400"`, `"-1e400"`, `"1.7976931348623157e308"`, `"-1.7976931348623157e308"`, `"1.7976931348623159e308"`,
	`"true"`, `"false"`, `"1"`, `"AQID"`, `"18446744073709551616"`, `"-9223372036854775809"`, `"null"`, `"9007199254740993"`, `"18014398509481987"`, `"4611686018427387906"`,
	// booleans and null
	"true", "false", "null",
	// composites, flat and nested
	"[]", "[1]", `[1,"a",null,true]`, "[[1,[2,[3]]]]", "{}", `{"a":1}`, `{"a":{"b":[1,{"c":null}]},"d":"e"}`, `[{"a":[]}]`,
}

func hostileValues(r *vf.Run) []*hval {
	var out []*hval
	for _, t := range jsonTexts {
		var v interface{}
		if err := json.Unmarshal([]byte(t), &v); err != nil {
			r.Inconclusive("hostile value table: " + t + ": " + err.Error())
			continue
		}
		out = append(out, &hval{Label: "json " + t, Kind: kindOf(v), V: v, JSON: t})
	}
	big := strings.Repeat("a", 10*1024)
	out = append(out, &hval{Label: "json \"a\"x10240", Kind: "string", V: big, JSON: `"` + big + `"`})

	native := func(label string, v interface{}) {
		out = append(out, &hval{Label: "go " + label, Kind: "number", V: v, Native: true})
	}
	native("int(0)", int(0))
	native("int(-1)", int(-1))
	native("int(7)", int(7))
	native("int(256)", int(256))
	native("int(70000)", int(70000))
	native("int(1<<31)", int(1<<31))
	native("int(1<<32)", int(1<<32))
	native("int(-1<<31-1)", int(-1<<31-1))
	native("int(1<<53+1)", int(1<<53+1))
	native("int(1<<53+2)", int(1<<53+2))
	native("int(1<<54+3)", int(1<<54+3))
	native("int(1<<54+4)", int(1<<54+4))
	native("int(1<<62+2)", int(1<<62+2))
	native("uint64(1<<62+2)", uint64(1<<62+2))
	native("int(MaxInt64)", int(math.MaxInt64))
	native("int(MinInt64)", int(math.MinInt64))
	native("int8(-5)", int8(-5))
	native("int16(-300)", int16(-300))
	native("int32(MinInt32)", int32(math.MinInt32))
	native("int64(1<<40)", int64(1<<40))
	native("int64(-1<<40)", int64(-1<<40))
	native("uint(7)", uint(7))
	native("uint8(200)", uint8(200))
	native("uint16(65535)", uint16(65535))
	native("uint32(MaxUint32)", uint32(math.MaxUint32))
	native("uint64(1<<63)", uint64(1<<63))
	native("uint64(MaxUint64)", uint64(math.MaxUint64))
	// values of NAMED types (an application's own type Label string, encoding/json's json.Number, a named int ...): the
	// stored value must have the Go type of the format all the same
	native("label(\"named string\")", label("named string"))
	native("json.Number(\"42\")", json.Number("42"))
	native("json.Number(\"12:30\")", json.Number("12:30"))
	native("json.Number(\"1e400\")", json.Number("1e400"))
	native("level(7)", level(7))
	native("level(-70000)", level(-70000))
	native("ratio(0.25)", ratio(0.25))
	native("flag(true)", flag(true))
	native("float64(MaxFloat64)", float64(math.MaxFloat64))
	native("float64(-MaxFloat64)", float64(-math.MaxFloat64))
	native("float32(MaxFloat32)", float32(math.MaxFloat32))
	native("float32(0.5)", float32(0.5))
	native("float32(-3e38)", float32(-3e38))
	native("float32(1e10)", float32(1e10))
	return out
}

type label string
type level int
type ratio float64
type flag bool

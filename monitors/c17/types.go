package main

import (
	"reflect"

	"github.com/brutella/hc/rtp"
)

// Synthetic structs: one per field kind (so a failure names the kind) plus mixed ones.
// Conventions learnt from hc's own tests: the tag is the decimal number in `tlv8:"N"`, a slice of
// structs with tag "-" is an inline list, with a number a tagged list, pointers to structs are
// encoded like the struct.  Tags of inline-list elements never collide with sibling tags.

type SOne struct {
	V uint8 `tlv8:"1"`
}

type STwo struct {
	A uint8  `tlv8:"1"`
	B uint16 `tlv8:"2"`
}

type SName struct {
	Name string `tlv8:"3"`
}

type SNameHi struct {
	Name string `tlv8:"40"`
}

type SLeaf struct {
	A uint8  `tlv8:"1"`
	S string `tlv8:"2"`
	N int32  `tlv8:"3"`
}

type SU8 struct {
	V uint8 `tlv8:"1"`
}
type SU16 struct {
	V uint16 `tlv8:"1"`
}
type SU32 struct {
	V uint32 `tlv8:"1"`
}
type SU64 struct {
	V uint64 `tlv8:"1"`
}
type SI8 struct {
	V int8 `tlv8:"1"`
}
type SI16 struct {
	V int16 `tlv8:"1"`
}
type SI32 struct {
	V int32 `tlv8:"1"`
}
type SI64 struct {
	V int64 `tlv8:"1"`
}
type SF32 struct {
	V float32 `tlv8:"1"`
}
type SBool struct {
	V bool `tlv8:"1"`
}
type SStr struct {
	V string `tlv8:"1"`
}
type SBytes struct {
	V []byte `tlv8:"1"`
}

// tag extremes 0 and 255 (hc's own test uses tag 0 for a string)
type STagEdge struct {
	Z uint8  `tlv8:"0"`
	S string `tlv8:"255"`
}

type SInts struct {
	U8  uint8  `tlv8:"1"`
	U16 uint16 `tlv8:"2"`
	U32 uint32 `tlv8:"3"`
	U64 uint64 `tlv8:"4"`
	I16 int16  `tlv8:"5"`
	I32 int32  `tlv8:"6"`
	I64 int64  `tlv8:"7"`
}

type SMid struct {
	X uint8 `tlv8:"1"`
	L SLeaf `tlv8:"2"`
}

type SNested struct {
	Head uint8  `tlv8:"1"`
	In   SLeaf  `tlv8:"2"`
	Ptr  *SLeaf `tlv8:"3"`
	Tail uint16 `tlv8:"4"`
	Deep SMid   `tlv8:"5"`
}

type STagged struct {
	Head uint8   `tlv8:"9"`
	L    []SLeaf `tlv8:"10"`
	Tail uint8   `tlv8:"11"`
}

type STaggedOnly struct {
	L []SLeaf `tlv8:"10"`
}

type SInline struct {
	Head uint8  `tlv8:"9"`
	L    []SOne `tlv8:"-"`
	Tail uint8  `tlv8:"11"`
}

type SInlineOnly struct {
	L []SOne `tlv8:"-"`
}

// like hc's own person/alias test: inline elements that are one string (may exceed 255 bytes)
type SInlineStr struct {
	Name string  `tlv8:"1"`
	L    []SName `tlv8:"-"`
}

// inline elements with two fields (the shape of HAP's own separated lists, e.g. the pairing list)
type SInlineMulti struct {
	L []STwo `tlv8:"-"`
}

// inline elements whose FIRST field is of a kind that is not written when it is empty
type STrack struct {
	Label string `tlv8:"1"`
	Id    uint8  `tlv8:"2"`
	Gain  uint16 `tlv8:"3"`
}
type SInlineOmitFirst struct {
	Title string   `tlv8:"7"`
	L     []STrack `tlv8:"-"`
}
type SKeyed struct {
	Salt []byte `tlv8:"1"`
	Kind uint8  `tlv8:"2"`
	Note string `tlv8:"3"`
}
type SInlineBytesFirst struct {
	L   []SKeyed `tlv8:"-"`
	Rev uint32   `tlv8:"9"`
}

// several inline lists side by side, as rtp.VideoCodecParameters does
type SInlineTriple struct {
	A []SOne  `tlv8:"-"`
	B []SName `tlv8:"-"`
}

type STwoLists struct {
	A []SOne  `tlv8:"1"`
	B []SLeaf `tlv8:"2"`
	C uint8   `tlv8:"3"`
}

type SAll struct {
	U8   uint8     `tlv8:"1"`
	U16  uint16    `tlv8:"2"`
	U32  uint32    `tlv8:"3"`
	U64  uint64    `tlv8:"4"`
	I16  int16     `tlv8:"5"`
	I32  int32     `tlv8:"6"`
	I64  int64     `tlv8:"7"`
	F32  float32   `tlv8:"8"`
	B    bool      `tlv8:"9"`
	S    string    `tlv8:"10"`
	Y    []byte    `tlv8:"11"`
	In   SLeaf     `tlv8:"12"`
	P    *SMid     `tlv8:"13"`
	TL   []SLeaf   `tlv8:"14"`
	IL   []SNameHi `tlv8:"-"`
	Last uint8     `tlv8:"15"`
}

type typeEntry struct {
	name string
	t    reflect.Type
	rtp  bool
}

func te(v interface{}, isRTP bool) typeEntry {
	t := reflect.TypeOf(v)
	return typeEntry{t.String(), t, isRTP}
}

// every struct type of package rtp that carries tlv8 tags (checked against the source at run time)
var rtpTypes = []typeEntry{
	te(rtp.SetupEndpoints{}, true),
	te(rtp.SetupEndpointsResponse{}, true),
	te(rtp.StreamConfiguration{}, true),
	te(rtp.VideoStreamConfiguration{}, true),
	te(rtp.AudioStreamConfiguration{}, true),
	te(rtp.StreamingStatus{}, true),
	te(rtp.Configuration{}, true),
	te(rtp.Addr{}, true),
	te(rtp.CryptoSuite{}, true),
	te(rtp.CryptoSuiteType{}, true),
	te(rtp.SupportedCryptoSuite{}, true),
	te(rtp.SessionControlCommand{}, true),
	te(rtp.VideoParameters{}, true),
	te(rtp.AudioParameters{}, true),
	te(rtp.RTPParams{}, true),
	te(rtp.AudioCodecConfiguration{}, true),
	te(rtp.AudioCodecParameters{}, true),
	te(rtp.VideoCodecConfiguration{}, true),
	te(rtp.VideoCodecParameters{}, true),
	te(rtp.VideoCodecProfile{}, true),
	te(rtp.VideoCodecLevel{}, true),
	te(rtp.VideoCodecPacketization{}, true),
	te(rtp.VideoCodecAttributes{}, true),
}

var synTypes = []typeEntry{
	te(SU8{}, false), te(SU16{}, false), te(SU32{}, false), te(SU64{}, false),
	te(SI16{}, false), te(SI32{}, false), te(SI64{}, false),
	te(SF32{}, false), te(SBool{}, false), te(SStr{}, false), te(SBytes{}, false),
	te(STagEdge{}, false), te(SInts{}, false), te(SLeaf{}, false), te(SMid{}, false), te(SNested{}, false),
	te(STagged{}, false), te(STaggedOnly{}, false), te(SInline{}, false), te(SInlineOnly{}, false),
	te(SInlineStr{}, false), te(SInlineMulti{}, false), te(SInlineTriple{}, false), te(STwoLists{}, false),
	te(SAll{}, false), te(SInlineOmitFirst{}, false), te(SInlineBytesFirst{}, false),
}

// int8 is not among the kinds hc's encoder switches on; it joins the other types only when a probe
// shows that hc accepts it (see main).
var int8Type = te(SI8{}, false)

package main

import (
	"math"
	"math/rand"
	"reflect"
)

// ---- boundary tables ------------------------------------------------------------------------------

var uBounds = map[int][]uint64{
	8:  {0, 1, 2, 127, 128, 254, 255},
	16: {0, 1, 255, 256, 0x7FFF, 0x8000, 0xFFFE, 0xFFFF, 0x0102},
	32: {0, 1, 255, 256, 0xFFFF, 0x10000, 0x7FFFFFFF, 0x80000000, 0xFFFFFFFF, 0x01020304},
	64: {0, 1, 255, 0xFFFFFFFF, 0x100000000, 1 << 40, 0x7FFFFFFFFFFFFFFF, 0x8000000000000000, 0xFFFFFFFFFFFFFFFF, 0x0102030405060708},
}

var iBounds = map[int][]int64{
	8:  {0, 1, -1, 127, -128, 2, -2},
	16: {0, 1, -1, 127, 128, 255, 256, -256, -400, math.MaxInt16, math.MinInt16, 0x0102},
	32: {0, 1, -1, 255, 65535, 65536, -65536, -70000, math.MaxInt32, math.MinInt32, 0x01020304},
	64: {0, 1, -1, math.MaxInt32, math.MinInt32, 1 << 32, 1 << 40, -(1 << 40), math.MaxInt64, math.MinInt64, 0x0102030405060708},
}

var fBounds = []float32{0, float32(math.Copysign(0, -1)), 1, -1, 0.5, 1.234567, 30, math.MaxFloat32, -math.MaxFloat32,
	math.SmallestNonzeroFloat32, float32(math.Inf(1)), float32(math.Inf(-1)), math.Float32frombits(0x7fc00000)}

var lenBounds = []int{0, 1, 254, 255, 256, 600}
var lenExtra = []int{2, 3, 14, 16, 32, 100, 509, 510, 511}

func bitsOf(k reflect.Kind) int {
	switch k {
	case reflect.Uint8, reflect.Int8:
		return 8
	case reflect.Uint16, reflect.Int16:
		return 16
	case reflect.Uint32, reflect.Int32:
		return 32
	}
	return 64
}

// ---- structural facts about types -----------------------------------------------------------------

// alwaysEmits reports whether every value of the struct type has a non-empty encoding (it has a
// scalar field, or a nested struct that always emits).
func alwaysEmits(t reflect.Type) bool {
	for _, f := range fields(t) {
		switch k := kindOf(f); k {
		case "string", "bytes", "tagged-list", "inline-list":
		case "nested-struct":
			if f.typ.Kind() == reflect.Struct && alwaysEmits(f.typ) {
				return true
			}
		default:
			return true
		}
	}
	return false
}

// valid reports whether v lies inside the generator's domain:
//   - pointers to structs are not nil (a nil pointer is not a nested struct value);
//   - list elements and pointer targets have a non-empty encoding (an element that encodes to nothing
//     cannot be represented in TLV8 at all);
//     (An element of an inline list with several fields may omit some of them - empty strings and byte slices are not
//     written - as long as something is left of it: the separator keeps it apart from its neighbours.)
func valid(v reflect.Value) bool {
	for _, f := range fields(v.Type()) {
		fv := v.Field(f.idx)
		switch kindOf(f) {
		case "nested-struct":
			if fv.Kind() == reflect.Ptr {
				if fv.IsNil() {
					return false
				}
				fv = fv.Elem()
				if len(refEncode(fv)) == 0 {
					return false
				}
			}
			if !valid(fv) {
				return false
			}
		case "tagged-list", "inline-list":
			for i := 0; i < fv.Len(); i++ {
				e := fv.Index(i)
				if len(refEncode(e)) == 0 || !valid(e) {
					return false
				}
			}
		}
	}
	return true
}

// inlineTagsCollide checks that the tags an inline list's elements use are not used by a sibling
// field of the same struct (such a type is ambiguous on the wire whatever the codec does).
func inlineTagsCollide(t reflect.Type, seen map[reflect.Type]bool) string {
	if seen[t] {
		return ""
	}
	seen[t] = true
	used := map[byte]string{}
	var walk func(t reflect.Type, owner string) string
	walk = func(t reflect.Type, owner string) string {
		for _, f := range fields(t) {
			if f.inline {
				if s := walk(f.typ.Elem(), owner+"."+f.name); s != "" {
					return s
				}
				continue
			}
			if prev, ok := used[f.tag]; ok {
				return t.String() + ": tag of " + owner + "." + f.name + " also used by " + prev
			}
			used[f.tag] = owner + "." + f.name
		}
		return ""
	}
	if s := walk(t, t.String()); s != "" {
		return s
	}
	for _, f := range fields(t) {
		ft := f.typ
		for ft.Kind() == reflect.Ptr || ft.Kind() == reflect.Slice {
			ft = ft.Elem()
		}
		if ft.Kind() == reflect.Struct {
			if s := inlineTagsCollide(ft, seen); s != "" {
				return s
			}
		}
	}
	return ""
}

// ---- random values --------------------------------------------------------------------------------

type gen struct {
	rnd *rand.Rand
}

func (g *gen) blob(n int, printable bool) []byte {
	b := make([]byte, n)
	if printable {
		for i := range b {
			b[i] = byte(0x20 + g.rnd.Intn(0x5f))
		}
	} else {
		g.rnd.Read(b)
	}
	return b
}

func (g *gen) length(nonEmpty bool) int {
	var n int
	switch r := g.rnd.Intn(10); {
	case r < 4:
		n = lenBounds[g.rnd.Intn(len(lenBounds))]
	case r < 6:
		n = lenExtra[g.rnd.Intn(len(lenExtra))]
	default:
		n = g.rnd.Intn(40)
	}
	if n == 0 && nonEmpty {
		n = 1
	}
	return n
}

func (g *gen) listLen(depth int) int {
	if depth <= 1 && g.rnd.Intn(30) == 0 {
		return 16 + g.rnd.Intn(9) // long lists of small elements make elements of the enclosing list exceed 255 bytes
	}
	return g.rnd.Intn(5)
}

// fill sets v (addressable) to a random value with a bias towards boundaries.
func (g *gen) fill(v reflect.Value, nonEmpty bool, depth int) {
	switch v.Kind() {
	case reflect.Uint8, reflect.Uint16, reflect.Uint32, reflect.Uint64:
		w := bitsOf(v.Kind())
		if g.rnd.Intn(10) < 6 {
			b := uBounds[w]
			v.SetUint(b[g.rnd.Intn(len(b))])
		} else {
			v.SetUint(g.rnd.Uint64() >> uint(64-w))
		}
	case reflect.Int8, reflect.Int16, reflect.Int32, reflect.Int64:
		w := bitsOf(v.Kind())
		if g.rnd.Intn(10) < 6 {
			b := iBounds[w]
			v.SetInt(b[g.rnd.Intn(len(b))])
		} else {
			v.SetInt(int64(g.rnd.Uint64()) >> uint(64-w))
		}
	case reflect.Float32:
		if g.rnd.Intn(10) < 5 {
			v.SetFloat(float64(fBounds[g.rnd.Intn(len(fBounds))]))
		} else {
			f := math.Float32frombits(g.rnd.Uint32())
			if f != f {
				f = float32(g.rnd.NormFloat64())
			}
			v.SetFloat(float64(f))
		}
	case reflect.Bool:
		v.SetBool(g.rnd.Intn(2) == 1)
	case reflect.String:
		v.SetString(string(g.blob(g.length(nonEmpty), g.rnd.Intn(4) != 0)))
	case reflect.Slice:
		if v.Type().Elem().Kind() == reflect.Uint8 {
			n := g.length(nonEmpty)
			if n == 0 {
				v.Set(reflect.Zero(v.Type()))
			} else {
				v.SetBytes(g.blob(n, false))
			}
			return
		}
		n := g.listLen(depth)
		if n == 0 {
			v.Set(reflect.Zero(v.Type()))
			return
		}
		s := reflect.MakeSlice(v.Type(), n, n)
		for i := 0; i < n; i++ {
			g.fill(s.Index(i), nonEmpty, depth+1)
		}
		v.Set(s)
	case reflect.Ptr:
		p := reflect.New(v.Type().Elem())
		g.fill(p.Elem(), nonEmpty || !alwaysEmits(v.Type().Elem()), depth+1)
		v.Set(p)
	case reflect.Struct:
		for _, f := range fields(v.Type()) {
			ne := nonEmpty
			if k := kindOf(f); k == "tagged-list" || k == "inline-list" {
				et := f.typ.Elem()
				if !alwaysEmits(et) {
					ne = true
				}
			}
			g.fill(v.Field(f.idx), ne, depth+1)
		}
	default:
		panic("monitor: fill " + v.Kind().String())
	}
}

func (g *gen) value(t reflect.Type) reflect.Value {
	v := reflect.New(t).Elem()
	g.fill(v, false, 0)
	return v
}

// ---- shrinking ------------------------------------------------------------------------------------

// cands lists values of v's type that are one simplification step away from v.
func cands(v reflect.Value) []reflect.Value {
	var out []reflect.Value
	mk := func(set func(c reflect.Value)) {
		c := deepCopy(v)
		set(c)
		out = append(out, c)
	}
	switch v.Kind() {
	case reflect.Struct:
		for _, f := range fields(v.Type()) {
			idx := f.idx
			for _, fc := range cands(v.Field(idx)) {
				fc := fc
				mk(func(c reflect.Value) { c.Field(idx).Set(fc) })
			}
		}
	case reflect.Ptr:
		if !v.IsNil() {
			for _, ec := range cands(v.Elem()) {
				ec := ec
				mk(func(c reflect.Value) { c.Elem().Set(ec) })
			}
		}
	case reflect.String:
		for _, n := range shorter(v.Len()) {
			n := n
			mk(func(c reflect.Value) { c.SetString(v.String()[:n]) })
		}
	case reflect.Slice:
		if v.Type().Elem().Kind() == reflect.Uint8 {
			for _, n := range shorter(v.Len()) {
				n := n
				mk(func(c reflect.Value) {
					if n == 0 {
						c.Set(reflect.Zero(v.Type()))
					} else {
						c.SetBytes(append([]byte(nil), v.Bytes()[:n]...))
					}
				})
			}
			break
		}
		for i := 0; i < v.Len(); i++ {
			i := i
			mk(func(c reflect.Value) {
				s := reflect.MakeSlice(v.Type(), 0, v.Len())
				for j := 0; j < v.Len(); j++ {
					if j != i {
						s = reflect.Append(s, deepCopy(v.Index(j)))
					}
				}
				if s.Len() == 0 {
					s = reflect.Zero(v.Type())
				}
				c.Set(s)
			})
		}
		for i := 0; i < v.Len(); i++ {
			i := i
			for _, ec := range cands(v.Index(i)) {
				ec := ec
				mk(func(c reflect.Value) { c.Index(i).Set(ec) })
			}
		}
	case reflect.Uint8, reflect.Uint16, reflect.Uint32, reflect.Uint64:
		if v.Uint() != 0 {
			mk(func(c reflect.Value) { c.SetUint(0) })
			if v.Uint() != 1 {
				mk(func(c reflect.Value) { c.SetUint(1) })
			}
		}
	case reflect.Int8, reflect.Int16, reflect.Int32, reflect.Int64:
		if v.Int() != 0 {
			mk(func(c reflect.Value) { c.SetInt(0) })
			if v.Int() != 1 {
				mk(func(c reflect.Value) { c.SetInt(1) })
			}
		}
	case reflect.Float32:
		if f := v.Float(); f != 0 || math.Signbit(f) {
			mk(func(c reflect.Value) { c.SetFloat(0) })
			if f != 1 {
				mk(func(c reflect.Value) { c.SetFloat(1) })
			}
		}
	case reflect.Bool:
		if v.Bool() {
			mk(func(c reflect.Value) { c.SetBool(false) })
		}
	}
	return out
}

func shorter(n int) []int {
	var out []int
	add := func(k int) {
		if k < n {
			for _, o := range out {
				if o == k {
					return
				}
			}
			out = append(out, k)
		}
	}
	add(0)
	add(1)
	add(n / 2)
	add(254)
	add(255)
	add(256)
	return out
}

// shrink greedily simplifies v while keep holds (and the value stays in the generator's domain).
// budget bounds the number of candidates tried (a count, not a time), so the result is deterministic.
func shrink(v reflect.Value, budget int, keep func(reflect.Value) bool) reflect.Value {
	cur := v
	for budget > 0 {
		progressed := false
		for _, c := range cands(cur) {
			if budget--; budget < 0 {
				break
			}
			if valid(c) && keep(c) {
				cur = c
				progressed = true
				break
			}
		}
		if !progressed {
			break
		}
	}
	return cur
}

// ---- decoder input --------------------------------------------------------------------------------

var leafLens = []int{0, 1, 2, 3, 4, 5, 7, 8, 9, 16}

// malformed writes a byte string that has the item structure of type t but arbitrary value widths,
// missing / duplicated / reordered fields and optional delimiters: decoders reach their per-kind
// readers with it, which plain random bytes almost never do for nested types.
func (g *gen) malformed(t reflect.Type, depth int) []byte {
	fs := append([]fieldInfo(nil), fields(t)...)
	if g.rnd.Intn(6) == 0 {
		g.rnd.Shuffle(len(fs), func(i, j int) { fs[i], fs[j] = fs[j], fs[i] })
	}
	var out []byte
	raw := func(tag byte, val []byte) {
		if len(val) > 255 || g.rnd.Intn(8) != 0 {
			out = appendItem(out, tag, val)
			if len(val) == 0 && g.rnd.Intn(2) == 0 {
				out = append(out, tag, 0)
			}
			return
		}
		out = append(out, tag, byte(len(val)))
		out = append(out, val...)
	}
	for _, f := range fs {
		if g.rnd.Intn(7) == 0 {
			continue
		}
		reps := 1
		if g.rnd.Intn(10) == 0 {
			reps = 2
		}
		for ; reps > 0; reps-- {
			switch k := kindOf(f); k {
			case "nested-struct":
				et := f.typ
				if et.Kind() == reflect.Ptr {
					et = et.Elem()
				}
				if g.rnd.Intn(6) == 0 || depth > 5 {
					raw(f.tag, g.blob(g.rnd.Intn(12), false))
				} else {
					raw(f.tag, g.malformed(et, depth+1))
				}
			case "tagged-list", "inline-list":
				n := g.rnd.Intn(4)
				for i := 0; i < n; i++ {
					if i > 0 && g.rnd.Intn(5) != 0 {
						out = append(out, 0, 0)
					}
					var e []byte
					if depth > 5 {
						e = g.blob(g.rnd.Intn(8), false)
					} else {
						e = g.malformed(f.typ.Elem(), depth+1)
					}
					if f.inline {
						out = append(out, e...)
					} else {
						raw(f.tag, e)
					}
				}
			case "string", "bytes":
				raw(f.tag, g.blob(g.length(false), false))
			default:
				n := leafLens[g.rnd.Intn(len(leafLens))]
				if g.rnd.Intn(3) == 0 {
					n = len(refLeaf(reflect.Zero(f.typ)))
				}
				raw(f.tag, g.blob(n, false))
			}
		}
	}
	if g.rnd.Intn(8) == 0 {
		raw(byte(g.rnd.Intn(256)), g.blob(g.rnd.Intn(6), false))
	}
	return out
}

// randomItems is a sequence of well-formed items with small tags and arbitrary values.
func (g *gen) randomItems() []byte {
	var out []byte
	n := g.rnd.Intn(8)
	for i := 0; i < n; i++ {
		tag := byte(g.rnd.Intn(16))
		if g.rnd.Intn(10) == 0 {
			tag = byte(g.rnd.Intn(256))
		}
		l := leafLens[g.rnd.Intn(len(leafLens))]
		if g.rnd.Intn(12) == 0 {
			l = 200 + g.rnd.Intn(56)
		}
		out = append(out, tag, byte(l))
		out = append(out, g.blob(l, false)...)
	}
	return out
}

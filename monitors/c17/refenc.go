package main

// Independent reference encoder for tagged structs, written from the stated wire conventions:
//   - an item is  tag(1) length(1) value(length); values longer than 255 bytes are split into
//     255-byte fragments carrying the same tag (the last fragment holds the remainder, 1..255 bytes);
//   - integers are little-endian in the width of the field (1, 2, 4, 8 bytes, two's complement);
//   - float32 is the IEEE-754 single-precision bit pattern, little-endian;
//   - bool is one byte, 0 or 1;
//   - string and bytes are the raw bytes; empty ones are omitted (hc's convention);
//   - a nested struct (or pointer to one) is the encoding of the struct as the value of its tag
//     (omitted when that encoding is empty);
//   - a tagged list writes each element as an item under the list's tag, an inline list ("-") writes
//     the elements' items directly; consecutive elements are separated by the zero-length item 00 00.
// It shares no code with hc; it only uses reflect and the struct tags.

import (
	"fmt"
	"math"
	"reflect"
	"strconv"
	"strings"
)

type fieldInfo struct {
	idx    int
	name   string
	inline bool
	tag    byte
	typ    reflect.Type
}

var fieldCache = map[reflect.Type][]fieldInfo{}

// fields lists the tlv8-tagged fields of a struct type in declaration order.
func fields(t reflect.Type) []fieldInfo {
	if f, ok := fieldCache[t]; ok {
		return f
	}
	var out []fieldInfo
	for i := 0; i < t.NumField(); i++ {
		sf := t.Field(i)
		tg, ok := sf.Tag.Lookup("tlv8")
		if !ok {
			continue
		}
		fi := fieldInfo{idx: i, name: sf.Name, typ: sf.Type}
		if tg == "-" {
			fi.inline = true
		} else {
			n, err := strconv.Atoi(strings.TrimSpace(strings.Split(tg, ",")[0]))
			if err != nil || n < 0 || n > 255 {
				panic(fmt.Sprintf("monitor: unusable tlv8 tag %q on %s.%s", tg, t, sf.Name))
			}
			fi.tag = byte(n)
		}
		out = append(out, fi)
	}
	fieldCache[t] = out
	return out
}

// kindOf names the field kind the property speaks about.
func kindOf(f fieldInfo) string {
	t := f.typ
	switch t.Kind() {
	case reflect.Uint8, reflect.Uint16, reflect.Uint32, reflect.Uint64,
		reflect.Int8, reflect.Int16, reflect.Int32, reflect.Int64, reflect.Float32, reflect.Bool, reflect.String:
		return t.Kind().String()
	case reflect.Struct:
		return "nested-struct"
	case reflect.Ptr:
		if t.Elem().Kind() == reflect.Struct {
			return "nested-struct"
		}
	case reflect.Slice:
		if t.Elem().Kind() == reflect.Uint8 {
			return "bytes"
		}
		if t.Elem().Kind() == reflect.Struct {
			if f.inline {
				return "inline-list"
			}
			return "tagged-list"
		}
	}
	panic(fmt.Sprintf("monitor: field kind %s of %s not modelled", t, f.name))
}

func isLeafKind(k string) bool {
	return k != "nested-struct" && k != "inline-list" && k != "tagged-list"
}

// appendItem writes value under tag, fragmenting at 255 bytes; an empty value writes nothing.
func appendItem(dst []byte, tag byte, val []byte) []byte {
	for len(val) > 255 {
		dst = append(dst, tag, 255)
		dst = append(dst, val[:255]...)
		val = val[255:]
	}
	if len(val) > 0 {
		dst = append(dst, tag, byte(len(val)))
		dst = append(dst, val...)
	}
	return dst
}

func le(u uint64, width int) []byte {
	b := make([]byte, width)
	for i := 0; i < width; i++ {
		b[i] = byte(u >> (8 * uint(i)))
	}
	return b
}

// refLeaf is the value bytes of a scalar / string / bytes field.
func refLeaf(v reflect.Value) []byte {
	switch v.Kind() {
	case reflect.Uint8:
		return le(v.Uint(), 1)
	case reflect.Uint16:
		return le(v.Uint(), 2)
	case reflect.Uint32:
		return le(v.Uint(), 4)
	case reflect.Uint64:
		return le(v.Uint(), 8)
	case reflect.Int8:
		return le(uint64(v.Int()), 1)
	case reflect.Int16:
		return le(uint64(v.Int()), 2)
	case reflect.Int32:
		return le(uint64(v.Int()), 4)
	case reflect.Int64:
		return le(uint64(v.Int()), 8)
	case reflect.Float32:
		return le(uint64(math.Float32bits(float32(v.Float()))), 4)
	case reflect.Bool:
		if v.Bool() {
			return []byte{1}
		}
		return []byte{0}
	case reflect.String:
		return []byte(v.String())
	case reflect.Slice:
		return v.Bytes()
	}
	panic("monitor: refLeaf " + v.Kind().String())
}

// refEncode is the reference encoding of a struct value.
func refEncode(v reflect.Value) []byte {
	var out []byte
	for _, f := range fields(v.Type()) {
		fv := v.Field(f.idx)
		switch k := kindOf(f); k {
		case "nested-struct":
			if fv.Kind() == reflect.Ptr {
				if fv.IsNil() {
					continue
				}
				fv = fv.Elem()
			}
			out = appendItem(out, f.tag, refEncode(fv))
		case "tagged-list":
			for i := 0; i < fv.Len(); i++ {
				if i > 0 {
					out = append(out, 0, 0)
				}
				out = appendItem(out, f.tag, refEncode(fv.Index(i)))
			}
		case "inline-list":
			for i := 0; i < fv.Len(); i++ {
				if i > 0 {
					out = append(out, 0, 0)
				}
				out = append(out, refEncode(fv.Index(i))...)
			}
		case "string", "bytes":
			out = appendItem(out, f.tag, refLeaf(fv))
		default:
			val := refLeaf(fv)
			out = append(out, f.tag, byte(len(val)))
			out = append(out, val...)
		}
	}
	return out
}

// ---- value helpers shared by the oracle ----------------------------------------------------------

// equalNorm compares two values of one type field by field over the tagged fields; nil and empty
// slices are equal, nil pointers equal only nil pointers, floats are equal when == or both NaN.
func equalNorm(a, b reflect.Value) bool {
	switch a.Kind() {
	case reflect.Struct:
		for _, f := range fields(a.Type()) {
			if !equalNorm(a.Field(f.idx), b.Field(f.idx)) {
				return false
			}
		}
		return true
	case reflect.Ptr:
		if a.IsNil() || b.IsNil() {
			return a.IsNil() == b.IsNil()
		}
		return equalNorm(a.Elem(), b.Elem())
	case reflect.Slice:
		if a.Len() != b.Len() {
			return false
		}
		for i := 0; i < a.Len(); i++ {
			if !equalNorm(a.Index(i), b.Index(i)) {
				return false
			}
		}
		return true
	case reflect.Float32, reflect.Float64:
		x, y := a.Float(), b.Float()
		return x == y || (x != x && y != y)
	case reflect.String:
		return a.String() == b.String()
	case reflect.Bool:
		return a.Bool() == b.Bool()
	case reflect.Int8, reflect.Int16, reflect.Int32, reflect.Int64:
		return a.Int() == b.Int()
	case reflect.Uint8, reflect.Uint16, reflect.Uint32, reflect.Uint64:
		return a.Uint() == b.Uint()
	}
	panic("monitor: equalNorm " + a.Kind().String())
}

// isZeroTLV reports whether every tagged field of the struct is zero / empty.
func isZeroTLV(v reflect.Value) bool {
	switch v.Kind() {
	case reflect.Struct:
		for _, f := range fields(v.Type()) {
			if !isZeroTLV(v.Field(f.idx)) {
				return false
			}
		}
		return true
	case reflect.Ptr:
		return v.IsNil()
	case reflect.Slice, reflect.String:
		return v.Len() == 0
	}
	return v.IsZero()
}

// deepCopy returns an addressable copy of v that shares no slices or pointers with it.
func deepCopy(v reflect.Value) reflect.Value {
	out := reflect.New(v.Type()).Elem()
	switch v.Kind() {
	case reflect.Struct:
		out.Set(v)
		for _, f := range fields(v.Type()) {
			out.Field(f.idx).Set(deepCopy(v.Field(f.idx)))
		}
	case reflect.Ptr:
		if !v.IsNil() {
			p := reflect.New(v.Type().Elem())
			p.Elem().Set(deepCopy(v.Elem()))
			out.Set(p)
		}
	case reflect.Slice:
		if !v.IsNil() {
			s := reflect.MakeSlice(v.Type(), v.Len(), v.Len())
			for i := 0; i < v.Len(); i++ {
				s.Index(i).Set(deepCopy(v.Index(i)))
			}
			out.Set(s)
		}
	default:
		out.Set(v)
	}
	return out
}

// describe renders a value compactly for witnesses (long strings / bytes abbreviated).
func describe(v reflect.Value) interface{} {
	switch v.Kind() {
	case reflect.Struct:
		m := map[string]interface{}{}
		for _, f := range fields(v.Type()) {
			m[f.name] = describe(v.Field(f.idx))
		}
		return m
	case reflect.Ptr:
		if v.IsNil() {
			return nil
		}
		return describe(v.Elem())
	case reflect.Slice:
		if v.Type().Elem().Kind() == reflect.Uint8 {
			return "bytes:" + shortHex(v.Bytes())
		}
		l := []interface{}{}
		for i := 0; i < v.Len(); i++ {
			l = append(l, describe(v.Index(i)))
		}
		return l
	case reflect.String:
		s := v.String()
		if len(s) > 24 {
			return fmt.Sprintf("string(len=%d):%s...", len(s), shortHex([]byte(s[:8])))
		}
		return fmt.Sprintf("%q", s)
	case reflect.Float32:
		f := float32(v.Float())
		return fmt.Sprintf("%g (bits %08x)", f, math.Float32bits(f))
	case reflect.Bool:
		return v.Bool()
	case reflect.Int8, reflect.Int16, reflect.Int32, reflect.Int64:
		return v.Int()
	case reflect.Uint8, reflect.Uint16, reflect.Uint32, reflect.Uint64:
		return v.Uint()
	}
	return fmt.Sprintf("%v", v.Interface())
}

func shortHex(b []byte) string {
	const hexd = "0123456789abcdef"
	n := len(b)
	if n > 16 {
		n = 16
	}
	out := make([]byte, 0, 2*n+16)
	for _, c := range b[:n] {
		out = append(out, hexd[c>>4], hexd[c&15])
	}
	if len(b) > 16 {
		return string(out) + fmt.Sprintf("...(%d bytes)", len(b))
	}
	return string(out)
}

// C17 — struct TLV8 marshalling round-trips and matches the wire encoding.
//
// Oracle (three parts, all against a reference written in this package, refenc.go):
//  1. tlv8.Marshal(v) is byte-identical to the reference encoding of v;
//  2. tlv8.Unmarshal of the reference encoding of v (what a conformant peer sends; identical to hc's own
//     bytes whenever part 1 holds) yields a value equal to v (nil ≡ empty for slices and strings), and
//     so does Unmarshal of hc's own bytes;
//  3. tlv8.Unmarshal of arbitrary bytes into every type returns (value or error) without panicking.
//
// v ranges over every struct type of package rtp and over synthetic structs with one field per
// supported kind at boundary values, nested structs, tagged and inline lists.
package main

import (
	"bytes"
	"encoding/base64"
	"fmt"
	"go/ast"
	"go/parser"
	"go/token"
	"math"
	"os"
	"path/filepath"
	"reflect"
	"sort"
	"strings"
	"sync/atomic"
	"time"

	"github.com/brutella/hc/rtp"

	"verif/vf"
)

type finding struct {
	sig        string
	what       string
	count      int
	types      map[string]int
	witness    map[string]interface{}
	size       int
	rtpWitness map[string]interface{}
	rtpSize    int
	shrunk     map[bool]int
}

type mon struct {
	prevOK       bool
	prevV, prevD reflect.Value
	r            *vf.Run
	finds        map[string]*finding
	order        []string
	values       int
}

func (m *mon) get(sig, what string) *finding {
	f := m.finds[sig]
	if f == nil {
		f = &finding{sig: sig, what: what, types: map[string]int{}, size: math.MaxInt32, rtpSize: math.MaxInt32, shrunk: map[bool]int{}}
		m.finds[sig] = f
		m.order = append(m.order, sig)
	}
	return f
}

// causes evaluates the oracle parts 1 and 2 on one value.
func (m *mon) causes(v reflect.Value, name string) []cause {
	rb := refEncode(v)
	hb, err, pan := hcMarshal(v)
	var cs []cause
	mOK := pan == "" && err == nil && bytes.Equal(hb, rb)
	if !mOK {
		cs = append(cs, diagMarshal(v, name)...)
	}
	in := append([]byte{}, rb...) // the caller's receive buffer
	d, derr, dpan := hcUnmarshal(in, v.Type())
	// what the PREVIOUS Unmarshal returned is still the caller's: this call must not have changed it
	if m.prevOK && !equalNorm(m.prevV, m.prevD) {
		cs = append(cs, cause{"unmarshal:earlier-result-changed", "a value returned by an earlier Unmarshal call changed during a later Unmarshal call (shared buffers)", name, map[string]interface{}{}})
	}
	if m.prevOK {
		// ... and now the caller is done with it and reuses its memory: every byte slice of the earlier result is overwritten
		// in place.  What Unmarshal hands out belongs to the caller; writing into it must not change what later calls decode
		// (they are judged like every other call).
		scribbled += scribbleBytes(m.prevD)
	}
	m.prevOK = false
	if !(dpan == "" && derr == nil && equalNorm(v, d)) {
		found := diagDecode(v, name)
		if len(found) == 0 {
			// the round trip of the whole value fails although every field decodes on its own: the failure depends on
			// something outside the value (what was decoded before, process-wide state); it is a failure all the same
			what := "Unmarshal(reference encoding) does not give back the value although every field round-trips on its own"
			if derr != nil {
				what += ": " + derr.Error()
			}
			found = append(found, cause{"roundtrip:whole-value-only", what, name, map[string]interface{}{"decoded": describe(d)}})
		}
		cs = append(cs, found...)
	} else {
		// the caller owns its buffer: Unmarshal must leave it as it was (the same bytes decode again) and the
		// decoded value must not change when the caller reuses the buffer afterwards
		if !bytes.Equal(in, rb) {
			cs = append(cs, cause{"unmarshal:input-modified", "Unmarshal changed the bytes it was given (decoding the same buffer again gives something else)", name,
				map[string]interface{}{"input_after_unmarshal_hex": vf.Hex(in)}})
		}
		for i := range in {
			in[i] = 0xEE
		}
		if equalNorm(v, d) {
			m.prevOK, m.prevV, m.prevD = true, v, d
		}
		if !equalNorm(v, d) {
			cs = append(cs, cause{"unmarshal:value-aliases-input", "the decoded value changes when the caller overwrites the buffer it passed to Unmarshal", name, map[string]interface{}{}})
		}
	}
	if !mOK && pan == "" && err == nil {
		// hc's own bytes differ from the reference: the literal round trip is a separate observation,
		// attributed to the marshalling causes found above
		d2, e2, p2 := hcUnmarshal(hb, v.Type())
		own := p2 == "" && e2 == nil && equalNorm(v, d2)
		for i := range cs {
			if strings.HasPrefix(cs[i].sig, "marshal:") {
				cs[i].detail["unmarshal_of_hc_bytes_equals_value"] = own
			}
		}
		if p2 != "" {
			cs = append(cs, cause{"unmarshal:panic:" + panicSite(p2), "Unmarshal of hc's own Marshal output panics: " + firstLine(p2), name, map[string]interface{}{}})
		}
	}
	return dedupe(cs)
}

func hasSig(cs []cause, sig string) bool {
	for _, c := range cs {
		if c.sig == sig {
			return true
		}
	}
	return false
}

func (m *mon) witness(v reflect.Value, te typeEntry, origin string, c cause) map[string]interface{} {
	rb := refEncode(v)
	w := map[string]interface{}{"type": te.name, "origin": origin, "value": describe(v), "reference_hex": vf.Hex(rb), "failing_field": c.path}
	hb, err, pan := hcMarshal(v)
	switch {
	case pan != "":
		w["hc_marshal_panic"] = firstLine(pan)
	case err != nil:
		w["hc_marshal_error"] = err.Error()
	default:
		w["hc_hex"] = vf.Hex(hb)
		w["hc_equals_reference"] = bytes.Equal(hb, rb)
	}
	d, derr, dpan := hcUnmarshal(rb, v.Type())
	switch {
	case dpan != "":
		w["unmarshal_reference_panic"] = firstLine(dpan)
	case derr != nil:
		w["unmarshal_reference_error"] = derr.Error()
	default:
		w["unmarshal_reference_value"] = describe(d)
		w["unmarshal_reference_equals_value"] = equalNorm(v, d)
	}
	for k, x := range c.detail {
		w[k] = x
	}
	return w
}

// check runs the oracle on one value and records what it finds.
func (m *mon) check(v reflect.Value, te typeEntry, origin string) []cause {
	r := m.r
	m.values++
	r.Eval()
	r.Count("values_checked", 1)
	if te.rtp {
		r.Count("values_of_rtp_types", 1)
	}
	r.Distinct("types_with_values", te.name)
	rb := refEncode(v)
	r.Count("reference_bytes", len(rb))
	if len(rb) > 0 {
		r.Nontrivial(te.name + "|" + string(rb))
	}
	cs := m.causes(v, te.name)
	if len(cs) == 0 {
		r.Count("values_roundtrip_and_match", 1)
	}
	for _, c := range cs {
		f := m.get(c.sig, c.what)
		f.count++
		f.types[te.name]++
		small, wit := v, c
		if f.shrunk[te.rtp] < 2 {
			f.shrunk[te.rtp]++
			sig := c.sig
			small = shrink(v, 400, func(x reflect.Value) bool { return hasSig(m.causes(x, te.name), sig) })
			for _, c2 := range m.causes(small, te.name) {
				if c2.sig == sig {
					wit = c2
				}
			}
		}
		n := len(refEncode(small))
		if n < f.size {
			f.size, f.witness, f.what = n, m.witness(small, te, origin, wit), wit.what
		}
		if te.rtp && n < f.rtpSize {
			f.rtpSize, f.rtpWitness = n, m.witness(small, te, origin, wit)
		}
	}
	return cs
}

// rtpSourceTypes parses $VERIF_REPO/rtp and lists the struct types with tlv8 tags.
func rtpSourceTypes() ([]string, error) {
	repo := os.Getenv("VERIF_REPO")
	if repo == "" {
		repo = "/repo"
	}
	fset := token.NewFileSet()
	pkgs, err := parser.ParseDir(fset, filepath.Join(repo, "rtp"), func(fi os.FileInfo) bool { return !strings.HasSuffix(fi.Name(), "_test.go") }, 0)
	if err != nil {
		return nil, err
	}
	var out []string
	for _, p := range pkgs {
		for _, f := range p.Files {
			ast.Inspect(f, func(n ast.Node) bool {
				ts, ok := n.(*ast.TypeSpec)
				if !ok {
					return true
				}
				st, ok := ts.Type.(*ast.StructType)
				if !ok {
					return true
				}
				for _, fl := range st.Fields.List {
					if fl.Tag != nil && strings.Contains(fl.Tag.Value, "tlv8:") {
						out = append(out, "rtp."+ts.Name.Name)
						break
					}
				}
				return true
			})
		}
	}
	sort.Strings(out)
	return out, nil
}

func sval(x interface{}) reflect.Value {
	v := reflect.ValueOf(x)
	c := reflect.New(v.Type()).Elem()
	c.Set(v)
	return c
}

func str(n int, c byte) string { return strings.Repeat(string([]byte{c}), n) }

type directed struct {
	origin string
	v      reflect.Value
}

// battery is the deterministic part of the workload: every kind at every boundary, every
// small/large and zero/non-zero pattern of short lists, and the values the library itself constructs.
func battery(r *vf.Run, withInt8 bool) []directed {
	var out []directed
	add := func(origin string, x interface{}) { out = append(out, directed{origin, sval(x)}) }
	bnd := func(kind string, val interface{}) { r.Distinct("kind_boundary", fmt.Sprintf("%s=%v", kind, val)) }
	for _, u := range uBounds[8] {
		add("boundary", SU8{uint8(u)})
		bnd("uint8", u)
	}
	for _, u := range uBounds[16] {
		add("boundary", SU16{uint16(u)})
		bnd("uint16", u)
	}
	for _, u := range uBounds[32] {
		add("boundary", SU32{uint32(u)})
		bnd("uint32", u)
	}
	for _, u := range uBounds[64] {
		add("boundary", SU64{u})
		bnd("uint64", u)
	}
	if withInt8 {
		for _, i := range iBounds[8] {
			add("boundary", SI8{int8(i)})
			bnd("int8", i)
		}
	}
	for _, i := range iBounds[16] {
		add("boundary", SI16{int16(i)})
		bnd("int16", i)
	}
	for _, i := range iBounds[32] {
		add("boundary", SI32{int32(i)})
		bnd("int32", i)
	}
	for _, i := range iBounds[64] {
		add("boundary", SI64{i})
		bnd("int64", i)
	}
	for _, f := range fBounds {
		add("boundary", SF32{f})
		bnd("float32", fmt.Sprintf("%08x", math.Float32bits(f)))
	}
	add("boundary", SBool{false})
	add("boundary", SBool{true})
	bnd("bool", false)
	bnd("bool", true)
	for _, n := range append(append([]int{}, lenBounds...), 509, 510, 511) {
		add("boundary", SStr{str(n, 'a')})
		b := []byte(str(n, 0xEE))
		if n == 0 {
			b = nil
		}
		add("boundary", SBytes{b})
		add("boundary", STagEdge{7, str(n, 'z')})
		bnd("string-len", n)
		bnd("bytes-len", n)
	}
	add("boundary", SBytes{[]byte{}})
	add("boundary", SInts{})
	add("boundary", SInts{1, 1, 1, 1, 1, 1, 1})
	add("boundary", SInts{255, 0xFFFF, 0xFFFFFFFF, math.MaxUint64, -1, -1, -1})
	add("boundary", SInts{255, 0xFFFF, 0xFFFFFFFF, math.MaxUint64, math.MaxInt16, math.MaxInt32, math.MaxInt64})
	add("boundary", SInts{128, 0x8000, 0x80000000, 1 << 63, math.MinInt16, math.MinInt32, math.MinInt64})
	add("boundary", SInts{1, 0x0102, 0x01020304, 0x0102030405060708, 0x0102, 0x01020304, 0x0102030405060708})

	// nested structs: small, exactly 255 / 256 bytes of nested encoding, large; pointer nil / set
	// SLeaf encodes to 9 bytes + 2 + len(S) when S is not empty
	for _, n := range []int{0, 1, 244, 245, 600} {
		leaf := SLeaf{3, str(n, 'n'), -5}
		l2 := leaf
		add("nested", SNested{1, leaf, &SLeaf{}, 2, SMid{4, leaf}})
		add("nested", SNested{1, SLeaf{}, &l2, 0xFFFF, SMid{}})
		add("nested", SMid{9, leaf})
		r.Distinct("nested_encoding_len", fmt.Sprint(len(refEncode(sval(leaf)))))
	}

	// tagged lists: every small/large pattern for 0..4 elements, and elements of exactly 255 / 256 bytes
	small := func(i int) SLeaf { return SLeaf{uint8(i + 1), "x", int32(i)} }
	large := func(i int) SLeaf { return SLeaf{uint8(i + 1), str(300, byte('A'+i)), int32(i)} }
	for n := 0; n <= 4; n++ {
		for pat := 0; pat < 1<<uint(n); pat++ {
			var l []SLeaf
			name := ""
			for i := 0; i < n; i++ {
				if pat>>uint(i)&1 == 1 {
					l = append(l, large(i))
					name += "L"
				} else {
					l = append(l, small(i))
					name += "s"
				}
			}
			add("tagged-list:"+name, STaggedOnly{l})
			add("tagged-list:"+name, STagged{1, l, 2})
			r.Distinct("tagged_list_pattern", name)
		}
	}
	for _, n := range []int{244, 245} {
		e := SLeaf{1, str(n, 'e'), 1}
		add(fmt.Sprintf("tagged-list:element-of-%d-bytes", 11+n), STaggedOnly{[]SLeaf{e, e, e}})
	}
	add("tagged-list:zero-elements", STaggedOnly{[]SLeaf{{}, {}, {1, "", 0}}})
	add("two-lists", STwoLists{[]SOne{{0}, {1}}, []SLeaf{small(0), small(1)}, 3})
	add("two-lists", STwoLists{[]SOne{{5}}, []SLeaf{small(0), large(1)}, 3})
	add("two-lists", STwoLists{nil, nil, 0})

	// inline lists: every zero/non-zero pattern for 0..4 one-byte elements
	for n := 0; n <= 4; n++ {
		for pat := 0; pat < 1<<uint(n); pat++ {
			var l []SOne
			name := ""
			for i := 0; i < n; i++ {
				if pat>>uint(i)&1 == 1 {
					l = append(l, SOne{0})
					name += "0"
				} else {
					l = append(l, SOne{uint8(i + 1)})
					name += "n"
				}
			}
			add("inline-list:"+name, SInlineOnly{l})
			add("inline-list:"+name, SInline{1, l, 2})
			r.Distinct("inline_list_pattern", name)
		}
	}
	// inline lists of one-string elements (hc's own person/alias shape), small and above 255 bytes
	for n := 0; n <= 3; n++ {
		for pat := 0; pat < 1<<uint(n); pat++ {
			var l []SName
			name := ""
			for i := 0; i < n; i++ {
				if pat>>uint(i)&1 == 1 {
					l = append(l, SName{str(300, byte('A'+i))})
					name += "L"
				} else {
					l = append(l, SName{str(3, byte('a'+i))})
					name += "s"
				}
			}
			add("inline-string-list:"+name, SInlineStr{"head", l})
			r.Distinct("inline_string_list_pattern", name)
		}
	}
	// inline lists whose elements have two fields
	add("inline-multi", SInlineMulti{nil})
	add("inline-multi", SInlineMulti{[]STwo{{1, 2}}})
	add("inline-multi", SInlineMulti{[]STwo{{1, 2}, {3, 4}}})
	add("inline-multi", SInlineMulti{[]STwo{{1, 0x0102}, {3, 0x0304}, {5, 0x0506}}})
	add("inline-multi", SInlineMulti{[]STwo{{0, 0}, {3, 4}}})
	// ... and omit some of them: every present/absent pattern of the omittable fields over three elements
	for mask := 0; mask < 64; mask++ {
		var a SInlineOmitFirst
		var b SInlineBytesFirst
		a.Title, b.Rev = "t", 0xffffffff
		for i := 0; i < 3; i++ {
			tr, k := STrack{Id: uint8(i + 1), Gain: uint16(100 * i)}, SKeyed{Kind: uint8(i * 127)}
			if mask>>(2*i)&1 == 1 {
				tr.Label, k.Salt = fmt.Sprint("label", i), []byte{byte(i), 9}
			}
			if mask>>(2*i+1)&1 == 1 {
				k.Note = "n"
			}
			a.L, b.L = append(a.L, tr), append(b.L, k)
		}
		add("inline-multi-omitted-fields", a)
		add("inline-multi-omitted-fields", b)
		r.Distinct("inline_multi_omitted_field_pattern", fmt.Sprintf("%06b", mask))
	}
	add("inline-triple", SInlineTriple{[]SOne{{1}, {2}}, []SName{{"a"}, {"b"}}})
	add("inline-triple", SInlineTriple{[]SOne{{1}}, nil})
	add("inline-triple", SInlineTriple{nil, []SName{{"a"}, {"b"}, {"c"}}})

	leaf := SLeaf{1, "s", -1}
	add("all-kinds", SAll{P: &SMid{}})
	add("all-kinds", SAll{1, 2, 3, 4, -5, -6, -7, 8.5, true, "str", []byte{1, 2}, leaf, &SMid{1, leaf}, []SLeaf{leaf, leaf}, []SNameHi{{"a"}, {"b"}}, 9})
	add("all-kinds", SAll{255, 0xFFFF, 0xFFFFFFFF, math.MaxUint64, math.MinInt16, math.MinInt32, math.MinInt64, math.MaxFloat32, true,
		str(600, 's'), []byte(str(256, 1)), large(0), &SMid{1, large(1)}, []SLeaf{large(0), small(1)}, []SNameHi{{str(255, 'q')}}, 255})

	// values the library constructs itself
	add("rtp.DefaultVideoStreamConfiguration()", rtp.DefaultVideoStreamConfiguration())
	add("rtp.DefaultAudioStreamConfiguration()", rtp.DefaultAudioStreamConfiguration())
	add("rtp.NewH264VideoCodecConfiguration()", rtp.NewH264VideoCodecConfiguration())
	add("rtp.NewOpusAudioCodecConfiguration()", rtp.NewOpusAudioCodecConfiguration())
	add("rtp.NewAacEldAudioCodecConfiguration()", rtp.NewAacEldAudioCodecConfiguration())
	add("rtp.NewConfiguration(0)", rtp.NewConfiguration(rtp.CryptoSuite_AES_CM_128_HMAC_SHA1_80))
	add("rtp.NewConfiguration(1)", rtp.NewConfiguration(rtp.CryptoSuite_AES_256_CM_HMAC_SHA1_80))
	add("rtp.NewConfiguration(2)", rtp.NewConfiguration(rtp.CryptoSuiteNone))
	add("rtp.StreamingStatus{0}", rtp.StreamingStatus{Status: rtp.StreamingStatusAvailable})
	// two codecs that each offer 16 resolutions: list elements above 255 bytes in a library type
	{
		c := rtp.NewH264VideoCodecConfiguration()
		for i := 0; i < 6; i++ {
			c.Attributes = append(c.Attributes, rtp.VideoCodecAttributes{Width: uint16(160 + 16*i), Height: uint16(90 + 9*i), Framerate: 15})
		}
		c.Parameters.Profiles = c.Parameters.Profiles[1:] // profiles 1, 2
		c.Parameters.Levels = c.Parameters.Levels[1:]
		c.Parameters.Packetizations = nil
		add("rtp two codecs x 16 resolutions", rtp.VideoStreamConfiguration{Codecs: []rtp.VideoCodecConfiguration{c, c}})
	}
	// typical protocol values
	key := []byte(str(16, 0x11))
	salt := []byte(str(14, 0x22))
	add("rtp typical", rtp.SetupEndpoints{SessionId: []byte(str(16, 0x33)), ControllerAddr: rtp.Addr{IPVersion: 0, IPAddr: "192.168.0.13", VideoRtpPort: 58872, AudioRtpPort: 53738},
		Video: rtp.CryptoSuite{Type: 0, MasterKey: key, MasterSalt: salt}, Audio: rtp.CryptoSuite{Type: 0, MasterKey: key, MasterSalt: salt}})
	add("rtp typical", rtp.SetupEndpointsResponse{SessionId: []byte(str(16, 0x33)), Status: 0, AccessoryAddr: rtp.Addr{IPVersion: 1, IPAddr: "fe80::1", VideoRtpPort: 5000, AudioRtpPort: 5002},
		Video: rtp.CryptoSuite{Type: 1, MasterKey: []byte(str(32, 0x44)), MasterSalt: salt}, Audio: rtp.CryptoSuite{Type: 2}, SsrcVideo: -123456789, SsrcAudio: math.MaxInt32})
	add("rtp typical", rtp.StreamConfiguration{Command: rtp.SessionControlCommand{Identifier: []byte(str(16, 0x55)), Type: rtp.SessionControlCommandTypeStart},
		Video: rtp.VideoParameters{CodecType: 0, CodecParams: rtp.VideoCodecParameters{Profiles: []rtp.VideoCodecProfile{{Id: 1}}, Levels: []rtp.VideoCodecLevel{{Level: 2}}, Packetizations: []rtp.VideoCodecPacketization{{Mode: 0}}},
			Attributes: rtp.VideoCodecAttributes{Width: 1280, Height: 720, Framerate: 30}, RTP: rtp.RTPParams{PayloadType: 99, Ssrc: 1234, Bitrate: 299, Interval: 0.5, MTU: 1378}},
		Audio: rtp.AudioParameters{CodecType: 2, CodecParams: rtp.AudioCodecParameters{Channels: 1, Bitrate: 0, Samplerate: 1}, RTP: rtp.RTPParams{PayloadType: 110, Ssrc: 4321, Bitrate: 24, Interval: 5, ComfortNoisePayloadType: 13}, ComfortNoise: true}})
	return out
}

// payloads a real controller sent, taken from the literals in rtp's own tests (used as decoder seeds)
var realPayloads = map[string]string{
	"rtp.SetupEndpoints":           "ARBz21VuCupGZre3A62biD8XAxkBAQACDDE5Mi4xNjguMC4xMwMC+OUEAurRBCUCEPpLBUWQEzkfFiGd1qkieqoDDi8cIMO0Vl1+kegzGgnpAQEABSUCEJQ27Ze9EEmuxcIVPhDEs68DDlaHwww6f6d5+NSClT7TAQEA",
	"rtp.StreamConfiguration":      "ARUCAQABEHW8tiJ9E0F4tLlvOURdFCc=",
	"rtp.VideoStreamConfiguration": "AX8BAQACDAEBAQEBAgIBAAMBAAECgAcCAjgEAwEeAQIABQIC0AIDAR4BAoACAgJoAQMBHgEC4AECAg4BAwEeAQJAAQICtAADAR4BAgAFAgLAAwMBHgECAAQCAgADAwEeAQKAAgIC4AEDAR4BAuABAgJoAQMBHgECQAECAvAAAwEP",
	"rtp.StreamingStatus":          "AQEA",
}

func main() {
	r := vf.Start("C17", "exploration")
	finishHook = r.Finish // after several abandoned (hung) calls the run ends with what it has
	r.Watchdog(90 * time.Minute)
	m := &mon{r: r, finds: map[string]*finding{}}
	if r.Replay == "" { // witness files of earlier runs would be mistaken for findings of this one
		if old, _ := filepath.Glob(filepath.Join(r.WorkDir(), "replay-*.json")); old != nil {
			for _, f := range old {
				os.Remove(f)
			}
		}
	}
	r.SetRule("a value case = one struct value v (a deterministic battery: every field kind at every boundary, all small/large and zero/non-zero patterns of " +
		"lists of 0..4 elements, the values the library constructs; then random values of every rtp type and synthetic type): Marshal(v) must equal the " +
		"reference encoding, Unmarshal(reference encoding) and Unmarshal(Marshal(v)) must equal v; a decoder case = one byte string decoded into one type " +
		"(random bytes, random items, type-shaped malformed items, every truncation and byte mutations of valid encodings): Unmarshal must return; " +
		"non-trivial = distinct (type, non-empty reference encoding) or distinct (type, decoder input)")
	r.Assume("the reference encoder (refenc.go) follows the HAP TLV8 conventions: little-endian integers of the field's width, IEEE-754 float32 little-endian, bool 0/1, " +
		"255-byte fragments, list elements separated by 00 00; empty strings/bytes and empty nested structs are omitted")
	r.Assume("generator domain: pointers to structs are not nil; list elements and pointer targets have a non-empty encoding; " +
		"inline-list element tags do not collide with sibling tags; nil and empty slices/strings are equal; NaN equals NaN")

	types := append(append([]typeEntry{}, rtpTypes...), synTypes...)

	// every rtp struct with tlv8 tags in the tree under test must be in the registry
	if src, err := rtpSourceTypes(); err != nil {
		r.Inconclusive("cannot list the struct types of package rtp: " + err.Error())
	} else {
		have := map[string]bool{}
		for _, t := range rtpTypes {
			have[t.name] = true
		}
		for _, s := range src {
			if !have[s] {
				r.Inconclusive("package rtp defines " + s + " with tlv8 tags but the monitor does not generate it")
			}
		}
		r.Extra("rtp_types_in_source", src)
	}
	for _, t := range types {
		if s := inlineTagsCollide(t.t, map[reflect.Type]bool{}); s != "" {
			r.Inconclusive("ambiguous inline list tags: " + s)
		}
	}

	// int8: not among the kinds hc's codec switches on.  It is checked like the others only when hc
	// accepts it; otherwise the observation is recorded and the kind is outside "supported".
	int8Note := ""
	{
		b, err, pan := hcMarshal(sval(SI8{-2}))
		switch {
		case pan != "":
			int8Note = "unsupported: Marshal of a struct with an int8 field panics: " + firstLine(pan) + " at " + panicSite(pan)
		case err != nil:
			int8Note = "unsupported: Marshal of a struct with an int8 field returns " + err.Error()
		default:
			int8Note = "supported (Marshal(int8 -2) = " + vf.Hex(b) + ")"
			types = append(types, int8Type)
		}
		r.Extra("int8_field", int8Note)
	}
	withInt8 := strings.HasPrefix(int8Note, "supported")
	// a nil pointer to a struct is not a "nested struct" value; the generator never produces one.  What
	// hc does with it is recorded only.
	{
		_, err, pan := hcMarshal(sval(SNested{Head: 1}))
		switch {
		case pan != "":
			r.Extra("nil_pointer_field", "outside the property: Marshal of a struct with a nil *struct field panics: "+firstLine(pan)+" at "+panicSite(pan))
		case err != nil:
			r.Extra("nil_pointer_field", "outside the property: Marshal returns "+err.Error())
		default:
			r.Extra("nil_pointer_field", "Marshal accepts a nil *struct field")
		}
	}

	// ---- part A: deterministic battery ------------------------------------------------------------
	byName := map[string]typeEntry{}
	for _, t := range types {
		byName[t.name] = t
	}
	library := map[string]interface{}{}
	bat := battery(r, withInt8)
	var validSeeds []directed // valid encodings for the decoder part
	for _, d := range bat {
		te, ok := byName[d.v.Type().String()]
		if !ok {
			r.Inconclusive("battery value of unregistered type " + d.v.Type().String())
			continue
		}
		if !valid(d.v) {
			r.Inconclusive("battery value outside the generator domain: " + d.origin)
			continue
		}
		cs := m.check(d.v, te, d.origin)
		r.Count("battery_values", 1)
		if strings.HasPrefix(d.origin, "rtp.") {
			if len(cs) == 0 {
				library[d.origin] = "round-trips, bytes match the reference"
			} else {
				var s []string
				for _, c := range cs {
					s = append(s, c.sig)
				}
				library[d.origin] = s
			}
		}
		validSeeds = append(validSeeds, d)
	}
	r.Extra("library_values", library)

	// ---- part B: random values of every type ------------------------------------------------------
	nvals := r.Pick(20000, 1000000)
	type sample struct {
		Type  string      `json:"type"`
		Value interface{} `json:"value"`
		Wire  string      `json:"reference_bytes"`
		HC    string      `json:"hc_bytes"`
	}
	for i := 0; i < nvals; i++ {
		te := types[i%len(types)]
		g := &gen{r.RandN("value", i)}
		v := g.value(te.t)
		if !valid(v) {
			r.Count("generated_values_outside_domain", 1)
			continue
		}
		m.check(v, te, fmt.Sprintf("random#%d", i))
		for _, f := range fields(te.t) {
			r.Distinct("field_kinds_generated", kindOf(f))
		}
		if i%(nvals/60+1) == 0 && len(validSeeds) < 400 {
			validSeeds = append(validSeeds, directed{"random", v})
		}
		r.SampleAt(i, func() interface{} {
			hb, _, _ := hcMarshal(v)
			return sample{te.name, describe(v), vf.Hex(refEncode(v)), vf.Hex(hb)}
		})
	}

	// ---- part C: decoder robustness ---------------------------------------------------------------
	type panicInfo struct {
		count int
		size  int
		wit   map[string]interface{}
		what  string
		types map[string]int
	}
	panics := map[string]*panicInfo{}
	var panicOrder []string
	decode := func(data []byte, te typeEntry, mode string) {
		r.Eval()
		r.Count("decoder_inputs", 1)
		r.Distinct("decoder_input_modes", mode)
		r.Distinct("types_decoded_into", te.name)
		_, err, pan := hcUnmarshal(data, te.t)
		switch {
		case pan != "":
			r.Count("decoder_panics", 1)
			sig := "unmarshal:panic:" + panicSite(pan)
			p := panics[sig]
			if p == nil {
				p = &panicInfo{size: math.MaxInt32, types: map[string]int{}}
				panics[sig] = p
				panicOrder = append(panicOrder, sig)
			}
			p.count++
			p.types[te.name]++
			if len(data) < p.size {
				p.size = len(data)
				p.what = fmt.Sprintf("Unmarshal of %d bytes (%s) into %s panics: %s", len(data), mode, te.name, firstLine(pan))
				p.wit = map[string]interface{}{"type": te.name, "input_hex": vf.Hex(data), "input_mode": mode, "panic": firstLine(pan), "stack": strings.Split(pan, "\n")}
			}
		case err != nil:
			r.Count("decoder_returned_error", 1)
		default:
			r.Count("decoder_returned_value", 1)
			if len(data) > 0 {
				r.Nontrivial("dec|" + te.name + "|" + string(data))
			}
		}
	}

	// C1: exhaustive truncations and byte mutations of the short valid encodings
	for name, b64 := range realPayloads {
		raw, err := base64.StdEncoding.DecodeString(b64)
		if err != nil {
			r.Inconclusive("bad literal payload " + name)
			continue
		}
		te := byName[name]
		decode(raw, te, "recorded-controller-payload")
		for cut := 0; cut < len(raw); cut++ {
			decode(raw[:cut], te, "truncation")
		}
		for pos := 0; pos < len(raw); pos++ {
			for _, x := range []byte{0, 1, 2, 3, 0xFF, raw[pos] ^ 1, raw[pos] + 1, raw[pos] - 1} {
				if x != raw[pos] {
					mb := append([]byte(nil), raw...)
					mb[pos] = x
					decode(mb, te, "mutation")
				}
			}
		}
	}
	limit := r.Pick(48, 300)
	mrnd := r.Rand("mutations")
	for _, d := range validSeeds {
		te := byName[d.v.Type().String()]
		enc := refEncode(d.v)
		decode(enc, te, "valid")
		if len(enc) == 0 {
			continue
		}
		if len(enc) <= limit {
			for cut := 0; cut < len(enc); cut++ {
				decode(enc[:cut], te, "truncation")
			}
			for pos := 0; pos < len(enc); pos++ {
				for _, x := range []byte{0, 1, 2, 3, 7, 0xFF, enc[pos] ^ 1, enc[pos] + 1, enc[pos] - 1, enc[pos] ^ 0x80} {
					if x != enc[pos] {
						mb := append([]byte(nil), enc...)
						mb[pos] = x
						decode(mb, te, "mutation")
					}
				}
			}
		} else {
			for k := 0; k < 24; k++ {
				decode(enc[:mrnd.Intn(len(enc))], te, "truncation")
				mb := append([]byte(nil), enc...)
				mb[mrnd.Intn(len(mb))] = byte(mrnd.Intn(256))
				decode(mb, te, "mutation")
			}
		}
	}

	// C2: random inputs.  Unstructured ones go into every type, type-shaped ones into their type.
	ndec := r.Pick(100000, 5000000)
	done := int(r.Counter("decoder_inputs"))
	for i := 0; done < ndec; i++ {
		g := &gen{r.RandN("decoder", i)}
		switch i % 10 {
		case 0:
			b := g.blob(g.rnd.Intn(24), false)
			if g.rnd.Intn(2) == 0 {
				for j := range b { // small bytes look like tags and lengths
					b[j] &= 0x0F
				}
			}
			for _, te := range types {
				decode(b, te, "random-bytes")
			}
			done += len(types)
		case 1:
			b := g.randomItems()
			for _, te := range types {
				decode(b, te, "random-items")
			}
			done += len(types)
		default:
			te := types[(i/10*8+i%10)%len(types)]
			var b []byte
			mode := "type-shaped"
			if i%10 >= 8 {
				b = refEncode(g.value(te.t))
				mode = "valid-mutated"
			} else {
				b = g.malformed(te.t, 0)
			}
			switch g.rnd.Intn(6) {
			case 0:
				if len(b) > 0 {
					b = b[:g.rnd.Intn(len(b))]
					mode += "+truncated"
				}
			case 1, 2:
				if len(b) > 0 {
					b = append([]byte(nil), b...)
					b[g.rnd.Intn(len(b))] = byte(g.rnd.Intn(256))
					mode += "+byte-changed"
				}
			}
			if mode == "valid-mutated" {
				mode = "valid"
			}
			decode(b, te, mode)
			done++
		}
	}

	// ---- verdict ----------------------------------------------------------------------------------
	affected := map[string]interface{}{}
	sameNamedTypes(m)
	for _, sig := range m.order {
		f := m.finds[sig]
		var ts []string
		for t, n := range f.types {
			ts = append(ts, fmt.Sprintf("%s(%d)", t, n))
		}
		sort.Strings(ts)
		affected[sig] = ts
		w := f.witness
		w["affected_types"] = ts
		if f.rtpWitness != nil && w["type"] != f.rtpWitness["type"] {
			w["smallest_rtp_witness"] = f.rtpWitness
		}
		for i := 0; i < f.count; i++ {
			r.Violation(sig, f.what, w)
		}
	}
	for _, sig := range panicOrder {
		p := panics[sig]
		var ts []string
		for t, n := range p.types {
			ts = append(ts, fmt.Sprintf("%s(%d)", t, n))
		}
		sort.Strings(ts)
		p.wit["affected_types"] = ts
		affected[sig] = ts
		if f := m.finds[sig]; f != nil { // the same site also panics on a valid encoding
			p.wit["also_on_valid_encoding"] = f.witness
		}
		for i := 0; i < p.count; i++ {
			r.Violation(sig, p.what, p.wit)
		}
	}
	r.Extra("affected_types_by_signature", affected)

	r.Floor("values_checked", int(r.Counter("values_checked")), r.Pick(15000, 900000))
	r.Floor("types_with_values", r.DistinctN("types_with_values"), len(types))
	r.Floor("types_decoded_into", r.DistinctN("types_decoded_into"), len(types))
	r.Floor("decoder_inputs", int(r.Counter("decoder_inputs")), r.Pick(100000, 5000000))
	r.Floor("decoder_returned_value", int(r.Counter("decoder_returned_value")), int(r.Counter("decoder_inputs"))/10)
	r.Floor("decoder_returned_error", int(r.Counter("decoder_returned_error")), int(r.Counter("decoder_inputs"))/100)
	r.Floor("kind_boundary", r.DistinctN("kind_boundary"), 100)
	r.Floor("tagged_list_pattern", r.DistinctN("tagged_list_pattern"), 31)
	r.Floor("inline_list_pattern", r.DistinctN("inline_list_pattern"), 31)
	r.Floor("inline_multi_omitted_field_pattern", r.DistinctN("inline_multi_omitted_field_pattern"), 64)
	r.Floor("field_kinds_generated", r.DistinctN("field_kinds_generated"), 14)
	r.Count("rejected_call_groups_before_real_calls", int(atomic.LoadInt64(&disturbances)))
	r.Floor("rejected_call_groups_before_real_calls", int(atomic.LoadInt64(&disturbances)), 1000)
	r.Count("bytes_of_earlier_results_overwritten_by_the_caller", scribbled)
	r.Floor("bytes_of_earlier_results_overwritten_by_the_caller", scribbled, 10000)
	r.Finish()
}

// sameNamedTypes: two DIFFERENT struct types with the same printed name (function-local types of two scopes; two
// packages with the same package name give the same) are decoded one after the other in this process, each with an
// inline list of elements.  Whatever the decoder remembers about a type must be remembered per type, not per name.
func sameNamedTypes(m *mon) {
	round := func(v interface{}, origin string) {
		rv := reflect.ValueOf(v)
		m.check(rv, typeEntry{name: "local:" + origin, t: rv.Type()}, origin)
		m.r.Count("same_named_type_values", 1)
	}
	for k := 0; k < 3; k++ {
		func() {
			type item struct {
				Id uint8 `tlv8:"1"`
			}
			type list struct {
				Items []item `tlv8:"-"`
			}
			round(list{Items: []item{{1}, {2}, {3}}}, "same-named-types/first-scope")
		}()
		func() {
			type item struct {
				Name string `tlv8:"4"`
				Port uint16 `tlv8:"5"`
			}
			type list struct {
				Items []item `tlv8:"-"`
			}
			round(list{Items: []item{{"alpha", 80}, {"beta", 443}}}, "same-named-types/second-scope")
		}()
		func() {
			type item struct {
				Flag bool   `tlv8:"2"`
				Data []byte `tlv8:"3"`
			}
			type list struct {
				Head  uint8  `tlv8:"9"`
				Items []item `tlv8:"-"`
			}
			round(list{Head: 7, Items: []item{{true, []byte{1, 2, 3}}, {false, []byte{9}}}}, "same-named-types/third-scope")
		}()
	}
}

var scribbled int

// scribbleBytes inverts every byte of every []byte reachable in v (in place) and returns how many bytes it changed.
func scribbleBytes(v reflect.Value) int {
	n := 0
	switch v.Kind() {
	case reflect.Ptr, reflect.Interface:
		if !v.IsNil() {
			n += scribbleBytes(v.Elem())
		}
	case reflect.Struct:
		for i := 0; i < v.NumField(); i++ {
			n += scribbleBytes(v.Field(i))
		}
	case reflect.Slice:
		if v.Type().Elem().Kind() == reflect.Uint8 {
			for i := 0; i < v.Len(); i++ {
				e := v.Index(i)
				if e.CanSet() {
					e.SetUint(e.Uint() ^ 0xFF)
					n++
				}
			}
			return n
		}
		for i := 0; i < v.Len(); i++ {
			n += scribbleBytes(v.Index(i))
		}
	case reflect.Array:
		for i := 0; i < v.Len(); i++ {
			n += scribbleBytes(v.Index(i))
		}
	}
	return n
}

package main

// Attribution of a failing value to root causes.  A struct is taken apart along its fields: each
// leaf field, nested struct, list element and list is encoded / decoded on its own (in a one-field
// struct built with reflect.StructOf that keeps the field's tag), so that a signature names the
// field kind and the symptom, never the type the value happened to be wrapped in.

import (
	"bytes"
	"fmt"
	"reflect"
	"strings"

	"github.com/brutella/hc/tlv8"

	"sync/atomic"
	"time"

	"verif/refctl"
	"verif/vf"
)

type cause struct {
	sig    string
	what   string
	path   string
	detail map[string]interface{}
}

// disturb makes calls that the package REJECTS (a pointer to a pointer, a field of a kind it does not know, truncated
// input, a target that is no pointer) right before every fourth real call: whatever a rejected call leaves behind in
// the package (pooled encoders, cached type information, sticky errors) must not show in the next call.
var disturbCalls, disturbances int64

type disturbInner struct {
	A uint8  `tlv8:"1"`
	B string `tlv8:"2"`
}

type disturbOdd struct {
	P **disturbInner   `tlv8:"3"`
	L []**disturbInner `tlv8:"4"`
}

func disturb() {
	if atomic.AddInt64(&disturbCalls, 1)%4 != 0 {
		return
	}
	atomic.AddInt64(&disturbances, 1)
	in := &disturbInner{A: 7, B: "x"}
	vf.RecoverWithin(callWatchdog, func() { tlv8.Marshal(&in) })
	vf.RecoverWithin(callWatchdog, func() { tlv8.Marshal(disturbOdd{P: &in, L: []**disturbInner{&in}}) })
	vf.RecoverWithin(callWatchdog, func() { tlv8.Marshal(make(chan int)) })
	var out disturbInner
	vf.RecoverWithin(callWatchdog, func() { tlv8.Unmarshal([]byte{1, 5, 9}, &out) })
	vf.RecoverWithin(callWatchdog, func() { tlv8.Unmarshal([]byte{1, 1, 9}, out) })
	vf.RecoverWithin(callWatchdog, func() { tlv8.Unmarshal([]byte{2, 255}, &in) })
}

func hcMarshal(v reflect.Value) (b []byte, err error, pan string) {
	disturb()
	hung, p, text := vf.RecoverWithin(callWatchdog, func() { b, err = tlv8.Marshal(v.Interface()) })
	if hung {
		pan = hangText
		noteHang()
	}
	if p {
		pan = text
	}
	return
}

func hcUnmarshal(data []byte, t reflect.Type) (out reflect.Value, err error, pan string) {
	ptr := reflect.New(t)
	disturb()
	hung, p, text := vf.RecoverWithin(callWatchdog, func() { err = tlv8.Unmarshal(data, ptr.Interface()) })
	if hung {
		// the abandoned goroutine may still write to ptr: hand out a fresh zero value
		noteHang()
		return reflect.New(t).Elem(), nil, hangText
	}
	if p {
		pan = text
	}
	return ptr.Elem(), err, pan
}

func marshalOK(v reflect.Value) bool {
	b, err, pan := hcMarshal(v)
	return pan == "" && err == nil && bytes.Equal(b, refEncode(v))
}

func decodeOK(v reflect.Value) bool {
	d, err, pan := hcUnmarshal(refEncode(v), v.Type())
	return pan == "" && err == nil && equalNorm(v, d)
}

type wrapKey struct {
	name string
	typ  reflect.Type // the type itself, not its printed name: two types may print alike
	tag  reflect.StructTag
}

var wrapCache = map[wrapKey]reflect.Type{}

// wrap1 puts the value of one field into a struct that has only that field (same name, type, tag).
func wrap1(parent reflect.Type, f fieldInfo, fv reflect.Value) reflect.Value {
	sf := parent.Field(f.idx)
	key := wrapKey{sf.Name, sf.Type, sf.Tag}
	wt, ok := wrapCache[key]
	if !ok {
		wt = reflect.StructOf([]reflect.StructField{{Name: sf.Name, Type: sf.Type, Tag: sf.Tag}})
		wrapCache[key] = wt
	}
	w := reflect.New(wt).Elem()
	w.Field(0).Set(fv)
	return w
}

func firstLine(s string) string {
	if i := strings.IndexByte(s, '\n'); i >= 0 {
		return s[:i]
	}
	return s
}

func panicSite(text string) string {
	if text == hangText {
		return "does-not-return"
	}
	return vf.PanicSite(text, "brutella/hc")
}

// callWatchdog bounds one Marshal / Unmarshal call: microseconds are expected, so 20 s is non-termination.
const callWatchdog = 20 * time.Second
const hangText = "the call did not return within 20s (abandoned)"

var hangCount int32

// noteHang ends the process after a few abandoned calls (each keeps a core busy); the parent check script maps
// the exit status, the violation itself is recorded by the caller through the usual panic path.
func noteHang() {
	if atomic.AddInt32(&hangCount, 1) == 8 {
		go func() {
			time.Sleep(2 * time.Second)
			if finishHook != nil {
				finishHook()
			}
		}()
	}
}

var finishHook func()

func reversed(b []byte) []byte {
	o := make([]byte, len(b))
	for i := range b {
		o[len(b)-1-i] = b[i]
	}
	return o
}

func allZero(b []byte) bool {
	for _, c := range b {
		if c != 0 {
			return false
		}
	}
	return true
}

func concatVals(items []refctl.Item) []byte {
	var o []byte
	for _, it := range items {
		o = append(o, it.Val...)
	}
	return o
}

func countDelims(items []refctl.Item) int {
	n := 0
	for _, it := range items {
		if it.Tag == 0 && len(it.Val) == 0 {
			n++
		}
	}
	return n
}

// diffClass names how hc's bytes differ from the reference bytes for one field.
func diffClass(kind string, hb, rb []byte) string {
	hi, e1 := refctl.ParseItems(hb)
	ri, _ := refctl.ParseItems(rb)
	if e1 != nil {
		return "malformed-items"
	}
	if len(hi) == 0 && len(ri) > 0 {
		return "missing"
	}
	if !isLeafKind(kind) || kind == "string" || kind == "bytes" {
		if dh, dr := countDelims(hi), countDelims(ri); dh < dr {
			return "delimiter-missing"
		} else if dh > dr {
			return "delimiter-extra"
		}
		if bytes.Equal(concatVals(hi), concatVals(ri)) {
			return "fragmentation" // same content, other item boundaries
		}
	}
	if len(hi) != len(ri) {
		return "item-count"
	}
	for i := range hi {
		h, r := hi[i], ri[i]
		switch {
		case h.Tag != r.Tag:
			return "tag"
		case len(h.Val) != len(r.Val):
			if isLeafKind(kind) && kind != "string" && kind != "bytes" {
				return "width"
			}
			return "length"
		case !bytes.Equal(h.Val, r.Val):
			if len(h.Val) > 1 && bytes.Equal(reversed(h.Val), r.Val) {
				return "byte-order"
			}
			if kind == "float32" && allZero(h.Val) {
				return "zero-bits"
			}
			return "value"
		}
	}
	return "layout"
}

// oneMarshalCause checks the encoding of a one-field struct.
func oneMarshalCause(w reflect.Value, kind, path string) *cause {
	hb, err, pan := hcMarshal(w)
	rb := refEncode(w)
	d := map[string]interface{}{"field": path, "field_kind": kind, "field_value": describe(w.Field(0)), "field_reference_hex": vf.Hex(rb)}
	switch {
	case pan != "":
		d["panic"] = firstLine(pan)
		d["panic_site"] = panicSite(pan)
		return &cause{"marshal:" + kind + ":panic", fmt.Sprintf("Marshal panics on a %s field: %s", kind, firstLine(pan)), path, d}
	case err != nil:
		d["error"] = err.Error()
		return &cause{"marshal:" + kind + ":error", fmt.Sprintf("Marshal fails on a %s field: %v", kind, err), path, d}
	case bytes.Equal(hb, rb):
		return nil
	}
	d["field_hc_hex"] = vf.Hex(hb)
	cl := diffClass(kind, hb, rb)
	return &cause{"marshal:" + kind + ":" + cl,
		fmt.Sprintf("a %s field is encoded as %s, a conformant peer expects %s (%s)", kind, vf.Hex(hb), vf.Hex(rb), cl), path, d}
}

func dedupe(cs []cause) []cause {
	seen := map[string]bool{}
	var out []cause
	for _, c := range cs {
		if !seen[c.sig] {
			seen[c.sig] = true
			out = append(out, c)
		}
	}
	return out
}

// diagMarshal is called for a struct whose hc encoding differs from the reference (or fails).
func diagMarshal(v reflect.Value, path string) []cause {
	var out []cause
	t := v.Type()
	for _, f := range fields(t) {
		fv := v.Field(f.idx)
		k := kindOf(f)
		p := path + "." + f.name
		switch {
		case isLeafKind(k):
			if c := oneMarshalCause(wrap1(t, f, fv), k, p); c != nil {
				out = append(out, *c)
			}
		case k == "nested-struct":
			nv := fv
			if fv.Kind() == reflect.Ptr {
				if fv.IsNil() {
					continue
				}
				nv = fv.Elem()
			}
			if !marshalOK(nv) {
				out = append(out, diagMarshal(nv, p)...)
				continue
			}
			if c := oneMarshalCause(wrap1(t, f, fv), k, p); c != nil {
				out = append(out, *c)
			}
		default:
			bad := false
			for i := 0; i < fv.Len(); i++ {
				if e := fv.Index(i); !marshalOK(e) {
					bad = true
					out = append(out, diagMarshal(e, fmt.Sprintf("%s[%d]", p, i))...)
				}
			}
			if bad {
				continue
			}
			if c := oneMarshalCause(wrap1(t, f, fv), k, p); c != nil {
				out = append(out, *c)
			}
		}
	}
	if len(out) == 0 {
		hb, err, pan := hcMarshal(v)
		d := map[string]interface{}{"field": path}
		switch {
		case pan != "":
			return []cause{{"marshal:panic:" + panicSite(pan), "Marshal panics: " + firstLine(pan), path, d}}
		case err != nil:
			return []cause{{"marshal:struct:error", "Marshal fails: " + err.Error(), path, d}}
		}
		cl := diffClass("struct", hb, refEncode(v))
		return []cause{{"marshal:struct:" + cl, "every field is encoded correctly on its own but the struct is not (" + cl + ")", path, d}}
	}
	return dedupe(out)
}

// ---- decoding side --------------------------------------------------------------------------------

func oneDecodeCause(w reflect.Value, kind, path string) *cause {
	rb := refEncode(w)
	dv, err, pan := hcUnmarshal(rb, w.Type())
	d := map[string]interface{}{"field": path, "field_kind": kind, "field_value": describe(w.Field(0)), "field_reference_hex": vf.Hex(rb)}
	switch {
	case pan != "":
		d["panic"] = firstLine(pan)
		return &cause{"unmarshal:panic:" + panicSite(pan), fmt.Sprintf("Unmarshal of a valid %s field panics: %s", kind, firstLine(pan)), path, d}
	case err != nil:
		d["error"] = err.Error()
		return &cause{"roundtrip:" + kind + ":decode-error", fmt.Sprintf("Unmarshal of the conformant encoding %s of a %s field fails: %v", vf.Hex(rb), kind, err), path, d}
	case equalNorm(w, dv):
		return nil
	}
	d["field_decoded"] = describe(dv.Field(0))
	if isLeafKind(kind) || kind == "nested-struct" {
		return &cause{"roundtrip:" + kind + ":decoded-value",
			fmt.Sprintf("the conformant encoding %s of a %s field decodes to %v, not to %v", vf.Hex(rb), kind, describe(dv.Field(0)), describe(w.Field(0))), path, d}
	}
	cl, min, mind := classifyList(w, kind)
	d["list_minimal"] = describe(min.Field(0))
	d["list_minimal_reference_hex"] = vf.Hex(refEncode(min))
	d["list_minimal_decoded"] = describe(mind.Field(0))
	var sizes []int
	for i := 0; i < min.Field(0).Len(); i++ {
		sizes = append(sizes, len(refEncode(min.Field(0).Index(i))))
	}
	what := fmt.Sprintf("a %s of %d elements with encoded sizes %v (%s) decodes to %d elements", kind, min.Field(0).Len(), sizes, cl, mind.Field(0).Len())
	if len(refEncode(min)) <= 64 {
		what += fmt.Sprintf(": %v -> %v", describe(min.Field(0)), describe(mind.Field(0)))
	}
	return &cause{"roundtrip:" + kind + ":" + cl, what, path, d}
}

// zeroPrefixSymptom: the decoded list is exactly the input cut before an all-zero element, and the
// cut moves when that element is made non-zero (so it is the zero value that ends the list, not the
// position).  w is the one-field struct that holds the inline list, d what hc decoded from it.
func zeroPrefixSymptom(w, d reflect.Value) bool {
	in, out := w.Field(0), d.Field(0)
	k := out.Len()
	if k >= in.Len() || !isZeroTLV(in.Index(k)) {
		return false
	}
	for i := 0; i < k; i++ {
		if !equalNorm(in.Index(i), out.Index(i)) {
			return false
		}
	}
	alt := deepCopy(w)
	if !makeNonZero(alt.Field(0).Index(k)) {
		return false
	}
	ad, err, pan := hcUnmarshal(refEncode(alt), alt.Type())
	return pan == "" && err == nil && ad.Field(0).Len() > k
}

// makeNonZero sets the first scalar field of a struct to a non-zero value.
func makeNonZero(e reflect.Value) bool {
	for _, f := range fields(e.Type()) {
		fv := e.Field(f.idx)
		switch fv.Kind() {
		case reflect.Uint8, reflect.Uint16, reflect.Uint32, reflect.Uint64:
			fv.SetUint(1)
			return true
		case reflect.Int8, reflect.Int16, reflect.Int32, reflect.Int64:
			fv.SetInt(1)
			return true
		case reflect.Bool:
			fv.SetBool(true)
			return true
		case reflect.Float32:
			fv.SetFloat(1)
			return true
		case reflect.String:
			fv.SetString("x")
			return true
		case reflect.Struct:
			if makeNonZero(fv) {
				return true
			}
		}
	}
	return false
}

// firstFieldOnly projects an inline list (in its one-field struct) onto the first field of its
// elements: same tag, same length, same (non-zero) values, but single-field elements.
func firstFieldOnly(w reflect.Value) reflect.Value {
	l := w.Field(0)
	et := l.Type().Elem()
	ff := fields(et)[0]
	sf := et.Field(ff.idx)
	pt := reflect.StructOf([]reflect.StructField{{Name: sf.Name, Type: sf.Type, Tag: sf.Tag}})
	wt := reflect.StructOf([]reflect.StructField{{Name: "L", Type: reflect.SliceOf(pt), Tag: `tlv8:"-"`}})
	out := reflect.New(wt).Elem()
	s := reflect.MakeSlice(reflect.SliceOf(pt), l.Len(), l.Len())
	for i := 0; i < l.Len(); i++ {
		s.Index(i).Field(0).Set(l.Index(i).Field(ff.idx))
		if isZeroTLV(s.Index(i)) { // keep clear of what zero-valued elements may do to a list
			makeNonZero(s.Index(i))
		}
	}
	out.Field(0).Set(s)
	return out
}

func elementsDecodeOK(l reflect.Value) bool {
	for i := 0; i < l.Len(); i++ {
		if !decodeOK(l.Index(i)) {
			return false
		}
	}
	return true
}

var zeroMinimised int

// classifyList names the symptom of a list (in a one-field struct w) whose elements decode correctly
// on their own while the list does not.  The list is first reduced to a minimal failing one so that
// the features named are necessary for the failure.
func classifyList(w reflect.Value, kind string) (string, reflect.Value, reflect.Value) {
	dec := func(x reflect.Value) reflect.Value {
		d, err, pan := hcUnmarshal(refEncode(x), x.Type())
		if pan != "" || err != nil {
			return reflect.New(x.Type()).Elem()
		}
		return d
	}
	d := dec(w)
	inline := kind == "inline-list"
	if inline && zeroPrefixSymptom(w, d) {
		if zeroMinimised >= 8 { // the class is decided by the symptom; the minimal form only serves the witness
			return "zero-element", w, d
		}
		zeroMinimised++
		// minimal form of the same symptom
		min := shrink(w, 600, func(c reflect.Value) bool {
			return elementsDecodeOK(c.Field(0)) && !decodeOK(c) && zeroPrefixSymptom(c, dec(c))
		})
		return "zero-element", min, dec(min)
	}
	min := shrink(w, 600, func(c reflect.Value) bool {
		if !elementsDecodeOK(c.Field(0)) || decodeOK(c) {
			return false
		}
		return !(inline && zeroPrefixSymptom(c, dec(c)))
	})
	l := min.Field(0)
	md := dec(min)
	big := func(i int) bool { return len(refEncode(l.Index(i))) > 255 }
	for i := 1; i < l.Len(); i++ {
		if big(i) {
			return "fragmented-element", min, md
		}
	}
	if l.Len() > 0 && big(0) {
		return "fragmented-first-element", min, md
	}
	if inline && l.Len() >= 2 && len(fields(l.Type().Elem())) > 1 && decodeOK(firstFieldOnly(min)) {
		// the same list with single-field elements decodes: it is the further fields that break it
		return "multi-field-element", min, md
	}
	if md.Field(0).Len() != l.Len() {
		return "element-count", min, md
	}
	return "element-value", min, md
}

// diagDecode is called for a struct whose reference encoding hc does not decode back to the value.
func diagDecode(v reflect.Value, path string) []cause {
	var out []cause
	t := v.Type()
	for _, f := range fields(t) {
		fv := v.Field(f.idx)
		k := kindOf(f)
		p := path + "." + f.name
		switch {
		case isLeafKind(k):
			if c := oneDecodeCause(wrap1(t, f, fv), k, p); c != nil {
				out = append(out, *c)
			}
		case k == "nested-struct":
			nv := fv
			if fv.Kind() == reflect.Ptr {
				if fv.IsNil() {
					continue
				}
				nv = fv.Elem()
			}
			if !decodeOK(nv) {
				out = append(out, diagDecode(nv, p)...)
				continue
			}
			if c := oneDecodeCause(wrap1(t, f, fv), k, p); c != nil {
				out = append(out, *c)
			}
		default:
			bad := false
			for i := 0; i < fv.Len(); i++ {
				if e := fv.Index(i); !decodeOK(e) {
					bad = true
					out = append(out, diagDecode(e, fmt.Sprintf("%s[%d]", p, i))...)
				}
			}
			if bad {
				continue
			}
			if c := oneDecodeCause(wrap1(t, f, fv), k, p); c != nil {
				out = append(out, *c)
			}
		}
	}
	if len(out) == 0 {
		rb := refEncode(v)
		dv, err, pan := hcUnmarshal(rb, t)
		d := map[string]interface{}{"field": path}
		switch {
		case pan != "":
			return []cause{{"unmarshal:panic:" + panicSite(pan), "Unmarshal of a valid encoding panics: " + firstLine(pan), path, d}}
		case err != nil:
			return []cause{{"roundtrip:struct:decode-error", "every field decodes on its own but the struct fails: " + err.Error(), path, d}}
		}
		// which fields came back wrong?
		var wrong []string
		for _, f := range fields(t) {
			if !equalNorm(v.Field(f.idx), dv.Field(f.idx)) {
				wrong = append(wrong, kindOf(f))
			}
		}
		d["wrong_field_kinds"] = wrong
		k := "field"
		if len(wrong) > 0 {
			k = wrong[0]
		}
		return []cause{{"roundtrip:struct:" + k + "-in-context", "every field decodes correctly on its own but not inside the struct", path, d}}
	}
	return dedupe(out)
}

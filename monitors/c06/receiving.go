package main

import (
	"bytes"
	"fmt"
	"io"
	"io/ioutil"
	"math/rand"
	"sync"
	"time"

	"github.com/brutella/hc/crypto"

	"verif/harness/hcx"
	"verif/harness/script"
	"verif/refctl"
	"verif/vf"
)

// The receiving end as the accessory runs it: the bytes one end of the session wrote (hc's own Encrypt, the controller
// side of the key pair) travel over a connection that delivers them in segments of its own choosing, and hap.Connection
// cuts them into frames again and hands each to Decrypt.  "Comes out identical at the other end" has to hold for every
// segmentation: whole messages, every single cut offset of a three-frame message, a first segment that ends inside the
// 2nd / 3rd / ... frame, several messages back to back in one segment, fixed piece sizes around the size of the
// connection's read buffer.

func receivingEnd(r *vf.Run, rnd *rand.Rand) {
	type job struct {
		lens []int  // payload lengths of the messages sent back to back
		cuts []int  // offsets at which the byte stream is cut into segments
		name string // segmentation class
	}
	var jobs []job
	// every cut offset of one three-frame message, and two cuts (the first inside frame k, the second anywhere later)
	{
		n := 2049 + rnd.Intn(1023)
		wire := n + 3*18
		step := r.Pick(7, 1)
		for c := 1; c < wire; c += step {
			jobs = append(jobs, job{[]int{n}, []int{c}, "one-cut"})
		}
		for i := 0; i < r.Pick(300, 3000); i++ {
			a := 1 + rnd.Intn(wire-2)
			b := a + 1 + rnd.Intn(wire-a-1)
			jobs = append(jobs, job{[]int{n}, []int{a, b}, "two-cuts"})
		}
	}
	for i := 0; i < r.Pick(600, 6000); i++ {
		var j job
		for m, k := 0, 1+rnd.Intn(5); m < k; m++ {
			j.lens = append(j.lens, []int{1, 17, 1023, 1024, 1025, 2048, 2049, 3000, 4096, 5000, 1 + rnd.Intn(7000)}[rnd.Intn(11)])
		}
		total := 0
		for _, l := range j.lens {
			total += l + (l+1023)/1024*18
		}
		switch rnd.Intn(4) {
		case 0:
			j.name = "whole"
		case 1:
			j.name = "fixed-pieces"
			p := []int{1, 2, 17, 18, 19, 512, 1042, 1043, 1460, 2083, 2084, 2085, 4096}[rnd.Intn(13)]
			for c := p; c < total; c += p {
				j.cuts = append(j.cuts, c)
			}
		default:
			j.name = "random-cuts"
			for c := 1 + rnd.Intn(2100); c < total; c += 1 + rnd.Intn(2100) {
				j.cuts = append(j.cuts, c)
			}
		}
		jobs = append(jobs, j)
	}
	bad := 0
	for ji, j := range jobs {
		if bad >= 5 {
			break
		}
		r.Eval()
		var secret [32]byte
		rnd.Read(secret[:])
		ctl, err := crypto.NewSecureClientSessionFromSharedKey(secret)
		if err != nil {
			r.Inconclusive("client session constructor: " + err.Error())
			return
		}
		var stream, plain []byte
		for _, l := range j.lens {
			p := make([]byte, l)
			rnd.Read(p)
			rd, err := ctl.Encrypt(bytes.NewReader(p))
			if err != nil {
				r.Violation("receiving-end:encrypt-error", err.Error(), nil)
				return
			}
			w, _ := ioutil.ReadAll(rd)
			stream, plain = append(stream, w...), append(plain, p...)
		}
		var steps []script.Step
		prev := 0
		for _, c := range append(append([]int{}, j.cuts...), len(stream)) {
			if c > len(stream) {
				c = len(stream)
			}
			if c > prev {
				steps = append(steps, script.Step{Data: stream[prev:c]})
				prev = c
			}
		}
		sc := script.New(steps)
		sc.KeepReads = false
		hc, err := hcx.ServerConn(sc, hcx.NewContext(), secret)
		if err != nil {
			r.Inconclusive("server connection: " + err.Error())
			return
		}
		var got []byte
		var rerr error
		buf := make([]byte, []int{1, 100, 1024, 4096, 9000}[ji%5])
		timeouts := 0
		for len(got) < len(plain) && timeouts < 3 {
			n, e := hc.Read(buf)
			got = append(got, buf[:n]...)
			if e != nil {
				if te, ok := e.(interface{ Timeout() bool }); ok && te.Timeout() {
					timeouts++ // the script is exhausted: nothing more will arrive
					continue
				}
				rerr = e
				break
			}
		}
		hc.Close()
		r.Count("receiving_end_streams", 1)
		r.Count("receiving_end_segments", len(steps))
		r.Distinct("receiving_end_segmentation", j.name)
		r.Nontrivial(fmt.Sprintf("receiving-end/%s/%v/%d", j.name, j.lens, len(steps)))
		if rerr != nil || !bytes.Equal(got, plain) {
			bad++
			at := 0
			for at < len(got) && at < len(plain) && got[at] == plain[at] {
				at++
			}
			r.Violation("receiving-end:"+j.name, fmt.Sprintf("messages of %v bytes written into the controller end of a session and delivered in %d segments (%s) come out at the accessory end as %d of %d bytes, identical up to byte %d, error %v", j.lens, len(steps), j.name, len(got), len(plain), at, rerr),
				map[string]interface{}{"message_lengths": j.lens, "cuts": j.cuts, "caller_buffer": len(buf), "secret": vf.Hex(secret[:])})
		}
	}
	r.Floor("receiving_end_streams", int(r.Counter("receiving_end_streams"))+100000*bad, len(jobs))
}

// truncatedThenComplete: a Decrypt call that is handed a reader which ends inside a frame (the rest has not arrived)
// reports an error.  The frame was not opened, so nothing may have been spent on it: when the same bytes are presented
// completely they come out identical, and so do the messages after them.  Every cut offset of single-frame messages of
// several sizes, once and twice in a row.
func truncatedThenComplete(r *vf.Run, rnd *rand.Rand) {
	bad := 0
	for _, n := range []int{1, 16, 100, 1024} {
		for cut := 0; cut < n+18 && bad < 5; cut += 1 + (n+18)/r.Pick(40, 400) {
			r.Eval()
			var secret [32]byte
			rnd.Read(secret[:])
			acc, err := crypto.NewSecureSessionFromSharedKey(secret)
			if err != nil {
				r.Inconclusive("session constructor: " + err.Error())
				return
			}
			c2a, _ := refctl.SessionKeys(secret[:])
			fr := &refctl.Framer{Key: c2a}
			p1, p2 := make([]byte, n), make([]byte, 2500)
			rnd.Read(p1)
			rnd.Read(p2)
			w1, w2 := fr.SealFrames(p1, nil), fr.SealFrames(p2, nil)
			attempts := 1 + cut%2
			for a := 0; a < attempts; a++ {
				if rd, err := acc.Decrypt(bytes.NewReader(w1[:cut])); err == nil && cut > 0 {
					got, _ := ioutil.ReadAll(rd)
					if len(got) > 0 {
						bad++
						r.Violation("truncated:released", fmt.Sprintf("a frame cut after %d of %d bytes released %d plaintext bytes", cut, len(w1), len(got)), nil)
					}
				}
			}
			r.Count("truncated_then_complete_cases", 1)
			r.Nontrivial(fmt.Sprintf("truncated/%d/%d/%d", n, cut, attempts))
			ok := true
			for k, pair := range [][2][]byte{{w1, p1}, {w2, p2}} {
				rd, err := acc.Decrypt(bytes.NewReader(pair[0]))
				var got []byte
				if rd != nil {
					got, _ = ioutil.ReadAll(rd)
				}
				if err != nil || !bytes.Equal(got, pair[1]) {
					ok = false
					bad++
					r.Violation("truncated:complete-message-lost", fmt.Sprintf("after %d Decrypt call(s) on the first %d of %d bytes of a single-frame message (reported as errors), message %d presented completely comes out as %d of %d bytes, error %v", attempts, cut, len(w1), k, len(got), len(pair[1]), err),
						map[string]interface{}{"cut": cut, "frame_bytes": len(w1), "attempts": attempts, "secret": vf.Hex(secret[:])})
					break
				}
			}
			_ = ok
		}
	}
	r.Floor("truncated_then_complete_cases", int(r.Counter("truncated_then_complete_cases"))+100000*bad, 100)
}

// pendingDecrypt: one direction of a session waits for data (Decrypt on a reader that has nothing yet: a pipe, a socket)
// while the other direction is used.  Sealing must go on: the two directions of a session have nothing to wait for in
// each other.  "Does not return" is decided by bounded progress, not by a clock: while the Encrypt call is outstanding,
// 3000 complete seal / open round trips are made on an independent session (and then a grace period of a second is
// given); afterwards the waiting Decrypt is handed its frame and must return the plaintext.  The mirror image: an
// Encrypt whose source reader has not delivered yet, and a Decrypt meanwhile.
func pendingDecrypt(r *vf.Run, rnd *rand.Rand) {
	for round := 0; round < r.Pick(20, 200); round++ {
		r.Eval()
		var secret, other [32]byte
		rnd.Read(secret[:])
		rnd.Read(other[:])
		acc, err1 := crypto.NewSecureSessionFromSharedKey(secret)
		ref, err2 := crypto.NewSecureSessionFromSharedKey(other)
		refPeer, err3 := crypto.NewSecureClientSessionFromSharedKey(other)
		if err1 != nil || err2 != nil || err3 != nil {
			r.Inconclusive("session constructor")
			return
		}
		c2a, _ := refctl.SessionKeys(secret[:])
		p := make([]byte, 1+rnd.Intn(2000))
		rnd.Read(p)
		wire := (&refctl.Framer{Key: c2a}).SealFrames(p, nil)
		mirror := round%2 == 1
		pr, pw := io.Pipe()
		entered := make(chan struct{})
		blocked := &signalReader{r: pr, first: entered}
		type res struct {
			b   []byte
			err error
		}
		waiting := make(chan res, 1)
		go func() { // the call that waits for data
			var rd io.Reader
			var err error
			if mirror {
				rd, err = acc.Encrypt(blocked)
			} else {
				rd, err = acc.Decrypt(blocked)
			}
			var b []byte
			if rd != nil {
				b, _ = ioutil.ReadAll(rd)
			}
			waiting <- res{b, err}
		}()
		<-entered
		other1 := make(chan res, 1)
		go func() { // the other direction, meanwhile
			var rd io.Reader
			var err error
			if mirror {
				rd, err = acc.Decrypt(bytes.NewReader(wire))
			} else {
				rd, err = acc.Encrypt(bytes.NewReader(p))
			}
			var b []byte
			if rd != nil {
				b, _ = ioutil.ReadAll(rd)
			}
			other1 <- res{b, err}
		}()
		for k := 0; k < 3000; k++ { // bounded progress elsewhere
			e, _ := ref.Encrypt(bytes.NewReader(p[:1+k%len(p)]))
			b, _ := ioutil.ReadAll(e)
			if d, err := refPeer.Decrypt(bytes.NewReader(b)); err == nil {
				ioutil.ReadAll(d)
			}
		}
		what := map[bool]string{false: "Encrypt while a Decrypt of the same session waits for data", true: "Decrypt while an Encrypt of the same session waits for its source"}[mirror]
		var o res
		select {
		case o = <-other1:
		case <-time.After(time.Second):
			select {
			case o = <-other1:
			default:
				r.Violation("pending:other-direction-blocked", what+": the call has not returned while 3000 seal / open round trips were made on another session (and a second of grace)", map[string]interface{}{"round": round, "mirror": mirror, "payload": len(p)})
				pw.Close()
				return
			}
		}
		if o.err != nil || (mirror && !bytes.Equal(o.b, p)) {
			r.Violation("pending:other-direction-wrong", fmt.Sprintf("%s: error %v, %d bytes", what, o.err, len(o.b)), nil)
			pw.Close()
			return
		}
		// now the waiting call gets its data
		if mirror {
			pw.Write(p)
		} else {
			pw.Write(wire)
		}
		pw.Close()
		w := <-waiting
		if w.err != nil || (!mirror && !bytes.Equal(w.b, p)) {
			r.Violation("pending:waiting-call-wrong", fmt.Sprintf("the call that waited for its data returns error %v, %d bytes", w.err, len(w.b)), nil)
			return
		}
		r.Count("pending_direction_rounds", 1)
		r.Nontrivial(fmt.Sprintf("pending/%v/%d", mirror, len(p)))
	}
	r.Floor("pending_direction_rounds", int(r.Counter("pending_direction_rounds"))+1000*r.ViolationCount(), r.Pick(20, 200))
}

type signalReader struct {
	r     io.Reader
	first chan struct{}
	once  sync.Once
}

func (s *signalReader) Read(p []byte) (int, error) {
	s.once.Do(func() { close(s.first) })
	return s.r.Read(p)
}

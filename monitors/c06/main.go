// C06 — secure framing round-trips every payload in the specified wire format.
//
// Oracle: hc's Encrypt output must be byte-identical to the independent reference framing
// (refctl.Framer) of the same payload at the same counter, for every way the source reader
// chunks the payload; hc's other end and the reference decrypter must return exactly the
// payload; reference-framed messages must decrypt in hc.
package main

import (
	"bufio"
	"bytes"
	"fmt"
	"io"
	"io/ioutil"
	"math/rand"
	"sync"
	"testing/iotest"

	"github.com/brutella/hc/crypto"

	"verif/refctl"
	"verif/vf"
)

type chunkReader struct {
	b    []byte
	next func(remaining int) int
}

func (c *chunkReader) Read(p []byte) (int, error) {
	if len(c.b) == 0 {
		return 0, io.EOF
	}
	n := c.next(len(c.b))
	if n < 1 {
		n = 1
	}
	if n > len(p) {
		n = len(p)
	}
	if n > len(c.b) {
		n = len(c.b)
	}
	copy(p, c.b[:n])
	c.b = c.b[n:]
	return n, nil
}

var readerModes = []string{"buffer", "onebyte", "half", "data+eof", "random", "chunk1000", "chunk1024", "chunk1025", "zero-reads", "reused-buffer"}

var sendBuffer bytes.Buffer

// zeroReader returns (0, nil) before some of its reads: "nothing happened", which io.Reader allows and an io.Pipe
// produces when its writer makes an empty Write
type zeroReader struct {
	b     []byte
	rnd   *rand.Rand
	zeros int
}

func (z *zeroReader) Read(p []byte) (int, error) {
	if len(p) == 0 {
		return 0, nil
	}
	if z.zeros < 3 && z.rnd.Intn(3) == 0 {
		z.zeros++
		return 0, nil
	}
	z.zeros = 0
	if len(z.b) == 0 {
		return 0, io.EOF
	}
	n := 1 + z.rnd.Intn(1500)
	if n > len(p) {
		n = len(p)
	}
	if n > len(z.b) {
		n = len(z.b)
	}
	copy(p, z.b[:n])
	z.b = z.b[n:]
	return n, nil
}

func reader(mode string, p []byte, rnd *rand.Rand) io.Reader {
	switch mode {
	case "buffer":
		return bytes.NewBuffer(append([]byte(nil), p...))
	case "onebyte":
		return iotest.OneByteReader(bytes.NewReader(p))
	case "half":
		return iotest.HalfReader(bytes.NewReader(p))
	case "data+eof":
		return iotest.DataErrReader(bytes.NewReader(p))
	case "random":
		return &chunkReader{b: append([]byte(nil), p...), next: func(rem int) int { return 1 + rnd.Intn(1500) }}
	case "chunk1000":
		return &chunkReader{b: append([]byte(nil), p...), next: func(int) int { return 1000 }}
	case "chunk1024":
		return &chunkReader{b: append([]byte(nil), p...), next: func(int) int { return 1024 }}
	case "chunk1025":
		return &chunkReader{b: append([]byte(nil), p...), next: func(int) int { return 1025 }}
	case "zero-reads":
		return &zeroReader{b: append([]byte(nil), p...), rnd: rnd}
	case "reused-buffer":
		// one *bytes.Buffer per process, as a sender that keeps its send buffer does: whatever an earlier Encrypt left
		// unread in it goes out in front of the next message
		sendBuffer.Write(p)
		return &sendBuffer
	}
	panic(mode)
}

func lenClass(n int) string {
	switch {
	case n == 0:
		return "0"
	case n < 1024:
		return "<1024"
	case n%1024 == 0:
		return fmt.Sprintf("k*1024(k=%d)", n/1024)
	case n < 2048:
		return "1..2 frames"
	default:
		return fmt.Sprintf("%d frames", (n+1023)/1024)
	}
}

func main() {
	r := vf.Start("C06", "exploration")
	r.SetRule("a case = (shared secret, sequence of 1..6 payload lengths, reader mode); encrypt on hc's accessory end and on hc's controller end, compare " +
		"byte-for-byte with the reference framing at the same counter, decrypt with hc's other end and with the reference, and decrypt reference-framed " +
		"messages with hc; non-trivial = distinct (payload length, reader mode, position in sequence) with length > 0")
	r.Assume("golang.org/x/crypto/chacha20poly1305 is a correct AEAD; refctl framing follows the HAP specification (self-tested)")

	rnd := r.Rand("c06")
	var lengths []int
	if r.Thorough() {
		for n := 0; n <= 4097; n++ {
			lengths = append(lengths, n)
		}
		for i := 0; i < 60; i++ {
			lengths = append(lengths, 4098+rnd.Intn(61438))
		}
		lengths = append(lengths, 65535, 65536, 65537, 10240, 20480)
	} else {
		for n := 0; n <= 1100; n++ {
			lengths = append(lengths, n)
		}
		lengths = append(lengths, 2047, 2048, 2049, 3071, 3072, 3073, 4095, 4096, 4097, 10240, 30000)
	}

	secrets := [][32]byte{{}, {}, {}}
	for i := range secrets[1] {
		secrets[1][i] = 0xFF
	}
	rnd.Read(secrets[2][:])

	type sample struct {
		Lengths []int  `json:"payload_lengths"`
		Mode    string `json:"reader_mode"`
		Wire    string `json:"first_bytes_on_wire"`
	}
	caseNo := 0
	runCase := func(secret [32]byte, lens []int, mode string) {
		caseNo++
		r.Evals(len(lens)) // a case = one message (payload, reader mode, position in its sequence)
		acc, err1 := crypto.NewSecureSessionFromSharedKey(secret)
		ctl, err2 := crypto.NewSecureClientSessionFromSharedKey(secret)
		if err1 != nil || err2 != nil {
			r.Violation("session:constructor-error", fmt.Sprintf("session constructors failed: %v %v", err1, err2), nil)
			return
		}
		c2a, a2c := refctl.SessionKeys(secret[:])
		refA2C := &refctl.Framer{Key: a2c}    // reference framing of what the accessory sends
		refA2Cdec := &refctl.Framer{Key: a2c} // reference decrypter for it
		refC2A := &refctl.Framer{Key: c2a}    // reference framing of what the controller sends
		refC2Adec := &refctl.Framer{Key: c2a}
		refC2Ain := &refctl.Framer{Key: c2a} // a second controller stream framed by the reference only, fed to hc's accessory end
		_ = refC2Ain
		var firstWire []byte
		for pos, n := range lens {
			payload := make([]byte, n)
			rnd.Read(payload)
			witness := map[string]interface{}{"secret": vf.Hex(secret[:]), "lengths": lens, "position": pos, "reader_mode": mode, "payload_len": n}
			r.Distinct("length_class", lenClass(n))
			r.Distinct("reader_mode", mode)
			if n > 0 {
				r.Nontrivial(fmt.Sprintf("%d/%s/%d", n, mode, pos))
			}
			// accessory -> controller
			encR, err := acc.Encrypt(reader(mode, payload, rnd))
			if err != nil {
				r.Violation("encrypt:error", fmt.Sprintf("Encrypt returned %v", err), witness)
				return
			}
			wire, _ := ioutil.ReadAll(encR)
			want := refA2C.SealFrames(payload, nil)
			if firstWire == nil {
				firstWire = wire
			}
			r.Count("bytes_on_wire", len(wire))
			if !bytes.Equal(wire, want) {
				// what does the produced wire contain according to the reference?
				got, derr := (&refctl.Framer{Key: a2c, Count: refA2Cdec.Count}).OpenAll(wire)
				kind := "wire-mismatch"
				if derr == nil && len(got) < len(payload) && bytes.HasPrefix(payload, got) {
					kind = "truncated"
				}
				witness["hc_wire"] = vf.Hex(wire)
				witness["reference_wire"] = vf.Hex(want)
				witness["hc_wire_decrypts_to_bytes"] = len(got)
				r.Violation(fmt.Sprintf("encrypt:reader=%s:%s", mode, kind),
					fmt.Sprintf("accessory-side Encrypt of %d bytes read through a %s reader gives %d wire bytes, reference framing gives %d (wire decrypts to %d bytes)", n, mode, len(wire), len(want), len(got)), witness)
				return // counters are out of step from here on
			}
			// hc's controller end and the reference must both recover the payload
			if got, err := refA2Cdec.OpenAll(wire); err != nil || !bytes.Equal(got, payload) {
				r.Violation("decrypt:reference-rejects-hc-wire", fmt.Sprintf("reference cannot decrypt hc's frames: %v", err), witness)
				return
			}
			decR, err := ctl.Decrypt(bytes.NewReader(wire))
			if err != nil {
				r.Violation("decrypt:hc-rejects-hc-wire", fmt.Sprintf("hc controller end cannot decrypt hc's frames: %v", err), witness)
				return
			}
			if got, _ := ioutil.ReadAll(decR); !bytes.Equal(got, payload) {
				r.Violation("decrypt:hc-roundtrip-mismatch", fmt.Sprintf("hc controller end returns %d bytes for a payload of %d", len(got), n), witness)
				return
			}
			// controller -> accessory, framed by hc's controller end
			encR, err = ctl.Encrypt(reader(mode, payload, rnd))
			if err != nil {
				r.Violation("encrypt:error", fmt.Sprintf("Encrypt returned %v", err), witness)
				return
			}
			wire2, _ := ioutil.ReadAll(encR)
			want2 := refC2A.SealFrames(payload, nil)
			if !bytes.Equal(wire2, want2) {
				got, derr := (&refctl.Framer{Key: c2a, Count: refC2Adec.Count}).OpenAll(wire2)
				kind := "wire-mismatch"
				if derr == nil && len(got) < len(payload) && bytes.HasPrefix(payload, got) {
					kind = "truncated"
				}
				r.Violation(fmt.Sprintf("encrypt:reader=%s:%s", mode, kind),
					fmt.Sprintf("controller-side Encrypt of %d bytes read through a %s reader gives %d wire bytes, reference framing gives %d", n, mode, len(wire2), len(want2)), witness)
				return
			}
			refC2Adec.OpenAll(wire2)
			// reference-framed controller message into hc's accessory end
			decR, err = acc.Decrypt(bytes.NewReader(want2))
			if err != nil {
				r.Violation("decrypt:hc-rejects-reference-wire", fmt.Sprintf("hc accessory end cannot decrypt reference frames of a %d byte payload: %v", n, err), witness)
				return
			}
			if got, _ := ioutil.ReadAll(decR); !bytes.Equal(got, payload) {
				r.Violation("decrypt:hc-reference-mismatch", fmt.Sprintf("hc accessory end returns %d bytes for a reference-framed payload of %d", len(got), n), witness)
				return
			}
			r.Count("messages_roundtripped", 1)
			r.Count("frames_checked", (n+1023)/1024*2)
		}
		r.SampleAt(caseNo, func() interface{} { return sample{lens, mode, vf.Hex(firstWire)} })
	}

	// every length alone, in every reader mode
	for _, n := range lengths {
		for _, mode := range readerModes {
			if !r.Thorough() && mode != "buffer" && n > 1100 && n%1024 > 1 && n%1024 < 1023 {
				continue
			}
			runCase(secrets[(n+len(mode))%3], []int{n}, mode)
		}
	}
	// sequences (counter continuity)
	nseq := r.Pick(1500, 20000)
	bset := []int{0, 1, 2, 16, 17, 1023, 1024, 1025, 2047, 2048, 2049, 3000, 4096}
	for i := 0; i < nseq; i++ {
		k := 2 + rnd.Intn(5)
		lens := make([]int, k)
		for j := range lens {
			if rnd.Intn(3) == 0 {
				lens[j] = rnd.Intn(5000)
			} else {
				lens[j] = bset[rnd.Intn(len(bset))]
			}
		}
		var s [32]byte
		rnd.Read(s[:])
		runCase(s, lens, readerModes[rnd.Intn(len(readerModes))])
	}
	highCounters(r, rnd)
	farCounters(r, rnd)
	duplex(r, rnd)
	queued(r, rnd)
	failingSources(r, rnd)
	parallelSessions(r, rnd)
	streams(r, rnd)
	receivingEnd(r, rnd)
	truncatedThenComplete(r, rnd)
	pendingDecrypt(r, rnd)
	r.Floor("stream_messages_decrypted+violations", int(r.Counter("stream_messages_decrypted"))+1000*r.ViolationCount(), 1500)
	r.Floor("parallel_session_messages+violations", int(r.Counter("parallel_session_messages"))+30000*r.ViolationCount(), 30000)
	r.Floor("encrypt_calls_with_a_failing_source", int(r.Counter("encrypt_calls_with_a_failing_source")), 500)
	r.Floor("healthy_messages_after_failures", int(r.Counter("healthy_messages_after_failures")), 500)
	r.Floor("queued_messages", int(r.Counter("queued_messages")), 1000)
	r.Floor("messages_roundtripped", int(r.Counter("messages_roundtripped")), 1000)
	r.Floor("duplex_messages", int(r.Counter("duplex_messages")), 10000)
	r.Finish()
}

// duplex: a session is used in both directions at the same time (the connection's reader goroutine decrypts
// while other goroutines encrypt responses and notifications).  The two directions share nothing they may
// disturb: every encrypted message must equal the reference framing and every reference-framed incoming message
// must decrypt to its payload, while the other direction is busy on the same session object.
func duplex(r *vf.Run, rnd *rand.Rand) {
	rounds := r.Pick(6, 40)
	per := r.Pick(4000, 12000)
	for round := 0; round < rounds; round++ {
		var secret [32]byte
		rnd.Read(secret[:])
		acc, err := crypto.NewSecureSessionFromSharedKey(secret)
		if err != nil {
			r.Inconclusive("session constructor: " + err.Error())
			return
		}
		c2a, a2c := refctl.SessionKeys(secret[:])
		// pre-generate the work so that both goroutines only call hc
		type msg struct{ plain, wire []byte }
		mk := func(key [32]byte, seed int64) []msg {
			g := rand.New(rand.NewSource(seed))
			f := &refctl.Framer{Key: key}
			out := make([]msg, per)
			for i := range out {
				n := 1 + g.Intn(40)
				if i%97 == 0 {
					n = 1000 + g.Intn(1500)
				}
				p := make([]byte, n)
				g.Read(p)
				out[i] = msg{p, f.SealFrames(p, nil)}
			}
			return out
		}
		outgoing := mk(a2c, r.Seed*7+int64(round))  // what hc must produce when it encrypts outgoing[i].plain in order
		incoming := mk(c2a, r.Seed*13+int64(round)) // what hc must accept
		var wg sync.WaitGroup
		var mu sync.Mutex
		report := func(sig, what string, w map[string]interface{}) {
			mu.Lock()
			r.Violation(sig, what, w)
			mu.Unlock()
		}
		wg.Add(2)
		go func() {
			defer wg.Done()
			for i, m := range outgoing {
				e, err := acc.Encrypt(bytes.NewReader(m.plain))
				if err != nil {
					report("duplex:encrypt-error", "Encrypt failed while the session was decrypting in the other direction: "+err.Error(), nil)
					return
				}
				wire, _ := ioutil.ReadAll(e)
				if !bytes.Equal(wire, m.wire) {
					report("duplex:encrypt-wire-mismatch", fmt.Sprintf("message %d encrypted while the same session decrypts in the other direction differs from the reference framing", i),
						map[string]interface{}{"message": i, "payload_len": len(m.plain), "hc_wire": vf.Hex(wire), "reference_wire": vf.Hex(m.wire), "secret": vf.Hex(secret[:])})
					return
				}
			}
		}()
		go func() {
			defer wg.Done()
			for i, m := range incoming {
				d, err := acc.Decrypt(bytes.NewReader(m.wire))
				if err != nil {
					report("duplex:decrypt-rejects-well-formed-message", fmt.Sprintf("incoming message %d (well-formed, reference-framed) is rejected while the same session encrypts in the other direction: %v", i, err),
						map[string]interface{}{"message": i, "payload_len": len(m.plain), "secret": vf.Hex(secret[:])})
					return
				}
				got, _ := ioutil.ReadAll(d)
				if !bytes.Equal(got, m.plain) {
					report("duplex:decrypt-mismatch", fmt.Sprintf("incoming message %d decrypts to other bytes while the same session encrypts in the other direction", i), nil)
					return
				}
			}
		}()
		wg.Wait()
		r.Evals(2 * per)
		r.Count("duplex_messages", 2*per)
		r.Nontrivial(fmt.Sprintf("duplex/%d", round))
	}
}

// queued: the caller owns what it gets and what it gives.  A sender may seal several messages before it
// transmits any of them (a response and the notifications behind it), a receiver may open several before it
// consumes the plaintexts, and both reuse their own buffers as soon as a call has returned.  Every result
// drained LATER must still be the reference framing / the payload of its own message.
func queued(r *vf.Run, rnd *rand.Rand) {
	rounds := r.Pick(300, 6000)
	for round := 0; round < rounds; round++ {
		var secret [32]byte
		rnd.Read(secret[:])
		acc, err1 := crypto.NewSecureSessionFromSharedKey(secret)
		ctl, err2 := crypto.NewSecureClientSessionFromSharedKey(secret)
		if err1 != nil || err2 != nil {
			r.Inconclusive("session constructors failed")
			return
		}
		_, a2c := refctl.SessionKeys(secret[:])
		ref := &refctl.Framer{Key: a2c}
		k := 2 + rnd.Intn(5)
		var lens []int
		var plains, wants [][]byte
		var encs []io.Reader
		scratch := make([]byte, 5000) // the sender's one buffer
		for i := 0; i < k; i++ {
			n := []int{0, 1, 7, 200, 300, 1023, 1024, 1025, 1500, 2048, 3000}[rnd.Intn(11)]
			if rnd.Intn(3) == 0 {
				n = rnd.Intn(5000)
			}
			lens = append(lens, n)
			rnd.Read(scratch[:n])
			p := append([]byte{}, scratch[:n]...)
			plains = append(plains, p)
			wants = append(wants, ref.SealFrames(p, nil))
			e, err := acc.Encrypt(bytes.NewReader(scratch[:n]))
			if err != nil {
				r.Violation("queued:encrypt-error", fmt.Sprintf("Encrypt returned %v", err), map[string]interface{}{"lengths": lens})
				return
			}
			encs = append(encs, e)
		}
		for i := range scratch {
			scratch[i] = 0xEE
		}
		w := map[string]interface{}{"secret": vf.Hex(secret[:]), "payload_lengths": lens}
		// transmit in order, after all of them have been sealed
		var wires [][]byte
		bad := false
		for i, e := range encs {
			wire, _ := ioutil.ReadAll(e)
			wires = append(wires, wire)
			if !bytes.Equal(wire, wants[i]) {
				w["message"] = i
				r.Violation("queued:sealed-message-changed-before-it-was-read",
					fmt.Sprintf("%d messages were sealed and then read out in order: what Encrypt returned for message %d (%d payload bytes) is not the reference framing of that message any more", k, i, lens[i]), w)
				bad = true
				break
			}
		}
		if bad {
			continue
		}
		// the receiver opens all of them (reusing its receive buffer) and consumes the plaintexts afterwards
		var decs []io.Reader
		rbuf := make([]byte, 0, 6000)
		for i, wire := range wires {
			rbuf = append(rbuf[:0], wire...)
			d, err := ctl.Decrypt(bytes.NewReader(rbuf))
			if err != nil {
				w["message"] = i
				r.Violation("queued:decrypt-rejects-well-formed-message", fmt.Sprintf("message %d of %d is rejected: %v", i, k, err), w)
				bad = true
				break
			}
			decs = append(decs, d)
		}
		if bad {
			continue
		}
		for i := range rbuf[:cap(rbuf)] {
			rbuf[:cap(rbuf)][i] = 0xDD
		}
		for i, d := range decs {
			got, _ := ioutil.ReadAll(d)
			if !bytes.Equal(got, plains[i]) {
				w["message"] = i
				r.Violation("queued:opened-message-changed-before-it-was-read",
					fmt.Sprintf("%d messages were opened and their plaintexts read afterwards: what Decrypt returned for message %d (%d payload bytes) is not its payload any more", k, i, lens[i]), w)
				break
			}
		}
		r.Evals(k)
		r.Count("queued_messages", k)
		r.Nontrivial(fmt.Sprintf("queued/%v", lens))
	}
}

// highCounters: a long-lived session.  Both ends are advanced by N one-byte messages (compared with the reference
// only at the end of the advance), then messages of several frames are exchanged across the 2^8, 2^16 (and, thorough,
// 2^17 and 2^20) frame-counter boundaries and compared frame by frame with the reference framing at that counter.
func highCounters(r *vf.Run, rnd *rand.Rand) {
	targets := []int{250, 65530}
	if r.Thorough() {
		targets = append(targets, 131066, 1048570)
	}
	for _, n := range targets {
		var secret [32]byte
		rnd.Read(secret[:])
		acc, err1 := crypto.NewSecureSessionFromSharedKey(secret)
		ctl, err2 := crypto.NewSecureClientSessionFromSharedKey(secret)
		if err1 != nil || err2 != nil {
			r.Inconclusive("session constructors failed")
			return
		}
		_, a2c := refctl.SessionKeys(secret[:])
		ref := &refctl.Framer{Key: a2c}
		one := []byte{0x55}
		for i := 0; i < n; i++ {
			e, err := acc.Encrypt(bytes.NewReader(one))
			if err != nil {
				r.Violation("high-counter:encrypt-error", fmt.Sprintf("Encrypt of message %d of a long session failed: %v", i, err), nil)
				return
			}
			wire, _ := ioutil.ReadAll(e)
			want := ref.SealFrames(one, nil)
			if !bytes.Equal(wire, want) {
				r.Violation("high-counter:wire-mismatch", fmt.Sprintf("frame %d of a long session differs from the reference framing at that counter", i),
					map[string]interface{}{"frame_counter": i, "hc_wire": vf.Hex(wire), "reference_wire": vf.Hex(want), "secret": vf.Hex(secret[:])})
				return
			}
			d, err := ctl.Decrypt(bytes.NewReader(wire))
			if err != nil {
				r.Violation("high-counter:decrypt-error", fmt.Sprintf("frame %d of a long session is rejected by hc's other end: %v", i, err), map[string]interface{}{"frame_counter": i})
				return
			}
			if got, _ := ioutil.ReadAll(d); !bytes.Equal(got, one) {
				r.Violation("high-counter:roundtrip-mismatch", fmt.Sprintf("frame %d of a long session decrypts to other bytes", i), map[string]interface{}{"frame_counter": i})
				return
			}
		}
		// across the boundary with multi-frame messages
		for k := 0; k < 6; k++ {
			p := make([]byte, []int{1, 1024, 3000, 2048, 17, 5000}[k])
			rnd.Read(p)
			e, err := acc.Encrypt(bytes.NewReader(p))
			if err != nil {
				r.Violation("high-counter:encrypt-error", fmt.Sprintf("Encrypt failed at frame counter %d: %v", ref.Count, err), nil)
				return
			}
			at := ref.Count
			wire, _ := ioutil.ReadAll(e)
			want := ref.SealFrames(p, nil)
			if !bytes.Equal(wire, want) {
				r.Violation("high-counter:wire-mismatch", fmt.Sprintf("a %d byte message sealed at frame counter %d differs from the reference framing", len(p), at),
					map[string]interface{}{"frame_counter": at, "payload_len": len(p), "secret": vf.Hex(secret[:])})
				return
			}
			d, err := ctl.Decrypt(bytes.NewReader(wire))
			if err != nil {
				r.Violation("high-counter:decrypt-error", fmt.Sprintf("a %d byte message at frame counter %d is rejected by hc's other end: %v", len(p), at, err), nil)
				return
			}
			if got, _ := ioutil.ReadAll(d); !bytes.Equal(got, p) {
				r.Violation("high-counter:roundtrip-mismatch", fmt.Sprintf("a %d byte message at frame counter %d decrypts to other bytes", len(p), at), nil)
				return
			}
		}
		r.Evals(n + 6)
		r.Count("high_counter_frames", int(ref.Count))
		r.Distinct("frame_counter_boundary_crossed", fmt.Sprint(n))
		r.Nontrivial(fmt.Sprintf("high-counter/%d", n))
	}
}

// farCounters: positions of the 64-bit frame counter that no test can reach by sending frames.  The session is
// placed there through the crypto.VerifSetFrameCounters hook and a few messages are compared frame by frame with
// the reference framing at the same counter, in both directions, across the 2^32, 2^40, 2^48, 2^56 and 2^63 marks
// and just below 2^64.
func farCounters(r *vf.Run, rnd *rand.Rand) {
	marks := []uint64{1<<32 - 3, 1 << 32, 1<<32 + 5, 1<<33 - 1, 1<<40 - 2, 1<<48 - 2, 1<<56 - 2, 1<<63 - 2, 1<<63 + 7, 3<<32 + 5, ^uint64(0) - 40}
	for _, at := range marks {
		var secret [32]byte
		rnd.Read(secret[:])
		acc, err1 := crypto.NewSecureSessionFromSharedKey(secret)
		ctl, err2 := crypto.NewSecureClientSessionFromSharedKey(secret)
		if err1 != nil || err2 != nil {
			r.Inconclusive("session constructors failed")
			return
		}
		if !crypto.VerifSetFrameCounters(acc, at, at) || !crypto.VerifSetFrameCounters(ctl, at, at) {
			r.Inconclusive("the frame counter hook does not apply to the session type any more")
			return
		}
		c2a, a2c := refctl.SessionKeys(secret[:])
		refOut := &refctl.Framer{Key: a2c, Count: at}
		refIn := &refctl.Framer{Key: c2a, Count: at}
		for k, n := range []int{1, 1024, 2500, 17, 3000} {
			p := make([]byte, n)
			rnd.Read(p)
			w := map[string]interface{}{"frame_counter": fmt.Sprint(refOut.Count), "payload_len": n, "secret": vf.Hex(secret[:])}
			e, err := acc.Encrypt(bytes.NewReader(p))
			if err != nil {
				r.Violation("far-counter:encrypt-error", fmt.Sprintf("Encrypt at frame counter %d failed: %v", refOut.Count, err), w)
				return
			}
			wire, _ := ioutil.ReadAll(e)
			if want := refOut.SealFrames(p, nil); !bytes.Equal(wire, want) {
				r.Violation("far-counter:wire-mismatch", fmt.Sprintf("message %d sealed at frame counter %s differs from the reference framing (64-bit little-endian counter nonce)", k, w["frame_counter"]), w)
				return
			}
			d, err := ctl.Decrypt(bytes.NewReader(wire))
			if err != nil {
				r.Violation("far-counter:decrypt-error", fmt.Sprintf("hc's other end rejects a message at frame counter %s: %v", w["frame_counter"], err), w)
				return
			}
			if got, _ := ioutil.ReadAll(d); !bytes.Equal(got, p) {
				r.Violation("far-counter:roundtrip-mismatch", "a message at a far counter position decrypts to other bytes", w)
				return
			}
			// reference-framed controller message into hc's accessory end
			d, err = acc.Decrypt(bytes.NewReader(refIn.SealFrames(p, nil)))
			if err != nil {
				r.Violation("far-counter:rejects-reference-wire", fmt.Sprintf("hc rejects reference frames at frame counter %s: %v", w["frame_counter"], err), w)
				return
			}
			if got, _ := ioutil.ReadAll(d); !bytes.Equal(got, p) {
				r.Violation("far-counter:reference-mismatch", "reference frames at a far counter position decrypt to other bytes", w)
				return
			}
		}
		r.Evals(10)
		r.Count("far_counter_positions", 1)
		r.Nontrivial(fmt.Sprintf("far-counter/%d", at))
	}
	r.Floor("far_counter_positions", int(r.Counter("far_counter_positions")), len(marks))
}

// failingReader delivers the first k bytes of b (in chunks) and then fails with an error that is not io.EOF.
type failingReader struct {
	b     []byte
	k     int
	chunk int
}

var errSource = fmt.Errorf("source failed (injected)")

func (f *failingReader) Read(p []byte) (int, error) {
	if f.k <= 0 {
		return 0, errSource
	}
	n := f.chunk
	if n > f.k {
		n = f.k
	}
	if n > len(p) {
		n = len(p)
	}
	copy(p, f.b[:n])
	f.b, f.k = f.b[n:], f.k-n
	return n, nil
}

// failingSources: the io.Reader an Encrypt call reads its payload from fails part-way (a body that is streamed from
// somewhere else).  Whatever Encrypt then returns, the frames it hands to its caller over the life of the session are
// the only frames the peer ever sees: they must authenticate at consecutive counters 0, 1, 2, ... (a frame that was
// sealed and then thrown away must not have used up a counter value), each message's frames must decrypt to a prefix of
// what its source delivered, and messages with a healthy source must still be framed exactly as the reference does.
func failingSources(r *vf.Run, rnd *rand.Rand) {
	n := r.Pick(400, 6000)
	failAt := []int{0, 1, 16, 1023, 1024, 1025, 1500, 2047, 2048, 2049, 3000, 4096, 5000}
	for i := 0; i < n; i++ {
		r.Eval()
		var secret [32]byte
		rnd.Read(secret[:])
		acc, err1 := crypto.NewSecureSessionFromSharedKey(secret)
		ctl, err2 := crypto.NewSecureClientSessionFromSharedKey(secret)
		if err1 != nil || err2 != nil {
			r.Inconclusive("session constructors failed")
			return
		}
		_, a2c := refctl.SessionKeys(secret[:])
		ref := &refctl.Framer{Key: a2c} // follows the frames handed to the caller
		k := 3 + rnd.Intn(5)
		var hist []string
		failedOnce := false
		for pos := 0; pos < k; pos++ {
			size := []int{1, 100, 1024, 1025, 2048, 3000, 4097, 6000}[rnd.Intn(8)]
			payload := make([]byte, size)
			rnd.Read(payload)
			fail := pos < k-1 && rnd.Intn(2) == 0
			delivered := size
			var src io.Reader = bytes.NewReader(payload)
			if fail {
				delivered = failAt[(i+pos)%len(failAt)]
				if delivered > size {
					delivered = size
				}
				src = &failingReader{b: payload, k: delivered, chunk: 1 + rnd.Intn(1500)}
				failedOnce = true
				hist = append(hist, fmt.Sprintf("Encrypt(%d bytes, source fails after %d)", size, delivered))
				r.Count("encrypt_calls_with_a_failing_source", 1)
				r.Distinct("source_fails_after", fmt.Sprint(delivered))
			} else {
				hist = append(hist, fmt.Sprintf("Encrypt(%d bytes)", size))
			}
			witness := map[string]interface{}{"secret": vf.Hex(secret[:]), "history": hist}
			var out []byte
			var rd io.Reader
			var err error
			if p, text := vf.Recover(func() { rd, err = acc.Encrypt(src) }); p {
				r.Violation("failing-source:panic", "Encrypt panicked when its source failed: "+text[:min(len(text), 300)], witness)
				break
			}
			if rd != nil {
				out, _ = ioutil.ReadAll(rd)
			}
			witness["returned_error"] = fmt.Sprint(err)
			witness["returned_wire_bytes"] = len(out)
			before := ref.Count
			got, derr := ref.OpenAll(out)
			if derr != nil {
				sig := "failing-source:frames-not-at-consecutive-counters"
				if !fail && failedOnce {
					sig = "failing-source:counter-skipped-after-failed-source"
				}
				r.Violation(sig, fmt.Sprintf("the frames Encrypt returned for message %d do not authenticate at the counters following the %d frames handed out so far on this session: %v", pos, before, derr), witness)
				break
			}
			if !bytes.HasPrefix(payload[:delivered], got) {
				r.Violation("failing-source:not-a-prefix", fmt.Sprintf("the frames returned for message %d decrypt to %d bytes that are not a prefix of the %d bytes its source delivered", pos, len(got), delivered), witness)
				break
			}
			if !fail {
				if err != nil || !bytes.Equal(got, payload) {
					r.Violation("failing-source:healthy-message-incomplete", fmt.Sprintf("message %d has a healthy source; Encrypt returned err=%v and frames for %d of %d bytes", pos, err, len(got), size), witness)
					break
				}
				r.Count("healthy_messages_after_failures", 1)
			}
			if len(out) > 0 {
				// the peer (hc's own other end) sees exactly these frames
				dr, derr := ctl.Decrypt(bytes.NewReader(out))
				var pg []byte
				if dr != nil {
					pg, _ = ioutil.ReadAll(dr)
				}
				if derr != nil || !bytes.Equal(pg, got) {
					r.Violation("failing-source:peer-cannot-decrypt", fmt.Sprintf("hc's other end cannot decrypt the frames of message %d: %v (%d of %d bytes)", pos, derr, len(pg), len(got)), witness)
					break
				}
			}
		}
	}
}

// parallelSessions: many INDEPENDENT sessions (one per controller connection of a busy accessory) encrypt and decrypt at
// the same time in one process.  Sessions share nothing a correct implementation lets them disturb (scratch buffers,
// pools): every message of every session must be framed exactly as the reference frames it at that session's counter,
// and the peer end must recover it.
func parallelSessions(r *vf.Run, rnd *rand.Rand) {
	const sessions = 24
	per := r.Pick(1500, 20000)
	var wg sync.WaitGroup
	var mu sync.Mutex
	reported := false
	base := rnd.Int63()
	for g := 0; g < sessions; g++ {
		wg.Add(1)
		go func(g int) {
			defer wg.Done()
			lr := rand.New(rand.NewSource(base + int64(g)*7919))
			var secret [32]byte
			lr.Read(secret[:])
			acc, err1 := crypto.NewSecureSessionFromSharedKey(secret)
			ctl, err2 := crypto.NewSecureClientSessionFromSharedKey(secret)
			if err1 != nil || err2 != nil {
				return
			}
			_, a2c := refctl.SessionKeys(secret[:])
			ref := &refctl.Framer{Key: a2c}
			for i := 0; i < per; i++ {
				n := 1 + lr.Intn(300)
				switch lr.Intn(8) {
				case 0:
					n = 1024
				case 1:
					n = 1025 + lr.Intn(3000)
				}
				payload := make([]byte, n)
				lr.Read(payload)
				rd, err := acc.Encrypt(bytes.NewReader(payload))
				var wire []byte
				if rd != nil {
					wire, _ = ioutil.ReadAll(rd)
				}
				want := ref.SealFrames(payload, nil)
				ok := err == nil && bytes.Equal(wire, want)
				if ok {
					dr, derr := ctl.Decrypt(bytes.NewReader(wire))
					var got []byte
					if dr != nil {
						got, _ = ioutil.ReadAll(dr)
					}
					ok = derr == nil && bytes.Equal(got, payload)
				}
				r.Count("parallel_session_messages", 1)
				if !ok {
					mu.Lock()
					if !reported {
						reported = true
						r.Violation("parallel-sessions:wire-mismatch", fmt.Sprintf("session %d of %d independent sessions used at the same time: message %d (%d bytes) is not framed as the reference frames it / does not decrypt at the peer end (err=%v, %d wire bytes, reference %d)", g, sessions, i, n, err, len(wire), len(want)),
							map[string]interface{}{"session": g, "message": i, "payload_len": n, "secret": vf.Hex(secret[:])})
					}
					mu.Unlock()
					return
				}
			}
		}(g)
	}
	wg.Wait()
}

// onlyReader hides every method of the wrapped reader but Read (a socket, a pipe: no ReadByte, no Len).
type onlyReader struct{ r io.Reader }

func (o onlyReader) Read(p []byte) (int, error) { return o.r.Read(p) }

// streams: the receiver hands Decrypt ONE reader that carries the frames of several messages, one Decrypt call per
// message (Decrypt ends a message at the first frame shorter than 1024 bytes and leaves the rest of the reader alone,
// which is what lets a caller decrypt straight from a connection).  The reader is of the kinds a stream has: nothing but
// Read, reads that return half of what was asked, data together with EOF, arbitrary chunks.  Every call must return its
// message; nothing of the next message may be swallowed.
func streams(r *vf.Run, rnd *rand.Rand) {
	n := r.Pick(600, 10000)
	kinds := []string{"only-read", "half", "data+eof", "chunks", "onebyte", "bytes.Reader", "bufio"}
	for i := 0; i < n; i++ {
		r.Eval()
		var secret [32]byte
		rnd.Read(secret[:])
		ctl, err := crypto.NewSecureClientSessionFromSharedKey(secret)
		if err != nil {
			r.Inconclusive("session constructor failed")
			return
		}
		_, a2c := refctl.SessionKeys(secret[:])
		ref := &refctl.Framer{Key: a2c}
		k := 2 + rnd.Intn(5)
		var msgs [][]byte
		var wire []byte
		for j := 0; j < k; j++ {
			size := []int{1, 17, 100, 1023, 1025, 2047, 2049, 3000, 5000}[rnd.Intn(9)] // never a multiple of 1024: the last frame ends the message
			p := make([]byte, size)
			rnd.Read(p)
			msgs = append(msgs, p)
			wire = append(wire, ref.SealFrames(p, nil)...)
		}
		kind := kinds[i%len(kinds)]
		var src io.Reader = bytes.NewReader(wire)
		switch kind {
		case "only-read":
			src = onlyReader{bytes.NewReader(wire)}
		case "half":
			src = iotest.HalfReader(bytes.NewReader(wire))
		case "data+eof":
			src = iotest.DataErrReader(bytes.NewReader(wire))
		case "chunks":
			src = &chunkReader{b: append([]byte(nil), wire...), next: func(int) int { return 1 + rnd.Intn(3000) }}
		case "onebyte":
			src = iotest.OneByteReader(bytes.NewReader(wire))
		case "bufio":
			src = bufio.NewReaderSize(onlyReader{bytes.NewReader(wire)}, 16+rnd.Intn(5000))
		}
		r.Distinct("stream_reader_kind", kind)
		for j, want := range msgs {
			var got []byte
			var derr error
			if p, text := vf.Recover(func() {
				var d io.Reader
				d, derr = ctl.Decrypt(src)
				if d != nil {
					got, _ = ioutil.ReadAll(d)
				}
			}); p {
				r.Violation("stream:panic", "Decrypt panicked on a stream of several messages: "+text[:min(len(text), 300)], map[string]interface{}{"reader": kind, "message": j})
				break
			}
			if derr != nil || !bytes.Equal(got, want) {
				r.Violation("stream:reader="+kind+":message-lost-or-wrong", fmt.Sprintf("one %s reader carries the frames of %d messages; Decrypt call %d returns %d bytes (err=%v), the message has %d", kind, k, j+1, len(got), derr, len(want)),
					map[string]interface{}{"secret": vf.Hex(secret[:]), "reader": kind, "message_lengths": lens(msgs), "call": j + 1})
				break
			}
			r.Count("stream_messages_decrypted", 1)
		}
	}
}

func lens(m [][]byte) []int {
	var out []int
	for _, x := range m {
		out = append(out, len(x))
	}
	return out
}

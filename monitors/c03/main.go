// C03 — a connection becomes verified only by a valid long-term-key signature.
//
// Harness (i): the pair-verify endpoint in-process (the code that flips the session lives there), driven with
// message sequences built by the independent controller refctl, which therefore KNOWS whether a finish message
// is genuine for the exchange opened by the last accepted start.  Harness (ii): the same alphabet against a real
// transport, where "verified" is observed from outside: is ciphertext under keys the peer derived answered?
package main

import (
	"bytes"
	"crypto/ed25519"
	"encoding/hex"
	"fmt"
	"hash/crc32"
	"math/rand"
	"net/http"
	"net/http/httptest"
	"os"
	"strings"
	"sync"
	"time"

	"github.com/brutella/hc/accessory"
	"github.com/brutella/hc/db"
	"github.com/brutella/hc/hap"
	"github.com/brutella/hc/hap/endpoint"

	"verif/harness/app"
	"verif/harness/script"
	"verif/refctl"
	"verif/vf"
)

var run *vf.Run

// ---------------------------------------------------------------- alphabet

type symbol struct {
	Kind string `json:"kind"` // start | finish
	Var  string `json:"variant"`
}

var alphabet = []symbol{
	{"start", "valid"}, {"start", "key0"}, {"start", "key31"}, {"start", "key33"}, {"start", "zero32"}, {"start", "low-order"}, {"start", "ff32"}, {"start", "high-bit"},
	{"finish", "genuine"}, {"finish", "wrong-key-signature"}, {"finish", "stale-material"}, {"finish", "reordered-material"},
	{"finish", "replay-earlier-exchange"}, {"finish", "replay-stale-genuine"}, {"finish", "replay-other-connection"}, {"finish", "unknown-name"}, {"finish", "accessory-name-garbage-sig"},
	{"finish", "accessory-name-self-signed"}, {"finish", "removed-controller"}, {"finish", "sealed-wrong-key"}, {"finish", "sealed-zero-key"},
	{"finish", "short"}, {"finish", "empty"}, {"finish", "known-name-empty-sig"}, {"finish", "tampered-ciphertext"}, {"finish", "genuine-other-controller"},
	{"finish", "degenerate-key+neutral-signature"}, {"finish", "degenerate-key+low-order-signature"}, {"finish", "degenerate-key+self-signed"},
	// an UNKNOWN name that a storage layer might confuse with a stored one (padding, case, truncation of long names, equal
	// CRC-32), signed with the stored controller's real key over this exchange and the claimed name
	{"finish", "alias-of-stored-name"}, {"finish", "signed-over-equivalent-key"},
}

// aliasOf derives a name that is not stored from a stored one.
func aliasOf(rnd *rand.Rand, id string) (alias, kind string) {
	b := []byte(id)
	if len(b) > 124 {
		switch rnd.Intn(4) {
		case 0:
			return string(b[:124]), "long-name-cut-at-124"
		case 1:
			t := make([]byte, len(b)-120)
			rnd.Read(t)
			return string(b[:120]) + string(t), "long-name-same-first-120-bytes"
		case 2:
			return string(b[:len(b)-1]), "long-name-without-last-byte"
		default:
			// same first 120 bytes, another tail, and four bytes that give the whole name the CRC-32 (IEEE) of the stored one
			t := make([]byte, 12)
			rnd.Read(t)
			pre := append(append([]byte{}, b[:120]...), t...)
			if f := crcForge(pre, crc32.ChecksumIEEE(b)); f != nil {
				return string(append(pre, f...)), "long-name-same-first-120-bytes-and-crc32"
			}
			return string(pre), "long-name-same-first-120-bytes"
		}
	}
	switch rnd.Intn(11) {
	case 8:
		return hex.EncodeToString([]byte(id)), "hex-form-of-the-stored-name"
	case 9:
		return strings.ToUpper(hex.EncodeToString([]byte(id))), "upper-case-hex-form-of-the-stored-name"
	case 10:
		return hex.EncodeToString([]byte(id)) + ".entity", "file-name-of-the-stored-name"
	case 0:
		return id + "\x00", "nul-appended"
	case 1:
		return id + " ", "space-appended"
	case 2:
		return strings.ToUpper(id), "upper-case"
	case 3:
		return id[:len(id)-1], "without-last-byte"
	case 4:
		return id + "/", "slash-appended"
	case 5:
		return "./" + id, "dot-slash-prefix"
	case 6:
		return id + "\x00" + "x", "nul-and-more-appended"
	default:
		return id + ".entity", "storage-suffix-appended"
	}
}

// crcForge returns four bytes x with crc32(prefix || x) == target.
func crcForge(prefix []byte, target uint32) []byte {
	tbl := crc32.IEEETable
	var rev [256]byte
	for i := 0; i < 256; i++ {
		rev[tbl[i]>>24] = byte(i)
	}
	var idx [4]byte
	w := ^target
	for i := 3; i >= 0; i-- {
		idx[i] = rev[w>>24]
		w = (w ^ tbl[idx[i]]) << 8
	}
	reg := ^crc32.ChecksumIEEE(prefix)
	out := make([]byte, 4)
	for i := 0; i < 4; i++ {
		out[i] = byte(reg) ^ idx[i]
		reg = (reg >> 8) ^ tbl[idx[i]]
	}
	if crc32.ChecksumIEEE(append(append([]byte{}, prefix...), out...)) != target {
		return nil
	}
	return out
}

// stored "keys" that are no Ed25519 public keys (wrong length); padded with zeros some of them become points of small
// order, for which constant byte strings verify as signatures of every message
var degenerateKeys = map[string][]byte{
	"weak-1byte-01":   {0x01},
	"weak-1byte-00":   {0x00},
	"weak-empty":      {},
	"weak-31bytes":    append([]byte{0x01}, make([]byte, 30)...),
	"weak-33bytes":    append(append([]byte{0x01}, make([]byte, 31)...), 0x00),
	"weak-2bytes-ec":  {0xec, 0xff},
	"weak-16bytes-01": append([]byte{0x01}, make([]byte, 15)...),
}
var degenerateNames = []string{"weak-1byte-01", "weak-1byte-00", "weak-empty", "weak-31bytes", "weak-33bytes", "weak-2bytes-ec", "weak-16bytes-01"}

// exchange is the controller-side state of the exchange opened by the last accepted start on a connection.
type exchange struct {
	priv, pub [32]byte
	accPub    []byte
	shared    []byte
	encKey    [32]byte
	open      bool
}

// peer is one connection as the monitor sees it.
type peer struct {
	cur       exchange
	prev      exchange // the exchange before cur (for stale material)
	lastGood  []byte   // a genuine M3 built for an earlier exchange on this connection
	pending   []byte   // a genuine M3 for the CURRENT exchange, built but not necessarily sent
	stale     []byte   // a genuine M3 of an exchange that is over (withheld or consumed)
	verified  bool     // model
	knownKeys [][]byte // shared secrets the peer could use for a session
	// the exchanges the recorded finishes were built for
	pendingFor, staleFor, lastGoodFor exchange
}

type world struct {
	ctrls         []*refctl.Identity // stored controllers
	removed       *refctl.Identity   // was stored, then removed
	accID         string
	accLTPK       []byte
	rnd           *rand.Rand
	otherConnGood []byte           // a genuine M3 recorded on another connection
	long          *refctl.Identity // a controller with a name of more than 124 bytes that the world tried to store (hc may refuse: file name too long)
	longStored    bool
}

// buildM1 returns the start message and updates nothing; the caller applies the response.
func buildStart(w *world, variant string) (msg []byte, priv, pub [32]byte) {
	priv, pub = refctl.NewEphemeral(w.rnd)
	switch variant {
	case "valid":
		return refctl.VerifyM1(pub[:]), priv, pub
	case "high-bit":
		// the same curve point spelled with bit 255 set (X25519 ignores that bit: the peer derives the same secret); the
		// key "as sent" that the finish has to be signed over is this byte string, not the masked one
		pub[31] |= 0x80
		return refctl.VerifyM1(pub[:]), priv, pub
	case "key0":
		return refctl.VerifyM1(nil), priv, pub
	case "key31":
		return refctl.VerifyM1(pub[:31]), priv, pub
	case "key33":
		return refctl.VerifyM1(append(pub[:], 7)), priv, pub
	case "zero32":
		pub = [32]byte{}
		return refctl.VerifyM1(pub[:]), priv, pub
	case "low-order":
		// a point of order 8 (RFC 7748 / curve25519 small-subgroup list)
		lo := []byte{0xe0, 0xeb, 0x7a, 0x7c, 0x3b, 0x41, 0xb8, 0xae, 0x16, 0x56, 0xe3, 0xfa, 0xf1, 0x9f, 0xc4, 0x6a, 0xda, 0x09, 0x8d, 0xeb, 0x9c, 0x32, 0xb1, 0xfd, 0x86, 0x62, 0x05, 0x16, 0x5f, 0x49, 0xb8, 0x00}
		copy(pub[:], lo)
		return refctl.VerifyM1(pub[:]), priv, pub
	case "ff32":
		for i := range pub {
			pub[i] = 0xff
		}
		return refctl.VerifyM1(pub[:]), priv, pub
	}
	panic(variant)
}

// buildFinish returns the finish message and whether it is genuine for p.cur.
func buildFinish(w *world, p *peer, variant string) (msg []byte, genuine bool) {
	ex := p.cur
	if !ex.open {
		// no exchange open: build against a made-up exchange so that the message is well-formed
		ex.priv, ex.pub = refctl.NewEphemeral(w.rnd)
		_, ap := refctl.NewEphemeral(w.rnd)
		ex.accPub = ap[:]
		ex.shared = make([]byte, 32)
		w.rnd.Read(ex.shared)
		ex.encKey = refctl.VerifyEncKey(ex.shared)
	}
	var me *refctl.Identity
	if len(w.ctrls) > 0 {
		me = w.ctrls[w.rnd.Intn(len(w.ctrls))]
	}
	stranger := refctl.NewIdentity("stranger", w.rnd)
	switch variant {
	case "genuine", "genuine-other-controller":
		if me == nil {
			// no controller stored: the best an honest-looking peer can do is sign with an unknown identity
			return refctl.VerifyM3(ex.encKey, refctl.VerifyM3Plain(stranger.ID, stranger.LTSK, ex.pub[:], ex.accPub)), false
		}
		if variant == "genuine-other-controller" {
			me = w.ctrls[len(w.ctrls)-1]
		}
		m := refctl.VerifyM3(ex.encKey, refctl.VerifyM3Plain(me.ID, me.LTSK, ex.pub[:], ex.accPub))
		return m, p.cur.open
	case "signed-over-equivalent-key":
		// signed by the stored key, but over another spelling of the controller's curve key (bit 255 flipped: the same
		// point for X25519, a different byte string): not what was sent in the start request
		other := ex.pub
		other[31] ^= 0x80
		if me == nil {
			me = stranger
		}
		return refctl.VerifyM3(ex.encKey, refctl.VerifyM3Plain(me.ID, me.LTSK, other[:], ex.accPub)), false
	case "wrong-key-signature":
		id := "nobody"
		if me != nil {
			id = me.ID
		}
		return refctl.VerifyM3(ex.encKey, refctl.VerifyM3Plain(id, stranger.LTSK, ex.pub[:], ex.accPub)), false
	case "stale-material":
		if me == nil || !p.prev.open {
			return refctl.VerifyM3(ex.encKey, refctl.VerifyM3Plain("nobody", stranger.LTSK, ex.pub[:], ex.accPub)), false
		}
		// signed over the PREVIOUS exchange's controller key, sealed under the current key
		g := bytes.Equal(p.prev.pub[:], ex.pub[:]) && bytes.Equal(p.prev.accPub, ex.accPub)
		return refctl.VerifyM3(ex.encKey, refctl.VerifyM3Plain(me.ID, me.LTSK, p.prev.pub[:], p.prev.accPub)), g && p.cur.open
	case "reordered-material":
		if me == nil {
			me = stranger
		}
		info := append(append(append([]byte{}, ex.accPub...), []byte(me.ID)...), ex.pub[:]...)
		e := &refctl.Enc{}
		sub := e.Bytes(refctl.TagIdentifier, []byte(me.ID)).Bytes(refctl.TagSignature, ed25519.Sign(me.LTSK, info)).B
		return refctl.VerifyM3(ex.encKey, sub), false
	case "replay-earlier-exchange":
		if p.lastGood != nil {
			return p.lastGood, p.cur.open && sameExchange(p.lastGoodFor, p.cur)
		}
		return refctl.VerifyM3Raw(make([]byte, 40)), false
	case "replay-stale-genuine":
		if p.stale != nil {
			// genuine for an exchange on this connection that is over; it is genuine again only if the current
			// exchange has byte-identical parameters (possible when the peer repeats a fixed public key)
			return p.stale, p.cur.open && sameExchange(p.staleFor, p.cur)
		}
		return refctl.VerifyM3Raw(make([]byte, 40)), false
	case "replay-other-connection":
		if w.otherConnGood != nil {
			return w.otherConnGood, false
		}
		return refctl.VerifyM3Raw(make([]byte, 40)), false
	case "unknown-name":
		return refctl.VerifyM3(ex.encKey, refctl.VerifyM3Plain("unknown-controller", stranger.LTSK, ex.pub[:], ex.accPub)), false
	case "accessory-name-garbage-sig":
		e := &refctl.Enc{}
		sig := make([]byte, 64)
		w.rnd.Read(sig)
		sub := e.Bytes(refctl.TagIdentifier, []byte(w.accID)).Bytes(refctl.TagSignature, sig).B
		return refctl.VerifyM3(ex.encKey, sub), false
	case "accessory-name-self-signed":
		return refctl.VerifyM3(ex.encKey, refctl.VerifyM3Plain(w.accID, stranger.LTSK, ex.pub[:], ex.accPub)), false
	case "removed-controller":
		if w.removed == nil {
			return refctl.VerifyM3(ex.encKey, refctl.VerifyM3Plain("never-stored", stranger.LTSK, ex.pub[:], ex.accPub)), false
		}
		return refctl.VerifyM3(ex.encKey, refctl.VerifyM3Plain(w.removed.ID, w.removed.LTSK, ex.pub[:], ex.accPub)), false
	case "sealed-wrong-key":
		var k [32]byte
		w.rnd.Read(k[:])
		id, sk := "nobody", stranger.LTSK
		if me != nil {
			id, sk = me.ID, me.LTSK
		}
		return refctl.VerifyM3(k, refctl.VerifyM3Plain(id, sk, ex.pub[:], ex.accPub)), false
	case "sealed-zero-key":
		id, sk := "nobody", stranger.LTSK
		if me != nil {
			id, sk = me.ID, me.LTSK
		}
		return refctl.VerifyM3([32]byte{}, refctl.VerifyM3Plain(id, sk, ex.pub[:], ex.accPub)), false
	case "short":
		b := make([]byte, 1+w.rnd.Intn(15))
		w.rnd.Read(b)
		return refctl.VerifyM3Raw(b), false
	case "empty":
		e := &refctl.Enc{}
		return e.Byte(refctl.TagState, 3).B, false
	case "known-name-empty-sig":
		id := w.accID
		if me != nil {
			id = me.ID
		}
		e := &refctl.Enc{}
		return refctl.VerifyM3(ex.encKey, e.Bytes(refctl.TagIdentifier, []byte(id)).B), false
	case "degenerate-key+neutral-signature", "degenerate-key+low-order-signature", "degenerate-key+self-signed":
		name := degenerateNames[w.rnd.Intn(len(degenerateNames))]
		sig := make([]byte, 64)
		switch variant {
		case "degenerate-key+neutral-signature":
			sig[0] = 0x01 // R = the neutral element, S = 0: verifies every message under a key of order 1
		case "degenerate-key+low-order-signature":
			lows := [][]byte{{0x01}, {0x00}, {0xec, 0xff, 0xff, 0xff, 0xff, 0xff, 0xff, 0xff, 0xff, 0xff, 0xff, 0xff, 0xff, 0xff, 0xff, 0xff, 0xff, 0xff, 0xff, 0xff, 0xff, 0xff, 0xff, 0xff, 0xff, 0xff, 0xff, 0xff, 0xff, 0xff, 0xff, 0x7f}}
			copy(sig, lows[w.rnd.Intn(len(lows))])
			if w.rnd.Intn(2) == 0 {
				sig[32] = byte(w.rnd.Intn(8))
			}
		default:
			info := append(append(append([]byte{}, ex.pub[:]...), []byte(name)...), ex.accPub...)
			copy(sig, ed25519.Sign(stranger.LTSK, info))
		}
		e := &refctl.Enc{}
		return refctl.VerifyM3(ex.encKey, e.Bytes(refctl.TagIdentifier, []byte(name)).Bytes(refctl.TagSignature, sig).B), false
	case "alias-of-stored-name":
		base := me
		if w.long != nil && (base == nil || w.rnd.Intn(2) == 0) {
			base = w.long
		}
		if base == nil {
			return refctl.VerifyM3(ex.encKey, refctl.VerifyM3Plain("unknown-controller", stranger.LTSK, ex.pub[:], ex.accPub)), false
		}
		alias, kind := aliasOf(w.rnd, base.ID)
		for _, c := range w.ctrls {
			if c.ID == alias {
				alias += "~"
			}
		}
		run.Count("finishes_naming_an_alias_of_a_stored_name", 1)
		run.Distinct("alias_kind", kind)
		if base == w.long && w.longStored {
			run.Count("finishes_naming_an_alias_of_a_stored_LONG_name", 1)
		}
		return refctl.VerifyM3(ex.encKey, refctl.VerifyM3Plain(alias, base.LTSK, ex.pub[:], ex.accPub)), false
	case "tampered-ciphertext":
		id, sk := "nobody", stranger.LTSK
		if me != nil {
			id, sk = me.ID, me.LTSK
		}
		sealed := refctl.Seal(ex.encKey, []byte("PV-Msg03"), refctl.VerifyM3Plain(id, sk, ex.pub[:], ex.accPub), nil)
		sealed[w.rnd.Intn(len(sealed))] ^= 1 << uint(w.rnd.Intn(8))
		return refctl.VerifyM3Raw(sealed), false
	}
	panic(variant)
}

// applyStartResponse parses the answer to a start and opens the exchange when it was accepted.
func applyStartResponse(p *peer, status int, body []byte, priv, pub [32]byte) {
	t, err := refctl.ParseTLV(body)
	if status != 200 || err != nil {
		return
	}
	if st, _ := t.Byte(refctl.TagState); st != 2 {
		return
	}
	if _, bad := t.Byte(refctl.TagError); bad {
		return
	}
	ap, _ := t.Get(refctl.TagPublicKey)
	if len(ap) != 32 {
		return
	}
	sh, err := x25519(priv[:], ap)
	if err != nil {
		return
	}
	if lowOrder(pub) {
		// the controller "key" is a small-order point: whatever the accessory's secret, the shared secret is all zero
		sh = make([]byte, 32)
	}
	p.prev = p.cur
	if p.pending != nil {
		p.stale, p.staleFor = p.pending, p.pendingFor
		p.pending = nil
	}
	p.cur = exchange{priv: priv, pub: pub, accPub: ap, shared: sh, encKey: refctl.VerifyEncKey(sh), open: true}
	p.knownKeys = append(p.knownKeys, sh)
}

// prebuild prepares (without sending) the genuine finish of the current exchange.
func prebuild(w *world, p *peer) {
	if p.cur.open && len(w.ctrls) > 0 {
		me := w.ctrls[0]
		p.pending = refctl.VerifyM3(p.cur.encKey, refctl.VerifyM3Plain(me.ID, me.LTSK, p.cur.pub[:], p.cur.accPub))
		p.pendingFor = p.cur
	}
}

// closeExchange is called after every finish and after a rejected start.
func closeExchange(p *peer) {
	if p.pending != nil {
		p.stale, p.staleFor = p.pending, p.pendingFor
		p.pending = nil
	}
	p.prev = p.cur
	p.cur.open = false
}

// isErrorResponse: non-2xx, or a TLV carrying an error item.
func isErrorResponse(status int, body []byte) bool {
	if status < 200 || status > 299 {
		return true
	}
	t, err := refctl.ParseTLV(body)
	if err != nil {
		return false
	}
	_, has := t.Get(refctl.TagError)
	return has
}

// ---------------------------------------------------------------- harness (i): endpoint in-process

type inprocConn struct {
	sc   *script.Conn
	sess hap.Session
	p    *peer
}

func inprocHistory(hno int, seq []symbol, nctrl int, withRemoved bool, rnd *rand.Rand, twoConns bool) {
	run.Eval()
	dir := app.ScratchDir(run.WorkDir(), "db")
	defer os.RemoveAll(dir)
	database, err := db.NewDatabase(dir)
	if err != nil {
		run.Inconclusive("db: " + err.Error())
		return
	}
	dev, err := hap.NewSecuredDevice("AC:CE:55:0R:1D:00", "001-02-003", database)
	if err != nil {
		run.Inconclusive("device: " + err.Error())
		return
	}
	ctx := hap.NewContextForSecuredDevice(dev)
	w := &world{accID: dev.Name(), accLTPK: dev.PublicKey(), rnd: rnd}
	for i := 0; i < nctrl; i++ {
		id := refctl.NewIdentity(fmt.Sprintf("ctrl-%d", i), rnd)
		w.ctrls = append(w.ctrls, id)
		database.SaveEntity(db.NewEntity(id.ID, id.LTPK, nil))
	}
	if hno%2 == 0 {
		// a controller with a long name (HAP ids are 36 characters; an administrator can send anything); hc may refuse to
		// store it (file name too long): then the name is simply unknown
		n := []int{125, 130, 200, 300}[(hno/2)%4]
		w.long = refctl.NewIdentity("long-"+strings.Repeat("n", n-5), rnd)
		w.longStored = database.SaveEntity(db.NewEntity(w.long.ID, w.long.LTPK, nil)) == nil
		if w.longStored {
			run.Count("long_names_stored", 1)
		} else {
			run.Count("long_names_the_database_refused_to_store", 1)
		}
	}
	// pairings whose stored key is not an Ed25519 public key at all (an administrator can store anything): no finish
	// message naming one of them can carry "a valid signature made with the stored key"
	for name, key := range degenerateKeys {
		database.SaveEntity(db.NewEntity(name, key, nil))
	}
	if withRemoved {
		w.removed = refctl.NewIdentity("removed-ctrl", rnd)
		e := db.NewEntity(w.removed.ID, w.removed.LTPK, nil)
		database.SaveEntity(e)
		database.DeleteEntity(e)
	}
	ep := endpoint.NewPairVerify(ctx, database)
	mk := func() *inprocConn {
		sc := script.New(nil)
		hap.NewConnection(sc, ctx)
		return &inprocConn{sc: sc, sess: ctx.GetSessionForConnection(sc), p: &peer{}}
	}
	conns := []*inprocConn{mk()}
	if twoConns {
		conns = append(conns, mk())
		// record a genuine finish on the second connection for cross-connection replays
		if len(w.ctrls) > 0 {
			c := conns[1]
			m1, priv, pub := buildStart(w, "valid")
			st, body, _ := serve(ep, c.sc, m1)
			applyStartResponse(c.p, st, body, priv, pub)
			if c.p.cur.open {
				// complete the exchange there, so that the recorded finish is stale everywhere
				w.otherConnGood, _ = buildFinish(w, c.p, "genuine")
				serve(ep, c.sc, w.otherConnGood)
				closeExchange(c.p)
			}
		}
	}
	var trace []map[string]interface{}
	for step, sym := range seq {
		c := conns[0]
		if twoConns && rnd.Intn(3) == 0 {
			c = conns[1]
		}
		if sym.Kind == "admin" {
			// an administrator removes the first stored controller or replaces its key (directly in the database, as the
			// /pairings endpoint does) BETWEEN two messages of the history: from here on "the key stored for the claimed name"
			// is another one, and the old identity is what the removed-controller finish is signed with
			if len(w.ctrls) > 0 {
				victim := w.ctrls[0]
				if sym.Var == "replace-key" {
					nw := refctl.NewIdentity(victim.ID, rnd)
					database.SaveEntity(db.NewEntity(nw.ID, nw.LTPK, nil))
					w.ctrls[0] = nw
				} else {
					database.DeleteEntity(db.NewEntity(victim.ID, nil, nil))
					w.ctrls = w.ctrls[1:]
				}
				w.removed = victim
				w.otherConnGood = nil
				for _, cc := range conns {
					cc.p.lastGood, cc.p.pending, cc.p.stale = nil, nil, nil
					if cc.p.cur.open {
						prebuild(w, cc.p)
					}
				}
				run.Count("administrative_changes_between_messages", 1)
			}
			trace = append(trace, map[string]interface{}{"step": step, "administrator": sym.Var})
			continue
		}
		var msg []byte
		genuine := false
		var priv, pub [32]byte
		if sym.Kind == "start" {
			msg, priv, pub = buildStart(w, sym.Var)
		} else {
			msg, genuine = buildFinish(w, c.p, sym.Var)
			if genuine {
				// remember it for later replays (after the next start it is stale)
				c.p.lastGood, c.p.lastGoodFor = msg, c.p.cur
			}
		}
		sessBefore := c.sess.Decrypter()
		before := sessBefore != nil
		status, body, panicText := serve(ep, c.sc, msg)
		sessAfter := c.sess.Decrypter()
		after := sessAfter != nil
		run.Count("messages", 1)
		run.Distinct("symbol", sym.Kind+":"+sym.Var)
		state := "no-exchange"
		if c.p.cur.open {
			state = "exchange-open"
		}
		if before {
			state += "+verified"
		}
		run.Distinct("(state,symbol)", state+"/"+sym.Kind+":"+sym.Var)
		trace = append(trace, map[string]interface{}{"step": step, "symbol": sym, "genuine": genuine, "status": status, "response": vf.Hex(body), "verified_after": after, "panicked": panicText != ""})
		if panicText != "" {
			run.Count("handler_panics_left_to_C13", 1)
		}
		wit := func() map[string]interface{} {
			return map[string]interface{}{"history": hno, "stored_controllers": nctrl, "removed_controller_present": withRemoved, "two_connections": twoConns, "trace": trace}
		}
		if sym.Kind == "start" {
			applyStartResponse(c.p, status, body, priv, pub)
			if after != before || sessAfter != sessBefore {
				run.Violation("inproc:start:verified-state-changed", "a start message changed the verified state of the connection", wit())
				return
			}
			if wrongLength(sym.Var) && panicText == "" && status != 0 && !isErrorResponse(status, body) {
				run.Violation("inproc:start:"+sym.Var+":not-answered-with-error", fmt.Sprintf("a start request with a %s public key was answered without an error (status %d)", sym.Var, status), wit())
				return
			}
			if panicText != "" || status == 0 || isErrorResponse(status, body) {
				// a rejected start does not open an exchange (and ends the one that was open)
				closeExchange(c.p)
			} else {
				prebuild(w, c.p)
			}
			continue
		}
		// finish
		if genuine {
			run.Count("genuine_finishes", 1)
			if after {
				run.Count("verified_by_genuine_finish", 1)
			}
			// (whether a genuine finish is accepted is C04's business)
		} else {
			if (after && !before) || sessAfter != sessBefore {
				run.Violation("inproc:finish:"+sym.Var+":verified", fmt.Sprintf("a finish message that is not genuine (%s) verified the connection; the session key is derived from a secret the peer knows", sym.Var), wit())
				return
			}
			if panicText == "" && status != 0 && !isErrorResponse(status, body) {
				run.Violation("inproc:finish:"+sym.Var+":not-answered-with-error", fmt.Sprintf("a finish message that is not genuine (%s) was answered without an error (status %d, body %x)", sym.Var, status, body), wit())
				return
			}
			run.Count("forged_finishes_refused", 1)
		}
		// every finish closes the exchange
		closeExchange(c.p)
	}
	run.SampleAt(hno, func() interface{} { return map[string]interface{}{"sequence": seq, "stored_controllers": nctrl} })
}

// serve calls the endpoint like net/http would and returns status (0 if a panic prevented a response), body, panic text.
func serve(ep http.Handler, sc *script.Conn, body []byte) (int, []byte, string) {
	req := httptest.NewRequest("POST", "/pair-verify", bytes.NewReader(body))
	req.RemoteAddr = sc.RemoteAddr().String()
	req.Header.Set("Content-Type", refctl.ContentTLV8)
	rec := httptest.NewRecorder()
	panicked, text := vf.Recover(func() { ep.ServeHTTP(rec, req) })
	if panicked {
		return 0, nil, text
	}
	return rec.Code, rec.Body.Bytes(), ""
}

// ---------------------------------------------------------------- harness (ii): full stack

func fullStackHistory(hno int, a *app.App, w *world, seq []symbol) {
	run.Eval()
	c, err := refctl.Dial(a.Addr)
	if err != nil {
		run.Inconclusive("dial: " + err.Error())
		return
	}
	defer c.Close()
	c.Timeout = 5 * time.Second
	p := &peer{}
	var trace []map[string]interface{}
	wit := func() map[string]interface{} { return map[string]interface{}{"history": hno, "trace": trace} }
	for step, sym := range seq {
		var msg []byte
		genuine := false
		var priv, pub [32]byte
		if sym.Kind == "start" {
			msg, priv, pub = buildStart(w, sym.Var)
		} else {
			msg, genuine = buildFinish(w, p, sym.Var)
		}
		if genuine {
			// honest completion ends the history (the verified case is C04's business)
			return
		}
		run.Count("fullstack_messages", 1)
		m, err := c.Do("POST", "/pair-verify", refctl.ContentTLV8, msg)
		rec := map[string]interface{}{"step": step, "symbol": sym}
		trace = append(trace, rec)
		if err != nil {
			// dropped connection / malformed answer: C13's business; but first see whether the server now talks ciphertext
			rec["error"] = err.Error()
			if _, ok := err.(*refctl.MalformedError); ok {
				if key := opensUnder(c.LastRaw(), p); key != nil {
					run.Violation("fullstack:"+sym.Kind+":"+sym.Var+":answer-encrypted", "after a forged message the accessory answered in ciphertext under a key the peer derived itself", wit())
				}
			}
			return
		}
		rec["status"] = m.Status
		rec["response"] = vf.Hex(m.Body)
		if sym.Kind == "start" {
			applyStartResponse(p, m.Status, m.Body, priv, pub)
			if wrongLength(sym.Var) && !isErrorResponse(m.Status, m.Body) {
				run.Violation("fullstack:start:"+sym.Var+":not-answered-with-error", "a start request with an invalid public key was answered without an error", wit())
				return
			}
			if isErrorResponse(m.Status, m.Body) {
				closeExchange(p)
			} else {
				prebuild(w, p)
			}
		} else {
			if !isErrorResponse(m.Status, m.Body) {
				run.Violation("fullstack:finish:"+sym.Var+":not-answered-with-error", fmt.Sprintf("a finish message that is not genuine (%s) was answered without an error (status %d, body %x)", sym.Var, m.Status, m.Body), wit())
				return
			}
			closeExchange(p)
		}
		// is the connection still unverified and in plaintext?  (a) a plaintext request is answered in plaintext
		// (every second history leaves the connection alone so that the ciphertext probe (b) meets an intact connection)
		if hno%2 == 0 {
			continue
		}
		m2, err := c.Do("POST", "/pair-verify", refctl.ContentTLV8, []byte{0x06, 0x01, 0x09})
		if err != nil {
			if _, ok := err.(*refctl.MalformedError); ok && opensUnder(c.LastRaw(), p) != nil {
				run.Violation("fullstack:"+sym.Kind+":"+sym.Var+":connection-switched-to-ciphertext", "after a message that is not a genuine finish the accessory answers in ciphertext under a key the peer derived itself", wit())
				return
			}
			rec["probe_error"] = err.Error()
			if sym.Kind == "finish" && err == refctl.ErrTimeout {
				if un, _, perr := a.Unanswered(c); perr != nil {
					run.Inconclusive("bounded-progress probe failed: " + perr.Error())
					return
				} else if !un {
					return
				}
			}
			if sym.Kind == "finish" {
				// the forged finish itself was answered, but a following plaintext request is not: the connection
				// no longer speaks plaintext
				run.Violation("fullstack:finish:"+sym.Var+":plaintext-no-longer-answered", "after a finish message that is not genuine was answered, a plaintext request on the same connection is no longer answered ("+err.Error()+"): the accessory switched the connection to the encrypted session", wit())
			}
			return
		}
		_ = m2
		run.Count("fullstack_plaintext_probes_answered_in_plaintext", 1)
	}
	// (b) ciphertext under a key the peer derived itself (the last exchange's) must not be served
	if len(p.knownKeys) > 0 {
		sh := p.knownKeys[len(p.knownKeys)-1]
		if hno%5 == 0 {
			sh = make([]byte, 32)
		}
		c.Secure(sh)
		c.Timeout = 300 * time.Millisecond
		m, err := c.Do("GET", "/accessories", "", nil)
		if err == nil && m != nil {
			run.Violation("fullstack:ciphertext-under-peer-key-served", fmt.Sprintf("a request encrypted under a key the unverified peer derived itself was answered (status %d)", m.Status), wit())
			return
		}
		run.Count("fullstack_ciphertext_probes_refused", 1)
	}
}

// opensUnder tries to open raw as a session frame under any key the peer knows.
func opensUnder(raw []byte, p *peer) []byte {
	for _, sh := range append(p.knownKeys, make([]byte, 32)) {
		_, a2c := refctl.SessionKeys(sh)
		f := &refctl.Framer{Key: a2c}
		if _, _, err := f.OpenFrame(raw); err == nil {
			return sh
		}
	}
	return nil
}

func main() {
	if len(os.Args) >= 5 && os.Args[1] == "-lin-race-child" {
		var seed int64
		var rounds int
		fmt.Sscan(os.Args[2], &seed)
		fmt.Sscan(os.Args[3], &rounds)
		raceWorkload(seed, rounds, os.Args[4])
		return
	}
	run = vf.Start("C03", "exploration")
	r := run
	r.SetRule("a history = (pairing set of 0..3 controllers, optionally a removed one, 1 or 2 connections, sequence over a 29-symbol pair-verify alphabet); all sequences up to length 2 (quick) / 3 (thorough) " +
		"plus random sequences of length 3..8; after every message the verified state of the session is compared with the model (only a finish that is genuine for the exchange opened by the last accepted start may verify); " +
		"non-trivial = distinct (pairing set, sequence)")
	r.Assume("the monitor builds every message itself with refctl and therefore knows which finish messages are genuine; x/crypto X25519 and crypto/ed25519 are correct")
	r.Watchdog(30 * time.Minute)
	rnd := r.Rand("c03")
	hno := 0
	do := func(seq []symbol, nctrl int, removed, two bool) {
		hno++
		r.Nontrivial(fmt.Sprint(seq, nctrl, removed, two))
		inprocHistory(hno, seq, nctrl, removed, rand.New(rand.NewSource(r.Seed*1000+int64(hno))), two)
	}
	// all sequences up to length 2 / 3 (each prefixed by nothing: the controller starts fresh)
	maxLen := r.Pick(2, 3)
	var rec func(prefix []symbol)
	rec = func(prefix []symbol) {
		if len(prefix) > 0 {
			do(append([]symbol(nil), prefix...), 1+len(prefix)%2, len(prefix)%2 == 0, false)
		}
		if len(prefix) == maxLen {
			return
		}
		for _, s := range alphabet {
			rec(append(prefix, s))
		}
	}
	rec(nil)
	// valid start followed by each finish, for pairing sets 0,1,3
	for _, n := range []int{0, 1, 3} {
		for _, s := range alphabet {
			if s.Kind == "finish" {
				do([]symbol{{"start", "valid"}, s}, n, true, false)
				do([]symbol{{"start", "valid"}, {"finish", "genuine"}, {"start", "valid"}, s}, n, true, true)
			}
		}
	}
	// the pairing set changes between two exchanges of ONE connection: whatever the connection remembers of the first
	// exchange (a looked-up entity, a verified name) must not decide the second
	for _, first := range []string{"genuine", "wrong-key-signature", "stale-material", "known-name-empty-sig", "sealed-zero-key", "unknown-name"} {
		for _, adm := range []string{"remove-stored", "replace-key"} {
			for _, s := range alphabet {
				if s.Kind != "finish" {
					continue
				}
				if !r.Thorough() && s.Var != "removed-controller" && s.Var != "genuine" && s.Var != "replay-earlier-exchange" && s.Var != "wrong-key-signature" {
					continue
				}
				do([]symbol{{"start", "valid"}, {"finish", first}, {"admin", adm}, {"start", "valid"}, s}, 1, false, false)
				do([]symbol{{"start", "valid"}, {"finish", first}, {"admin", adm}, {"start", "valid"}, s}, 2, false, false)
				do([]symbol{{"start", "valid"}, {"admin", adm}, s}, 1, false, false)
			}
		}
	}
	// persistence: K failed exchanges on one connection (attempt counters, lock-outs and what they leave behind),
	// then every kind of finish once more, and a genuine one
	reps := []int{3, 100}
	failing := []string{"wrong-key-signature", "unknown-name", "sealed-zero-key", "short"}
	if r.Thorough() {
		reps = []int{3, 10, 99, 100, 101, 255, 256, 300}
		failing = append(failing, "removed-controller", "known-name-empty-sig", "tampered-ciphertext", "empty")
	}
	for _, k := range reps {
		for _, f := range failing {
			for _, s := range alphabet {
				if s.Kind != "finish" {
					continue
				}
				if !r.Thorough() && k > 3 && s.Var != "genuine" && s.Var != f && s.Var != "replay-earlier-exchange" && s.Var != "sealed-zero-key" && s.Var != "known-name-empty-sig" && s.Var != "accessory-name-self-signed" {
					continue
				}
				var seq []symbol
				for i := 0; i < k; i++ {
					seq = append(seq, symbol{"start", "valid"}, symbol{"finish", f})
				}
				seq = append(seq, symbol{"start", "valid"}, s)
				do(seq, 2, true, false)
				r.Count("persistence_histories", 1)
			}
		}
	}
	n := r.Pick(2000, 100000)
	for i := 0; i < n; i++ {
		k := 3 + rnd.Intn(6)
		seq := make([]symbol, k)
		for j := range seq {
			if rnd.Intn(3) == 0 {
				seq[j] = symbol{"start", "valid"}
			} else {
				seq[j] = alphabet[rnd.Intn(len(alphabet))]
			}
		}
		do(seq, rnd.Intn(4), rnd.Intn(2) == 0, rnd.Intn(3) == 0)
	}

	// full stack
	dir := app.ScratchDir(r.WorkDir(), "fs")
	defer os.RemoveAll(dir)
	w := &world{rnd: r.Rand("c03-fs")}
	for i := 0; i < 2; i++ {
		id := refctl.NewIdentity(fmt.Sprintf("fs-ctrl-%d", i), w.rnd)
		w.ctrls = append(w.ctrls, id)
		app.StoreController(dir, id)
	}
	w.long = refctl.NewIdentity("long-"+strings.Repeat("n", 140), w.rnd)
	if d, err := db.NewDatabase(dir); err == nil { // through hc's own database, whatever file name it derives
		w.longStored = d.SaveEntity(db.NewEntity(w.long.ID, w.long.LTPK, nil)) == nil
	}
	a, err := app.Start(dir, "00102003", accessory.NewSwitch(accessory.Info{Name: "C03"}).Accessory)
	if err != nil {
		r.Inconclusive("transport: " + err.Error())
	} else {
		acc, _ := app.AccessoryEntity(dir)
		w.accID, w.accLTPK = acc.Name, acc.PublicKey
		nfs := r.Pick(200, 5000)
		var wg sync.WaitGroup
		var mu sync.Mutex
		ch := make(chan []symbol)
		for k := 0; k < 8; k++ {
			wg.Add(1)
			go func(k int) {
				defer wg.Done()
				lw := *w
				lw.rnd = rand.New(rand.NewSource(r.Seed*77 + int64(k)))
				for seq := range ch {
					mu.Lock()
					hno++
					h := hno
					mu.Unlock()
					fullStackHistory(h, a, &lw, seq)
				}
			}(k)
		}
		for i := 0; i < nfs; i++ {
			k := 1 + rnd.Intn(5)
			seq := []symbol{{"start", "valid"}}
			for j := 0; j < k; j++ {
				s := alphabet[rnd.Intn(len(alphabet))]
				if s.Var == "genuine" || s.Var == "genuine-other-controller" {
					s = symbol{"finish", "accessory-name-garbage-sig"}
				}
				seq = append(seq, s)
			}
			if i < len(alphabet) {
				seq = []symbol{{"start", "valid"}, alphabet[i]}
				if alphabet[i].Var == "genuine" || alphabet[i].Var == "genuine-other-controller" {
					continue
				}
			}
			ch <- seq
		}
		close(ch)
		wg.Wait()
		a.Stop()
	}
	// harness L: concurrent pairing administration against pair-verify, checked for linearizability
	tl := time.Now()
	linearRounds(r)
	r.Extra("wall_s_harness_L", time.Since(tl).Seconds())
	if r.ViolationCount() == 0 {
		linearRaceChild(r) // (a tree that already violates is not also run under the race detector)
	}

	r.Floor("messages", int(r.Counter("messages")), 5000)
	r.Floor("verified_by_genuine_finish", int(r.Counter("verified_by_genuine_finish")), 50)
	r.Floor("administrative_changes_between_messages", int(r.Counter("administrative_changes_between_messages")), 40)
	r.Floor("finishes_naming_an_alias_of_a_stored_name", int(r.Counter("finishes_naming_an_alias_of_a_stored_name")), 150)
	r.Floor("alias kinds", r.DistinctN("alias_kind"), 12)
	r.Floor("forged_finishes_refused+violations", int(r.Counter("forged_finishes_refused"))+r.ViolationCount(), 1000)
	r.Guard("replace storm", func() { replaceStorm(r) })
	r.Finish()
}

func wrongLength(v string) bool { return v == "key0" || v == "key31" || v == "key33" }

// lowOrder reports whether pub is one of the small-order points the alphabet uses (or all 0xff, which is
// reduced mod p to a regular point and therefore NOT low order).
func lowOrder(pub [32]byte) bool {
	if pub == ([32]byte{}) {
		return true
	}
	return pub[0] == 0xe0 && pub[1] == 0xeb && pub[31] == 0x00
}

func sameExchange(a, b exchange) bool {
	return a.pub == b.pub && bytes.Equal(a.accPub, b.accPub) && bytes.Equal(a.shared, b.shared)
}

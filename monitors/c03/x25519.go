package main

import "golang.org/x/crypto/curve25519"

// x25519 is the raw scalar multiplication (no small-order rejection): the monitor must be able to compute
// what the accessory computes for any 32-byte "public key" a peer may send.
func x25519(priv, pub []byte) ([]byte, error) {
	var k, p, out [32]byte
	copy(k[:], priv)
	copy(p[:], pub)
	curve25519.ScalarMult(&out, &k, &p)
	return out[:], nil
}

package main

import "golang.org/x/crypto/curve25519"

func x25519(priv, pub []byte) ([]byte, error) { return curve25519.X25519(priv, pub) }

package main

// Harness L: pair-verify against a pairing database that changes at the same time.
//
// "…with the long-term key stored for the claimed controller name" has to hold while administrators add,
// replace and remove pairings on other connections.  The sequential histories above cannot tell a lookup
// that answers from a stale copy from one that answers from the store, and neither can any single request:
// the difference only shows in a history.  So this harness records one:
//
//	clients     2 administrators (verified connections of a stored admin controller): add(name, key version),
//	            remove(name);  4 verifiers: verify(name, key version) = a complete pair-verify on a fresh
//	            connection, outcome accepted / refused
//	recorded    per operation: client, input, call time before the first byte is sent, output, return time
//	            after the answer was read (one monotonic clock), at the client boundary
//	model       per controller name (the histories of different names are independent: P-compositionality) a
//	            register holding the stored key version or none; add(v) and remove() answered with success
//	            write it, verify(v) is accepted iff the register holds v
//	oracle      porcupine.CheckOperationsVerbose (linearizability): there must be an order of the operations,
//	            consistent with real time, in which every verify outcome is the one the model gives
//
// A round runs on a fresh storage directory in which some names are stored before the accessory starts (a
// pairing that survived a restart and has not been used since), a few administrative operations (each takes about a second: hc updates its mDNS records before it answers) and some hundred pair-verifies on three names,
// and then, quiescent, one verify per (name, key version): those sequential probes are what exposes a key
// that outlived its removal.  Schedules are widened with the storage.* hook points (a delay after a file has
// been read and before the caller goes on, before a write, before a delete): natural suspension points, the
// system calls of the file storage.  Many short histories rather than one long one.

import (
	"fmt"
	"math/rand"
	"os"
	"sort"
	"strings"
	"sync"
	"sync/atomic"
	"time"

	"github.com/anishathalye/porcupine"
	"github.com/brutella/hc/accessory"
	"github.com/brutella/hc/verifhook"

	"verif/harness/app"
	"verif/refctl"
	"verif/vf"
)

type linIn struct {
	Kind string `json:"op"` // add | remove | verify
	Name int    `json:"name"`
	Ver  int    `json:"key_version"`
	Init int    `json:"-"` // key version stored for the name before the accessory started (0 none)
}

type linOut struct {
	OK  bool   `json:"ok"`
	Why string `json:"why,omitempty"`
}

type linOp struct {
	Client int    `json:"client"`
	In     linIn  `json:"input"`
	Out    linOut `json:"output"`
	Call   int64  `json:"call_ns"`
	Ret    int64  `json:"return_ns"`
	Phase  string `json:"phase"`
}

var linModel = porcupine.Model{
	Partition: func(history []porcupine.Operation) [][]porcupine.Operation {
		m := map[int][]porcupine.Operation{}
		var keys []int
		for _, o := range history {
			n := o.Input.(linIn).Name
			if _, ok := m[n]; !ok {
				keys = append(keys, n)
			}
			m[n] = append(m[n], o)
		}
		sort.Ints(keys)
		var out [][]porcupine.Operation
		for _, k := range keys {
			out = append(out, m[k])
		}
		return out
	},
	Init: func() interface{} { return -1 }, // resolved by the first operation of the partition (Init of its name)
	Step: func(state, input, output interface{}) (bool, interface{}) {
		st, in, out := state.(int), input.(linIn), output.(linOut)
		if st == -1 {
			st = in.Init
		}
		switch in.Kind {
		case "add":
			if out.OK {
				return true, in.Ver
			}
			return true, st
		case "remove":
			if out.OK {
				return true, 0
			}
			return true, st
		default: // verify
			return out.OK == (st == in.Ver), st
		}
	},
	Equal: func(a, b interface{}) bool { return a.(int) == b.(int) },
	DescribeOperation: func(input, output interface{}) string {
		in, out := input.(linIn), output.(linOut)
		return fmt.Sprintf("%s(name%d,v%d)->%v", in.Kind, in.Name, in.Ver, out.OK)
	},
}

// delay injection at the storage hook points; lock-free, called on hc's goroutines
var linDelayOn int32
var linDelaySeq uint64
var linDelays int64

func linHook(point string) {
	if atomic.LoadInt32(&linDelayOn) <= 0 || !strings.HasPrefix(point, "storage.") {
		return
	}
	x := atomic.AddUint64(&linDelaySeq, 0x9E3779B97F4A7C15)
	x ^= x >> 31
	x *= 0xBF58476D1CE4E5B9
	x ^= x >> 29
	if point == "storage.get.done" && x%4 == 2 {
		x -= 2 // what was read is used late more often than not
	}
	switch x % 4 {
	case 0:
		atomic.AddInt64(&linDelays, 1)
		time.Sleep(time.Duration(100+x%3000) * time.Microsecond)
	case 1:
		atomic.AddInt64(&linDelays, 1)
		time.Sleep(time.Duration(20+x%100) * time.Microsecond)
	}
}

type linRound struct {
	Seed int64   `json:"seed"`
	Init []int   `json:"stored_before_start"`
	Ops  []linOp `json:"operations"`
}

func linearRound(r *vf.Run, n int, seed int64) {
	const names, versions = 3, 3
	rnd := rand.New(rand.NewSource(seed))
	dir := app.ScratchDir(r.WorkDir(), "lin")
	defer os.RemoveAll(dir)
	admin := refctl.NewIdentity("lin-admin", rnd)
	app.StoreController(dir, admin)
	ids := make([][]*refctl.Identity, names)
	rd := linRound{Seed: seed, Init: make([]int, names)}
	for i := range ids {
		for v := 1; v <= versions; v++ {
			ids[i] = append(ids[i], refctl.NewIdentity(fmt.Sprintf("lin-ctrl-%d", i), rnd))
		}
		if rnd.Intn(4) != 0 { // mostly stored before the start: the pairing survived a restart
			rd.Init[i] = 1 + rnd.Intn(versions)
			app.StoreController(dir, ids[i][rd.Init[i]-1])
		}
	}
	a, err := app.Start(dir, "00102003", accessory.NewSwitch(accessory.Info{Name: "C03 L"}).Accessory)
	if err != nil {
		// (thousands of transports in one process: the mDNS responder library leaks readers and now and then does not come
		// up in time; such a round is left out and counted, the floor on completed rounds keeps watch)
		r.Count("linear_rounds_dropped_because_the_transport_did_not_start", 1)
		r.Evals(0)
		return
	}
	defer a.Stop()
	acc, _ := app.AccessoryEntity(dir)

	t0 := time.Now()
	now := func() int64 { return int64(time.Since(t0)) }
	var mu sync.Mutex
	record := func(o linOp) {
		mu.Lock()
		rd.Ops = append(rd.Ops, o)
		mu.Unlock()
	}
	var unusable int32 // an administrative request without an answer: its effect is unknown, the round is dropped
	ready := []chan struct{}{make(chan struct{}), make(chan struct{})}
	verify := func(client int, name, ver int, phase string, between func()) {
		in := linIn{Kind: "verify", Name: name, Ver: ver, Init: rd.Init[name]}
		call := now()
		c, err := refctl.Dial(a.Addr)
		if err != nil {
			return // nothing was sent
		}
		c.Timeout = 20 * time.Second
		v, err := c.StartVerify(ids[name][ver-1], acc.PublicKey, acc.Name, nil)
		if between != nil {
			between()
		}
		if err == nil {
			err = c.FinishVerify(v)
		}
		ret := now()
		out := linOut{OK: err == nil}
		if err != nil {
			se, ok := err.(*refctl.StageError)
			// refused = a complete answer to M3 that is not success (an error item, or an HTTP error status)
			if !ok || se.Transport != nil || (se.Stage != refctl.StageVerifyRefused && se.Stage != "verify.M4") {
				// no decision was observed (a verify does not change the store: the operation is left out)
				r.Count("linear_verifies_without_decision", 1)
				r.Distinct("linear_no_decision_reason", trunc200(err.Error()))
				c.Close()
				return
			}
			out.Why = se.Error()
		} else {
			// accepted means protected access: the session must work
			if m, e := c.Do("GET", "/characteristics?id=1.3", "", nil); e != nil || m.Status != 200 {
				out.OK = false
				out.Why = "pair-verify was answered with success but the session does not serve"
				r.Count("linear_accepted_without_session", 1)
			}
		}
		c.Close()
		record(linOp{Client: client, In: in, Out: out, Call: call, Ret: ret, Phase: phase})
	}

	var wg sync.WaitGroup
	var adminsDone int32
	atomic.AddInt32(&linDelayOn, 1)
	for k := 0; k < 2; k++ {
		wg.Add(1)
		go func(k int) {
			defer wg.Done()
			defer atomic.AddInt32(&adminsDone, 1)
			lr := rand.New(rand.NewSource(seed*31 + int64(k)))
			c, err := a.Verified(admin, acc.PublicKey, acc.Name)
			if err != nil {
				atomic.StoreInt32(&unusable, 1)
				return
			}
			defer c.Close()
			c.Timeout = 20 * time.Second
			select {
			case <-ready[k]:
			case <-time.After(5 * time.Second):
			}
			time.Sleep(time.Duration(lr.Intn(1200)) * time.Microsecond)
			for i := 0; i < 3+lr.Intn(3); i++ {
				in := linIn{Kind: "remove", Name: lr.Intn(names)}
				if i == 0 {
					// the first operation of administrator k meets the first pair-verify for name k: the pairing
					// has not been looked up since the start
					in.Name = k
				}
				in.Init = rd.Init[in.Name]
				body := refctl.PairingsRemove(ids[in.Name][0].ID)
				if lr.Intn(5) < 2 {
					in.Kind, in.Ver = "add", 1+lr.Intn(versions)
					if i == 0 && rd.Init[in.Name] != 0 { // replace the stored key by another one
						in.Ver = 1 + (rd.Init[in.Name]+lr.Intn(versions-1))%versions
					}
					body = refctl.PairingsAdd(ids[in.Name][0].ID, ids[in.Name][in.Ver-1].LTPK, false)
				}
				call := now()
				m, t, err := c.PostTLV("/pairings", body)
				ret := now()
				if err != nil {
					atomic.StoreInt32(&unusable, 1)
					return
				}
				out := linOut{OK: m.Status == 200}
				if t != nil {
					if e, has := t.Byte(refctl.TagError); has {
						out.OK, out.Why = false, fmt.Sprintf("error %d", e)
					}
				}
				record(linOp{Client: k, In: in, Out: out, Call: call, Ret: ret, Phase: "concurrent"})
				if lr.Intn(3) == 0 {
					time.Sleep(time.Duration(lr.Intn(800)) * time.Microsecond)
				}
			}
		}(k)
	}
	for k := 0; k < 4; k++ {
		wg.Add(1)
		go func(k int) {
			defer wg.Done()
			lr := rand.New(rand.NewSource(seed*37 + int64(k)))
			// (an administrative request takes about a second: hc updates its mDNS records before it answers)
			for i := 0; i < 80 && atomic.LoadInt32(&unusable) == 0 && (i < 6 || atomic.LoadInt32(&adminsDone) < 2); i++ {
				if i > 0 {
					time.Sleep(time.Duration(lr.Intn(40000)) * time.Microsecond)
				}
				name := lr.Intn(names)
				ver := 1 + lr.Intn(versions)
				if rd.Init[name] != 0 && lr.Intn(2) == 0 {
					ver = rd.Init[name]
				}
				if i == 0 {
					name = k % 2
					if rd.Init[name] != 0 {
						ver = rd.Init[name]
					}
				}
				var between func()
				if i == 0 && k < 2 {
					// the finish message of this exchange and the first request of administrator k leave together
					between = func() { close(ready[k]) }
				}
				verify(2+k, name, ver, "concurrent", between)
			}
		}(k)
	}
	wg.Wait()
	atomic.AddInt32(&linDelayOn, -1)
	if atomic.LoadInt32(&unusable) != 0 {
		r.Count("linear_rounds_dropped_for_an_unanswered_administrative_request", 1)
		return
	}
	// quiescent probes: one verify per (name, key version)
	for name := 0; name < names; name++ {
		for v := 1; v <= versions; v++ {
			verify(6, name, v, "probe", nil)
		}
	}

	ops := make([]porcupine.Operation, 0, len(rd.Ops))
	accepted, refused, probes := 0, 0, 0
	for _, o := range rd.Ops {
		ops = append(ops, porcupine.Operation{ClientId: o.Client, Input: o.In, Call: o.Call, Output: o.Out, Return: o.Ret})
		if o.In.Kind == "verify" {
			if o.Out.OK {
				accepted++
			} else {
				refused++
			}
			if o.Phase == "probe" {
				probes++
			}
		}
	}
	res, info := porcupine.CheckOperationsVerbose(linModel, ops, 60*time.Second)
	r.Eval()
	r.Count("linear_rounds", 1)
	r.Count("linear_operations", len(ops))
	r.Count("linear_verifies_accepted", accepted)
	r.Count("linear_verifies_refused", refused)
	r.Count("linear_probes", probes)
	r.SampleAt(n, func() interface{} { return rd })
	// overlap actually observed: pairs (administrative operation, verify of the same name) whose intervals intersect
	overlaps := 0
	for _, x := range rd.Ops {
		if x.In.Kind == "verify" || x.Phase != "concurrent" {
			continue
		}
		for _, y := range rd.Ops {
			if y.In.Kind == "verify" && y.In.Name == x.In.Name && y.Call <= x.Ret && x.Call <= y.Ret {
				overlaps++
			}
		}
	}
	r.Count("linear_verifies_overlapping_an_administrative_operation_on_the_same_name", overlaps)
	if overlaps > 0 {
		r.Nontrivial(fmt.Sprintf("linear/%d/%d/%d", seed, len(ops), overlaps))
	}
	switch res {
	case porcupine.Ok:
		r.Count("linear_histories_linearizable", 1)
	case porcupine.Unknown:
		r.Count("linear_checker_timeouts", 1)
	case porcupine.Illegal:
		// name the partition that fails and show it in call order
		bad := -1
		for name := 0; name < names; name++ {
			var part []porcupine.Operation
			for _, o := range ops {
				if o.Input.(linIn).Name == name {
					part = append(part, o)
				}
			}
			if rr := porcupine.CheckOperationsTimeout(linModel, part, 30*time.Second); rr == porcupine.Illegal {
				bad = name
				break
			}
		}
		var hist []string
		sorted := append([]linOp(nil), rd.Ops...)
		sort.Slice(sorted, func(i, j int) bool { return sorted[i].Call < sorted[j].Call })
		lastProbe := ""
		for _, o := range sorted {
			if o.In.Name != bad {
				continue
			}
			hist = append(hist, fmt.Sprintf("[%9d,%9d] client %d %-6s v%d -> ok=%v %s (%s)", o.Call/1000, o.Ret/1000, o.Client, o.In.Kind, o.In.Ver, o.Out.OK, o.Out.Why, o.Phase))
			if o.Phase == "probe" && o.Out.OK {
				lastProbe = fmt.Sprintf("; when everything had settled a pair-verify with key version %d was accepted", o.In.Ver)
			}
		}
		_ = info
		r.Violation("linear:verify-outcomes-not-linearizable",
			fmt.Sprintf("the outcomes of pair-verify for controller name %d cannot be explained by any order, consistent with real time, of the add / remove / verify operations on the stored key (stored before start: v%d)%s", bad, rd.Init[max(bad, 0)], lastProbe),
			map[string]interface{}{"round_seed": seed, "stored_before_start": rd.Init, "history_of_the_name_us": hist, "operations": len(ops)})
	}
}

func linearRounds(r *vf.Run) {
	verifhook.Install(linHook)
	defer verifhook.Install(func(string) {})
	n := r.Pick(40, 600)
	var wg sync.WaitGroup
	ch := make(chan int)
	for w := 0; w < 8; w++ {
		wg.Add(1)
		go func() {
			defer wg.Done()
			for i := range ch {
				r.Guard(fmt.Sprintf("linear round %d", i), func() { linearRound(r, i, r.Seed*100003+int64(i)) })
			}
		}()
	}
	for i := 0; i < n; i++ {
		ch <- i
	}
	close(ch)
	wg.Wait()
	r.Count("linear_delays_injected_at_storage_hook_points", int(atomic.LoadInt64(&linDelays)))
	r.Floor("linear_delays_injected_at_storage_hook_points", int(atomic.LoadInt64(&linDelays)), n*20)
	r.Floor("linear_rounds", int(r.Counter("linear_rounds")), n*8/10)
	r.Floor("linear_verifies_accepted", int(r.Counter("linear_verifies_accepted")), n)
	r.Floor("linear_verifies_refused", int(r.Counter("linear_verifies_refused")), n)
	r.Floor("linear_verifies_overlapping_an_administrative_operation_on_the_same_name", int(r.Counter("linear_verifies_overlapping_an_administrative_operation_on_the_same_name")), n)
	if t := r.Counter("linear_checker_timeouts"); t > 0 {
		r.Inconclusive(fmt.Sprintf("harness L: the linearizability checker timed out on %d histories", t))
	}
}

func trunc200(s string) string {
	if len(s) > 200 {
		return s[:200]
	}
	return s
}

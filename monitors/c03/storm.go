package main

import (
	"fmt"
	"math/rand"
	"os"
	"sync"
	"sync/atomic"

	"github.com/brutella/hc/db"
	"github.com/brutella/hc/hap"
	"github.com/brutella/hc/hap/endpoint"

	"verif/harness/app"
	"verif/harness/script"
	"verif/refctl"
	"verif/vf"
)

// replaceStorm: the key stored under ONE controller name is replaced again and again (an administrator re-pairs a
// controller under its name; the two versions of the record have the same size and are written within the same clock
// tick of the file system) while other goroutines look that name up through the same database object, as the pair-verify
// handlers of other connections do.  When everything has stopped, "the key stored for the claimed name" is the one written
// last: a finish signed with the REPLACED key must not verify a connection (and one signed with the stored key is what
// C04 expects to work; it is counted).  Whatever a lookup that ran in the middle of a replacement has left behind in the
// database or storage object must not decide later verifications.
func replaceStorm(r *vf.Run) {
	rounds := r.Pick(40, 400)
	bad := 0
	for round := 0; round < rounds && bad < 3; round++ {
		r.Eval()
		rnd := rand.New(rand.NewSource(r.Seed*313 + int64(round)))
		dir := app.ScratchDir(r.WorkDir(), "replace")
		database, err := db.NewDatabase(dir)
		if err != nil {
			r.Inconclusive("replace storm: " + err.Error())
			return
		}
		dev, err := hap.NewSecuredDevice("AC:CE:55:0R:1D:01", "001-02-003", database)
		if err != nil {
			r.Inconclusive("replace storm: device: " + err.Error())
			os.RemoveAll(dir)
			return
		}
		ctx := hap.NewContextForSecuredDevice(dev)
		name := fmt.Sprintf("ctrl-replaced-%d", round)
		ids := [2]*refctl.Identity{refctl.NewIdentity(name, rnd), refctl.NewIdentity(name, rnd)}
		writes := 200 + rnd.Intn(400)
		var stop int32
		var wg sync.WaitGroup
		var lookups int64
		for k := 0; k < 3; k++ {
			wg.Add(1)
			go func() {
				defer wg.Done()
				for atomic.LoadInt32(&stop) == 0 {
					database.EntityWithName(name)
					atomic.AddInt64(&lookups, 1)
				}
			}()
		}
		last := 0
		for i := 0; i < writes; i++ {
			last = i % 2
			database.SaveEntity(db.NewEntity(name, ids[last].LTPK, nil))
		}
		atomic.StoreInt32(&stop, 1)
		wg.Wait()
		r.Count("replace_storm_rounds", 1)
		r.Count("replace_storm_lookups_during_replacements", int(atomic.LoadInt64(&lookups)))
		ep := endpoint.NewPairVerify(ctx, database)
		w := &world{accID: dev.Name(), accLTPK: dev.PublicKey(), rnd: rnd}
		try := func(me *refctl.Identity) (verified bool, ok bool) {
			sc := script.New(nil)
			hap.NewConnection(sc, ctx)
			sess := ctx.GetSessionForConnection(sc)
			p := &peer{}
			m1, priv, pub := buildStart(w, "valid")
			st, body, _ := serve(ep, sc, m1)
			applyStartResponse(p, st, body, priv, pub)
			if !p.cur.open {
				return false, false
			}
			m3 := refctl.VerifyM3(p.cur.encKey, refctl.VerifyM3Plain(me.ID, me.LTSK, p.cur.pub[:], p.cur.accPub))
			serve(ep, sc, m3)
			return sess.Decrypter() != nil, true
		}
		for attempt := 0; attempt < 3; attempt++ {
			v, ok := try(ids[1-last])
			if !ok {
				r.Inconclusive("replace storm: start refused")
				os.RemoveAll(dir)
				return
			}
			if v {
				bad++
				r.Violation("replace-storm:replaced-key-verifies", fmt.Sprintf("the key stored under %q was replaced %d times while 3 goroutines looked the name up through the same database object; after everything had stopped, a finish signed with the key that is NOT stored (the one replaced by the last write) verified the connection", name, writes),
					map[string]interface{}{"round": round, "writes": writes, "lookups_meanwhile": atomic.LoadInt64(&lookups), "attempt": attempt})
				break
			}
		}
		if v, ok := try(ids[last]); ok && v {
			r.Count("replace_storm_stored_key_verifies", 1)
		}
		r.Nontrivial(fmt.Sprintf("replace-storm/%d/%d", round, writes))
		os.RemoveAll(dir)
	}
	r.Floor("replace_storm_rounds", int(r.Counter("replace_storm_rounds"))+1000*bad, rounds)
	r.Floor("replace_storm_stored_key_verifies", int(r.Counter("replace_storm_stored_key_verifies"))+1000*bad, rounds/2)
}

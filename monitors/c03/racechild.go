package main

import (
	"fmt"
	"math/rand"
	"os"
	"os/exec"
	"path/filepath"
	"strings"
	"sync"
	"sync/atomic"
	"time"

	"github.com/brutella/hc/accessory"

	"verif/harness/app"
	"verif/refctl"
	"verif/vf"
)

// Race child: the workload of harness L (complete pair-verifies of several stored controllers at the same time, with
// right keys, wrong keys and keys of OTHER stored names, while an administrator adds and removes pairings) in a binary
// built with the race detector.  The lookup "key stored for the claimed name" runs on every connection's goroutine; a
// data race reported inside the storage / database / pair-verify / session code means that what one connection's
// verification is decided on can be what another connection's lookup has just read.

func raceWorkload(seed int64, rounds int, base string) {
	for round := 0; round < rounds; round++ {
		rnd := rand.New(rand.NewSource(seed*977 + int64(round)))
		dir := app.ScratchDir(base, "linrace")
		admin := refctl.NewIdentity("lin-admin", rnd)
		app.StoreController(dir, admin)
		const names = 3
		var ids [names][2]*refctl.Identity
		for i := range ids {
			for v := range ids[i] {
				ids[i][v] = refctl.NewIdentity(fmt.Sprintf("lin-ctrl-%d", i), rnd)
			}
			app.StoreController(dir, ids[i][0])
		}
		a, err := app.Start(dir, "00102003", accessory.NewSwitch(accessory.Info{Name: "C03 R"}).Accessory)
		if err != nil {
			fmt.Println("RACE-CHILD-INCONCLUSIVE transport:", err)
			os.RemoveAll(dir)
			return
		}
		acc, _ := app.AccessoryEntity(dir)
		var wg sync.WaitGroup
		var done, accepted, refused int64
		for k := 0; k < 6; k++ {
			wg.Add(1)
			go func(k int) {
				defer wg.Done()
				lr := rand.New(rand.NewSource(seed*31 + int64(round*10+k)))
				for i := 0; i < 40; i++ {
					name := lr.Intn(names)
					me := ids[name][0]
					switch lr.Intn(4) {
					case 0: // the key version that is not stored
						me = ids[name][1]
					case 1: // another stored controller's key under this name
						o := ids[(name+1+lr.Intn(names-1))%names][0]
						me = &refctl.Identity{ID: ids[name][0].ID, LTPK: o.LTPK, LTSK: o.LTSK}
					}
					c, err := refctl.Dial(a.Addr)
					if err != nil {
						continue
					}
					c.Timeout = 20 * time.Second
					if _, err := c.PairVerify(me, acc.PublicKey, acc.Name, nil); err == nil {
						atomic.AddInt64(&accepted, 1)
						c.Do("GET", "/characteristics?id=1.3", "", nil)
					} else {
						atomic.AddInt64(&refused, 1)
					}
					c.Close()
					atomic.AddInt64(&done, 1)
				}
			}(k)
		}
		wg.Add(1)
		go func() {
			defer wg.Done()
			c, err := a.Verified(admin, acc.PublicKey, acc.Name)
			if err != nil {
				return
			}
			defer c.Close()
			c.Timeout = 20 * time.Second
			for i := 0; i < 3; i++ {
				n := i % names
				c.PostTLV("/pairings", refctl.PairingsRemove(ids[n][0].ID))
				c.PostTLV("/pairings", refctl.PairingsAdd(ids[n][0].ID, ids[n][0].LTPK, false))
			}
		}()
		wg.Wait()
		a.Stop()
		os.RemoveAll(dir)
		fmt.Printf("RACE-CHILD-ROUND %d verifies=%d accepted=%d refused=%d\n", round, done, accepted, refused)
	}
	fmt.Println("RACE-CHILD-DONE")
}

func linearRaceChild(r *vf.Run) {
	bin := os.Getenv("VERIF_RACE_BIN")
	if bin == "" {
		r.Inconclusive("VERIF_RACE_BIN not set (race build missing)")
		return
	}
	dir := r.WorkDir()
	old, _ := filepath.Glob(filepath.Join(dir, "race.log.*"))
	for _, f := range old {
		os.Remove(f)
	}
	rounds := r.Pick(3, 30)
	cmd := exec.Command("timeout", "-s", "QUIT", "1800", bin, "-lin-race-child", fmt.Sprint(r.Seed), fmt.Sprint(rounds), dir)
	cmd.Env = append(os.Environ(), "GORACE=halt_on_error=0 log_path="+filepath.Join(dir, "race.log"))
	outf := filepath.Join(dir, "race-child.out")
	lf, _ := os.Create(outf)
	cmd.Stdout, cmd.Stderr = lf, lf
	err := cmd.Run()
	lf.Close()
	b, _ := os.ReadFile(outf)
	if !strings.Contains(string(b), "RACE-CHILD-DONE") {
		r.Inconclusive(fmt.Sprintf("race child did not finish (%v); see %s", err, outf))
		return
	}
	for _, l := range strings.Split(string(b), "\n") {
		var rd, v, acc, ref int
		if n, _ := fmt.Sscanf(l, "RACE-CHILD-ROUND %d verifies=%d accepted=%d refused=%d", &rd, &v, &acc, &ref); n == 4 {
			r.Count("race_child_rounds", 1)
			r.Count("race_child_verifies", v)
			r.Count("race_child_verifies_accepted", acc)
			r.Count("race_child_verifies_refused", ref)
		}
	}
	const mod = "github.com/brutella/hc/"
	other := map[string]int{}
	for _, rep := range vf.ParseRaceLogs(filepath.Join(dir, "race.log.*"), mod) {
		r.Count("race_reports_total", 1)
		anch := false
		for _, t := range rep.Tops {
			if strings.Contains(t, "hc/util.") || strings.Contains(t, "hc/db.") || strings.Contains(t, "hc/hap/pair.") || strings.Contains(t, "hc/hap/endpoint.") ||
				strings.Contains(t, "hc/hap.(*context)") || strings.Contains(t, "hc/hap.(*session)") || strings.Contains(t, "hc/crypto") {
				anch = true
			}
		}
		if anch {
			blk := rep.Block
			if len(blk) > 3000 {
				blk = blk[:3000]
			}
			r.Violation("race:"+rep.Key(mod), "the race detector reports a data race in the code that looks up the stored key / decides a pair-verify while several connections verify at the same time: "+rep.Key(mod),
				map[string]interface{}{"report": blk, "log": rep.File})
		} else {
			other[rep.Key(mod)]++
		}
	}
	if len(other) > 0 {
		r.Extra("other_races_observed", other)
	}
	r.Floor("race_child_rounds", int(r.Counter("race_child_rounds")), rounds)
	r.Floor("race_child_verifies_accepted", int(r.Counter("race_child_verifies_accepted")), rounds*20)
	r.Floor("race_child_verifies_refused", int(r.Counter("race_child_verifies_refused")), rounds*20)
}

package main

import (
	"encoding/json"
	"fmt"
	"io/ioutil"
	"math/rand"
	"os"
	"os/exec"
	"path/filepath"
	"regexp"
	"sort"
	"strings"
	"sync"
	"time"

	"verif/refctl"
	"verif/vf"
)

// Concurrent variant: writers on DISTINCT characteristics with unique values (remote writers = controller
// connections, local writers = application goroutines) run at the same time, every stable connection is
// subscribed to every written characteristic; meanwhile "churn" goroutines subscribe/unsubscribe on a
// characteristic nobody changes and open / subscribe / close short-lived connections.  After all writers have
// returned, a final fence on every stable connection; then, offline, per (connection, change) exactly once,
// none for the own changes, nothing else.

type concViol struct {
	Sig     string                 `json:"sig"`
	What    string                 `json:"what"`
	Witness map[string]interface{} `json:"witness"`
}

type concResult struct {
	Round      int            `json:"round"`
	Viol       []concViol     `json:"violations,omitempty"`
	Inconcl    string         `json:"inconclusive,omitempty"`
	Counters   map[string]int `json:"counters"`
	Descriptor string         `json:"descriptor"`
}

func uniqueValue(c *chr, w, k int) interface{} {
	switch c.Kind {
	case "int":
		return float64(int(c.lo) + 1 + k) // distinct for k < hi-lo
	case "float":
		return c.lo + float64(k+1)/64.0
	default:
		return fmt.Sprintf("w%d-%d%s", w, k, stringTokens[k%len(stringTokens)])
	}
}

func concRound(seed int64, round int, base string) (res concResult) {
	res = concResult{Round: round, Counters: map[string]int{}}
	rnd := rand.New(rand.NewSource(seed*7919 + int64(round)))
	nStable := 3 + rnd.Intn(3)
	nRemote := 2 + rnd.Intn(nStable-1) // remote writers are stable connections
	if nRemote > nStable {
		nRemote = nStable
	}
	nLocal := 2 + rnd.Intn(3)
	changes := 20 + rnd.Intn(40)
	res.Descriptor = fmt.Sprintf("stable=%d remote_writers=%d local_writers=%d changes_each=%d", nStable, nRemote, nLocal, changes)
	var ids []*refctl.Identity
	for i := 0; i < nStable+2; i++ {
		ids = append(ids, refctl.NewIdentity(fmt.Sprintf("cc-%d-%d", round, i), rnd))
	}
	f, err := startFixture(base, fmt.Sprintf("%08d", 10000000+rnd.Intn(80000000)), []string{"bulb", "thermostat"}, 6, ids)
	if err != nil {
		res.Inconcl = "fixture did not start: " + err.Error()
		return
	}
	defer f.stop()
	// characteristics that can carry unique values
	var writable []int
	var quiet int = -1
	for i, c := range f.chars {
		if c.Ev && c.Wr && c.Kind != "bool" && (c.Kind != "int" || c.hi-c.lo > float64(changes)+1) {
			writable = append(writable, i)
		}
		if c.Key == "2:bulb.On" {
			quiet = i
		}
	}
	rnd.Shuffle(len(writable), func(i, j int) { writable[i], writable[j] = writable[j], writable[i] })
	if len(writable) < nRemote+nLocal || quiet < 0 {
		res.Inconcl = fmt.Sprintf("only %d characteristics for %d writers", len(writable), nRemote+nLocal)
		return
	}
	written := writable[:nRemote+nLocal]
	var subAll []refctl.CharValue
	for _, xi := range written {
		subAll = append(subAll, refctl.CharValue{AID: f.chars[xi].AID, IID: f.chars[xi].IID, Ev: bptr(true)})
	}
	var stable []*refctl.Conn
	defer func() {
		for _, c := range stable {
			c.Close()
		}
	}()
	for i := 0; i < nStable; i++ {
		c, err := f.a.Verified(ids[i], nil, "")
		if err != nil {
			res.Inconcl = "pair-verify: " + err.Error()
			return
		}
		c.Timeout = 120 * time.Second
		if m, err := c.Do("PUT", "/characteristics", refctl.ContentJSON, refctl.PutBody(subAll...)); err != nil || m.Status != 204 {
			res.Inconcl = fmt.Sprintf("subscribe: %v", err)
			return
		}
		stable = append(stable, c)
	}
	// plan: writer w owns characteristic written[w]; writers 0..nRemote-1 are remote (connection w), the rest local
	type chg struct {
		x   int
		val interface{}
		by  int // stable connection index, -1 application
	}
	var plan [][]chg
	for w := 0; w < nRemote+nLocal; w++ {
		var p []chg
		by := -1
		if w < nRemote {
			by = w
		}
		for k := 0; k < changes; k++ {
			p = append(p, chg{written[w], uniqueValue(f.chars[written[w]], w, k), by})
		}
		plan = append(plan, p)
	}
	var mu sync.Mutex
	var problems []string
	problem := func(s string) { mu.Lock(); problems = append(problems, s); mu.Unlock() }
	// panics of the fan-out (see panics.go): they are violations; the round's completeness check is then void
	var notifyPanics []concViol
	dead := make([]bool, nStable)
	notifyPanic := func(who, stack string) bool {
		sig, in := notifySig(stack)
		if !in {
			return false
		}
		mu.Lock()
		notifyPanics = append(notifyPanics, concViol{sig, notifyPanicWhat, map[string]interface{}{"where": who, "stack": trunc(stack, 2500)}})
		mu.Unlock()
		return true
	}
	start := make(chan struct{})
	var writers sync.WaitGroup
	var readers sync.WaitGroup
	// stable connections: remote writers write then wait for the final fence's response; pure subscribers wait at once
	for i, c := range stable {
		readers.Add(1)
		isWriter := i < nRemote
		if isWriter {
			writers.Add(1)
		}
		go func(i int, c *refctl.Conn, isWriter bool) {
			defer readers.Done()
			<-start
			if isWriter {
				for _, ch := range plan[i] {
					x := f.chars[ch.x]
					m, err := c.Do("PUT", "/characteristics", refctl.ContentJSON, refctl.PutBody(refctl.CharValue{AID: x.AID, IID: x.IID, Value: refctl.RawJSON(ch.val)}))
					if err != nil {
						if p := httpPanicFor(c.LocalAddr()); p != nil && notifyPanic(fmt.Sprintf("PUT handler of remote writer %d (its connection was dropped: %v)", i, err), p.Text+"\n"+p.Stack) {
							mu.Lock()
							dead[i] = true
							mu.Unlock()
							break
						}
					}
					if err != nil || m.Status != 204 {
						problem(fmt.Sprintf("remote writer %d: PUT failed: %v", i, err))
						break
					}
				}
				writers.Done()
			}
			mu.Lock()
			d := dead[i]
			mu.Unlock()
			if d {
				return
			}
			// read until the response of the final fence (sent by the coordinator)
			m, err := c.ReadResponse()
			if err != nil || m.Status/100 != 2 {
				problem(fmt.Sprintf("stable connection %d: final fence: %v", i, err))
			}
		}(i, c, isWriter)
	}
	for w := nRemote; w < nRemote+nLocal; w++ {
		writers.Add(1)
		go func(w int) {
			defer writers.Done()
			<-start
			for _, ch := range plan[w] {
				x := f.chars[ch.x]
				if p, txt := vf.Recover(func() { x.set(ch.val) }); p {
					if !notifyPanic(fmt.Sprintf("SetValue of application goroutine %d", w), txt) {
						problem("SetValue panicked: " + trunc(txt, 800))
						return
					}
				}
			}
		}(w)
	}
	// churn 1: subscribe / unsubscribe on a characteristic nobody changes (plus, sometimes, one that is written)
	stop := make(chan struct{})
	var churn sync.WaitGroup
	type transient struct {
		events []*refctl.Message
		name   string
		none   bool // subscribed to nothing that changes: must receive nothing
	}
	var transients []transient
	const churners = 3
	churn.Add(1 + churners)
	go func() {
		defer churn.Done()
		c, err := f.a.Verified(ids[nStable], nil, "")
		if err != nil {
			problem("churn pair-verify: " + err.Error())
			return
		}
		defer c.Close()
		c.Timeout = 120 * time.Second
		q := f.chars[quiet]
		<-start
		n := 0
		for on := true; ; on = !on {
			select {
			case <-stop:
				mu.Lock()
				transients = append(transients, transient{c.TakeEvents(), "the connection that only toggles its subscription to a characteristic nobody changes", true})
				res.Counters["churn_subscription_toggles"] += n
				mu.Unlock()
				return
			default:
			}
			if m, err := c.Do("PUT", "/characteristics", refctl.ContentJSON, refctl.PutBody(refctl.CharValue{AID: q.AID, IID: q.IID, Ev: bptr(on)})); err != nil || m.Status != 204 {
				problem(fmt.Sprintf("churn PUT: %v", err))
				return
			}
			n++
		}
	}()
	// churn 2: short-lived connections that subscribe to everything and close (FIN / RST) while changes are fanned out
	for cw := 0; cw < churners; cw++ {
		go func(cw int) {
			defer churn.Done()
			crnd := rand.New(rand.NewSource(seed ^ int64(round)*31 + int64(cw)))
			<-start
			n := 0
			for {
				select {
				case <-stop:
					mu.Lock()
					res.Counters["churn_connections"] += n
					mu.Unlock()
					return
				default:
				}
				c, err := f.a.Verified(ids[nStable+1], nil, "")
				if err != nil {
					problem("churn pair-verify: " + err.Error())
					return
				}
				c.Timeout = 120 * time.Second
				if _, err := c.Do("PUT", "/characteristics", refctl.ContentJSON, refctl.PutBody(subAll...)); err != nil {
					problem("churn subscribe: " + err.Error())
					c.Close()
					return
				}
				for k := crnd.Intn(3); k > 0; k-- {
					if _, err := c.Do("GET", f.fence, "", nil); err != nil {
						problem("churn fence: " + err.Error())
						break
					}
				}
				mu.Lock()
				transients = append(transients, transient{c.TakeEvents(), "short-lived connection", false})
				mu.Unlock()
				if crnd.Intn(2) == 0 {
					c.CloseGraceful()
				} else {
					c.Close()
				}
				n++
			}
		}(cw)
	}
	close(start)
	done := make(chan struct{})
	go func() { writers.Wait(); close(done) }()
	select {
	case <-done:
	case <-time.After(180 * time.Second):
		res.Inconcl = "writers did not finish within 180 s (watchdog)"
		return
	}
	close(stop)
	churn.Wait()
	// final fence on every stable connection (the reader goroutine of the connection reads the response)
	for i, c := range stable {
		if dead[i] {
			continue
		}
		if err := c.Send(refctl.BuildRequest("GET", f.fence, "", nil)); err != nil {
			problem(fmt.Sprintf("final fence on %d: %v", i, err))
		}
	}
	rdone := make(chan struct{})
	go func() { readers.Wait(); close(rdone) }()
	select {
	case <-rdone:
	case <-time.After(180 * time.Second):
		res.Inconcl = "final fences were not answered within 180 s (watchdog)"
		return
	}
	if len(problems) > 0 {
		res.Inconcl = strings.Join(problems, "; ")
		return
	}
	// ---- offline check
	type key struct {
		x   int
		val string
	}
	by := map[key]int{}
	for _, p := range plan {
		for _, ch := range p {
			by[key{ch.x, showVal(ch.val)}] = ch.by
		}
	}
	addViol := func(sig, what string, extra map[string]interface{}) {
		w := map[string]interface{}{"round": round, "round_seed": seed, "workload": res.Descriptor}
		for k, v := range extra {
			w[k] = v
		}
		res.Viol = append(res.Viol, concViol{"concurrent:" + sig, what, w})
	}
	check := func(name string, self int, evs []*refctl.Message, mustBeComplete bool) {
		seen := map[key]int{}
		for _, em := range evs {
			res.Counters["events_observed"]++
			e := parseEvent(em)
			xi, known := f.byID[[2]uint64{e.AID, e.IID}]
			if e.Shape != "" || !known {
				addViol("event:wrong-shape", name+" received a malformed EVENT: "+e.Shape, map[string]interface{}{"message": e.Raw})
				continue
			}
			k := key{xi, showVal(e.Val)}
			o, real := by[k]
			switch {
			case !real:
				addViol("event:wrong-value", fmt.Sprintf("%s received EVENT %s=%s, which is not a value any writer set", name, f.chars[xi].Key, k.val), map[string]interface{}{"message": e.Raw})
			case o == self && self >= 0:
				addViol("event:to-originator", fmt.Sprintf("%s received the EVENT for its own write %s=%s", name, f.chars[xi].Key, k.val), nil)
			default:
				seen[k]++
				if seen[k] == 2 {
					addViol("event:duplicate", fmt.Sprintf("%s received the EVENT %s=%s twice", name, f.chars[xi].Key, k.val), nil)
				} else if seen[k] == 1 {
					res.Counters["events_matched"]++
				}
			}
		}
		if mustBeComplete && len(notifyPanics) == 0 {
			missing := 0
			var first string
			for k, o := range by {
				if o == self && self >= 0 {
					continue
				}
				if seen[k] == 0 {
					missing++
					if first == "" {
						first = f.chars[k.x].Key + "=" + k.val
					}
				}
			}
			if missing > 0 {
				addViol("event:missing", fmt.Sprintf("%s is subscribed to every written characteristic and did not receive %d of the EVENTs (e.g. %s) before the response of the final fence", name, missing, first), nil)
			}
			res.Counters["stable_connections_checked"]++
		}
	}
	res.Viol = append(res.Viol, notifyPanics...)
	if len(notifyPanics) > 0 {
		res.Counters["rounds_with_a_panic_in_the_fan_out"] = 1
		res.Counters["panics_in_the_fan_out"] = len(notifyPanics)
	}
	for i, c := range stable {
		if dead[i] {
			continue
		}
		self := -2
		if i < nRemote {
			self = i
		}
		check(fmt.Sprintf("stable connection %d", i), self, c.TakeEvents(), true)
	}
	for _, t := range transients {
		if t.none && len(t.events) > 0 {
			e := parseEvent(t.events[0])
			addViol("event:to-never-subscribed", fmt.Sprintf("%s received %d EVENTs (first: %s)", t.name, len(t.events), e.Raw), nil)
		}
		check(t.name, -2, t.events, false)
		res.Counters["transient_connections_checked"]++
	}
	res.Counters["changes"] = len(by)
	res.Counters["rounds"] = 1
	return
}

func concRounds(seed int64, rounds int, base string, parallel int) []concResult {
	out := make([]concResult, rounds)
	var wg sync.WaitGroup
	ch := make(chan int)
	for w := 0; w < parallel; w++ {
		wg.Add(1)
		go func() {
			defer wg.Done()
			for i := range ch {
				out[i] = concRound(seed, i, base)
			}
		}()
	}
	for i := 0; i < rounds; i++ {
		ch <- i
	}
	close(ch)
	wg.Wait()
	return out
}

func mergeConc(r *vf.Run, results []concResult, build string) {
	for _, res := range results {
		r.Eval()
		if res.Inconcl != "" {
			r.Inconclusive(fmt.Sprintf("concurrent round %d (%s build): %s", res.Round, build, res.Inconcl))
			continue
		}
		for k, v := range res.Counters {
			r.Count("concurrent_"+build+"_"+k, v)
		}
		for _, v := range res.Viol {
			v.Witness["build"] = build
			v.Witness["round"] = res.Round
			v.Witness["workload"] = res.Descriptor + "; 3 goroutines open short-lived connections that subscribe to every written characteristic and close (FIN/RST); 1 connection toggles a subscription"
			r.Violation(v.Sig, v.What, v.Witness)
		}
		r.Nontrivial(fmt.Sprintf("conc %s %d %s", build, res.Round, res.Descriptor))
	}
}

// ---------------------------------------------------------------- race detector child

func concChild() {
	// args: -conc-child <seed> <rounds> <outfile> <workdir>
	var seed int64
	var rounds int
	fmt.Sscan(os.Args[2], &seed)
	fmt.Sscan(os.Args[3], &rounds)
	res := concRounds(seed+1000, rounds, os.Args[5], 2)
	b, _ := json.Marshal(res)
	ioutil.WriteFile(os.Args[4], b, 0o644)
}

var reFrame = regexp.MustCompile(`^\s+((?:github\.com/brutella/hc|main|verif/\S+?)[./]\S*?)\(\)\s*$`)

func anchored(fn string) bool {
	return strings.Contains(fn, "hc.(*ipTransport).notifyListener") || strings.Contains(fn, "hap.(*session).") || strings.Contains(fn, "hap.(*context).")
}

func runRaceChild(r *vf.Run, rounds int) {
	bin := os.Getenv("VERIF_RACE_BIN")
	if bin == "" {
		r.Inconclusive("VERIF_RACE_BIN not set (race build missing)")
		return
	}
	dir := r.WorkDir()
	old, _ := filepath.Glob(filepath.Join(dir, "race.log.*"))
	for _, f := range old {
		os.Remove(f)
	}
	out := filepath.Join(dir, "race-child.json")
	os.Remove(out)
	cmd := exec.Command("timeout", "-s", "QUIT", "1800", bin, "-conc-child", fmt.Sprint(r.Seed), fmt.Sprint(rounds), out, dir)
	cmd.Env = append(os.Environ(), "GORACE=halt_on_error=0 log_path="+filepath.Join(dir, "race.log"))
	lf, _ := os.Create(filepath.Join(dir, "race-child.out"))
	cmd.Stdout, cmd.Stderr = lf, lf
	err := cmd.Run()
	lf.Close()
	b, rerr := ioutil.ReadFile(out)
	if rerr != nil {
		r.Inconclusive(fmt.Sprintf("race child produced no result (%v, %v); see %s", err, rerr, filepath.Join(dir, "race-child.out")))
		return
	}
	var res []concResult
	if json.Unmarshal(b, &res) != nil {
		r.Inconclusive("race child result unreadable")
		return
	}
	mergeConc(r, res, "race")
	logs, _ := filepath.Glob(filepath.Join(dir, "race.log.*"))
	other := map[string]int{}
	for _, lf := range logs {
		data, _ := ioutil.ReadFile(lf)
		for _, block := range strings.Split(string(data), "==================") {
			if !strings.Contains(block, "WARNING: DATA RACE") {
				continue
			}
			r.Count("race_reports_total", 1)
			var tops []string
			hit := false
			for si, st := range strings.Split(block, "\n\n") {
				if si >= 2 {
					break // the two access stacks only, not the goroutine creation stacks
				}
				top := ""
				for _, line := range strings.Split(st, "\n") {
					if m := reFrame.FindStringSubmatch(line); m != nil {
						fn := m[1]
						if top == "" {
							top = fn
						}
						if anchored(fn) {
							hit = true
						}
					}
				}
				if top != "" {
					tops = append(tops, top)
				}
			}
			sort.Strings(tops)
			key := strings.Join(tops, " vs ")
			if hit {
				r.Violation("race:"+short(key), "the race detector reports a data race in the notification fan-out / session / context code: "+key,
					map[string]interface{}{"report": trunc(block, 3000), "log": lf})
			} else {
				other[short(key)]++
			}
		}
	}
	if len(other) > 0 {
		r.Extra("other_races_observed", other)
	}
	r.Count("race_child_rounds", len(res))
}

func short(s string) string {
	s = strings.ReplaceAll(s, "github.com/brutella/hc/", "")
	s = strings.ReplaceAll(s, "github.com/brutella/", "")
	return strings.ReplaceAll(s, " ", "")
}

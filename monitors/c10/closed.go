package main

import (
	"bytes"
	"fmt"
	"math/rand"
	"strings"
	"sync"
	"time"

	hclog "github.com/brutella/hc/log"

	"verif/refctl"
	"verif/vf"
)

// The closed-connection scenarios.
//
// What a closed connection "receives" cannot be seen on its socket.  What can be seen is hc's own account:
// with the debug log enabled, notifyListener prints "<remote address> <- EVENT/1.0 ..." for every connection it
// writes a notification to, and hap.Connection.Close prints "Close connection and remove session".  A scenario
// subscribes several connections, closes one (FIN or RST), waits until hc has logged the close, lets 50 request/
// response round trips complete on another connection, and changes a value.  If hc still addresses the EVENT to
// the closed connection's address, the change is repeated (up to 3 times, 50 round trips in between): a session
// that is still notified after all of them was not removed on close.  The log is accepted as an observation point
// only if it also shows the deliveries to the live subscribers (otherwise the scenario is inconclusive).

type dbgCapture struct {
	mu  sync.Mutex
	buf bytes.Buffer
}

func (d *dbgCapture) Write(p []byte) (int, error) {
	d.mu.Lock()
	if d.buf.Len() < 8<<20 {
		d.buf.Write(p)
	}
	d.mu.Unlock()
	return len(p), nil
}

func (d *dbgCapture) take() string {
	d.mu.Lock()
	defer d.mu.Unlock()
	s := d.buf.String()
	d.buf.Reset()
	return s
}

func (d *dbgCapture) peek() string {
	d.mu.Lock()
	defer d.mu.Unlock()
	return d.buf.String()
}

const closeLine = "Close connection and remove session"

func closedScenarios(r *vf.Run, n int) {
	cap := &dbgCapture{}
	hclog.Debug.SetOutput(cap)
	defer hclog.Debug.Disable()
	for i := 0; i < n; i++ {
		closedScenario(r, i, cap)
	}
}

func closedScenario(r *vf.Run, n int, cap *dbgCapture) {
	rnd := r.RandN("c10-closed", n)
	nConn := 3 + rnd.Intn(2)
	var ids []*refctl.Identity
	for i := 0; i < nConn; i++ {
		ids = append(ids, refctl.NewIdentity(fmt.Sprintf("cl-%d-%d", n, i), rnd))
	}
	f, err := startFixture(r.WorkDir(), fmt.Sprintf("%08d", 10000000+rnd.Intn(80000000)), []string{"bulb"}, 0, ids)
	if err != nil {
		r.Inconclusive(fmt.Sprintf("closed scenario %d: fixture did not start: %v", n, err))
		return
	}
	defer f.stop()
	var hist []string
	logf := func(format string, a ...interface{}) { hist = append(hist, fmt.Sprintf(format, a...)) }
	fail := func(why string) { r.Inconclusive(fmt.Sprintf("closed scenario %d: %s", n, why)) }
	// the characteristic: one with ev that the application changes
	var x *chr
	for _, c := range f.chars {
		if c.Kind == "int" && c.Ev && c.Wr {
			x = c
		}
	}
	var conns []*refctl.Conn
	defer func() {
		for _, c := range conns {
			c.Close()
		}
	}()
	for i := 0; i < nConn; i++ {
		c, err := f.a.Verified(ids[i], nil, "")
		if err != nil {
			fail("pair-verify: " + err.Error())
			return
		}
		c.Timeout = 30 * time.Second
		conns = append(conns, c)
	}
	victim := rnd.Intn(nConn)
	victimSubscribed := rnd.Intn(5) != 0
	for i, c := range conns {
		if i == victim && !victimSubscribed {
			continue
		}
		m, err := c.Do("PUT", "/characteristics", refctl.ContentJSON, refctl.PutBody(refctl.CharValue{AID: x.AID, IID: x.IID, Ev: bptr(true)}))
		if err != nil || m.Status != 204 {
			fail(fmt.Sprintf("subscribe failed: %v", err))
			return
		}
	}
	logf("%d connections subscribe to %s (the later closed connection c%d: %v)", nConn, x.Key, victim, victimSubscribed)
	// change + fences; returns the set of addresses hc says it wrote an EVENT to
	changeAndFence := func(live []int) (string, bool) {
		cap.take()
		v := newValue(x, rnd, "")
		x.set(v)
		x.cur = v
		logf("application sets %s to %s", x.Key, showVal(v))
		for _, i := range live {
			m, err := conns[i].Do("GET", f.fence, "", nil)
			r.Count("fences", 1)
			if err != nil || m.Status/100 != 2 {
				fail(fmt.Sprintf("fence failed: %v %+v", err, m))
				return "", false
			}
			evs := conns[i].TakeEvents()
			r.Count("events_observed", len(evs))
			want := 1
			if i == victim && !victimSubscribed {
				want = 0
			}
			sig := ""
			var raws []string
			for _, em := range evs {
				e := parseEvent(em)
				raws = append(raws, e.Raw)
				switch {
				case e.Shape != "" || e.AID != x.AID || e.IID != x.IID:
					sig = "event:wrong-shape"
				case !sameJSON(e.Val, v):
					sig = "event:wrong-value"
				}
			}
			switch {
			case len(evs) < want:
				sig = "event:missing"
			case len(evs) > want && want == 0:
				sig = "event:to-never-subscribed"
			case len(evs) > want:
				sig = "event:duplicate"
			}
			if sig != "" {
				r.Violation(sig, fmt.Sprintf("closed-connection scenario: connection c%d received %d EVENTs for one change of %s, expected %d with value %s", i, len(evs), x.Key, want, showVal(v)),
					map[string]interface{}{"scenario": n, "history": hist, "messages": raws})
			} else {
				r.Count("events_matched", len(evs))
			}
		}
		return cap.take(), true
	}
	all := make([]int, nConn)
	for i := range all {
		all[i] = i
	}
	logText, ok := changeAndFence(all)
	if !ok {
		return
	}
	// the log must show the deliveries we have seen on the sockets, else it is not an observation point
	for i, c := range conns {
		has := strings.Contains(logText, c.LocalAddr()+" <- EVENT/")
		want := !(i == victim && !victimSubscribed)
		if has != want {
			fail(fmt.Sprintf("hc's debug log does not reflect the deliveries observed on the sockets (connection %s: logged %v, received %v)", c.LocalAddr(), has, want))
			return
		}
	}
	r.Count("closed_scenarios_log_validated", 1)
	// close the victim
	kind := "FIN"
	if rnd.Intn(2) == 0 {
		kind = "RST"
	}
	vaddr := conns[victim].LocalAddr()
	cap.take()
	if kind == "FIN" {
		conns[victim].CloseGraceful()
	} else {
		conns[victim].Close()
	}
	logf("connection c%d (%s) closes with %s", victim, vaddr, kind)
	r.Count("closed_scenarios_"+kind, 1)
	deadline := time.Now().Add(20 * time.Second)
	for !strings.Contains(cap.peek(), closeLine) {
		if time.Now().After(deadline) {
			fail("hc did not log the close of the connection within 20 s (watchdog)")
			return
		}
		time.Sleep(200 * time.Microsecond)
	}
	var live []int
	for i := range conns {
		if i != victim {
			live = append(live, i)
		}
	}
	stillAddressed := 0
	const attempts = 3
	for a := 0; a < attempts; a++ {
		for k := 0; k < 50; k++ {
			if _, err := conns[live[k%len(live)]].Do("GET", f.fence, "", nil); err != nil {
				fail("round trip failed: " + err.Error())
				return
			}
		}
		logText, ok = changeAndFence(live)
		if !ok {
			return
		}
		r.Count("changes_after_a_close", 1)
		if !strings.Contains(logText, vaddr+" <- EVENT/") {
			break
		}
		stillAddressed++
		logf("hc logged an EVENT addressed to %s, the closed connection", vaddr)
	}
	if stillAddressed == attempts && victimSubscribed {
		r.Violation("closed:session-kept", fmt.Sprintf("hc still addresses EVENTs to a connection that was closed (%s) and whose close it has logged: after %d x 50 round trips on other connections, each of %d changes was written to %s (hc's debug log) - the session was not removed on close",
			kind, attempts, attempts, vaddr), map[string]interface{}{"scenario": n, "history": hist, "log_excerpt": trunc(excerpt(logText, vaddr), 600)})
	} else if victimSubscribed {
		r.Count("closed_subscribed_connection_no_longer_addressed", 1)
		if stillAddressed > 0 {
			r.Count("closed_connection_addressed_transiently", stillAddressed)
		}
	}
	r.Count("closed_scenarios", 1)
}

func excerpt(log, addr string) string {
	i := strings.Index(log, addr+" <- EVENT/")
	if i < 0 {
		return ""
	}
	return log[i:]
}

var _ = rand.Int

// C10 — each change is notified exactly once to exactly the subscribed others.
//
// Full stack: a real hc IP transport per history, 3..5 controller identities (pre-stored or added through
// POST /pairings), 2..4 accessories.  A history is a generated sequence of subscribe / unsubscribe / local set /
// remote write / combined PUT / read / close / reconnect / join operations.  After EVERY operation each live
// connection performs one request/response (a fence): hc writes an EVENT synchronously inside the call that
// changed the value, so every EVENT addressed to a connection precedes the fence's response in its byte stream.
// The EVENTs collected by the fences are compared, operation by operation and connection by connection, with
// the model (per-connection subscription sets kept by the monitor).
//
// Supplementary: closed-connection scenarios (closed.go) and a concurrent variant that also runs under the
// race detector (conc.go).
package main

import (
	"fmt"
	"os"
	"sync"
	"time"

	"verif/vf"
)

func main() {
	if len(os.Args) > 1 && os.Args[1] == "-conc-child" {
		concChild()
		return
	}
	r := vf.Start("C10", "exploration")
	r.SetRule("a history = 40 operations drawn from {connect, reconnect, join (new pairing through POST /pairings), subscribe, unsubscribe, subscribe to a characteristic without ev, " +
		"local set (changing / same value), remote write (changing / same value / to a read-only characteristic), combined PUT (2..4 entries with value and/or ev), read, close (FIN / RST)} over 3..5 controllers, " +
		"up to 5 simultaneous connections, 2..4 accessories (switch + synthetic service, colored bulb, outlet, thermostat); after every operation a fence on every live connection and an exact comparison " +
		"of the EVENTs received per connection with the model; non-trivial = every history (distinct by its operation log); subscription_state = hash of the multiset of per-connection subscription sets")
	r.Assume("an EVENT is written to the connection inside the call that changed the value (before SetValue returns / before the PUT response is written), so it precedes the response of a request sent afterwards")
	r.Assume("values written by controllers have the JSON type of the characteristic's format and lie inside its range (type and range handling is C12's)")
	r.Extra("supplementary_checks", map[string]string{
		"closed_connection_scenarios": "3..4 subscribed connections, one closes (FIN/RST); after hc logged the close and 50 round trips on other connections completed, a change must no longer be addressed " +
			"to the closed connection's address in hc's debug log ('<addr> <- EVENT/1.0', validated against the deliveries seen on the sockets); up to 3 attempts; sig closed:session-kept",
		"overlapping_changes": "3 subscribed connections + 1 that subscribed to nothing; a first change (application or a controller) is held at the conn.write.enter hook point of its 1st..3rd notification write " +
			"(before the connection's write lock); meanwhile a second change of the same characteristic (2 of 3 scenarios) or of another one is made by the application or another controller and runs to completion; then the first " +
			"fan-out continues. Per subscribed connection: one EVENT per foreign change (counted; overlap:event:missing / surplus), values among those written, the final value notified to everybody but its writer " +
			"(overlap:final-value-never-notified), nothing for the unsubscribed connection",
		"stalled_subscriber": "2 / 12 scenarios: one of two subscribers stops reading, the application sets 14 values of 1 MiB (the set blocks on the full socket), 90 s of virtual time pass (armed deadlines moved into the past), the subscriber reads again: " +
			"both subscribers must find every EVENT, well-formed and in order (stalled-subscriber:stream-broken / event:missing)",
		"concurrent_variant": "3..5 stable connections subscribed to every written characteristic, 2..5 remote writers + 2..4 application goroutines on DISTINCT characteristics with unique values (20..59 changes each), " +
			"1 connection toggling a subscription on a characteristic nobody changes, 3 goroutines opening short-lived connections that subscribe to everything and close (FIN/RST) during the fan-out; final fence; " +
			"offline: each stable connection has every foreign change exactly once, none of its own, nothing else; short-lived connections: only real changes, at most once; a panic of the fan-out is a violation (notify:panic:<site>); " +
			"the same workload runs in a child built with -race, reports with a frame in hc.(*ipTransport).notifyListener, hap.(*session) or hap.(*context) are violations (race:<pair>), others are listed in other_races_observed",
	})
	r.Watchdog(time.Duration(r.Pick(20, 90)) * time.Minute)
	base := r.WorkDir()

	// ---- supplementary: what hc does with a closed connection's session
	nClosed := r.Pick(16, 120)
	closedScenarios(r, nClosed)

	// ---- sequential histories
	nh := r.Pick(60, 2000)
	ops := 40
	type job struct{ n int }
	ch := make(chan job)
	var wg sync.WaitGroup
	for w := 0; w < 8; w++ {
		wg.Add(1)
		go func() {
			defer wg.Done()
			for j := range ch {
				r.Eval()
				var log []string
				r.Guard(fmt.Sprintf("history %d", j.n), func() { log = runHistory(r, j.n, ops) })
				if log != nil {
					r.SampleAt(j.n, func() interface{} { return map[string]interface{}{"history": j.n, "operations": log} })
				}
			}
		}()
	}
	for i := 0; i < nh; i++ {
		ch <- job{i}
	}
	close(ch)
	wg.Wait()

	// ---- overlapping changes (overlap.go): serial, the hold point is a global hook
	nOv := r.Pick(24, 300)
	overlapScenarios(r, nOv)

	// ---- a subscriber that stops reading while values change (stalled.go)
	stalledSubscribers(r)

	// ---- concurrent variant: plain build in this process, then the same workload under the race detector
	nc := r.Pick(6, 60)
	mergeConc(r, concRounds(r.Seed, nc, base, 3), "plain")
	nr := r.Pick(4, 40)
	runRaceChild(r, nr)

	// ---- coverage floors
	scale := nh / 60
	for _, k := range opKinds {
		name := k.name
		want := 15 * scale
		if name == "connect" {
			want = 60 * scale
		}
		r.Floor("operations of kind "+name, int(r.Counter("op_"+name)), want)
	}
	r.Floor("operations of kind reconnect", int(r.Counter("op_reconnect")), 15*scale)
	r.Floor("events_matched", int(r.Counter("events_matched")), 500*scale)
	r.Floor("operations_expecting_events_on_2plus_connections", int(r.Counter("operations_expecting_events_on_2plus_connections")), 100*scale)
	r.Floor("histories_completed", int(r.Counter("histories_completed")), nh*9/10)
	r.Floor("subscription_entries_for_an_unknown_accessory_with_a_known_iid", int(r.Counter("subscription_entries_for_an_unknown_accessory_with_a_known_iid")), 20*scale)
	r.Floor("histories_on_a_bridge_with_two_digit_ids", int(r.Counter("histories_on_a_bridge_with_two_digit_ids")), nh/4)
	r.Floor("characteristics_with_ids_that_read_like_another_one", int(r.Counter("characteristics_with_ids_that_read_like_another_one")), nh/2)
	r.Floor("distinct subscription states", r.DistinctN("subscription_state"), 200*scale)
	r.Floor("closed scenarios", int(r.Counter("closed_scenarios")), nClosed*9/10)
	r.Floor("closed subscribed connections checked", int(r.Counter("closed_subscribed_connection_no_longer_addressed"))+r.ViolationCount(), nClosed/2)
	r.Floor("overlap scenarios", int(r.Counter("overlap_scenarios")), nOv*9/10)
	r.Floor("overlap holds reached", int(r.Counter("overlap_holds_reached")), nOv*8/10)
	r.Floor("overlap shapes", r.DistinctN("overlap_shape"), 8)
	r.Floor("concurrent rounds (plain)", int(r.Counter("concurrent_plain_rounds")), nc)
	r.Floor("concurrent rounds (race)", int(r.Counter("race_child_rounds")), nr)
	r.Floor("concurrent events matched", int(r.Counter("concurrent_plain_events_matched")), 1000)
	r.Finish()
}

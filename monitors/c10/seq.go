package main

import (
	"crypto/sha256"
	"encoding/hex"
	"encoding/json"
	"errors"
	"fmt"
	"math/rand"
	"sort"
	"strings"
	"sync/atomic"
	"time"

	"verif/harness/app"

	"verif/refctl"
	"verif/vf"
)

// ---------------------------------------------------------------- model

type mconn struct {
	Slot  int // number of the connection in order of establishment
	Ctrl  int
	c     *refctl.Conn
	local string
	how   string
	subs  map[int]bool // model: subscribed characteristics (index into fixture.chars)
	ever  map[int]bool // subscribed at some time on THIS connection
	prior map[int]bool // subscribed on an earlier connection of the same controller
	live  bool
}

type mctrl struct {
	id     *refctl.Identity
	known  bool         // the accessory has the pairing
	everOn map[int]bool // characteristics any connection of this controller ever subscribed to
}

type change struct {
	ch  int
	val interface{}
}

type history struct {
	// hot: characteristics whose ids, written without the dot, read like the ids of another one (1.19 and 11.9);
	// histories on a bridge prefer them
	hot   map[int]bool
	r     *vf.Run
	n     int
	rnd   *rand.Rand
	f     *fixture
	ctrls []*mctrl
	conns []*mconn
	log   []string
	// bookkeeping
	closedAddrs map[string]bool
	aborted     string
	// set while the fence that follows an idle period runs
	idleJustPassed bool
	violated       bool
	estOrder       []string
}

func (h *history) live() []*mconn {
	var out []*mconn
	for _, c := range h.conns {
		if c.live {
			out = append(out, c)
		}
	}
	return out
}

func (h *history) logf(format string, a ...interface{}) {
	h.log = append(h.log, fmt.Sprintf("%02d ", len(h.log))+fmt.Sprintf(format, a...))
}

func (h *history) witness(extra map[string]interface{}) map[string]interface{} {
	w := map[string]interface{}{"history_number": h.n, "seed": h.r.Seed, "accessories": h.f.accs, "history": append([]string{}, h.log...)}
	var cs []string
	for _, c := range h.f.chars {
		cs = append(cs, fmt.Sprintf("%s=%s perms(ev=%v,pw=%v)", c.Key, c.id(), c.Ev, c.Wr))
	}
	w["characteristics"] = cs
	for k, v := range extra {
		w[k] = v
	}
	return w
}

func (h *history) abort(why string) {
	if h.aborted == "" {
		h.aborted = why
	}
}

// connFailed is called when a request on c failed: if net/http reported a panic of the handler that served
// the connection, and the fan-out is on its stack, that is a violation; anything else makes the history inconclusive.
func (h *history) connFailed(c *mconn, what string, err error) {
	if h.idleJustPassed && httpPanicFor(c.local) == nil {
		h.r.Violation("idle:connection-dead-after-idle-period", fmt.Sprintf("connection c%d was served before; after a notification and ninety seconds without traffic its next request gets no answer: %v", c.Slot, err),
			h.witness(map[string]interface{}{"connection": c.Slot, "what": what}))
		h.violated = true
		h.abort("connection dead after an idle period")
		return
	}
	var me *refctl.MalformedError
	if errors.As(err, &me) {
		// the accessory's byte stream on this connection no longer parses as HTTP responses and EVENT messages (a message
		// whose body is not as long as its Content-Length says, bytes between messages): what was sent is not "exactly one
		// EVENT message carrying the new value"
		h.r.Violation("event:stream-malformed", fmt.Sprintf("after %q the byte stream the accessory sends on connection c%d is not a sequence of well-formed HTTP / EVENT messages: %v", h.log[len(h.log)-1], c.Slot, err),
			h.witness(map[string]interface{}{"connection": c.Slot, "what": what}))
		h.violated = true
		h.abort("malformed stream")
		return
	}
	if p := httpPanicFor(c.local); p != nil {
		if sig, in := notifySig(p.Text + "\n" + p.Stack); in {
			h.r.Violation(sig, notifyPanicWhat, h.witness(map[string]interface{}{"where": fmt.Sprintf("%s on connection c%d: %v", what, c.Slot, err), "stack": trunc(p.Text+"\n"+p.Stack, 2500)}))
			h.violated = true
			h.abort("panic in the fan-out")
			return
		}
		h.abort(fmt.Sprintf("%s on connection c%d failed after %q: %v; the handler panicked: %s", what, c.Slot, h.log[len(h.log)-1], err, trunc(p.Text, 200)))
		return
	}
	h.abort(fmt.Sprintf("%s on connection c%d failed after %q: %v", what, c.Slot, h.log[len(h.log)-1], err))
}

// subsState is a canonical description of who is subscribed to what (independent of connection numbering).
func (h *history) subsState() string {
	var per []string
	for _, c := range h.live() {
		var ks []string
		for x := range c.subs {
			ks = append(ks, h.f.chars[x].Key)
		}
		sort.Strings(ks)
		per = append(per, strings.Join(ks, ","))
	}
	sort.Strings(per)
	s := sha256.Sum256([]byte(strings.Join(per, "|")))
	return hex.EncodeToString(s[:8])
}

// ---------------------------------------------------------------- fences and comparison

// fenceAll runs one request/response on every live connection and compares the EVENTs that preceded the
// response with what the model expects for the operation that just returned.
func (h *history) fenceAll(kind string, origin *mconn, changes []change, sameWritten []int) {
	r := h.r
	changed := map[int]interface{}{}
	for _, c := range changes {
		changed[c.ch] = c.val
	}
	same := map[int]bool{}
	for _, x := range sameWritten {
		same[x] = true
	}
	lv := h.live()
	// fence order varies
	order := h.rnd.Perm(len(lv))
	expectedConns := 0
	for _, oi := range order {
		c := lv[oi]
		m, err := c.c.Do("GET", h.f.fence, "", nil)
		r.Count("fences", 1)
		if err != nil {
			h.connFailed(c, "fence", err)
			return
		}
		if m.Status/100 != 2 {
			h.abort(fmt.Sprintf("fence on connection c%d answered %d", c.Slot, m.Status))
			return
		}
		want := map[int]interface{}{}
		if c != origin {
			for x, v := range changed {
				if c.subs[x] {
					want[x] = v
				}
			}
		}
		if len(want) > 0 {
			expectedConns++
		}
		got := map[int]int{}
		for _, em := range c.c.TakeEvents() {
			r.Count("events_observed", 1)
			e := parseEvent(em)
			xi, known := h.f.byID[[2]uint64{e.AID, e.IID}]
			if e.Shape != "" || !known {
				what := e.Shape
				if what == "" {
					what = fmt.Sprintf("unknown characteristic %d.%d", e.AID, e.IID)
				}
				r.Violation("event:wrong-shape", "an EVENT message is not 'EVENT/1.0 200' + application/hap+json + {characteristics:[{aid,iid,value}]}: "+what,
					h.witness(map[string]interface{}{"connection": c.Slot, "message": e.Raw}))
				continue
			}
			x := h.f.chars[xi]
			got[xi]++
			desc := fmt.Sprintf("connection c%d received EVENT %s(%s)=%s after %q", c.Slot, x.Key, x.id(), showVal(e.Val), h.log[len(h.log)-1])
			wit := func() map[string]interface{} {
				return h.witness(map[string]interface{}{"connection": c.Slot, "message": e.Raw, "subscriptions_of_connection": h.subNames(c)})
			}
			v, wasChanged := changed[xi]
			switch {
			case !wasChanged && same[xi]:
				r.Violation("event:same-value", desc+": the value written equals the current value, nothing changed", wit())
			case !wasChanged:
				r.Violation("event:unsolicited", desc+": the operation did not change this characteristic", wit())
			case c == origin:
				r.Violation("event:to-originator", desc+": this connection made the change itself", wit())
			case !x.Ev:
				r.Violation("event:no-ev-characteristic", desc+": the characteristic does not permit events", wit())
			case !c.subs[xi] && c.ever[xi]:
				r.Violation("event:after-unsubscribe", desc+": the connection had unsubscribed from it", wit())
			case !c.subs[xi] && c.prior[xi]:
				r.Violation("reconnect:inherits-subscriptions", desc+": only an EARLIER connection of the same controller had subscribed; a new connection starts without subscriptions", wit())
			case !c.subs[xi]:
				r.Violation("event:to-never-subscribed", desc+": this connection never subscribed to it", wit())
			case got[xi] > 1:
				r.Violation("event:duplicate", desc+": second EVENT for one change", wit())
			case !sameJSON(e.Val, v):
				r.Violation("event:wrong-value", desc+fmt.Sprintf(": the new value is %s", showVal(v)), wit())
			default:
				r.Count("events_matched", 1)
			}
		}
		for xi, v := range want {
			if got[xi] == 0 {
				x := h.f.chars[xi]
				who := "the application"
				if origin != nil {
					who = fmt.Sprintf("connection c%d", origin.Slot)
				}
				r.Violation("event:missing", fmt.Sprintf("connection c%d is subscribed to %s(%s) and received no EVENT before the response of its next request after %s changed it to %s (%q)",
					c.Slot, x.Key, x.id(), who, showVal(v), h.log[len(h.log)-1]),
					h.witness(map[string]interface{}{"connection": c.Slot, "subscriptions_of_connection": h.subNames(c)}))
			}
		}
	}
	if len(changes) > 0 {
		r.Count("operations_with_change", 1)
		switch {
		case expectedConns >= 2:
			r.Count("operations_expecting_events_on_2plus_connections", 1)
			r.Count("operations_expecting_events", 1)
		case expectedConns == 1:
			r.Count("operations_expecting_events", 1)
		}
	}
	r.Count("op_"+kind, 1)
	r.Distinct("subscription_state", h.subsState())
}

func (h *history) subNames(c *mconn) []string {
	var ks []string
	for x := range c.subs {
		ks = append(ks, h.f.chars[x].Key)
	}
	sort.Strings(ks)
	return ks
}

// ---------------------------------------------------------------- operations

func (h *history) connect(ci int, how string) *mconn {
	ct := h.ctrls[ci]
	c, err := h.f.a.Verified(ct.id, nil, "")
	if err != nil {
		h.abort(fmt.Sprintf("pair-verify of controller k%d failed: %v", ci, err))
		return nil
	}
	c.Timeout = 30 * time.Second
	mc := &mconn{Slot: len(h.conns), Ctrl: ci, c: c, local: c.LocalAddr(), how: how, subs: map[int]bool{}, ever: map[int]bool{}, prior: map[int]bool{}, live: true}
	for x := range ct.everOn {
		mc.prior[x] = true
	}
	if h.closedAddrs[mc.local] {
		h.r.Count("port_reused", 1)
		how += " (local port of an earlier connection reused)"
	}
	h.conns = append(h.conns, mc)
	h.estOrder = append(h.estOrder, fmt.Sprint(ci))
	h.logf("%s: controller k%d opens connection c%d (pair-verify)", how, ci, mc.Slot)
	return mc
}

// put sends a PUT /characteristics and returns the per-characteristic statuses of the answer.
func (h *history) put(c *mconn, entries []refctl.CharValue) (map[[2]uint64]int, int, bool) {
	m, err := c.c.Do("PUT", "/characteristics", refctl.ContentJSON, refctl.PutBody(entries...))
	if err != nil {
		h.connFailed(c, "PUT", err)
		return nil, 0, false
	}
	st := map[[2]uint64]int{}
	if len(m.Body) > 0 {
		var cl refctl.CharList
		if json.Unmarshal(m.Body, &cl) == nil {
			for _, e := range cl.Characteristics {
				if e.Status != nil {
					st[[2]uint64{e.AID, e.IID}] = *e.Status
				}
			}
		}
	}
	if m.Status >= 400 {
		h.abort(fmt.Sprintf("PUT on connection c%d answered %d after %q", c.Slot, m.Status, h.log[len(h.log)-1]))
		return st, m.Status, false
	}
	return st, m.Status, true
}

func bptr(b bool) *bool { return &b }

// applySub updates the model for an ev entry and checks the answer for characteristics without ev.
func (h *history) applySub(c *mconn, xi int, on bool, st map[[2]uint64]int, status int) {
	x := h.f.chars[xi]
	if !x.Ev {
		s, ok := st[[2]uint64{x.AID, x.IID}]
		if !ok || s == 0 {
			h.r.Violation("subscribe:no-ev:not-rejected", fmt.Sprintf("ev:%v on %s, which does not permit events, was answered with HTTP %d and no status for the characteristic", on, x.Key, status),
				h.witness(map[string]interface{}{"connection": c.Slot}))
		} else {
			h.r.Count("no_ev_subscription_rejected_with_status", 1)
		}
		return
	}
	if on {
		c.subs[xi] = true
		c.ever[xi] = true
		h.ctrls[c.Ctrl].everOn[xi] = true
	} else {
		delete(c.subs, xi)
	}
}

func (h *history) pickChar(pred func(i int, c *chr) bool, preferSubscribed bool) int {
	var all, pref, pref2 []int
	for i, c := range h.f.chars {
		if !pred(i, c) {
			continue
		}
		all = append(all, i)
		n := 0
		for _, mc := range h.live() {
			if mc.subs[i] {
				n++
			}
		}
		if n >= 1 {
			pref = append(pref, i)
		}
		if n >= 2 {
			pref2 = append(pref2, i)
		}
	}
	if len(all) == 0 {
		return -1
	}
	if len(h.hot) > 0 && h.rnd.Intn(100) < 45 {
		var hs []int
		for _, i := range all {
			if h.hot[i] {
				hs = append(hs, i)
			}
		}
		if len(hs) > 0 {
			return hs[h.rnd.Intn(len(hs))]
		}
	}
	if preferSubscribed {
		p := h.rnd.Intn(100)
		if len(pref2) > 0 && p < 45 {
			return pref2[h.rnd.Intn(len(pref2))]
		}
		if len(pref) > 0 && p < 80 {
			return pref[h.rnd.Intn(len(pref))]
		}
	}
	return all[h.rnd.Intn(len(all))]
}

type opKind struct {
	name   string
	weight int
}

var opKinds = []opKind{
	{"connect", 3}, {"join", 2}, {"subscribe", 14}, {"unsubscribe", 5}, {"subscribe_no_ev", 2},
	{"local_set_change", 12}, {"local_set_same", 4}, {"remote_write_change", 12}, {"remote_write_same", 4},
	{"local_set_clamped", 3}, {"remote_write_clamped", 3}, {"hardware_change", 3}, {"read_refreshing", 4},
	{"remote_write_readonly", 2}, {"subscribe_with_value_readonly", 3}, {"idle", 2}, {"combined_put", 7}, {"read", 3}, {"close_fin", 3}, {"close_rst", 3},
}

func (h *history) step(maxConns int) {
	lv := h.live()
	// decide the operation
	var kind string
	if len(lv) == 0 {
		kind = "connect"
	} else if len(lv) < 3 && h.rnd.Intn(100) < 45 {
		kind = "connect"
		if h.rnd.Intn(3) == 0 {
			kind = "join"
		}
	} else {
		total := 0
		for _, k := range opKinds {
			total += k.weight
		}
		n := h.rnd.Intn(total)
		for _, k := range opKinds {
			if n < k.weight {
				kind = k.name
				break
			}
			n -= k.weight
		}
	}
	anyConn := func() *mconn { return lv[h.rnd.Intn(len(lv))] }
	switch kind {
	case "connect":
		if len(lv) >= maxConns {
			kind = "read"
			break
		}
		// a known controller: prefer one without a live connection, sometimes a second connection of the same controller
		var idle, known []int
		for i, ct := range h.ctrls {
			if !ct.known {
				continue
			}
			known = append(known, i)
			has := false
			for _, c := range lv {
				if c.Ctrl == i {
					has = true
				}
			}
			if !has {
				idle = append(idle, i)
			}
		}
		ci := known[h.rnd.Intn(len(known))]
		how := "connect(second connection of a controller)"
		if len(idle) > 0 && h.rnd.Intn(100) < 80 {
			ci = idle[h.rnd.Intn(len(idle))]
			how = "connect"
		}
		hadBefore := false
		for _, c := range h.conns {
			if c.Ctrl == ci {
				hadBefore = true
			}
		}
		k := "connect"
		if hadBefore {
			k = "reconnect"
			how = strings.Replace(how, "connect", "reconnect", 1)
		}
		if h.connect(ci, how) == nil {
			return
		}
		h.fenceAll(k, nil, nil, nil)
		return
	case "join":
		var unk []int
		for i, ct := range h.ctrls {
			if !ct.known {
				unk = append(unk, i)
			}
		}
		if len(unk) == 0 || len(lv) == 0 || len(lv) >= maxConns {
			kind = "subscribe"
			break
		}
		ci := unk[0]
		adm := anyConn()
		m, t, err := adm.c.PostTLV("/pairings", refctl.PairingsAdd(h.ctrls[ci].id.ID, h.ctrls[ci].id.LTPK, h.rnd.Intn(2) == 0))
		if err != nil || m.Status != 200 {
			h.abort(fmt.Sprintf("POST /pairings (add) on c%d failed: %v", adm.Slot, err))
			return
		}
		if _, bad := t.Get(refctl.TagError); bad {
			h.abort("POST /pairings (add) answered an error item")
			return
		}
		h.ctrls[ci].known = true
		h.logf("join: connection c%d adds the pairing of a new controller k%d through POST /pairings", adm.Slot, ci)
		if h.connect(ci, "join") == nil {
			return
		}
		h.fenceAll("join", nil, nil, nil)
		return
	}

	switch kind {
	case "subscribe", "unsubscribe":
		c := anyConn()
		on := kind == "subscribe"
		xi := -1
		if on {
			xi = h.pickOne(func(i int, x *chr) bool { return x.Ev && !c.subs[i] }, func(i int, x *chr) bool { return x.Ev })
		} else {
			xi = h.pickOne(func(i int, x *chr) bool { return c.subs[i] }, func(i int, x *chr) bool { return x.Ev })
		}
		xs := []int{xi}
		if on {
			// often subscribe to what other connections are subscribed to as well; sometimes several entries in one PUT
			var shared []int
			for i, x := range h.f.chars {
				if !x.Ev || c.subs[i] {
					continue
				}
				for _, o := range lv {
					if o != c && o.subs[i] {
						shared = append(shared, i)
						break
					}
				}
			}
			if len(shared) > 0 && h.rnd.Intn(100) < 60 {
				xs[0] = shared[h.rnd.Intn(len(shared))]
			}
			for k := h.rnd.Intn(3); k > 0 && h.rnd.Intn(100) < 50; k-- {
				y := h.pickOne(func(i int, x *chr) bool { return x.Ev && !c.subs[i] }, func(i int, x *chr) bool { return x.Ev })
				dup := false
				for _, z := range xs {
					dup = dup || z == y
				}
				if !dup {
					xs = append(xs, y)
				}
			}
		}
		var entries []refctl.CharValue
		var names []string
		for _, xi := range xs {
			x := h.f.chars[xi]
			entries = append(entries, refctl.CharValue{AID: x.AID, IID: x.IID, Ev: bptr(on)})
			names = append(names, x.Key+note(c.subs[xi], on))
			// now and then the entry is followed by one for an accessory that does not exist, with the instance id of
			// ANOTHER notifying characteristic of the accessory just named: it is answered with a status of its own and
			// subscribes nothing
			if h.rnd.Intn(3) == 0 {
				for yi, y := range h.f.chars {
					if y.AID == x.AID && y.Ev && yi != xi && !c.subs[yi] && h.rnd.Intn(2) == 0 {
						inXs := false
						for _, z := range xs {
							inXs = inXs || z == yi
						}
						if !inXs {
							entries = append(entries, refctl.CharValue{AID: 7000 + uint64(h.rnd.Intn(100)), IID: y.IID, Ev: bptr(true)})
							names = append(names, fmt.Sprintf("(unknown accessory).%d ev:true [the iid of %s]", y.IID, y.Key))
							h.r.Count("subscription_entries_for_an_unknown_accessory_with_a_known_iid", 1)
							break
						}
					}
				}
			}
		}
		h.logf("%s: c%d PUT ev:%v for [%s]", kind, c.Slot, on, strings.Join(names, "; "))
		st, code, ok := h.put(c, entries)
		if !ok {
			return
		}
		for _, xi := range xs {
			h.applySub(c, xi, on, st, code)
		}
		h.fenceAll(kind, c, nil, nil)
	case "subscribe_no_ev":
		c := anyConn()
		xi := h.pickOne(func(i int, x *chr) bool { return !x.Ev }, nil)
		x := h.f.chars[xi]
		on := h.rnd.Intn(4) != 0
		h.logf("subscribe_no_ev: c%d PUT %s ev:%v (characteristic without ev permission)", c.Slot, x.Key, on)
		st, code, ok := h.put(c, []refctl.CharValue{{AID: x.AID, IID: x.IID, Ev: bptr(on)}})
		if !ok {
			return
		}
		h.applySub(c, xi, on, st, code)
		h.fenceAll(kind, c, nil, nil)
	case "local_set_change", "local_set_same":
		xi := h.pickChar(func(i int, x *chr) bool { return true }, true)
		x := h.f.chars[xi]
		v := x.cur
		if kind == "local_set_change" {
			v = newValue(x, h.rnd, fmt.Sprintf("L%d.%d", h.n, len(h.log)))
		}
		h.logf("%s: application sets %s from %s to %s", kind, x.Key, showVal(x.cur), showVal(v))
		if p, txt := vf.Recover(func() { x.set(v) }); p {
			sig, in := notifySig(txt)
			what := "SetValue panicked: " + trunc(txt, 300)
			if in {
				what = notifyPanicWhat
			}
			h.r.Violation(sig, what, h.witness(map[string]interface{}{"where": "SetValue called by the application", "stack": trunc(txt, 2500)}))
			h.violated = true
			h.abort("SetValue panicked")
			return
		}
		if kind == "local_set_change" {
			x.cur = v
			h.fenceAll(kind, nil, []change{{xi, v}}, nil)
		} else {
			h.fenceAll(kind, nil, nil, []int{xi})
		}
	case "remote_write_change", "remote_write_same":
		c := anyConn()
		xi := h.pickChar(func(i int, x *chr) bool { return x.Wr }, true)
		x := h.f.chars[xi]
		v := x.cur
		if kind == "remote_write_change" {
			v = newValue(x, h.rnd, fmt.Sprintf("R%d.%d", h.n, len(h.log)))
		}
		h.logf("%s: c%d PUT %s value %s (current %s)", kind, c.Slot, x.Key, showVal(v), showVal(x.cur))
		if _, _, ok := h.put(c, []refctl.CharValue{{AID: x.AID, IID: x.IID, Value: refctl.RawJSON(v)}}); !ok {
			return
		}
		if kind == "remote_write_change" {
			x.cur = v
			h.fenceAll(kind, c, []change{{xi, v}}, nil)
		} else {
			h.fenceAll(kind, c, nil, []int{xi})
		}
	case "local_set_clamped", "remote_write_clamped":
		// a value beyond a declared bound is clamped to the bound: an EVENT (carrying the bound) is due only if
		// that changes the value; writing beyond the bound the value already sits on is a same-value write
		remote := kind == "remote_write_clamped"
		xi := h.pickChar(func(i int, x *chr) bool {
			return (x.Kind == "int" || x.Kind == "float") && x.hcObj.MaxValue != nil && x.hcObj.MinValue != nil && (!remote || x.Wr)
		}, true)
		if xi < 0 {
			h.step(maxConns)
			return
		}
		x := h.f.chars[xi]
		sent, expect := x.hi+13, x.hi
		if h.rnd.Intn(2) == 0 {
			sent, expect = x.lo-4, x.lo
		}
		// half of the time first move the value onto that bound, so that the clamped write is a same-value write
		if h.rnd.Intn(2) == 0 && !sameJSON(x.cur, expect) {
			h.logf("%s (preparation): application sets %s from %s to the bound %s", kind, x.Key, showVal(x.cur), showVal(expect))
			x.set(expect)
			x.cur = expect
			h.fenceAll("local_set_change", nil, []change{{xi, expect}}, nil)
			if h.violated {
				return
			}
		}
		var c *mconn
		if remote {
			c = anyConn()
			h.logf("%s: c%d PUT %s value %s (beyond the declared bound %s; current %s)", kind, c.Slot, x.Key, showVal(sent), showVal(expect), showVal(x.cur))
			if _, _, ok := h.put(c, []refctl.CharValue{{AID: x.AID, IID: x.IID, Value: refctl.RawJSON(sent)}}); !ok {
				return
			}
		} else {
			h.logf("%s: application sets %s to %s (beyond the declared bound %s; current %s)", kind, x.Key, showVal(sent), showVal(expect), showVal(x.cur))
			x.set(sent)
		}
		if sameJSON(x.cur, expect) {
			h.r.Count("clamped_writes_that_do_not_change_the_value", 1)
			h.fenceAll(kind, c, nil, []int{xi})
		} else {
			x.cur = expect
			h.fenceAll(kind, c, []change{{xi, expect}}, nil)
		}
	case "remote_write_readonly":
		c := anyConn()
		xi := h.pickChar(func(i int, x *chr) bool { return !x.Wr && x.Ev }, true)
		if xi < 0 {
			h.step(maxConns)
			return
		}
		x := h.f.chars[xi]
		v := newValue(x, h.rnd, "ro")
		h.logf("remote_write_readonly: c%d PUT %s value %s (characteristic is not writable; current %s)", c.Slot, x.Key, showVal(v), showVal(x.cur))
		if _, _, ok := h.put(c, []refctl.CharValue{{AID: x.AID, IID: x.IID, Value: refctl.RawJSON(v)}}); !ok {
			return
		}
		// whether the write is refused is C11's business: follow what the application sees
		if now := decoded(x.hcObj.Value); !sameJSON(now, x.cur) {
			h.r.Count("readonly_write_was_applied", 1)
			x.cur = now
			h.fenceAll(kind, c, []change{{xi, now}}, nil)
		} else {
			h.fenceAll(kind, c, nil, []int{xi})
		}
	case "idle":
		// the application changes a value (notifications go out), then ninety seconds pass without any traffic (every
		// deadline armed on an accepted connection moves ninety seconds towards the past; net/http clears a
		// connection's write deadline after each of its own responses, so the idle period has to follow the
		// notification directly), then every connection must still be served and must have got its event
		xi := h.pickChar(func(i int, x *chr) bool { return true }, true)
		x := h.f.chars[xi]
		v := newValue(x, h.rnd, fmt.Sprintf("I%d.%d", h.n, len(h.log)))
		h.logf("idle: application sets %s from %s to %s, then 90 s pass without traffic", x.Key, showVal(x.cur), showVal(v))
		x.set(v)
		x.cur = v
		nc, _, armed := app.JumpRW(90 * time.Second)
		h.logf("  (%d live accepted connections in this process, %d armed write deadlines moved)", nc, armed)
		h.r.Count("idle_periods", 1)
		h.r.Count("write_deadlines_found_armed_at_an_idle_period", armed)
		h.idleJustPassed = true
		h.fenceAll(kind, nil, []change{{xi, v}}, nil)
		h.idleJustPassed = false
	case "subscribe_with_value_readonly":
		// one entry carrying a value and ev for a characteristic that permits events but no remote write: whatever
		// happens to the value (C11's business), an entry that is answered with success has (un)subscribed the
		// connection; an accessory may also refuse the whole entry with a status, and then the subscription is
		// set again with a plain ev entry so that the model knows it
		c := anyConn()
		xi := h.pickChar(func(i int, x *chr) bool { return !x.Wr && x.Ev }, h.rnd.Intn(2) == 0)
		if xi < 0 {
			h.step(maxConns)
			return
		}
		x := h.f.chars[xi]
		on := h.rnd.Intn(4) != 0
		v := newValue(x, h.rnd, "rs")
		h.logf("subscribe_with_value_readonly: c%d PUT %s value %s ev:%v%s in one entry (characteristic is not writable; current %s)", c.Slot, x.Key, showVal(v), on, note(c.subs[xi], on), showVal(x.cur))
		st, code, ok := h.put(c, []refctl.CharValue{{AID: x.AID, IID: x.IID, Value: refctl.RawJSON(v), Ev: bptr(on)}})
		if !ok {
			return
		}
		if s, has := st[[2]uint64{x.AID, x.IID}]; code == 204 || (has && s == 0) {
			h.applySub(c, xi, on, st, code)
			h.r.Count("subscriptions_changed_by_an_entry_that_also_carried_a_value_for_a_readonly_characteristic", 1)
		} else {
			h.logf("  (entry refused with status %d: c%d PUT %s ev:%v alone)", s, c.Slot, x.Key, on)
			st2, code2, ok := h.put(c, []refctl.CharValue{{AID: x.AID, IID: x.IID, Ev: bptr(on)}})
			if !ok {
				return
			}
			h.applySub(c, xi, on, st2, code2)
		}
		if now := decoded(x.hcObj.Value); !sameJSON(now, x.cur) {
			h.r.Count("readonly_write_was_applied", 1)
			x.cur = now
			h.fenceAll(kind, c, []change{{xi, now}}, nil)
		} else {
			h.fenceAll(kind, c, nil, []int{xi})
		}
		// the subscription only shows when the value changes afterwards
		nv := newValue(x, h.rnd, fmt.Sprintf("RS%d.%d", h.n, len(h.log)))
		h.logf("  then the application sets %s from %s to %s", x.Key, showVal(x.cur), showVal(nv))
		x.set(nv)
		x.cur = nv
		h.fenceAll("local_set_change", nil, []change{{xi, nv}}, nil)
	case "combined_put":
		c := anyConn()
		n := 2 + h.rnd.Intn(3)
		perm := h.rnd.Perm(len(h.f.chars))
		var entries []refctl.CharValue
		var changes []change
		var same []int
		type subEd struct {
			xi int
			on bool
		}
		var subs []subEd
		var parts []string
		// make it likely that a characteristic others are subscribed to is among the entries
		if p := h.pickChar(func(i int, x *chr) bool { return x.Wr }, true); p >= 0 {
			for i, q := range perm {
				if q == p {
					perm[0], perm[i] = perm[i], perm[0]
				}
			}
		}
		for _, xi := range perm {
			if len(entries) >= n {
				break
			}
			x := h.f.chars[xi]
			e := refctl.CharValue{AID: x.AID, IID: x.IID}
			mode := h.rnd.Intn(3) // 0 value, 1 ev, 2 both
			if !x.Wr {
				mode = 1
			}
			p := x.Key
			if mode == 0 || mode == 2 {
				if h.rnd.Intn(4) == 0 {
					e.Value = refctl.RawJSON(x.cur)
					same = append(same, xi)
					p += " value " + showVal(x.cur) + " (same)"
				} else {
					v := newValue(x, h.rnd, fmt.Sprintf("C%d.%d", h.n, len(h.log)))
					e.Value = refctl.RawJSON(v)
					changes = append(changes, change{xi, v})
					p += " value " + showVal(v)
				}
			}
			if mode == 1 || mode == 2 {
				on := h.rnd.Intn(3) != 0
				e.Ev = bptr(on)
				subs = append(subs, subEd{xi, on})
				p += fmt.Sprintf(" ev:%v", on)
			}
			entries = append(entries, e)
			parts = append(parts, p)
		}
		h.logf("combined_put: c%d PUT [%s]", c.Slot, strings.Join(parts, "; "))
		st, code, ok := h.put(c, entries)
		if !ok {
			return
		}
		for _, ch := range changes {
			h.f.chars[ch.ch].cur = ch.val
		}
		for _, s := range subs {
			h.applySub(c, s.xi, s.on, st, code)
		}
		h.fenceAll(kind, c, changes, same)
	case "hardware_change":
		// the "hardware" behind the characteristic with the read callback changes; the accessory does not know yet
		xi := h.pickChar(func(i int, x *chr) bool { return x.hw != nil }, false)
		if xi < 0 {
			h.step(maxConns)
			return
		}
		x := h.f.chars[xi]
		nv := int64(h.rnd.Intn(1000))
		h.logf("hardware_change: the hardware behind %s now reads %d (stored value %s)", x.Key, nv, showVal(x.cur))
		atomic.StoreInt64(x.hw, nv)
		h.fenceAll(kind, nil, nil, nil)
	case "read", "read_refreshing":
		c := anyConn()
		var ids [][2]uint64
		var xs []int
		for _, xi := range h.rnd.Perm(len(h.f.chars))[:1+h.rnd.Intn(3)] {
			ids = append(ids, [2]uint64{h.f.chars[xi].AID, h.f.chars[xi].IID})
			xs = append(xs, xi)
		}
		if kind == "read_refreshing" {
			// make sure the characteristic with the read callback is among the ids
			if xi := h.pickChar(func(i int, x *chr) bool { return x.hw != nil }, false); xi >= 0 {
				dup := false
				for _, y := range xs {
					dup = dup || y == xi
				}
				if !dup {
					ids = append(ids, [2]uint64{h.f.chars[xi].AID, h.f.chars[xi].IID})
					xs = append(xs, xi)
				}
			}
		}
		// a remote read of a characteristic with a read callback stores what the callback returns; if that differs
		// from the stored value it is a change made through connection c: the OTHER subscribers get an EVENT
		var refreshed []change
		for _, xi := range xs {
			x := h.f.chars[xi]
			if x.hw != nil {
				nv := float64(atomic.LoadInt64(x.hw))
				if !sameJSON(x.cur, nv) {
					x.cur = nv
					refreshed = append(refreshed, change{xi, nv})
				}
			}
		}
		h.logf("read: c%d GET /characteristics?id=%s", c.Slot, refctl.IDList(ids...))
		m, err := c.c.Do("GET", "/characteristics?id="+refctl.IDList(ids...), "", nil)
		if err != nil {
			h.abort(fmt.Sprintf("GET on c%d failed: %v", c.Slot, err))
			return
		}
		var cl refctl.CharList
		if m.Status == 200 && json.Unmarshal(m.Body, &cl) == nil && len(cl.Characteristics) == len(xs) {
			for i, e := range cl.Characteristics {
				var v interface{}
				if e.Value != nil && json.Unmarshal(*e.Value, &v) == nil && !sameJSON(v, h.f.chars[xs[i]].cur) {
					// what a read returns is C09's property; here it only tells that the model's idea of "changed" cannot be trusted
					h.abort(fmt.Sprintf("the value read for %s is %s, the model has %s", h.f.chars[xs[i]].Key, showVal(v), showVal(h.f.chars[xs[i]].cur)))
					return
				}
			}
			h.r.Count("reads_agreeing_with_model", 1)
		}
		if len(refreshed) > 0 {
			h.r.Count("reads_that_refreshed_a_value_from_its_read_callback", 1)
			h.fenceAll(kind, c, refreshed, nil)
			return
		}
		h.fenceAll(kind, c, nil, nil)
	case "close_fin", "close_rst":
		c := anyConn()
		h.logf("%s: c%d (controller k%d, subscribed to %v) closes", kind, c.Slot, c.Ctrl, h.subNames(c))
		if kind == "close_fin" {
			c.c.CloseGraceful()
		} else {
			c.c.Close()
		}
		c.live = false
		h.closedAddrs[c.local] = true
		if len(c.subs) > 0 {
			h.r.Count("closed_while_subscribed", 1)
		}
		h.fenceAll(kind, nil, nil, nil)
	}
}

func note(was, on bool) string {
	switch {
	case was && on:
		return " (already subscribed)"
	case !was && !on:
		return " (not subscribed)"
	}
	return ""
}

// pickOne picks a characteristic satisfying first (80%), else one satisfying second.
func (h *history) pickOne(first, second func(int, *chr) bool) int {
	var a, b []int
	for i, x := range h.f.chars {
		if first(i, x) {
			a = append(a, i)
		}
		if second != nil && second(i, x) {
			b = append(b, i)
		}
	}
	if len(a) > 0 && (len(b) == 0 || h.rnd.Intn(100) < 80) {
		return a[h.rnd.Intn(len(a))]
	}
	return b[h.rnd.Intn(len(b))]
}

func decoded(v interface{}) interface{} {
	b, err := json.Marshal(v)
	if err != nil {
		return nil
	}
	var out interface{}
	json.Unmarshal(b, &out)
	return out
}

// runHistory executes history number n and returns its log.
func runHistory(r *vf.Run, n int, ops int) []string {
	rnd := r.RandN("c10-history", n)
	h := &history{r: r, n: n, rnd: rnd, closedAddrs: map[string]bool{}}
	nCtrl := 3 + rnd.Intn(3)
	nStored := 1 + rnd.Intn(nCtrl)
	var stored []*refctl.Identity
	for i := 0; i < nCtrl; i++ {
		id := refctl.NewIdentity(fmt.Sprintf("ctl-%d-%d-%04d", n, i, rnd.Intn(10000)), rnd)
		ct := &mctrl{id: id, known: i < nStored, everOn: map[int]bool{}}
		h.ctrls = append(h.ctrls, ct)
		if ct.known {
			stored = append(stored, id)
		}
	}
	// the order in which controllers first connect is random: shuffle the controllers
	rnd.Shuffle(len(h.ctrls), func(i, j int) { h.ctrls[i], h.ctrls[j] = h.ctrls[j], h.ctrls[i] })
	if !h.ctrls[0].known {
		for i := range h.ctrls {
			if h.ctrls[i].known {
				h.ctrls[0], h.ctrls[i] = h.ctrls[i], h.ctrls[0]
				break
			}
		}
	}
	pool := []string{"bulb", "outlet", "thermostat"}
	rnd.Shuffle(len(pool), func(i, j int) { pool[i], pool[j] = pool[j], pool[i] })
	kinds := pool[:1+rnd.Intn(3)]
	nExtra := 0
	if n%3 == 2 {
		// a bridge: 12..14 accessories, the first one with instance ids up to about 30, so that ids have two digits on
		// both sides of the dot (1.19 and 11.9, 1.28 and 12.8 are different characteristics)
		kinds = nil
		for k, m := 0, 11+rnd.Intn(3); k < m; k++ {
			kinds = append(kinds, pool[(k+rnd.Intn(2))%3])
		}
		nExtra = 16
		r.Count("histories_on_a_bridge_with_two_digit_ids", 1)
	}
	f, err := startFixture(r.WorkDir(), fmt.Sprintf("%08d", 10000000+rnd.Intn(80000000)), kinds, nExtra, stored)
	if err != nil {
		r.Inconclusive(fmt.Sprintf("history %d: fixture did not start: %v", n, err))
		return nil
	}
	defer f.stop()
	h.f = f
	if nExtra > 0 {
		seen := map[string][]int{}
		for i, c := range f.chars {
			k := fmt.Sprintf("%d%d", c.AID, c.IID)
			seen[k] = append(seen[k], i)
		}
		h.hot = map[int]bool{}
		for _, is := range seen {
			if len(is) > 1 {
				for _, i := range is {
					h.hot[i] = true
				}
			}
		}
		r.Count("characteristics_with_ids_that_read_like_another_one", len(h.hot))
	}
	r.Count("transports_started", 1)
	if len(f.accs) <= 4 {
		r.Distinct("accessory_set", strings.Join(f.accs, "+"))
	}
	r.Distinct("controllers(total/pre-stored)", fmt.Sprintf("%d/%d", nCtrl, nStored))
	maxConns := 5
	for len(h.log) < ops && h.aborted == "" {
		before := len(h.log)
		h.step(maxConns)
		if len(h.log) == before && h.aborted == "" {
			// the chosen operation was not applicable; try another
			continue
		}
	}
	for _, c := range h.live() {
		c.c.Close()
	}
	if h.aborted != "" {
		r.Count("histories_aborted", 1)
		if !h.violated {
			r.Inconclusive(fmt.Sprintf("history %d aborted: %s", n, h.aborted))
		}
	} else {
		r.Count("histories_completed", 1)
	}
	if len(h.estOrder) > 0 {
		k := len(h.estOrder)
		if k > 5 {
			k = 5
		}
		r.Distinct("establishment_order(first 5 connections by controller)", strings.Join(h.estOrder[:k], ">"))
	}
	r.Nontrivial(strings.Join(h.log, "\n"))
	return h.log
}

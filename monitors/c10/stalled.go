package main

import (
	"errors"
	"fmt"
	"net"
	"strings"
	"sync/atomic"
	"time"

	"verif/harness/app"
	"verif/refctl"
	"verif/vf"
)

// Stalled subscriber: a subscribed controller stops reading for a long time (a phone in a pocket) while the value keeps
// changing.  hc writes EVENTs synchronously, so the changing call waits for the socket; however long that takes, when
// the controller reads again it must find one well-formed EVENT per change, in order, and so must the other
// subscribers.  "A long time" is virtual: while the application's set is blocked on the full socket, every armed
// deadline of every live connection is moved 90 s into the past (app.JumpRW) — whatever a deadline on the notification
// write would do after 90 s, it does now.  Nothing is judged by wall-clock time: the 300 ms without progress only
// decide WHEN the jump is made, a jump that comes early or late is harmless.
func stalledSubscribers(r *vf.Run) {
	n := r.Pick(2, 12)
	for i := 0; i < n; i++ {
		r.Eval()
		r.Guard(fmt.Sprintf("stalled subscriber %d", i), func() { stalledSubscriber(r, i) })
	}
	r.Floor("stalled_subscriber_scenarios+violations", int(r.Counter("stalled_subscriber_scenarios"))+r.ViolationCount(), n)
	r.Floor("stalled_subscriber_sets_that_blocked+violations", int(r.Counter("stalled_subscriber_sets_that_blocked"))+r.ViolationCount(), n)
}

func stalledSubscriber(r *vf.Run, n int) {
	rnd := r.RandN("c10-stalled", n)
	ids := []*refctl.Identity{refctl.NewIdentity(fmt.Sprintf("st-%d-slow", n), rnd), refctl.NewIdentity(fmt.Sprintf("st-%d-fast", n), rnd)}
	f, err := startFixture(r.WorkDir(), fmt.Sprintf("%08d", 10000000+rnd.Intn(80000000)), []string{"bulb"}, 1, ids)
	if err != nil {
		r.Inconclusive(fmt.Sprintf("stalled subscriber %d: fixture did not start: %v", n, err))
		return
	}
	defer f.stop()
	fail := func(why string) { r.Inconclusive(fmt.Sprintf("stalled subscriber %d: %s", n, why)) }
	var x *chr
	for _, c := range f.chars {
		if c.Key == "1:syn.memo" {
			x = c
		}
	}
	if x == nil || !x.Ev {
		fail("no string characteristic with ev")
		return
	}
	var conns []*refctl.Conn
	defer func() {
		for _, c := range conns {
			c.Close()
		}
	}()
	for i := 0; i < 2; i++ {
		c, err := f.a.Verified(ids[i], nil, "")
		if err != nil {
			fail("pair-verify: " + err.Error())
			return
		}
		c.Timeout = 180 * time.Second
		if i == 0 {
			if tc, ok := c.C.(*net.TCPConn); ok {
				tc.SetReadBuffer(32 << 10)
			}
		}
		if m, err := c.Do("PUT", "/characteristics", refctl.ContentJSON, refctl.PutBody(refctl.CharValue{AID: x.AID, IID: x.IID, Ev: bptr(true)})); err != nil || m.Status != 204 {
			fail(fmt.Sprintf("subscribe failed: %v", err))
			return
		}
		conns = append(conns, c)
	}
	slow, fast := conns[0], conns[1]
	const changes, size = 14, 1 << 20
	vals := make([]string, changes)
	for i := range vals {
		vals[i] = fmt.Sprintf("stall-%d-%d-", n, i) + strings.Repeat(string(rune('a'+i%26)), size)
	}
	var progress int64
	setDone := make(chan string, 1)
	go func() {
		for i := range vals {
			if p, txt := vf.Recover(func() { x.set(vals[i]) }); p {
				setDone <- "SetValue panicked: " + trunc(txt, 400)
				return
			}
			atomic.AddInt64(&progress, 1)
		}
		setDone <- ""
	}()
	// the fast subscriber keeps reading (fences); its events are collected by refctl
	fastStop := make(chan struct{})
	fastDone := make(chan error, 1)
	go func() {
		for {
			select {
			case <-fastStop:
				fastDone <- nil
				return
			default:
			}
			if _, err := fast.Do("GET", f.fence, "", nil); err != nil {
				fastDone <- err
				return
			}
			time.Sleep(2 * time.Millisecond)
		}
	}()
	// wait until the sets stop making progress (the slow subscriber's socket is full) or are through
	blocked := false
	last, lastAt := int64(-1), time.Now()
	var setErr string
	finished := false
	for !finished && !blocked {
		select {
		case setErr = <-setDone:
			finished = true
		case <-time.After(20 * time.Millisecond):
			if p := atomic.LoadInt64(&progress); p != last {
				last, lastAt = p, time.Now()
			} else if time.Since(lastAt) > 300*time.Millisecond {
				blocked = true
			}
		}
	}
	armedW := 0
	if blocked {
		r.Count("stalled_subscriber_sets_that_blocked", 1)
		_, _, armedW = app.JumpRW(90 * time.Second)
		r.Count("stalled_subscriber_write_deadlines_found_armed", armedW)
		time.Sleep(100 * time.Millisecond)
	}
	desc := fmt.Sprintf("two connections subscribe to %s; the first stops reading; the application sets %d values of 1 MiB one after the other (blocked on the full socket after %d of them: %v); 90 s of virtual time pass (%d write deadlines were armed); the first connection reads again",
		x.Key, changes, atomic.LoadInt64(&progress), blocked, armedW)
	// the slow subscriber reads again: fences until the sets are through, then one more
	var slowErr error
	for !finished && slowErr == nil {
		select {
		case setErr = <-setDone:
			finished = true
		default:
			_, slowErr = slow.Do("GET", f.fence, "", nil)
		}
	}
	if slowErr == nil {
		_, slowErr = slow.Do("GET", f.fence, "", nil)
	}
	close(fastStop)
	fastErr := <-fastDone
	if fastErr == nil {
		_, fastErr = fast.Do("GET", f.fence, "", nil)
	}
	if !finished {
		select {
		case setErr = <-setDone:
		case <-time.After(60 * time.Second):
			setErr = "the application's sets did not return within 60 s after the slow subscriber's connection failed"
		}
	}
	if setErr != "" {
		r.Violation("stalled-subscriber:set-failed", setErr, map[string]interface{}{"scenario": n, "history": desc})
		return
	}
	r.Count("stalled_subscriber_scenarios", 1)
	for i, c := range conns {
		name := []string{"the subscriber that had stopped reading", "the subscriber that kept reading"}[i]
		cerr := []error{slowErr, fastErr}[i]
		evs := c.TakeEvents()
		wit := map[string]interface{}{"scenario": n, "history": desc, "connection": name, "events_received": len(evs)}
		if cerr != nil {
			var me *refctl.MalformedError
			sig := "stalled-subscriber:connection-failed"
			if errors.As(cerr, &me) || strings.Contains(cerr.Error(), "authentication") || strings.Contains(cerr.Error(), "decrypt") {
				sig = "stalled-subscriber:stream-broken"
			}
			r.Violation(sig, fmt.Sprintf("%s is connected, verified and subscribed; after %d changes its stream cannot be read any more: %v (%d EVENTs arrived intact)", name, changes, cerr, len(evs)), wit)
			continue
		}
		got := 0
		for _, em := range evs {
			e := parseEvent(em)
			if e.Shape != "" || e.AID != x.AID || e.IID != x.IID {
				r.Violation("stalled-subscriber:event:wrong-shape", fmt.Sprintf("%s received a malformed or foreign EVENT: %s", name, trunc(e.Shape+" "+e.Raw, 200)), wit)
				continue
			}
			s, _ := e.Val.(string)
			if got < changes && s == vals[got] {
				got++
				r.Count("stalled_subscriber_events_matched", 1)
				continue
			}
			r.Violation("stalled-subscriber:event:wrong-value-or-order", fmt.Sprintf("%s: EVENT number %d carries %q..., expected the %d-th value set", name, got+1, trunc(s, 24), got+1), wit)
			break
		}
		if got != changes {
			r.Violation("stalled-subscriber:event:missing", fmt.Sprintf("%s received %d of the %d EVENTs before the response of the final fence", name, got, changes), wit)
		}
	}
}

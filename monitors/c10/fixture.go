package main

import (
	"encoding/json"
	"fmt"
	"math"
	"math/rand"
	"os"
	"reflect"
	"strings"
	"sync/atomic"

	"github.com/brutella/hc/accessory"
	"github.com/brutella/hc/characteristic"
	"github.com/brutella/hc/service"

	"verif/harness/app"
	"verif/refctl"
)

// chr is one characteristic as the model sees it.  Permissions, ids and the initial value are
// taken from the attribute database as the reference controller reads it (GET /accessories);
// set is the application's typed SetValue.
type chr struct {
	Key      string // "1:switch.On"
	AID, IID uint64
	Kind     string // bool|int|float|string
	Ev, Wr   bool
	lo, hi   float64
	set      func(v interface{})
	hw       *int64 // see protoChar.hw
	hcObj    *characteristic.Characteristic
	cur      interface{} // model value in JSON-decoded form: bool, float64, string
}

func (c *chr) id() string { return fmt.Sprintf("%d.%d", c.AID, c.IID) }

type fixture struct {
	fence string // target of the fence request: a readable characteristic of accessory 1
	a     *app.App
	dir   string
	chars []*chr
	byID  map[[2]uint64]int
	accs  []string
}

func (f *fixture) stop() {
	if f.a != nil {
		f.a.Stop()
	}
	os.RemoveAll(f.dir)
}

type protoChar struct {
	name string
	c    *characteristic.Characteristic
	kind string
	lo   float64
	hi   float64
	set  func(v interface{})
	hw   *int64 // non-nil: the characteristic has a read callback (OnValueRemoteGet) that returns *hw
}

func boolChar(name string, b *characteristic.Bool) protoChar {
	return protoChar{name: name, c: b.Characteristic, kind: "bool", lo: 0, hi: 1, set: func(v interface{}) { b.SetValue(v.(bool)) }}
}
func intChar(name string, b *characteristic.Int, lo, hi int) protoChar {
	return protoChar{name: name, c: b.Characteristic, kind: "int", lo: float64(lo), hi: float64(hi), set: func(v interface{}) { b.SetValue(int(v.(float64))) }}
}
func floatChar(name string, b *characteristic.Float, lo, hi float64) protoChar {
	return protoChar{name: name, c: b.Characteristic, kind: "float", lo: lo, hi: hi, set: func(v interface{}) { b.SetValue(v.(float64)) }}
}
func stringChar(name string, b *characteristic.String) protoChar {
	return protoChar{name: name, c: b.Characteristic, kind: "string", lo: 0, hi: 0, set: func(v interface{}) { b.SetValue(v.(string)) }}
}

type protoAcc struct {
	name  string
	acc   *accessory.Accessory
	chars []protoChar
}

const (
	typSvc   = "F1000000-0000-1000-8000-0026BB765291"
	typNote  = "F1000001-0000-1000-8000-0026BB765291" // string, read+write, NO ev
	typMemo  = "F1000002-0000-1000-8000-0026BB765291" // string, read+write+ev
	typLevel = "F1000003-0000-1000-8000-0026BB765291" // int, read+ev (read-only for controllers)
	typSens  = "F1000004-0000-1000-8000-0026BB765291" // int, read+write+ev, with a read callback: a remote read refreshes the value from the "hardware"
	typExtra = "F10000%02X-0000-1000-8000-0026BB765291"
)

// firstAccessory: a switch with a synthetic service (no-ev string, ev string, read-only+ev int and
// nExtra further read+write+ev strings used by the concurrent variant).
func firstAccessory(tag string, nExtra int) protoAcc {
	sw := accessory.NewSwitch(accessory.Info{Name: "Switch " + tag})
	note := characteristic.NewString(typNote)
	note.Perms = []string{characteristic.PermRead, characteristic.PermWrite}
	note.SetValue("note-0")
	memo := characteristic.NewString(typMemo)
	memo.Perms = characteristic.PermsAll()
	memo.SetValue("memo-0")
	level := characteristic.NewInt(typLevel)
	level.Perms = characteristic.PermsRead()
	level.SetValue(5)
	sv := service.New(typSvc)
	sv.AddCharacteristic(note.Characteristic)
	sv.AddCharacteristic(memo.Characteristic)
	sv.AddCharacteristic(level.Characteristic)
	// a characteristic whose value the application refreshes from its "hardware" whenever a controller reads it
	sensor := characteristic.NewInt(typSens)
	sensor.Format = characteristic.FormatUInt32 // (without a format hc stores remote float64 and local int values as they come)
	sensor.Perms = characteristic.PermsAll()
	sensor.SetValue(3)
	hw := new(int64)
	*hw = 3
	sensor.OnValueRemoteGet(func() int { return int(atomic.LoadInt64(hw)) })
	sv.AddCharacteristic(sensor.Characteristic)
	p := protoAcc{name: "switch", acc: sw.Accessory}
	p.chars = []protoChar{boolChar("switch.On", sw.Switch.On.Bool), stringChar("syn.note(no-ev)", note), stringChar("syn.memo", memo), intChar("syn.level(ro)", level, 0, 1000)}
	sc := intChar("syn.sensor(read-callback)", sensor, 0, 1000)
	sc.hw = hw
	p.chars = append(p.chars, sc)
	for i := 0; i < nExtra; i++ {
		x := characteristic.NewString(fmt.Sprintf(typExtra, 0x10+i))
		x.Perms = characteristic.PermsAll()
		x.SetValue(fmt.Sprintf("x%d-0", i))
		sv.AddCharacteristic(x.Characteristic)
		p.chars = append(p.chars, stringChar(fmt.Sprintf("syn.x%d", i), x))
	}
	sw.AddService(sv)
	return p
}

func otherAccessory(kind string, tag string) protoAcc {
	switch kind {
	case "bulb":
		b := accessory.NewColoredLightbulb(accessory.Info{Name: "Bulb " + tag})
		return protoAcc{"bulb", b.Accessory, []protoChar{boolChar("bulb.On", b.Lightbulb.On.Bool), intChar("bulb.Brightness", b.Lightbulb.Brightness.Int, 0, 100),
			floatChar("bulb.Hue", b.Lightbulb.Hue.Float, 0, 360), floatChar("bulb.Saturation", b.Lightbulb.Saturation.Float, 0, 100)}}
	case "outlet":
		o := accessory.NewOutlet(accessory.Info{Name: "Outlet " + tag})
		return protoAcc{"outlet", o.Accessory, []protoChar{boolChar("outlet.On", o.Outlet.On.Bool), boolChar("outlet.InUse(ro)", o.Outlet.OutletInUse.Bool)}}
	default:
		t := accessory.NewThermostat(accessory.Info{Name: "Thermostat " + tag}, 20, 10, 38, 0.5)
		return protoAcc{"thermostat", t.Accessory, []protoChar{floatChar("thermo.Target", t.Thermostat.TargetTemperature.Float, 10, 38),
			floatChar("thermo.Current(ro)", t.Thermostat.CurrentTemperature.Float, 10, 38),
			intChar("thermo.TargetState", t.Thermostat.TargetHeatingCoolingState.Int, 0, 3)}}
	}
}

// startFixture starts a transport with the given accessories and pre-stored controllers and reads the
// attribute database through a verified reference connection (which is returned to the caller closed).
func startFixture(base string, pin string, kinds []string, nExtra int, stored []*refctl.Identity) (*fixture, error) {
	f := &fixture{dir: app.ScratchDir(base, "store"), byID: map[[2]uint64]int{}}
	for _, id := range stored {
		if err := app.StoreController(f.dir, id); err != nil {
			os.RemoveAll(f.dir)
			return nil, err
		}
	}
	protos := []protoAcc{firstAccessory("1", nExtra)}
	for i, k := range kinds {
		protos = append(protos, otherAccessory(k, fmt.Sprint(i+2)))
	}
	var rest []*accessory.Accessory
	for _, p := range protos[1:] {
		rest = append(rest, p.acc)
	}
	app.EnableTimeJumps()
	a, err := app.Start(f.dir, pin, protos[0].acc, rest...)
	if err != nil {
		os.RemoveAll(f.dir)
		return nil, err
	}
	f.a = a
	c, err := a.Verified(stored[0], nil, "")
	if err != nil {
		f.stop()
		return nil, fmt.Errorf("pair-verify of a pre-stored controller: %v", err)
	}
	defer c.Close()
	m, err := c.Do("GET", "/accessories", "", nil)
	if err != nil || m.Status != 200 {
		f.stop()
		return nil, fmt.Errorf("GET /accessories: %v", err)
	}
	db, err := refctl.ParseAttrDB(m.Body)
	if err != nil || len(db.Accessories) != len(protos) {
		f.stop()
		return nil, fmt.Errorf("attribute database: %v (%d accessories)", err, len(db.Accessories))
	}
	// the fence reads the first readable characteristic of accessory 1 (the accessory information service)
	for _, sv := range db.Accessories[0].Services {
		for k := range sv.Characteristics {
			if f.fence == "" && db.Accessories[0].AID == 1 && sv.Characteristics[k].Has("pr") {
				f.fence = fmt.Sprintf("/characteristics?id=1.%d", sv.Characteristics[k].IID)
			}
		}
	}
	if f.fence == "" {
		f.stop()
		return nil, fmt.Errorf("no readable characteristic in accessory 1 for the fence request")
	}
	for i, p := range protos {
		aid := uint64(i + 1)
		f.accs = append(f.accs, p.name)
		for _, pc := range p.chars {
			_, ac := db.Find(aid, pc.c.Type)
			if ac == nil {
				f.stop()
				return nil, fmt.Errorf("characteristic %s (type %s) is not listed for accessory %d", pc.name, pc.c.Type, aid)
			}
			if ac.IID != pc.c.ID || p.acc.ID != aid {
				f.stop()
				return nil, fmt.Errorf("characteristic %s: the attribute database says %d.%d, the application object %d.%d", pc.name, aid, ac.IID, p.acc.ID, pc.c.ID)
			}
			var v interface{}
			if len(ac.Value) == 0 || json.Unmarshal(ac.Value, &v) != nil {
				f.stop()
				return nil, fmt.Errorf("characteristic %s has no readable value in the attribute database", pc.name)
			}
			ch := &chr{Key: fmt.Sprintf("%d:%s", aid, pc.name), AID: aid, IID: ac.IID, Kind: pc.kind, Ev: ac.Has("ev"), Wr: ac.Has("pw"),
				lo: pc.lo, hi: pc.hi, set: pc.set, hw: pc.hw, hcObj: pc.c, cur: v}
			f.byID[[2]uint64{aid, ac.IID}] = len(f.chars)
			f.chars = append(f.chars, ch)
		}
	}
	return f, nil
}

var stringTokens = []string{"", " HTTP/1.0", " speaks HTTP/1.0 and HTTP/1.0", " HTTP/1.1 200 OK", " EVENT/1.0", "\r\n\r\n", " Content-Length: 3", ` \u003c`, " <&>", ` "q" \`, " é😀\u2028", " open 50%", " %s %d %v %!", " 100%% %x%n"}

// newValue draws a value of the characteristic's type and range that differs from cur.
func newValue(c *chr, rnd *rand.Rand, uniq string) interface{} {
	for {
		var v interface{}
		switch c.Kind {
		case "bool":
			b, _ := c.cur.(bool)
			return !b
		case "int":
			v = float64(int(c.lo) + rnd.Intn(int(c.hi-c.lo)+1))
		case "float":
			v = c.lo + 0.5*float64(rnd.Intn(int((c.hi-c.lo)*2)+1))
		default:
			// most strings carry a token of the protocols an EVENT travels in, or characters an encoder escapes
			v = fmt.Sprintf("%s-%d%s", uniq, rnd.Intn(1000000), stringTokens[rnd.Intn(len(stringTokens))])
		}
		if !sameJSON(v, c.cur) {
			return v
		}
	}
}

func sameJSON(a, b interface{}) bool {
	if fa, ok := a.(float64); ok {
		if fb, ok := b.(float64); ok {
			return fa == fb || math.Abs(fa-fb) < 1e-9
		}
		return false
	}
	return reflect.DeepEqual(a, b)
}

func showVal(v interface{}) string {
	b, _ := json.Marshal(v)
	return string(b)
}

// ---------------------------------------------------------------- EVENT parsing

type evt struct {
	AID, IID uint64
	Val      interface{}
	Shape    string // non-empty: what is wrong with the message's shape
	Raw      string
}

func parseEvent(m *refctl.Message) evt {
	e := evt{Raw: fmt.Sprintf("%s %d [%s] %s", m.Proto, m.Status, m.Header.Get("Content-Type"), trunc(string(m.Body), 200))}
	var problems []string
	if m.Proto != "EVENT/1.0" {
		problems = append(problems, "protocol "+m.Proto)
	}
	if m.Status != 200 {
		problems = append(problems, fmt.Sprintf("status %d", m.Status))
	}
	if ct := m.Header.Get("Content-Type"); ct != refctl.ContentJSON {
		problems = append(problems, "content-type "+ct)
	}
	var cl refctl.CharList
	if err := json.Unmarshal(m.Body, &cl); err != nil {
		problems = append(problems, "body is not JSON: "+err.Error())
	} else if len(cl.Characteristics) != 1 {
		problems = append(problems, fmt.Sprintf("%d entries in characteristics", len(cl.Characteristics)))
	} else {
		e.AID, e.IID = cl.Characteristics[0].AID, cl.Characteristics[0].IID
		if cl.Characteristics[0].Value == nil {
			problems = append(problems, "no value")
		} else if err := json.Unmarshal(*cl.Characteristics[0].Value, &e.Val); err != nil {
			problems = append(problems, "value does not decode")
		}
	}
	e.Shape = strings.Join(problems, "; ")
	return e
}

func trunc(s string, n int) string {
	if len(s) > n {
		return s[:n] + "..."
	}
	return s
}

package main

import (
	"fmt"
	"runtime"
	"strings"
	"sync"
	"time"

	"github.com/brutella/hc/verifhook"

	"verif/refctl"
	"verif/vf"
)

// Overlapping changes: a second change is made WHILE the fan-out of a first change is still on its way (the first
// notifier is held at the conn.write.enter hook point, which lies before the connection's write lock, after it has
// served `skip` connections).  This is the schedule of an application goroutine and a controller (or two
// controllers, or two application goroutines) changing values at the same time while one subscribed connection is
// slow.  The second change is on the same characteristic or on another one.
//
// hc builds each EVENT from the value the characteristic has when the message is built, so under an overlap on the
// SAME characteristic an EVENT of the first change may already carry the second value.  What is demanded is only
// what the property states for every schedule: per subscribed connection one EVENT per foreign change of the
// characteristic (counted), carrying one of the values written, none for the own change, none for connections that
// did not subscribe; and the value the characteristic ends with has been notified to every subscribed connection
// other than the one that wrote it.  For a second change on ANOTHER characteristic the values are exact.

var gate struct {
	mu      sync.Mutex
	armed   bool
	skip    int
	stalled chan struct{}
	release chan struct{}
}

func inNotify() bool {
	pc := make([]uintptr, 24)
	n := runtime.Callers(3, pc)
	fr := runtime.CallersFrames(pc[:n])
	for {
		f, more := fr.Next()
		if strings.HasSuffix(f.Function, ".notifyListener") {
			return true
		}
		if !more {
			return false
		}
	}
}

func overlapHook(point string) {
	if point != "conn.write.enter" {
		return
	}
	gate.mu.Lock()
	if !gate.armed || !inNotify() {
		gate.mu.Unlock()
		return
	}
	if gate.skip > 0 {
		gate.skip--
		gate.mu.Unlock()
		return
	}
	gate.armed = false
	st, rel := gate.stalled, gate.release
	gate.mu.Unlock()
	close(st)
	select {
	case <-rel:
	case <-time.After(90 * time.Second):
	}
}

func overlapScenarios(r *vf.Run, n int) {
	verifhook.Install(overlapHook)
	defer verifhook.Install(func(string) {})
	for i := 0; i < n; i++ {
		r.Eval()
		r.Guard(fmt.Sprintf("overlap scenario %d", i), func() { overlapScenario(r, i) })
	}
}

func overlapScenario(r *vf.Run, n int) {
	rnd := r.RandN("c10-overlap", n)
	const nSub = 3
	var ids []*refctl.Identity
	for i := 0; i < nSub+1; i++ {
		ids = append(ids, refctl.NewIdentity(fmt.Sprintf("ov-%d-%d", n, i), rnd))
	}
	f, err := startFixture(r.WorkDir(), fmt.Sprintf("%08d", 10000000+rnd.Intn(80000000)), []string{"bulb", "thermostat"}, 4, ids)
	if err != nil {
		r.Inconclusive(fmt.Sprintf("overlap scenario %d: fixture did not start: %v", n, err))
		return
	}
	defer f.stop()
	fail := func(why string) { r.Inconclusive(fmt.Sprintf("overlap scenario %d: %s", n, why)) }
	var cand []*chr
	for _, c := range f.chars {
		if c.Ev && c.Wr && c.Kind != "bool" && (c.Kind != "int" || c.hi-c.lo >= 4) {
			cand = append(cand, c)
		}
	}
	if len(cand) < 2 {
		fail("fewer than two characteristics with ev and pw")
		return
	}
	rnd.Shuffle(len(cand), func(i, j int) { cand[i], cand[j] = cand[j], cand[i] })
	x, y := cand[0], cand[1]
	same := n%3 != 2 // two of three scenarios overlap changes of the same characteristic
	actor1 := -1     // -1 application goroutine, else index of the subscribed connection that writes
	actor2 := -1
	if rnd.Intn(2) == 0 {
		actor1 = 0
	}
	if rnd.Intn(2) == 0 {
		actor2 = 1
	}
	writes1 := nSub
	if actor1 >= 0 {
		writes1 = nSub - 1
	}
	skip := rnd.Intn(writes1)
	var conns []*refctl.Conn
	defer func() {
		for _, c := range conns {
			c.Close()
		}
	}()
	for i := 0; i < nSub+1; i++ {
		c, err := f.a.Verified(ids[i], nil, "")
		if err != nil {
			fail("pair-verify: " + err.Error())
			return
		}
		c.Timeout = 120 * time.Second
		conns = append(conns, c)
		if i < nSub {
			m, err := c.Do("PUT", "/characteristics", refctl.ContentJSON, refctl.PutBody(
				refctl.CharValue{AID: x.AID, IID: x.IID, Ev: bptr(true)}, refctl.CharValue{AID: y.AID, IID: y.IID, Ev: bptr(true)}))
			if err != nil || m.Status != 204 {
				fail(fmt.Sprintf("subscribe failed: %v", err))
				return
			}
		}
	}
	// values: A then B on x (same) or A on x and B on y; all different from the current values and from each other
	valA := newValue(x, rnd, "ovA")
	var valB interface{}
	target2 := x
	if same {
		for {
			valB = newValue(x, rnd, "ovB")
			if !sameJSON(valB, valA) {
				break
			}
		}
	} else {
		target2 = y
		valB = newValue(y, rnd, "ovB")
	}
	who := func(a int) string {
		if a < 0 {
			return "the application"
		}
		return fmt.Sprintf("connection c%d", a)
	}
	desc := fmt.Sprintf("c0..c2 subscribed to %s and %s, c3 to nothing; %s sets %s=%s; its fan-out is held before its notification write number %d; meanwhile %s sets %s=%s; then the first fan-out continues",
		x.Key, y.Key, who(actor1), x.Key, showVal(valA), skip+1, who(actor2), target2.Key, showVal(valB))
	change := func(actor int, c *chr, v interface{}) error {
		if actor < 0 {
			if p, txt := vf.Recover(func() { c.set(v) }); p {
				return fmt.Errorf("SetValue panicked: %s", trunc(txt, 600))
			}
			return nil
		}
		m, err := conns[actor].Do("PUT", "/characteristics", refctl.ContentJSON, refctl.PutBody(refctl.CharValue{AID: c.AID, IID: c.IID, Value: refctl.RawJSON(v)}))
		if err != nil {
			return err
		}
		if m.Status != 204 {
			return fmt.Errorf("PUT answered %d", m.Status)
		}
		return nil
	}
	gate.mu.Lock()
	gate.armed, gate.skip = true, skip
	gate.stalled, gate.release = make(chan struct{}), make(chan struct{})
	stalled, release := gate.stalled, gate.release
	gate.mu.Unlock()
	done1 := make(chan error, 1)
	go func() { done1 <- change(actor1, x, valA) }()
	reached := false
	select {
	case <-stalled:
		reached = true
	case err := <-done1:
		done1 <- err
	case <-time.After(60 * time.Second):
	}
	gate.mu.Lock()
	gate.armed = false
	gate.mu.Unlock()
	var err2 error
	done2 := make(chan struct{})
	go func() { err2 = change(actor2, target2, valB); close(done2) }()
	select {
	case <-done2:
	case <-time.After(100 * time.Second):
		close(release)
		fail("the second change did not return while the first fan-out was held (watchdog): " + desc)
		return
	}
	close(release)
	var err1 error
	select {
	case err1 = <-done1:
	case <-time.After(100 * time.Second):
		fail("the first change did not return after it was released (watchdog): " + desc)
		return
	}
	if err1 != nil || err2 != nil {
		fail(fmt.Sprintf("a change failed: %v / %v: %s", err1, err2, desc))
		return
	}
	if !reached {
		// the first fan-out made fewer notification writes than expected: nothing overlapped (a missing EVENT shows below)
		r.Count("overlap_scenarios_where_the_hold_point_was_not_reached", 1)
	} else {
		r.Count("overlap_holds_reached", 1)
	}
	r.Count("overlap_scenarios", 1)
	if same {
		r.Count("overlap_same_characteristic", 1)
	} else {
		r.Count("overlap_other_characteristic", 1)
	}
	r.Distinct("overlap_shape", fmt.Sprintf("same=%v a1=%d a2=%d skip=%d", same, actor1, actor2, skip))
	// fences, then the comparison
	type got struct{ x, y []string }
	var per []got
	for i, c := range conns {
		m, err := c.Do("GET", f.fence, "", nil)
		if err != nil || m.Status/100 != 2 {
			fail(fmt.Sprintf("fence on c%d failed: %v", i, err))
			return
		}
		var g got
		for _, em := range c.TakeEvents() {
			e := parseEvent(em)
			wit := map[string]interface{}{"scenario": n, "history": desc, "message": e.Raw}
			switch {
			case e.Shape != "":
				r.Violation("overlap:event:wrong-shape", fmt.Sprintf("c%d received a malformed EVENT: %s", i, e.Shape), wit)
			case e.AID == x.AID && e.IID == x.IID:
				g.x = append(g.x, showVal(e.Val))
			case e.AID == y.AID && e.IID == y.IID:
				g.y = append(g.y, showVal(e.Val))
			default:
				r.Violation("overlap:event:other-characteristic", fmt.Sprintf("c%d received an EVENT for %d.%d, which nobody changed", i, e.AID, e.IID), wit)
			}
		}
		per = append(per, g)
	}
	sA, sB := showVal(valA), showVal(valB)
	for i, g := range per {
		wit := map[string]interface{}{"scenario": n, "history": desc, "connection": fmt.Sprintf("c%d", i), "events_for_" + x.Key: g.x, "events_for_" + y.Key: g.y}
		if i == nSub {
			if len(g.x)+len(g.y) > 0 {
				r.Violation("overlap:event:to-never-subscribed", fmt.Sprintf("c3 never subscribed and received %d EVENTs", len(g.x)+len(g.y)), wit)
			}
			continue
		}
		wantX, wantY := 0, 0
		if actor1 != i {
			wantX++
		}
		if actor2 != i {
			if same {
				wantX++
			} else {
				wantY++
			}
		}
		cmp := func(name string, have []string, want int) {
			switch {
			case len(have) < want:
				r.Violation("overlap:event:missing", fmt.Sprintf("c%d is subscribed to %s, %d changes were made by others (one while the fan-out of the other was held), it received %d EVENTs before the response of the fence", i, name, want, len(have)), wit)
			case len(have) > want:
				r.Violation("overlap:event:surplus", fmt.Sprintf("c%d received %d EVENTs for %s, %d changes were made by others", i, len(have), name, want), wit)
			default:
				r.Count("overlap_events_matched", len(have))
			}
		}
		cmp(x.Key, g.x, wantX)
		cmp(y.Key, g.y, wantY)
		for _, v := range g.x {
			if v != sA && !(same && v == sB) {
				r.Violation("overlap:event:wrong-value", fmt.Sprintf("c%d received EVENT %s=%s, which nobody set", i, x.Key, v), wit)
			}
		}
		for _, v := range g.y {
			if v != sB {
				r.Violation("overlap:event:wrong-value", fmt.Sprintf("c%d received EVENT %s=%s, which nobody set", i, y.Key, v), wit)
			}
		}
		if same && actor2 != i && len(g.x) >= wantX {
			seen := false
			for _, v := range g.x {
				seen = seen || v == sB
			}
			if !seen {
				r.Violation("overlap:final-value-never-notified", fmt.Sprintf("c%d is subscribed to %s, which ends with the value %s set by %s; no EVENT it received carries that value", i, x.Key, sB, who(actor2)), wit)
			}
		}
	}
}

package main

import (
	"strings"
	"sync"

	"verif/harness/app"
	"verif/vf"
)

// net/http reports a panic of a request handler on the standard logger ("http: panic serving <addr>: ...")
// and closes the connection; the harness captures those lines.  They attribute a dropped connection to its cause.

var (
	panicMu  sync.Mutex
	panicLog []app.HTTPPanic
)

// httpPanicFor returns (and forgets) the handler panic reported for the connection with the given client address.
func httpPanicFor(addr string) *app.HTTPPanic {
	panicMu.Lock()
	defer panicMu.Unlock()
	panicLog = append(panicLog, app.HTTPPanics(app.TakeStdLog())...)
	if len(panicLog) > 4000 {
		panicLog = panicLog[len(panicLog)-2000:]
	}
	for i := range panicLog {
		if panicLog[i].Remote == addr {
			p := panicLog[i]
			panicLog = append(panicLog[:i], panicLog[i+1:]...)
			return &p
		}
	}
	return nil
}

const notifyPanicWhat = "the notification fan-out (notifyListener) panicked inside hc while a change was fanned out. The goroutine that changed the value takes the panic: SetValue panics in the application, " +
	"or the writing controller's request dies without a response and its connection is dropped; subscribers later in the iteration receive no EVENT for this change. " +
	"(Site hap.(*Connection).EncryptedWrite: a subscribed connection was being closed at that moment - Connection.Write found an encrypter, EncryptedWrite asked the context again after Close had deleted the session and called Encrypt on nil)"

// notifySig names a panic by the hc function it happened in; inNotify tells whether the fan-out is on the stack.
func notifySig(stack string) (sig string, inNotify bool) {
	return "notify:panic:" + vf.PanicSite(stack, "brutella/hc"), strings.Contains(stack, "notifyListener")
}

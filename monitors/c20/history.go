package main

// Restart histories: the executor of one run (used in-process and in a child process), the generator of
// histories and the model-based oracle.

import (
	"bytes"
	"context"
	"crypto/sha256"
	"encoding/hex"
	"encoding/json"
	"fmt"
	"github.com/brutella/hc/util"
	"math/rand"
	"os"
	"os/exec"
	"path/filepath"
	"sort"
	"strconv"
	"strings"
	"time"

	"github.com/brutella/hc"
	"github.com/brutella/hc/accessory"
	"github.com/brutella/hc/characteristic"

	"verif/harness/app"
	"verif/refctl"
	"verif/vf"
)

// ---------------------------------------------------------------- run specification / result

type CtrlSpec struct {
	ID   string `json:"id"`
	Seed string `json:"key_seed"`
}

func (c CtrlSpec) identity() *refctl.Identity {
	seed, _ := hex.DecodeString(c.Seed)
	return refctl.NewIdentity(c.ID, bytes.NewReader(seed))
}

type Op struct {
	Kind  string      `json:"op"`            // pair | unpair | add | set-local | put
	Ctrl  int         `json:"ctrl"`          // the controller that is paired / removed / added
	Via   int         `json:"via"`           // the controller whose verified connection carries the request
	Acc   int         `json:"acc,omitempty"` // target characteristic of a value change: positions in the built set
	Svc   int         `json:"svc,omitempty"`
	Char  int         `json:"char,omitempty"`
	Value interface{} `json:"value,omitempty"`
}

func (o Op) String() string {
	switch o.Kind {
	case "pair":
		return fmt.Sprintf("pair(c%d)", o.Ctrl)
	case "pair-fail-code", "pair-fail-m5":
		return fmt.Sprintf("%s(c%d)", o.Kind, o.Ctrl)
	case "unpair":
		return fmt.Sprintf("unpair(c%d via c%d)", o.Ctrl, o.Via)
	case "add":
		return fmt.Sprintf("add(c%d via c%d)", o.Ctrl, o.Via)
	case "put":
		return fmt.Sprintf("put(%d.%d.%d=%v via c%d)", o.Acc, o.Svc, o.Char, o.Value, o.Via)
	}
	return fmt.Sprintf("set(%d.%d.%d=%v)", o.Acc, o.Svc, o.Char, o.Value)
}

type RunSpec struct {
	Dir           string     `json:"dir"`
	Pin           string     `json:"pin"`
	SetupID       string     `json:"setup_id"`
	Recipe        Recipe     `json:"recipe"`
	Ops           []Op       `json:"ops"`
	Ctrls         []CtrlSpec `json:"controllers"`
	PairedAtStart []int      `json:"paired_at_start"`
	AccLTPK       string     `json:"accessory_ltpk"` // what the controllers learnt earlier ("" in the first run)
	AccID         string     `json:"accessory_id"`
}

type EntObs struct {
	Name     string `json:"name"`
	Pub      string `json:"public_key"`
	PrivHash string `json:"private_key_sha256,omitempty"`
}

type Obs struct {
	After      string            `json:"after"` // start | <op kind> | stop
	Op         int               `json:"op"`    // index of the op (-1 for start / stop)
	TXT        map[string]string `json:"txt"`
	UUID       string            `json:"uuid_file"`
	Version    string            `json:"version_file"`
	ConfigHash string            `json:"configHash_file"`
	Entities   []EntObs          `json:"entities"`
	EntErr     string            `json:"entities_error,omitempty"`
	// canonical value-free texts of the attribute database (own marshalling / GET /accessories)
	StructureText string `json:"structure_text,omitempty"`
	ServedText    string `json:"served_text,omitempty"`
}

type OpErr struct {
	Op        int    `json:"op"`
	Stage     string `json:"stage"`
	Err       string `json:"error"`
	Transport bool   `json:"transport"`
}

type M6Obs struct {
	Op    int    `json:"op"`
	AccID string `json:"accessory_id"`
	LTPK  string `json:"accessory_ltpk"`
}

type RunResult struct {
	StartErr string  `json:"start_error,omitempty"`
	Panic    string  `json:"panic,omitempty"`
	Obs      []Obs   `json:"observations"`
	URI      string  `json:"xhm_uri"`
	URIErr   string  `json:"xhm_uri_error,omitempty"`
	Category int     `json:"expected_category"`
	OpErrs   []OpErr `json:"op_errors,omitempty"`
	M6       []M6Obs `json:"m6,omitempty"`
	Verifies int     `json:"pair_verifies"`
	Puts     int     `json:"puts_answered_204"`
	PutOther int     `json:"puts_answered_otherwise"`
}

func readFile(dir, name string) string {
	b, err := os.ReadFile(filepath.Join(dir, name))
	if err != nil {
		return "<missing>"
	}
	return string(b)
}

func observe(a *app.App, dir, after string, op int) Obs {
	o := Obs{After: after, Op: op, TXT: a.TXT()}
	o.UUID = readFile(dir, "uuid")
	o.Version = readFile(dir, "version")
	o.ConfigHash = hex.EncodeToString([]byte(readFile(dir, "configHash")))
	ents, err := app.Entities(dir)
	if err != nil {
		o.EntErr = err.Error()
	}
	for _, e := range ents {
		eo := EntObs{Name: e.Name, Pub: hex.EncodeToString(e.PublicKey)}
		if len(e.PrivateKey) > 0 {
			h := sha256.Sum256(e.PrivateKey)
			eo.PrivHash = hex.EncodeToString(h[:])
		}
		o.Entities = append(o.Entities, eo)
	}
	return o
}

// execRun performs one run of a history: build, NewIPTransport + Start, operations, Stop.
func execRun(spec RunSpec) (res RunResult) {
	var a *app.App
	accs := build(spec.Recipe)
	res.Category = expectedCategory(accs)
	panicked, text := vf.Recover(func() {
		var err error
		a, err = app.StartWith(hc.Config{StoragePath: spec.Dir, Pin: spec.Pin, SetupId: spec.SetupID}, nil, accs[0], accs[1:]...)
		if err != nil {
			res.StartErr = err.Error()
		}
	})
	if panicked {
		res.Panic = text
		return
	}
	if res.StartErr != "" {
		return
	}
	stopped := false
	defer func() {
		if !stopped {
			a.Stop()
		}
	}()
	o := observe(a, spec.Dir, "start", -1)
	if db, err := localDB(accs); err == nil {
		o.StructureText, _ = structureOf(db)
	}
	if x, ok := a.T.(interface{ XHMURI() (string, error) }); ok {
		u, err := x.XHMURI()
		res.URI = u
		if err != nil {
			res.URIErr = err.Error()
		}
	} else {
		res.URIErr = "transport has no XHMURI method"
	}

	ltpk, _ := hex.DecodeString(spec.AccLTPK)
	accID := spec.AccID
	if len(ltpk) == 0 {
		if ae, ok := app.AccessoryEntity(spec.Dir); ok {
			ltpk = ae.PublicKey
			accID = ae.Name
		}
	}
	ids := make([]*refctl.Identity, len(spec.Ctrls))
	for i, c := range spec.Ctrls {
		ids[i] = c.identity()
	}
	conns := map[int]*refctl.Conn{}
	defer func() {
		for _, c := range conns {
			c.Close()
		}
	}()
	fail := func(op int, err error) {
		e := OpErr{Op: op, Stage: "transport", Err: err.Error(), Transport: true}
		if se, ok := err.(*refctl.StageError); ok {
			e.Stage = se.Stage
			e.Transport = se.Transport != nil
		}
		res.OpErrs = append(res.OpErrs, e)
	}
	verified := func(op, i int) *refctl.Conn {
		if c := conns[i]; c != nil {
			return c
		}
		c, err := a.Verified(ids[i], ltpk, accID)
		if err != nil {
			fail(op, err)
			return nil
		}
		res.Verifies++
		conns[i] = c
		return c
	}
	served := func(op, via int) string {
		c := verified(op, via)
		if c == nil {
			return ""
		}
		m, err := c.Do("GET", "/accessories", "", nil)
		if err != nil {
			fail(op, err)
			return ""
		}
		if m.Status != 200 {
			fail(op, fmt.Errorf("GET /accessories answered %d", m.Status))
			return ""
		}
		s, err := structureOf(m.Body)
		if err != nil {
			fail(op, fmt.Errorf("GET /accessories body does not parse: %v", err))
		}
		return s
	}
	if len(spec.PairedAtStart) > 0 {
		o.ServedText = served(-1, spec.PairedAtStart[0])
	}
	res.Obs = append(res.Obs, o)
	if len(res.OpErrs) > 0 {
		return
	}

	for i, op := range spec.Ops {
		switch op.Kind {
		case "pair":
			c, err := refctl.Dial(a.Addr)
			if err != nil {
				fail(i, err)
				break
			}
			s, err := c.PairSetup(ids[op.Ctrl], a.Code(), nil)
			c.Close()
			if err != nil {
				fail(i, err)
				break
			}
			res.M6 = append(res.M6, M6Obs{Op: i, AccID: s.AccessoryID, LTPK: hex.EncodeToString(s.AccessoryLTPK)})
		case "pair-fail-code", "pair-fail-m5":
			c, err := refctl.Dial(a.Addr)
			if err != nil {
				fail(i, err)
				break
			}
			code := a.Code()
			if op.Kind == "pair-fail-code" {
				code = "000-00-001"
				if code == a.Code() {
					code = "000-00-002"
				}
			}
			s, err := c.StartSetup(ids[op.Ctrl], code, nil)
			if err != nil {
				c.Close()
				fail(i, err)
				break
			}
			err = c.SetupVerify(s)
			if op.Kind == "pair-fail-code" {
				c.Close()
				if se, ok := err.(*refctl.StageError); !ok || se.Stage != refctl.StageAuthRefused {
					fail(i, fmt.Errorf("wrong setup code was not refused: %v", err))
				}
				break
			}
			if err != nil {
				c.Close()
				fail(i, err)
				break
			}
			// key exchange whose announced key does not match the signing key: must be refused
			other := refctl.NewIdentity("x", nil)
			m, t, err := c.PostTLV("/pair-setup", refctl.SetupM5(s.EncKey, refctl.SetupM5Plain(s.Srp.K, ids[op.Ctrl].ID, other.LTPK, ids[op.Ctrl].LTSK)))
			c.Close()
			if err == nil && m.Status == 200 && t != nil {
				if _, isErr := t.Get(refctl.TagError); !isErr {
					fail(i, fmt.Errorf("a key exchange with a mismatching key was not refused"))
				}
			}
		case "unpair", "add":
			c := verified(i, op.Via)
			if c == nil {
				break
			}
			body := refctl.PairingsRemove(spec.Ctrls[op.Ctrl].ID)
			if op.Kind == "add" {
				body = refctl.PairingsAdd(spec.Ctrls[op.Ctrl].ID, ids[op.Ctrl].LTPK, true)
			}
			m, _, err := c.PostTLV("/pairings", body)
			if err != nil {
				fail(i, err)
				break
			}
			if m.Status != 200 {
				fail(i, fmt.Errorf("POST /pairings answered %d", m.Status))
				break
			}
			if op.Kind == "unpair" {
				if rc := conns[op.Ctrl]; rc != nil {
					rc.Close()
					delete(conns, op.Ctrl)
				}
			}
		case "set-local", "put":
			if op.Acc >= len(accs) || op.Svc >= len(accs[op.Acc].Services) || op.Char >= len(accs[op.Acc].Services[op.Svc].Characteristics) {
				fail(i, fmt.Errorf("monitor: value op addresses a characteristic that does not exist"))
				break
			}
			ch := accs[op.Acc].Services[op.Svc].Characteristics[op.Char]
			v := normValue(ch.Format, op.Value)
			if op.Kind == "set-local" {
				ch.UpdateValue(v)
				break
			}
			c := verified(i, op.Via)
			if c == nil {
				break
			}
			m, err := c.Do("PUT", "/characteristics", refctl.ContentJSON, refctl.PutBody(refctl.CharValue{AID: accs[op.Acc].ID, IID: ch.ID, Value: refctl.RawJSON(v)}))
			if err != nil {
				fail(i, err)
				break
			}
			if m.Status == 204 {
				res.Puts++
			} else {
				res.PutOther++
			}
		}
		if len(res.OpErrs) > 0 {
			return
		}
		o := observe(a, spec.Dir, op.Kind, i)
		res.Obs = append(res.Obs, o)
	}
	for k, c := range conns {
		c.Close()
		delete(conns, k)
	}
	a.Stop()
	stopped = true
	res.Obs = append(res.Obs, observe(a, spec.Dir, "stop", -1))
	return
}

// childMain is the entry of a re-executed monitor that performs exactly one run in a fresh process.
func childMain(specFile string) {
	b, err := os.ReadFile(specFile)
	var spec RunSpec
	if err == nil {
		err = json.Unmarshal(b, &spec)
	}
	var res RunResult
	if err != nil {
		res.StartErr = "child: " + err.Error()
	} else {
		res = execRun(spec)
	}
	out, _ := json.Marshal(res)
	tmp := specFile + ".out.tmp"
	os.WriteFile(tmp, out, 0o644)
	os.Rename(tmp, specFile+".out")
	os.Exit(0)
}

func runInChild(spec RunSpec, tag string) (RunResult, error) {
	bin := os.Getenv("VERIF_BIN")
	if bin == "" {
		bin = os.Args[0]
	}
	specFile := filepath.Join(base, "child-"+tag+".json")
	b, _ := json.Marshal(spec)
	if err := os.WriteFile(specFile, b, 0o644); err != nil {
		return RunResult{}, err
	}
	defer os.Remove(specFile)
	defer os.Remove(specFile + ".out")
	logf, _ := os.Create(specFile + ".log")
	defer func() { logf.Close(); os.Remove(specFile + ".log") }()
	ctx, cancel := context.WithTimeout(context.Background(), 3*time.Minute)
	defer cancel()
	cmd := exec.CommandContext(ctx, bin, "-child", specFile)
	cmd.Stdout, cmd.Stderr = logf, logf
	if err := cmd.Run(); err != nil {
		tail, _ := os.ReadFile(specFile + ".log")
		if len(tail) > 1500 {
			tail = tail[len(tail)-1500:]
		}
		return RunResult{}, fmt.Errorf("child process: %v: %s", err, tail)
	}
	out, err := os.ReadFile(specFile + ".out")
	if err != nil {
		return RunResult{}, err
	}
	var res RunResult
	return res, json.Unmarshal(out, &res)
}

// ---------------------------------------------------------------- history generation

type RunPlan struct {
	Mutations []mutation `json:"mutations_since_previous_run"`
	Recipe    Recipe     `json:"recipe"`
	Ops       []Op       `json:"-"`
	OpsText   []string   `json:"ops"`
	Paired    []int      `json:"-"` // at the start of the run, by the model
}

type History struct {
	N       int        `json:"history"`
	Pin     string     `json:"setup_code"`
	SetupID string     `json:"setup_id"`
	Child   bool       `json:"child_process_per_run"`
	Ctrls   []CtrlSpec `json:"controllers"`
	Runs    []RunPlan  `json:"runs"`
}

func isTrivialCode(p string) bool {
	if p == "12345678" || p == "87654321" {
		return true
	}
	for i := 1; i < len(p); i++ {
		if p[i] != p[0] {
			return false
		}
	}
	return true
}

func randomPin(rnd *rand.Rand) string {
	for {
		p := fmt.Sprintf("%08d", rnd.Intn(100000000))
		if !isTrivialCode(p) {
			return p
		}
	}
}

const setupIDAlphabet = "0123456789ABCDEFGHIJKLMNOPQRSTUVWXYZ"

func randomSetupID(rnd *rand.Rand) string {
	b := make([]byte, 4)
	for i := range b {
		b[i] = setupIDAlphabet[rnd.Intn(36)]
	}
	return string(b)
}

type target struct {
	acc, svc, char int
	c              *characteristic.Characteristic
}

func valueTargets(accs []*accessory.Accessory, writableOnly bool) []target {
	var out []target
	for ai, a := range accs {
		for si, s := range a.Services {
			for ci, c := range s.Characteristics {
				if c.Format == characteristic.FormatTLV8 || c.Format == characteristic.FormatData {
					continue
				}
				if !hasPerm(c.Perms, "pr") || c.Value == nil {
					continue
				}
				if writableOnly && !hasPerm(c.Perms, "pw") {
					continue
				}
				out = append(out, target{ai, si, ci, c})
			}
		}
	}
	return out
}

// genOps produces the operations of one run; paired is the model's list of paired controllers at the
// start of the run and is updated to the state at the end of it.
func genOps(rnd *rand.Rand, paired *[]int, nctrl int, accs []*accessory.Accessory) []Op {
	var ops []Op
	in := func(i int) bool {
		for _, p := range *paired {
			if p == i {
				return true
			}
		}
		return false
	}
	free := func() int {
		var f []int
		for i := 0; i < nctrl; i++ {
			if !in(i) {
				f = append(f, i)
			}
		}
		if len(f) == 0 {
			return -1
		}
		return f[rnd.Intn(len(f))]
	}
	pair := func() {
		if i := free(); i >= 0 {
			ops = append(ops, Op{Kind: "pair", Ctrl: i, Via: i})
			*paired = append(*paired, i)
		}
	}
	add := func() {
		if i := free(); i >= 0 && len(*paired) > 0 {
			ops = append(ops, Op{Kind: "add", Ctrl: i, Via: (*paired)[rnd.Intn(len(*paired))]})
			*paired = append(*paired, i)
		}
	}
	unpair := func(i int, self bool) {
		via := i
		if !self && len(*paired) > 1 {
			for via == i {
				via = (*paired)[rnd.Intn(len(*paired))]
			}
		}
		ops = append(ops, Op{Kind: "unpair", Ctrl: i, Via: via})
		var np []int
		for _, p := range *paired {
			if p != i {
				np = append(np, p)
			}
		}
		*paired = np
	}
	unpairAll := func() {
		for len(*paired) > 0 {
			// the last one can only remove itself
			unpair((*paired)[rnd.Intn(len(*paired))], rnd.Intn(2) == 0)
		}
	}
	if len(*paired) == 0 {
		switch rnd.Intn(8) {
		case 0, 1:
		case 2, 3:
			pair()
		case 4:
			pair()
			unpairAll()
		case 5:
			pair()
			add()
			unpair((*paired)[0], rnd.Intn(2) == 0)
		case 6:
			pair()
			unpairAll()
			pair()
		default:
			pair()
			add()
			unpairAll()
		}
	} else {
		switch rnd.Intn(7) {
		case 0, 1:
		case 2:
			unpairAll()
		case 3:
			add()
		case 4:
			if len(*paired) > 1 {
				unpair((*paired)[rnd.Intn(len(*paired))], rnd.Intn(2) == 0)
			} else {
				unpairAll()
				pair()
			}
		case 5:
			unpairAll()
			pair()
		default:
			add()
			unpair((*paired)[rnd.Intn(len(*paired))], rnd.Intn(2) == 0)
		}
	}
	// failed pairing attempts at random positions (wrong code; right code but a key exchange that is refused):
	// they change nothing, in particular not the discoverability
	for k := rnd.Intn(3); k > 0; k-- {
		kind := []string{"pair-fail-code", "pair-fail-m5"}[rnd.Intn(2)]
		pos := rnd.Intn(len(ops) + 1)
		ops = append(ops[:pos], append([]Op{{Kind: kind, Ctrl: rnd.Intn(nctrl), Via: -1}}, ops[pos:]...)...)
	}
	// value changes at random positions
	nv := rnd.Intn(4)
	if nv == 0 {
		return ops
	}
	any := valueTargets(accs, false)
	wr := valueTargets(accs, true)
	for k := 0; k < nv && len(any) > 0; k++ {
		pos := rnd.Intn(len(ops) + 1)
		// paired set at that position: replay the ops before it
		cur := map[int]bool{}
		for _, p := range *paired {
			cur[p] = true
		}
		for j := len(ops) - 1; j >= pos; j-- { // undo later ops
			switch ops[j].Kind {
			case "pair", "add":
				delete(cur, ops[j].Ctrl)
			case "unpair":
				cur[ops[j].Ctrl] = true
			}
		}
		var curList []int
		for p := range cur {
			curList = append(curList, p)
		}
		sort.Ints(curList)
		var op Op
		if len(curList) > 0 && len(wr) > 0 && rnd.Intn(2) == 0 {
			t := wr[rnd.Intn(len(wr))]
			op = Op{Kind: "put", Via: curList[rnd.Intn(len(curList))], Ctrl: -1, Acc: t.acc, Svc: t.svc, Char: t.char, Value: randValue(t.c.Format, t.c.MinValue, t.c.MaxValue, rnd)}
		} else {
			t := any[rnd.Intn(len(any))]
			op = Op{Kind: "set-local", Ctrl: -1, Via: -1, Acc: t.acc, Svc: t.svc, Char: t.char, Value: randValue(t.c.Format, t.c.MinValue, t.c.MaxValue, rnd)}
		}
		if op.Value == nil {
			continue
		}
		ops = append(ops[:pos], append([]Op{op}, ops[pos:]...)...)
	}
	return ops
}

func genHistory(n int, rnd *rand.Rand, child bool) *History {
	h := &History{N: n, Pin: randomPin(rnd), Child: child}
	if rnd.Intn(3) != 0 {
		h.SetupID = randomSetupID(rnd)
	}
	ctrlNames := []string{"3C1B7A55-0E7D-4A0B-9D3E-%012d", "ctl-%d", "控制器 é %d", "x%d"}
	for i := 0; i < 4; i++ {
		seed := make([]byte, 32)
		rnd.Read(seed)
		h.Ctrls = append(h.Ctrls, CtrlSpec{ID: fmt.Sprintf(ctrlNames[i], rnd.Intn(1e9)), Seed: hex.EncodeToString(seed)})
	}
	// every name a controller may present: in a sixth of the histories one controller has the empty identifier, a dot
	// name or a name of 120 bytes (their entity files are ".entity", hex of "." ..., a 240+ character file name)
	switch n % 18 {
	case 1:
		h.Ctrls[n%4].ID = ""
	case 7:
		h.Ctrls[n%4].ID = "."
	case 13:
		h.Ctrls[n%4].ID = strings.Repeat("n", 120)
	}
	nruns := 4 + rnd.Intn(4)
	rec := randRecipe(rnd)
	var paired []int
	for k := 0; k < nruns; k++ {
		plan := RunPlan{}
		if k > 0 {
			rec = rec.clone()
			var class int
			switch x := rnd.Intn(10); {
			case x < 2:
				class = 0 // identical
			case x < 5:
				class = 1 // values only
			case x < 8:
				class = 2 // one structural change
			default:
				class = 3 // one structural change and value changes
			}
			if class == 1 || class == 3 {
				for j, nm := 0, 1+rnd.Intn(3); j < nm; j++ {
					for try := 0; try < 6; try++ {
						if m, ok := mutate(&rec, valueKinds[rnd.Intn(len(valueKinds))], rnd); ok {
							plan.Mutations = append(plan.Mutations, m)
							break
						}
					}
				}
			}
			if class >= 2 {
				for try := 0; try < 10; try++ {
					if m, ok := mutate(&rec, structuralKinds[rnd.Intn(len(structuralKinds))], rnd); ok {
						plan.Mutations = append(plan.Mutations, m)
						break
					}
				}
			}
			if plan.Mutations == nil {
				plan.Mutations = []mutation{}
			}
		}
		plan.Recipe = rec.clone()
		plan.Paired = append([]int{}, paired...)
		plan.Ops = genOps(rnd, &paired, len(h.Ctrls), build(plan.Recipe))
		for _, o := range plan.Ops {
			plan.OpsText = append(plan.OpsText, o.String())
		}
		h.Runs = append(h.Runs, plan)
	}
	return h
}

// ---------------------------------------------------------------- oracle

type runSummary struct {
	Run        int               `json:"run"`
	Mutations  []mutation        `json:"mutations_since_previous_run,omitempty"`
	Ops        []string          `json:"ops,omitempty"`
	Accs       int               `json:"accessories"`
	Recipe     Recipe            `json:"recipe"`
	StructHash string            `json:"structure_fingerprint"`
	CNum       string            `json:"c#_at_start"`
	Trace      []string          `json:"trace"` // after-what: sf / c# / controllers stored
	TXT        map[string]string `json:"txt_at_start,omitempty"`
}

type hmodel struct {
	id        string
	ltpk      string
	ltskHash  string
	cnum      int64
	structure string
	paired    map[string]string // controller id -> public key (hex)
}

type hctx struct {
	h      *History
	sums   []runSummary
	failed bool
}

func (c *hctx) witness(extra map[string]interface{}) map[string]interface{} {
	w := map[string]interface{}{"history": c.h.N, "setup_code": c.h.Pin, "setup_id": c.h.SetupID, "child_process_per_run": c.h.Child, "runs_so_far": c.sums}
	for k, v := range extra {
		w[k] = v
	}
	return w
}

func (c *hctx) violate(sig, what string, extra map[string]interface{}) {
	c.failed = true
	run.Violation(sig, what, c.witness(extra))
}

func afterClass(k int, o Obs, ops []Op, controllersBefore, controllersNow int) string {
	switch o.After {
	case "start":
		if k == 0 {
			return "first-start"
		}
		return "restart"
	case "unpair":
		if controllersNow == 0 {
			return "unpair"
		}
		return "remove-one-of-several"
	case "set-local", "put":
		return "value-change"
	}
	return o.After // pair, add, stop
}

// runHistory executes a history and checks every observation against the model.
func runHistory(h *History) {
	top := app.ScratchDir(base, "store")
	defer os.RemoveAll(top)
	dir := top
	// the storage directory is wherever the application puts it (by default a directory named after the accessory):
	// every fourth history uses a name with blanks, brackets, wildcards or non-ASCII letters
	if odd := []string{"Lamp [1]", "a*b?", "Küche 居間", "[", "{x}", " dot.dir "}; h.N%4 == 2 {
		dir = filepath.Join(top, odd[(h.N/4)%len(odd)])
		os.MkdirAll(dir, 0o755)
		run.Distinct("storage_directory_name", filepath.Base(dir))
	}
	ctx := &hctx{h: h}
	var m *hmodel
	completed := 0
	for k, plan := range h.Runs {
		spec := RunSpec{Dir: dir, Pin: h.Pin, SetupID: h.SetupID, Recipe: plan.Recipe, Ops: plan.Ops, Ctrls: h.Ctrls, PairedAtStart: plan.Paired}
		if m != nil {
			spec.AccLTPK, spec.AccID = m.ltpk, m.id
		}
		var res RunResult
		if h.Child {
			var err error
			res, err = runInChild(spec, fmt.Sprintf("%d-%d", h.N, k))
			if err != nil {
				run.Inconclusive(fmt.Sprintf("history %d run %d: %v", h.N, k, err))
				return
			}
			run.Count("runs_in_child_process", 1)
		} else {
			res = execRun(spec)
		}
		run.Count("runs", 1)
		sum := runSummary{Run: k, Mutations: plan.Mutations, Ops: plan.OpsText, Accs: len(plan.Recipe.Accs), Recipe: plan.Recipe}
		if res.Panic != "" {
			ctx.sums = append(ctx.sums, sum)
			ctx.violate("start:panic:"+vf.PanicSite(res.Panic, "brutella/hc"), "NewIPTransport / Start panicked", map[string]interface{}{"panic": res.Panic})
			return
		}
		if res.StartErr != "" {
			run.Inconclusive(fmt.Sprintf("history %d run %d: transport did not start: %s", h.N, k, res.StartErr))
			return
		}
		if len(res.Obs) == 0 {
			run.Inconclusive(fmt.Sprintf("history %d run %d: no observation", h.N, k))
			return
		}
		structure := res.Obs[0].StructureText
		if structure == "" {
			run.Inconclusive(fmt.Sprintf("history %d run %d: the attribute database could not be marshalled", h.N, k))
			return
		}
		sum.StructHash = shortHash(structure)
		sum.CNum = res.Obs[0].TXT["c#"]
		sum.TXT = res.Obs[0].TXT
		if st := res.Obs[0].ServedText; st != "" {
			run.Count("served_databases_compared", 1)
			if st != structure {
				run.Inconclusive(fmt.Sprintf("history %d run %d: GET /accessories differs structurally from the monitor's own marshalling: %s", h.N, k, firstDiff(structure, st)))
				return
			}
		}
		changed := m != nil && structure != m.structure
		// self-check of the generator (does not decide anything about hc)
		if k > 0 {
			sk, vk := kindsOf(plan.Mutations, true), kindsOf(plan.Mutations, false)
			switch {
			case changed && sk == "":
				// the application changed nothing but values, and yet what the accessory serves as its database differs in
				// something that is not a value: the structure follows the values, and so does the configuration number
				run.Violation("c#:database-structure-follows-values", fmt.Sprintf("run %d differs from the previous run only in values (%s), but the attribute database served differs outside the value members: %s (c# %d -> %s)", k, vk, firstDiff(m.structure, structure), m.cnum, sum.CNum),
					map[string]interface{}{"history": h.N, "run": k, "mutations": plan.Mutations, "difference": firstDiff(m.structure, structure)})
				return
			case changed:
				run.Count("transitions_structure_changed", 1)
				run.Distinct("structural_change_kind_effective", sk)
				run.Count("structural:"+sk, 1)
			case sk != "":
				run.Count("transitions_structural_mutation_without_effect", 1)
			case vk != "":
				run.Count("transitions_values_only", 1)
				for _, x := range strings.Split(vk, "+") {
					run.Distinct("value_change_kind", x)
				}
			default:
				run.Count("transitions_identical", 1)
			}
		}

		// ---- per observation
		var cnumAtStart int64
		var startCnumText string
		for j, o := range res.Obs {
			// the model follows the operation that precedes the observation
			before := 0
			if m != nil {
				before = len(m.paired)
			}
			if o.Op >= 0 && m != nil {
				op := plan.Ops[o.Op]
				switch op.Kind {
				case "pair", "add":
					m.paired[h.Ctrls[op.Ctrl].ID] = hex.EncodeToString(h.Ctrls[op.Ctrl].identity().LTPK)
				case "unpair":
					delete(m.paired, h.Ctrls[op.Ctrl].ID)
				}
			}
			id := o.TXT["id"]
			var acc *EntObs
			ctrls := map[string]string{}
			for i := range o.Entities {
				if o.Entities[i].PrivHash != "" {
					if acc == nil {
						acc = &o.Entities[i]
					}
				} else {
					ctrls[o.Entities[i].Name] = o.Entities[i].Pub
				}
			}
			after := afterClass(k, o, plan.Ops, before, len(ctrls))
			sum.Trace = append(sum.Trace, fmt.Sprintf("%s: sf=%s c#=%s version=%s controllers=%d", o.After, o.TXT["sf"], o.TXT["c#"], o.Version, len(ctrls)))
			wo := o
			wo.StructureText, wo.ServedText = "", ""
			ex := map[string]interface{}{"run": k, "observed_after": o.After, "observation": wo, "current_run": sum}
			if o.EntErr != "" {
				ctx.sums = append(ctx.sums, sum)
				ctx.violate("restart:entity-unreadable:"+after, "an entity file of the storage cannot be parsed: "+o.EntErr, ex)
				return
			}
			// identity
			if id != o.UUID {
				ctx.violate("restart:txt-id-differs-from-uuid-file", fmt.Sprintf("TXT id %q, uuid file %q", id, o.UUID), ex)
			}
			if acc == nil {
				ctx.sums = append(ctx.sums, sum)
				ctx.violate("restart:accessory-entity-missing:"+after, "no entity with a private key is stored", ex)
				return
			}
			if m == nil {
				m = &hmodel{id: id, ltpk: acc.Pub, ltskHash: acc.PrivHash, paired: map[string]string{}}
				run.Distinct("device_id_shape", shapeOfID(id))
			}
			if id != m.id {
				ctx.violate("restart:device-id-changed", fmt.Sprintf("device id was %q, is %q %s", m.id, id, after), ex)
			}
			if acc.Name != id {
				ctx.violate("restart:accessory-entity-name-differs-from-id", fmt.Sprintf("the accessory's entity is named %q, the advertised id is %q", acc.Name, id), ex)
			}
			if acc.Pub != m.ltpk {
				ctx.violate("restart:ltpk-changed", fmt.Sprintf("accessory long-term public key was %s, is %s (%s)", m.ltpk, acc.Pub, after), ex)
			}
			if acc.PrivHash != m.ltskHash {
				ctx.violate("restart:ltsk-changed", "accessory long-term secret key changed ("+after+")", ex)
			}
			// pairings exactly as the model predicts
			for cid, pk := range m.paired {
				got, ok := ctrls[cid]
				switch {
				case !ok && o.After == "start":
					ctx.violate("restart:pairing-lost", fmt.Sprintf("the pairing of controller %q is gone after the restart", cid), ex)
				case !ok:
					ctx.violate("pairing:missing-after:"+o.After, fmt.Sprintf("the pairing of controller %q is not stored after %s", cid, o.After), ex)
				case got != pk && o.After == "start":
					ctx.violate("restart:pairing-key-changed", fmt.Sprintf("the stored key of controller %q changed over the restart", cid), ex)
				case got != pk:
					ctx.violate("pairing:key-differs-after:"+o.After, fmt.Sprintf("the stored key of controller %q is not its key", cid), ex)
				}
			}
			for cid := range ctrls {
				if _, ok := m.paired[cid]; !ok {
					if o.After == "start" {
						ctx.violate("restart:pairing-appeared", fmt.Sprintf("a pairing of %q is stored after the restart that was not there before", cid), ex)
					} else {
						ctx.violate("pairing:unexpected-after:"+o.After, fmt.Sprintf("a pairing of %q is stored after %s", cid, o.After), ex)
					}
				}
			}
			// configuration number
			if o.TXT["c#"] != o.Version {
				ctx.violate("cnum:txt-differs-from-version-file", fmt.Sprintf("TXT c#=%q, version file %q (%s)", o.TXT["c#"], o.Version, after), ex)
			}
			cn, err := strconv.ParseInt(o.TXT["c#"], 10, 64)
			if err != nil {
				ctx.violate("cnum:not-a-number", fmt.Sprintf("TXT c#=%q", o.TXT["c#"]), ex)
			} else if j == 0 {
				cnumAtStart, startCnumText = cn, o.TXT["c#"]
				switch {
				case k == 0:
					if cn != 1 {
						ctx.violate("cnum:first-run-not-1", fmt.Sprintf("c#=%d on the first run on an empty storage", cn), ex)
					}
				case changed && cn == m.cnum:
					ex["structure_difference"] = firstDiff(m.structure, structure)
					ctx.violate("cnum:not-bumped-on-structure-change:"+kindsOf(plan.Mutations, true),
						fmt.Sprintf("c# stays %d although the attribute database changed structurally (%s)", cn, kindsOf(plan.Mutations, true)), ex)
				case !changed && cn == m.cnum+1:
					cls := "identical-restart"
					if vk := kindsOf(plan.Mutations, false); vk != "" {
						cls = "value-change"
					}
					if kindsOf(plan.Mutations, true) != "" {
						cls = "ineffective-structural-mutation"
					}
					sig := "cnum:bumped-on-" + cls
					ctx.violate(sig, fmt.Sprintf("c# went %d -> %d although the structure of the attribute database is unchanged (%s; mutations: %s)", m.cnum, cn, cls, kindsOf(plan.Mutations, false)), ex)
				case changed && cn == m.cnum+1, !changed && cn == m.cnum, changed && m.cnum == 65535 && cn == 1:
					// (the last alternative: the wrap from the largest 16-bit number back to 1 that the protocol describes;
					// not demanded, but accepted)
					if changed {
						run.Count("bumps_observed", 1)
					} else {
						run.Count("restarts_without_bump", 1)
					}
				default:
					ctx.violate("cnum:unexpected-step", fmt.Sprintf("c# went %d -> %d (structure changed: %v)", m.cnum, cn, changed), ex)
				}
			} else if cn != cnumAtStart {
				ctx.violate("cnum:changed-while-running:"+after, fmt.Sprintf("c# was %s at the start of the run and is %d after %s", startCnumText, cn, o.After), ex)
			}
			// discoverability
			switch sf := o.TXT["sf"]; {
			case len(ctrls) == 0 && sf != "1":
				ctx.violate("sf:unpaired-but-hidden:"+after, fmt.Sprintf("sf=%q although no controller pairing is stored (%s)", sf, after), ex)
			case len(ctrls) > 0 && sf != "0":
				ctx.violate("sf:paired-but-discoverable:"+after, fmt.Sprintf("sf=%q although %d controller pairings are stored (%s)", sf, len(ctrls), after), ex)
			default:
				run.Count("sf_checked:"+after+":sf="+sf, 1)
			}
			run.Count("observations", 1)
			if o.After == "start" && k > 0 && len(ctrls) > 0 {
				run.Count("restarts_with_pairings_kept", 1)
			}
			if ctx.failed {
				ctx.sums = append(ctx.sums, sum)
				return
			}
		}
		// what the controller saw in M6 is the stored identity
		for _, m6 := range res.M6 {
			if m6.LTPK != m.ltpk {
				ctx.violate("restart:ltpk-changed:pair-setup-M6", fmt.Sprintf("pair-setup M6 carries public key %s, the accessory's key was %s", m6.LTPK, m.ltpk), map[string]interface{}{"run": k})
			}
			if m6.AccID != m.id {
				ctx.violate("restart:device-id-changed:pair-setup-M6", fmt.Sprintf("pair-setup M6 carries identifier %q, the device id is %q", m6.AccID, m.id), map[string]interface{}{"run": k})
			}
			run.Count("pair_setups", 1)
		}
		run.Count("pair_verifies", res.Verifies)
		run.Count("puts_answered_204", res.Puts)
		run.Count("puts_answered_otherwise", res.PutOther)
		// operation failures
		for _, e := range res.OpErrs {
			ctx.sums = append(ctx.sums, sum)
			name := "start"
			if e.Op >= 0 {
				name = plan.Ops[e.Op].Kind
			}
			if !e.Transport && strings.HasPrefix(e.Stage, "verify.") && k > 0 {
				ctx.violate("restart:pair-verify-fails:"+e.Stage, fmt.Sprintf("a controller that is paired by the model cannot pair-verify after the restart (%s): %s", name, e.Err), map[string]interface{}{"run": k, "op": e.Op})
			} else {
				run.Inconclusive(fmt.Sprintf("history %d run %d op %d (%s): %s: %s", h.N, k, e.Op, name, e.Stage, e.Err))
			}
			return
		}
		// the transport's own setup URI
		checkTransportURI(ctx, k, h, res, sum)
		for _, op := range plan.Ops {
			run.Count("ops:"+op.Kind, 1)
		}
		run.Distinct("md_seen", res.Obs[0].TXT["md"])
		run.Distinct("ci_seen", res.Obs[0].TXT["ci"])
		m.cnum, m.structure = cnumAtStart, structure
		ctx.sums = append(ctx.sums, sum)
		if ctx.failed {
			return
		}
		completed++
		// every sixth history: a storage that has already seen many structural changes.  After the first run the stored
		// configuration number is set (through hc's own storage API) to a few steps below 2^8, 2^15, 2^16, 2^31 or 2^32;
		// the following runs walk over the boundary.  The number still goes up by exactly one per structural change and
		// never because of values (whether an implementation wraps at 65535 is not demanded: see the assumptions).
		if k == 0 && h.N%6 == 3 {
			far := []int64{1<<8 - 2, 1<<15 - 2, 1<<16 - 3, 1<<16 - 2, 1<<31 - 2, 1<<32 - 2}[(h.N/6)%6]
			if st, err := util.NewFileStorage(dir); err == nil && st.Set("version", []byte(strconv.FormatInt(far, 10))) == nil {
				m.cnum = far
				run.Count("histories_continued_from_a_large_configuration_number", 1)
				run.Distinct("large_configuration_number", strconv.FormatInt(far, 10))
			}
		}
	}
	if completed == len(h.Runs) {
		run.Count("histories_completed", 1)
		run.Count("max_cnum_reached:"+strconv.FormatInt(m.cnum, 10), 1)
	}
}

func shapeOfID(id string) string {
	var b strings.Builder
	for _, r := range id {
		switch {
		case r >= '0' && r <= '9', r >= 'A' && r <= 'F':
			b.WriteByte('X')
		case r >= 'a' && r <= 'f':
			b.WriteByte('x')
		default:
			b.WriteRune(r)
		}
	}
	return b.String()
}

func checkTransportURI(ctx *hctx, k int, h *History, res RunResult, sum runSummary) {
	ex := map[string]interface{}{"run": k, "uri": res.URI, "current_run": sum}
	if res.URIErr != "" {
		ctx.violate("uri:transport:error", "transport.XHMURI() failed: "+res.URIErr, ex)
		return
	}
	d, err := decodeXHM(res.URI, 4)
	if err != nil {
		ctx.violate("uri:transport:shape", fmt.Sprintf("transport.XHMURI() = %q: %v", res.URI, err), ex)
		return
	}
	wantID := h.SetupID
	if wantID == "" {
		wantID = "HOME"
	}
	want, _ := strconv.Atoi(h.Pin)
	switch {
	case int(d.Code) != want:
		ctx.violate("uri:transport:decode-mismatch:code", fmt.Sprintf("%q decodes to setup code %08d, the transport's code is %s", res.URI, d.Code, h.Pin), ex)
	case strconv.Itoa(int(d.Category)) != res.Obs[0].TXT["ci"]:
		ctx.violate("uri:transport:decode-mismatch:category-vs-ci", fmt.Sprintf("%q decodes to category %d, advertised ci=%s", res.URI, d.Category, res.Obs[0].TXT["ci"]), ex)
	case int(d.Category) != res.Category:
		ctx.violate("uri:transport:decode-mismatch:category", fmt.Sprintf("%q decodes to category %d, the accessory set has category %d", res.URI, d.Category, res.Category), ex)
	case d.Flags != 2:
		ctx.violate("uri:transport:decode-mismatch:flags", fmt.Sprintf("%q decodes to flags %d, an IP accessory has flags 2", res.URI, d.Flags), ex)
	case d.Version != 0 || d.Reserved != 0:
		ctx.violate("uri:transport:decode-mismatch:version-reserved", fmt.Sprintf("%q decodes to version %d reserved %d", res.URI, d.Version, d.Reserved), ex)
	case d.SetupID != wantID:
		ctx.violate("uri:transport:decode-mismatch:setup-id", fmt.Sprintf("%q carries setup id %q, configured %q", res.URI, d.SetupID, wantID), ex)
	default:
		run.Count("transport_uris_decoded", 1)
	}
}
